#!/bin/bash
# confirm_seed.sh <worktree> <candidate.diff> <candidate_test.go> <pkgdir>
# confirms in the scratch worktree: suite passes with the change, demo fails with it, demo passes without it
set -u
export GOFLAGS=-mod=mod GOPROXY=off GOSUMDB=off GOTOOLCHAIN=local
WT=$1; DIFF=$2; TEST=$3; PKG=${4:-.}
cd "$WT" || exit 2
git checkout -q -- . ; git clean -q -fd -e .seed
git apply "$DIFF" || { echo "APPLY-FAILED"; exit 2; }
go build ./... || { echo "BUILD-FAILED"; git checkout -q -- .; exit 2; }
SUITE=$(go test -vet=off -count=1 ./... 2>&1 | grep -v "no test files" | grep -vc "^ok")
cp "$TEST" "$PKG/zz_seed_demo_test.go"
go test -vet=off -count=1 -run 'Seed' "./$PKG" >/tmp/seed_with.log 2>&1; WITH=$?
git checkout -q -- .
go test -vet=off -count=1 -run 'Seed' "./$PKG" >/tmp/seed_without.log 2>&1; WITHOUT=$?
rm -f "$PKG/zz_seed_demo_test.go"
echo "suite_nonok_lines=$SUITE demo_with_change_exit=$WITH demo_without_change_exit=$WITHOUT"
if [ "$SUITE" = "0" ] && [ "$WITH" != "0" ] && [ "$WITHOUT" = "0" ]; then echo CONFIRMED; else echo NOT-CONFIRMED; tail -5 /tmp/seed_with.log /tmp/seed_without.log; fi
