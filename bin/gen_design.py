#!/usr/bin/env python3
"""assemble /verif/DESIGN.md from docs/design_head.md, bin/props.py, the Lean sources,
findings/known.jsonl, seeded/*/meta.json and docs/design_tail.md"""
import json, os, re, subprocess, sys, glob
ROOT = os.path.dirname(os.path.dirname(os.path.abspath(__file__)))
sys.path.insert(0, os.path.join(ROOT, "bin"))
import props

LEAN = os.path.join(ROOT, "lean", "CasbinVerif")


def theorems(pid):
    out = []
    for f in sorted(os.listdir(os.path.join(LEAN, "Properties"))):
        if re.match(r"^" + pid + r"([A-Z]\w*)?\.lean$", f):
            for line in open(os.path.join(LEAN, "Properties", f)):
                m = re.match(r"^theorem\s+(\S+)", line)
                if m:
                    out.append(m.group(1))
    return out


def count_lines(d):
    n = 0
    for f in glob.glob(os.path.join(LEAN, d, "*.lean")):
        n += sum(1 for _ in open(f))
    return n


titles = {}
for l in open(os.path.join(ROOT, "properties.jsonl")):
    p = json.loads(l)
    titles[p["id"]] = p["title"]

known = [json.loads(l) for l in open(os.path.join(ROOT, "findings", "known.jsonl")) if l.startswith("{")]
fixed = [e for e in known if e["status"] == "fixed"]
findings = [e for e in known if e["status"] == "finding"]
ncommits = len(set(e["commit"] for e in fixed))
nthm = sum(len(theorems(p)) for p in titles)

head = open(os.path.join(ROOT, "docs", "design_head.md")).read()
head = (head.replace("{MODEL_LINES}", f"{count_lines('Model'):,}".replace(",", " "))
            .replace("{N_THEOREMS}", str(nthm)).replace("{N_FIXED}", str(len(fixed)))
            .replace("{N_FIX_COMMITS}", str(ncommits)).replace("{N_FINDINGS}", str(len(findings))))
out = [head, "\n## 4. The properties\n"]
out.append("Per property: the claim (the text MANIFEST.json carries), the theorems in "
           "`Properties/<id>*.lean`, the hypotheses and assumptions, and what is modelled rather than verified.\n")
seeds = {}
for d in sorted(glob.glob(os.path.join(ROOT, "seeded", "*"))):
    mp = os.path.join(d, "meta.json")
    if os.path.exists(mp):
        m = json.load(open(mp))
        seeds.setdefault(m["breaks_property"], []).append(m)
for pid in sorted(titles):
    pr = props.PROPS.get(pid, {})
    out.append(f"### {pid} — {titles[pid]}\n")
    if pid not in props.CLAIMED:
        out.append("Not claimed.\n")
        continue
    out.append(props.LEVEL_TEXT.get(pid, "") + "\n")
    out.append("**Theorems** (" + str(len(theorems(pid))) + "): " + ", ".join("`" + t + "`" for t in theorems(pid)) + "\n")
    if pr.get("assumptions"):
        out.append("**Hypotheses and assumptions.**\n" + "\n".join("- " + a for a in pr["assumptions"]) + "\n")
    if pr.get("trusted"):
        out.append("**Modelled, not verified / trusted.**\n" + "\n".join("- " + a for a in pr["trusted"]) + "\n")
    rel = [e for e in known if pid in e["properties"]]
    if rel:
        out.append("**Defects met.** " + "; ".join(f"{e['id']} ({'fixed ' + e['commit'] if e['status'] == 'fixed' else 'finding'})" for e in rel) + "\n")
    if seeds.get(pid):
        out.append("**Seeded changes kept.** " + "; ".join(m["id"] for m in seeds[pid]) + " (section 5.3)\n")

out.append("\n## 5. Genuine defects in the pinned code\n")
out.append("Every entry has a witness in `harness/cmd/corr/findings*.go` (`corr finding:<id>`, exit 3 = the defect "
           "shows) that was run against the real code before anything was recorded. The committed file is "
           "`findings/known.jsonl`; it is never written at run time.\n")
out.append("### 5.1 Repaired (`fix:` commits in /repo, each minimal, unguarded, suite green)\n")
out.append("| id | properties | commit | what failed |\n|---|---|---|---|")
for e in fixed:
    out.append(f"| {e['id']} | {', '.join(e['properties'])} | {e['commit']} | {e['what']} |")
out.append("\nA fixed entry suppresses nothing: its witness is replayed by every run of the properties it names "
           "and a failure is reported as a violation (regression).\n")
out.append("### 5.2 Recorded findings (not repaired)\n")
out.append("Not repaired because the repair is not small and safe in the sense of the brief: it would change a "
           "documented or relied-upon behaviour (D24, D21, D16, D17, D20, D13, D27), needs a design decision "
           "upstream (D12-updatefiltered, D15, D22), or reverses a deliberate performance choice / needs a redesign of "
           "the role manager's temporary roles (D19, D23); D10 and D11 need hostile bytes (NUL, comma) in names. "
           "Each prints `KNOWN-FINDING: property=<id> …` while its witness still fails and is excluded from the "
           "theorems by an explicit hypothesis named in section 4.\n")
out.append("| id | properties | what fails |\n|---|---|---|")
for e in findings:
    out.append(f"| {e['id']} | {', '.join(e['properties'])} | {e['what']} |")
out.append("\n### 5.3 Seeded breaking changes and which checks catch them\n")
out.append("Produced by fresh sub-agents that saw only the property text and a scratch worktree; each was "
           "confirmed by me (`bin/confirm_seed.sh`: the unedited suite passes with the change, the demonstration "
           "fails with it and passes without it) and then run against the checks (`bin/try_seed.sh`: "
           "`git -C /repo apply`, `bin/check <property> quick`, `git -C /repo checkout -- .`). Misses led to the "
           "strengthening recorded in the last column; all kept changes are caught now.\n")
out.append("| seed | property | needs, to manifest | result |\n|---|---|---|---|")
for pid in sorted(seeds):
    for m in seeds[pid]:
        out.append(f"| {m['id']} | {pid} | {m['needs_to_manifest']} | {m['result']} |")
out.append("\n" + open(os.path.join(ROOT, "docs", "design_tail.md")).read())
open(os.path.join(ROOT, "DESIGN.md"), "w").write("\n".join(out))
print("wrote DESIGN.md:", sum(1 for _ in open(os.path.join(ROOT, "DESIGN.md"))), "lines;", nthm, "theorems;", len(fixed), "fixed;", len(findings), "findings")
