#!/usr/bin/env python3
"""regenerates MANIFEST.json from bin/props.py (kept in the repo so the manifest never drifts from the checks)"""
import json, os, sys, subprocess
ROOT = os.path.dirname(os.path.dirname(os.path.abspath(__file__)))
sys.path.insert(0, os.path.join(ROOT, "bin"))
from props import PROPS, NOT_APPLICABLE, LEVEL_TEXT, CLAIMED  # noqa
fixes = subprocess.run(["git", "-C", "/repo", "log", "--format=%H %s", "--grep=^fix:"], stdout=subprocess.PIPE, text=True).stdout.strip().split("\n")
fixes = [l.split(" ")[0] for l in fixes if l]
fixes.reverse()
checks = []
for pid in sorted(CLAIMED):
    p = PROPS[pid]
    checks.append(dict(
        property_id=pid,
        quick_cmd=f"bin/check {pid} quick",
        thorough_cmd=f"bin/check {pid} thorough",
        evidence_file=f"/verif/evidence/{pid}.json",
        replay_cmd_template="bin/check --replay {path}",
        engine="lean4-proof+correspondence",
        level_claimed=dict(category="proof", text=LEVEL_TEXT[pid], design_ref=f"DESIGN.md section 5, {pid}"),
        level_note=p.get("level_note", "Lean 4 kernel; axioms propext/Classical.choice/Quot.sound only; hand-written model tied to /repo by the differential correspondence run and the regenerated facts of this check; see evidence.coverage.trusted_base"),
        technique=p.get("technique", "Lean 4 theorems about an executable model of the code + differential correspondence check model vs implementation"),
    ))
man = dict(
    version=1,
    setup_cmd="bin/setup",
    hooks=dict(guard="verif", enable="no hooks are needed: the harness module (harness/go.mod) replaces github.com/casbin/casbin/v2 by /repo and drives exported API only; -tags verif guards nothing",
               baseline_off_cmd="cd /repo && go test -vet=off -count=1 -timeout 25m ./...",
               source_commits=fixes, add_only=True),
    engines=[dict(name="lean4-proof+correspondence", path="/verif/lean, /verif/harness, /verif/bin/check",
                  serves_properties=sorted(CLAIMED),
                  kind_free_text="machine-checked Lean 4 theorems over a hand-written executable model of casbin, tied to /repo on every run by a differential correspondence check (Go harness in-process vs compiled Lean driver) and by facts regenerated from the source with go/ast")],
    checks=checks,
    notes="Every check rebuilds the Go harness against /repo's working tree (module replace), regenerates the extracted facts, rebuilds the Lean development and audits axioms. source_commits lists the unguarded `fix:` repairs of genuine defects; findings/known.jsonl lists fixed and recorded findings.",
    not_applicable=[dict(property_id=k, reason=v) for k, v in sorted(NOT_APPLICABLE.items()) if k not in CLAIMED],
)
json.dump(man, open(os.path.join(ROOT, "MANIFEST.json"), "w"), indent=1)
print("wrote MANIFEST.json with", len(checks), "checks;", len(man["not_applicable"]), "not yet claimed")
