#!/bin/bash
# keep_seed.sh <seed id> <property> <diff> <demo test> <"needs"> <"caught by">
ID=$1; PROP=$2; DIFF=$3; DEMO=$4; NEEDS=$5; CAUGHT=$6
D=/verif/seeded/$ID; mkdir -p $D
cp "$DIFF" $D/patch.diff; cp "$DEMO" $D/demo_test.go
python3 - "$ID" "$PROP" "$NEEDS" "$CAUGHT" <<'PY'
import json,sys
id_,prop,needs,caught=sys.argv[1:5]
json.dump(dict(id=id_, breaks_property=prop, needs_to_manifest=needs,
  confirmed="bin/confirm_seed.sh in a scratch worktree: existing suite passes with the change; demo_test.go fails with it and passes without it",
  ran=f"bin/try_seed.sh {id_}/patch.diff {prop}  (git -C /repo apply; bin/check {prop} quick; git -C /repo checkout -- .)",
  result=caught), open(f"/verif/seeded/{id_}/meta.json","w"), indent=1)
PY
