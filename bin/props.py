"""per-property configuration of bin/check"""

TRUSTED_BASE = [
    "Lean 4.33 kernel; property theorems may depend only on propext, Classical.choice, Quot.sound (audited with #print axioms on every run; no sorry/admit/axiom/native_decide/bv_decide/implemented_by/unsafe)",
    "hand-written Lean model (lean/CasbinVerif/Model) mirrors the Go code; tied to /repo's working tree by the differential run of this check (Go harness harness/cmd/corr in-process against /repo, compiled driver casbin-model, line protocol, diff in bin/check)",
    "go/ast fact extractor harness/cmd/facts regenerates lean/CasbinVerif/Generated/Facts.lean from /repo on every run",
]

PROPS = {
    "C02": dict(
        assumptions=["Go slices/arrays as Lean lists; float64 match results 0/1 as Bool",
                     "the matcher and govaluate are not involved in this property: match outcomes are driven by r.sub == p.sub"],
        trusted=["modelled: DefaultEffector.MergeEffects and the fill-merge-break loop of enforce(); not modelled here: matcher evaluation (C01)"],
    ),
}

LEVEL_TEXT = {
    "C02": "Proved in Lean for every effect kind and every vector of any length: the streaming fill-merge-break loop of enforce() over the pre-sized arrays decides exactly as the four sentences of the property (stream_eq_spec), order-insensitivity of the three order-insensitive effects (spec_perm, stream_perm), first-determinate semantics of priority, truthfulness of the explanation index (explain_truthful), fail-closed on unknown expressions. The model is tied to the code by replaying all 6^n vectors (n<=5 quick, n<=7 thorough) x 5 effects through the real Enforce/EnforceEx/BatchEnforce and all direct MergeEffects calls on arrays up to length 3.",
}

# properties not claimed yet (work in progress: each is being brought under the same machinery)
NOT_APPLICABLE = {
    pid: "not claimed yet: model/theorems/correspondence for this property are still being built (see DESIGN.md section 8); the technique applies"
    for pid in ["C%02d" % i for i in range(1, 20)]
}
