"""per-property configuration of bin/check"""

TRUSTED_BASE = [
    "Lean 4.33 kernel; property theorems may depend only on propext, Classical.choice, Quot.sound (audited with #print axioms on every run; no sorry/admit/axiom/native_decide/bv_decide/implemented_by/unsafe)",
    "hand-written Lean model (lean/CasbinVerif/Model) mirrors the Go code; tied to /repo's working tree by the differential run of this check (Go harness harness/cmd/corr in-process against /repo, compiled driver casbin-model, line protocol, diff in bin/check)",
    "go/ast fact extractor harness/cmd/facts regenerates lean/CasbinVerif/Generated/Facts.lean from /repo on every run",
]

PROPS = {
    "C15": dict(
        assumptions=["the watcher of the model is the harness's recording watcher: it logs which Watcher / WatcherEx / UpdatableWatcher method was called with which arguments",
                     "ClearPolicy and BuildRoleLinks are memory-only by contract and are not management calls in the sense of the statement; UpdateFilteredPolicies is exercised by the correspondence run only",
                     "Self* replay calls are covered under C19"],
        trusted=["modelled: the notify wrappers of internal_api.go (addPolicy, addPolicies, removePolicy, removePolicies, removeFilteredPolicy, updatePolicy, updatePolicies, updateFilteredPolicies), shouldNotify, SavePolicy's notification, the interface assertions WatcherEx / UpdatableWatcher"],
    ),
    "C04": dict(
        assumptions=["the matcher cache is modelled as: per compiled matcher, the role managers as its memoising g-functions see them (a snapshot taken at compilation); this abstracts the lazily filled memo of util.GenerateGFunction by its stalest possible content",
                     "SetRoleManager is modelled as the supported idiom SetNamedRoleManager(new default manager) followed by BuildRoleLinks; SetModel as SetModel(same definitions) (a fresh state keeping adapter and functions)",
                     "theorems cover role managers without matching functions (EnfP.prm = []); histories with AddNamed(Domain)MatchingFunc are covered by the correspondence run (pattern-manager model) and by the implementation-level comparison with a fresh enforcer"],
        trusted=["modelled: invalidateMatcherMap call sites as in enforcer.go/internal_api.go (BuildIncrementalRoleLinks, ClearPolicy, applyModifiedModel, SetRoleManager, AddNamed(Domain)MatchingFunc, loadFilteredPolicy, initialize), getAndStoreMatcherExpression, GenerateGFunction's memo (as a snapshot), RoleManagerImpl/DomainManager with matching functions (PatternRM.lean)"],
    ),
    "C05": dict(
        assumptions=["role managers without matching functions (plain RoleManagerImpl, per-domain DomainManager); pattern-matching and conditional managers are exercised by the correspondence run only (model PatternRM, no theorem yet)",
                     "hypotheses WFState/opWF: grouping rules of the definition's arity with comma-free fields, role definitions with two or three places (a plain manager exactly for two places), updates to fresh rules; what they exclude are recorded findings (arity is never checked for g; UpdatePolicy to a listed rule duplicates)"],
        trusted=["modelled: internal_api.go (all *WithoutNotify + notify wrappers), enforcer.go (ClearPolicy, BuildRoleLinks, BuildIncrementalRoleLinks, LoadPolicy, SavePolicy), model/assertion.go (buildRoleLinks, buildIncrementalRoleLinks with truncation to the definition's arity), RoleManagerImpl/DomainManager AddLink/DeleteLink/HasLink/GetRoles/GetUsers/Clear",
                 "the adapter and watcher of the model are the harness's recording adapter/watcher; the theorems hold for every adapter state incl. armed faults"],
    ),
    "C14": dict(
        assumptions=["the underlying enforcer is abstract: every Enforce event carries the answer the embedded enforcer gives at that moment (read by the harness through the embedded enforcer immediately before the cached call)",
                     "the wall clock is an oracle: `tick n` advances the model's clock, the harness sleeps for real (300 ms lifetime, 400 ms ticks; a case is abandoned if the machine stalls)",
                     "removal of the identical rule = through the cached type's own RemovePolicy/RemovePolicies in either calling convention; changes through promoted methods of the embedded enforcer are documented by casbin as not invalidating"],
        trusted=["modelled: enforcer_cached.go, enforcer_cached_synced.go (Enforce, LoadPolicy, ClearPolicy, InvalidateCache, RemovePolicy, RemovePolicies, AddPolicy/AddPolicies of the synced variant, EnableCache, SetExpireTime, GetCacheKey), persist/cache/default-cache.go and cache_sync.go (Set/Get/Delete/Clear with ttl)",
                 "not modelled: the locking of SyncCache and of the wrappers (C12), a user-supplied cache via SetCache"],
    ),
    "C08": dict(
        assumptions=["Go byte strings as List Char (every character the reader looks for is ASCII)", "bufio.ReadLine after the long-line repair: a line is the text between two newlines"],
        trusted=["modelled: config/config.go (parseBuffer, write, AddConfig, get), model/model.go (loadModelFromConfig, loadSection, AddDef, getParamsToken), util.EscapeAssertion, util.RemoveComments (their regular expressions as hand-written scanners, validated by the correspondence run)",
                 "not modelled: reading from a file path, ToText, PrintModel"],
    ),
    "C09": dict(
        assumptions=["Go strings are compared as byte strings, the model works on List Char: identical on valid UTF-8 because every character the code searches for is ASCII",
                     "paths without newline for the trailing wildcard (Go's `.` does not match newline; the spec says so explicitly)",
                     "IPv4 only in the model; IPv6 and malformed arguments are exercised on the implementation only (model answers none)"],
        trusted=["modelled, not verified: Go regexp on the fragment {literal, .*, [^/]+, ([^/]+)} that the rewriting produces from well-formed patterns (Lean backtracking matcher rmatch/rcapture), regexp.ReplaceAllString for the three placeholder expressions, net.ParseIP/ParseCIDR/Contains for dotted quads",
                 "level partial: the theorems relate the Lean mirror of the rewriting + fragment matcher to the segment semantics; that the mirror equals Go's regexp engine on this fragment is checked by the bounded-exhaustive correspondence only"],
        technique="Lean 4 theorems (mirror of the pattern rewriting and a regex-fragment matcher = segment semantics; CIDR arithmetic) + bounded-exhaustive correspondence with util.KeyMatch*/KeyGet*/IPMatch",
    ),
    "C01": dict(
        assumptions=["matchers reach Lean as ASTs (govaluate's parser is not modelled); the harness prints each AST fully parenthesised as the matcher text casbin parses",
                     "float64 request values and literals are integers in the model (the harness only uses integers)",
                     "built-in functions are oracle parameters of the theorems; for the correspondence run their results are tabulated from the real functions (ora lines)",
                     "hypothesis emptyPolicyOk: excludes the empty-policy shortcut on requests that satisfy the matcher against the all-empty rule (finding D24)"],
        trusted=["modelled: enforcer.go enforce() (context selection, arity checks, policy branch, else-branch, result typing, effect column, streaming merge), RoleManagerImpl/DomainManager HasLink without matching functions, govaluate evaluation semantics for the supported operator subset (short-circuit, type checks after both sides, deep equality, comparisons, in, accessors on maps, function calls, eval())",
                 "not modelled: govaluate's lexer/parser/planner, regexp, JSON requests, logging"],
    ),
    "C06": dict(
        assumptions=["Go map[string]int as an association list with get/set/delete; Go slices as lists; strings.Join(rule, \",\") as String.intercalate",
                     "hypothesis WF06 (decidable, evaluated by the driver on every line): rules of the definition's arity with comma-free fields; update targets fresh; batches non-empty; filter in range"],
        trusted=["modelled: model/policy.go (HasPolicy, AddPolicy incl. priority insertion, AddPolicies, RemovePolicy, RemovePolicies, UpdatePolicy, UpdatePolicies with its rollback, RemoveFilteredPolicy, GetFilteredPolicy) and the in-memory guards of internal_api.go; the rollback of UpdatePolicies iterates a Go map: modelled in ascending slot order, the generator avoids batches where the order is observable"],
    ),
    "C02": dict(
        assumptions=["Go slices/arrays as Lean lists; float64 match results 0/1 as Bool",
                     "the matcher and govaluate are not involved in this property: match outcomes are driven by r.sub == p.sub"],
        trusted=["modelled: DefaultEffector.MergeEffects and the fill-merge-break loop of enforce(); not modelled here: matcher evaluation (C01)"],
    ),
}

LEVEL_TEXT = {
    "C15": "Proved in Lean for every enforcer state, adapter state (incl. armed faults), watcher kind and management call: a call that reports success triggers exactly one notification of the kind and with the arguments matching the call for that watcher's interfaces, any other outcome triggers none (notify_exactly_once); nothing is announced without a watcher or with auto-notify off; ClearPolicy/BuildRoleLinks are silent; the notification is the last step (the state is that of the un-notified call: notify_is_last); SavePolicy announces itself once iff it succeeds. Peer convergence follows with C10 (adapter = listed rules) and C04 (same rules, same decisions). Tie: all management-call histories of depth <=2 (quick) / <=3 (thorough) x 4 watcher kinds x auto-notify on/off on two real enforcers sharing the recording adapter over a synchronous bus: notification log vs model after every call, exactly-once and peer-convergence checked on the implementation.",
    "C04": "Proved in Lean by invariant over arbitrary interleavings of Enforce (model matcher or custom matcher) with management calls, ClearPolicy and BuildRoleLinks: every cached compiled matcher sees role managers that answer like the current ones (CacheFresh; inv_applyM, inv_enforce, inv_history), hence every decision is the PERM reference decision on the rules listed now (enforce_current) and two enforcers holding the same listed rules decide alike whatever their histories (same_rules_same_decision: live vs freshly constructed). Tie: all call sequences of depth <=3 (quick) / <=4 (thorough) over 16 calls incl. SetRoleManager, AddNamedMatchingFunc, AddNamedDomainMatchingFunc, SetModel, LoadPolicy on pattern-name RBAC and pattern-domain models, all requests enforced after every call, compared with the Lean model (incl. the pattern role manager model), with the reference on listed rules, and on the implementation with a freshly constructed enforcer.",
    "C05": "Proved in Lean by invariant: from a well-formed state in which every role manager holds exactly the links of the grouping rules listed for its definition, every management call (single, batch, Ex, update, batch update, filtered removal on p or g), ClearPolicy and BuildRoleLinks leads to such a state again, whatever the adapter (incl. failing calls) and watcher do (mirror_step, mirror_hist); hence HasLink holds exactly for roles reachable within the hierarchy depth through the rules listed for that domain (hasLink_iff_listed_reach), equals the g() of the PERM reference (hasLink_eq_specLink), answers like a manager rebuilt from GetGroupingPolicy alone (answers_like_rebuild), and links never leak between domains or role definitions. Tie: all histories of depth <=3 (quick) / <=4 (thorough) over 19 grouping calls incl. ClearPolicy/LoadPolicy/SavePolicy for plain, domain and two-definition models, HasLink/GetRoles/GetUsers over the whole universe after every call, plus random histories with over-long rules.",
    "C14": "Proved in Lean for every history of calls, every request tuple (arbitrary byte strings incl. the separator, cacheable and uncacheable parameters) and every clock: whatever a cached enforcer answers was the underlying enforcer's answer to that same tuple, now or at an earlier Enforce separated from now by no InvalidateCache/LoadPolicy/ClearPolicy/removal (synced: or addition) of the identical rule and by at most the configured lifetime (served_was_given); the cache key is injective on request tuples (cacheKey_injective); errors pass through, uncacheable requests and a disabled cache bypass. Tie: seeded random histories (and real-time lifetime cases) on the real CachedEnforcer and SyncedCachedEnforcer; every served answer is compared with the model and must be admissible.",
    "C08": "Proved in Lean for every text: blank/comment lines outside a continuation, whitespace around lines, CRLF endings, backslash continuation at a blank and the order of sections with distinct names do not change the configuration read by the mirror of parseBuffer (hence not the definitions, a function of it); a one-line definition is stored in full whatever its length; parsing is total. Tie: every examples/*.conf and generated texts x all layout transformations at every position (incl. padding and splitting past 4 KiB) and 2 000 / 60 000 malformed texts through the real NewModelFromString, assertion by assertion.",
    "C09": "Partial. Proved in Lean for every well-formed pattern of the segment grammar (any number of segments, any literal text free of regex metacharacters) and every path: the mirror of keyMatch2/3/5 (pattern rewriting + matcher for the regex fragment it produces) accepts exactly the paths of the segment semantics, keyMatch4 additionally requires equal values for repeated names, keyGet2/3 return the captured segment exactly when the match succeeds, keyMatch/keyGet are the prefix-before-first-star semantics, ipMatch on dotted quads is CIDR block arithmetic. Go's regexp/net are modelled (not verified): the mirror is tied to them by replaying all patterns up to 2 (quick) / 4 (thorough) segments x all paths up to 4/5 segments, raw patterns at the boundary of the fragment, and random IPv4 inputs through the real functions.",
    "C01": "Proved in Lean for every model definition, policy, grouping set, request, built-in function table and eval table: whenever the PERM reference semantics (specEnforce: matcher against every rule in stored order, g() = reachability within depth 10 through the listed grouping rules by direct recursion, effects combined by the four sentences of C02) specifies a decision, the mirror of enforce() returns it (enforce_eq_perm); the role manager's BFS is exactly reachability within the depth bound (hasLink_iff_reach), links built from rules are the rules' links (applyRules_links), EnforceWithMatcher(own matcher) = Enforce (withMatcher_own), error-free answers only depend on the rules up to the deciding one (loopFromE_some_prefix), the g() memo key is injective on NUL-free arguments. Tie: 14 model families x all policies/groupings up to 2 (quick) / 3 (thorough) rules x all requests through the real EnforceEx/Enforce/BatchEnforce/EnforceWithMatcher, plus seeded random matchers, graphs with cycles and chains around the depth limit.",
    "C06": "Proved in Lean by refinement: from a coherent store, every management call whose arguments satisfy WF06 yields the list and boolean of the list-of-unique-rules specification and keeps list and index coherent (refine_step), hence every history does (refine_hist); corollaries: present iff listed, never listed twice, removal/update keep order, filtered queries/removals exact, false iff unchanged, key injectivity on comma-free rules. Tie: all histories of depth <=3 (quick) / <=4 (thorough) over a 16-op alphabet for p, p2 and g through the real Enforcer API with the exported PolicyMap observed after every call, plus seeded random histories over a hostile universe (outside WF06 only model = implementation is checked).",
    "C02": "Proved in Lean for every effect kind and every vector of any length: the streaming fill-merge-break loop of enforce() over the pre-sized arrays decides exactly as the four sentences of the property (stream_eq_spec), order-insensitivity of the three order-insensitive effects (spec_perm, stream_perm), first-determinate semantics of priority, truthfulness of the explanation index (explain_truthful), fail-closed on unknown expressions. The model is tied to the code by replaying all 6^n vectors (n<=5 quick, n<=7 thorough) x 5 effects through the real Enforce/EnforceEx/BatchEnforce and all direct MergeEffects calls on arrays up to length 3.",
}

# properties not claimed yet (work in progress: each is being brought under the same machinery)
NOT_APPLICABLE = {
    pid: "not claimed yet: model/theorems/correspondence for this property are still being built (see DESIGN.md section 8); the technique applies"
    for pid in ["C%02d" % i for i in range(1, 20)]
}

# properties whose check is complete (theorems proved, correspondence wired) and therefore claimed in MANIFEST.json
CLAIMED = ["C01", "C02", "C04", "C05", "C06", "C08", "C09", "C14", "C15"]
