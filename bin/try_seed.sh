#!/bin/bash
# try_seed.sh <diff> <property>...   apply the change to /repo, run the quick checks, undo it
DIFF=$1; shift
cd /repo && git apply "$DIFF" || { echo APPLY-FAILED; exit 2; }
for P in "$@"; do (cd /verif && bin/check $P ${TIER:-quick} 2>&1 | head -6 | cut -c1-600); done
cd /repo && git checkout -q -- . && git status --short | head -3
