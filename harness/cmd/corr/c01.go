package main

import (
	"fmt"
	"strings"

	"github.com/casbin/casbin/v2"
)

func init() { registry["C01"] = runC01 }

const (
	effAllow    = "some(where (p.eft == allow))"
	effDeny     = "!some(where (p.eft == deny))"
	effAllowDen = "some(where (p.eft == allow)) && !some(where (p.eft == deny))"
	effPriority = "priority(p.eft) || deny"
)

// Family is one model family with its small universes.
type Family struct {
	Name     string
	MS       *MSpec
	Rules    map[string][][]string // ptype -> candidate rules
	Links    map[string][][]string // gtype -> candidate grouping rules
	Requests [][]V
	Ctx      *casbin.EnforceContext
	Opts     CaseOpts
	Setup    []EOp // calls made right after construction (matching functions)
}

func aclEq() *Ex { return And(Eq(RTok(0), PTok(0)), Eq(RTok(1), PTok(1)), Eq(RTok(2), PTok(2))) }

func strReqs(subs, objs, acts []string) [][]V {
	var out [][]V
	for _, s := range subs {
		for _, o := range objs {
			for _, a := range acts {
				out = append(out, []V{VS(s), VS(o), VS(a)})
			}
		}
	}
	return out
}

func c01Families() []Family {
	var fs []Family
	subs := []string{"alice", "bob", "admin"}
	objs := []string{"data1", "data2"}
	acts := []string{"read", "write"}
	pRules := [][]string{{"alice", "data1", "read"}, {"bob", "data2", "write"}, {"admin", "data1", "read"}, {"admin", "data2", "write"}, {"alice", "data2", "read"}, {"", "", ""}}
	gRules := [][]string{{"alice", "admin"}, {"bob", "admin"}, {"admin", "alice"}, {"bob", "alice"}}

	// 1 ACL
	fs = append(fs, Family{Name: "acl",
		MS:    NewMSpec().AddR("r", "sub", "obj", "act").AddP("p", "sub", "obj", "act").AddE("e", effAllow).AddM("m", "r", "p", aclEq()),
		Rules: map[string][][]string{"p": pRules}, Requests: append(strReqs(subs, objs, acts), []V{VS(""), VS(""), VS("")})})
	// 2 ACL with superuser
	fs = append(fs, Family{Name: "superuser",
		MS:    NewMSpec().AddR("r", "sub", "obj", "act").AddP("p", "sub", "obj", "act").AddE("e", effAllow).AddM("m", "r", "p", Or(aclEq(), Eq(RTok(0), LitS("root")))),
		Rules: map[string][][]string{"p": pRules[:4]}, Requests: strReqs([]string{"alice", "root"}, objs, acts)})
	// 3 RBAC
	rbacM := And(G2("g", RTok(0), PTok(0)), Eq(RTok(1), PTok(1)), Eq(RTok(2), PTok(2)))
	fs = append(fs, Family{Name: "rbac",
		MS:    NewMSpec().AddR("r", "sub", "obj", "act").AddP("p", "sub", "obj", "act").AddG("g", 2).AddE("e", effAllow).AddM("m", "r", "p", rbacM),
		Rules: map[string][][]string{"p": pRules[:5]}, Links: map[string][][]string{"g": gRules}, Requests: strReqs(subs, objs, acts)})
	// 3b RBAC over names whose concatenations coincide (ab+c = a+bc): the g() memo must keep arguments apart
	fs = append(fs, Family{Name: "rbac-concat-names",
		MS:    NewMSpec().AddR("r", "sub", "obj", "act").AddP("p", "sub", "obj", "act").AddG("g", 2).AddE("e", effAllow).AddM("m", "r", "p", rbacM),
		Rules: map[string][][]string{"p": {{"c", "data1", "read"}, {"bc", "data2", "read"}, {"ab", "data2", "read"}}},
		Links: map[string][][]string{"g": {{"ab", "c"}, {"a", "bc"}, {"a", "b"}, {"b", "c"}}},
		Requests: strReqs([]string{"ab", "a", "b"}, objs, acts[:1])})
	// 3c the same for every plausible separator: with names containing the separator, g(a, b<sep>c) and
	// g(a<sep>b, c) must not share a memo entry — in either order of asking
	for _, sep := range []string{":", ",", "|", " ", "/", "_", "-", "$", ";", ".", "#", "\x1f", "::", "\t"} {
		x, y := "a"+sep+"b", "b"+sep+"c"
		for oi, order := range [][2]int{{0, 1}, {1, 0}} {
			reqs := [][]V{{VS("a"), VS("data1"), VS("read")}, {VS(x), VS("data2"), VS("read")}}
			fs = append(fs, Family{Name: fmt.Sprintf("rbac-separator-names-%q-%d", sep, oi),
				MS:       NewMSpec().AddR("r", "sub", "obj", "act").AddP("p", "sub", "obj", "act").AddG("g", 2).AddE("e", effAllow).AddM("m", "r", "p", rbacM),
				Rules:    map[string][][]string{"p": {{y, "data1", "read"}, {"c", "data2", "read"}}},
				Links:    map[string][][]string{"g": {{"a", y}}},
				Requests: [][]V{reqs[order[0]], reqs[order[1]]}})
		}
	}
	// 4 RBAC with resource roles
	fs = append(fs, Family{Name: "rbac-resource-roles",
		MS: NewMSpec().AddR("r", "sub", "obj", "act").AddP("p", "sub", "obj", "act").AddG("g", 2).AddG("g2", 2).AddE("e", effAllow).
			AddM("m", "r", "p", And(G2("g", RTok(0), PTok(0)), G2("g2", RTok(1), PTok(1)), Eq(RTok(2), PTok(2)))),
		Rules: map[string][][]string{"p": {{"alice", "data1", "read"}, {"admin", "group", "write"}, {"admin", "group", "read"}, {"bob", "data2", "write"}}},
		Links: map[string][][]string{"g": gRules[:2], "g2": {{"data1", "group"}, {"data2", "group"}}},
		Requests: strReqs(subs, objs, acts)})
	// 5 RBAC with domains
	var domReqs [][]V
	for _, s := range []string{"alice", "bob"} {
		for _, d := range []string{"d1", "d2"} {
			for _, o := range objs {
				domReqs = append(domReqs, []V{VS(s), VS(d), VS(o), VS("read")})
			}
		}
	}
	fs = append(fs, Family{Name: "rbac-domains",
		MS: NewMSpec().AddR("r", "sub", "dom", "obj", "act").AddP("p", "sub", "dom", "obj", "act").AddG("g", 3).AddE("e", effAllow).
			AddM("m", "r", "p", And(G3("g", RTok(0), PTok(0), RTok(1)), Eq(RTok(1), PTok(1)), Eq(RTok(2), PTok(2)), Eq(RTok(3), PTok(3)))),
		Rules: map[string][][]string{"p": {{"admin", "d1", "data1", "read"}, {"admin", "d2", "data2", "read"}, {"alice", "d2", "data1", "read"}, {"bob", "d1", "data2", "read"}}},
		Links: map[string][][]string{"g": {{"alice", "admin", "d1"}, {"bob", "admin", "d2"}, {"alice", "admin", "d2"}, {"bob", "alice", "d1"}}},
		Requests: domReqs})
	// 5b domains with a role-name matching function (no domain matching function): a pattern subject in a
	// policy rule matches by name in every domain, whether or not the domain has grouping rules of its own
	var patReqs [][]V
	for _, sb := range []string{"user_1", "user_7", "bob", "admin"} {
		for _, d := range []string{"d1", "d2"} {
			for _, o := range []string{"data1", "data2"} {
				patReqs = append(patReqs, []V{VS(sb), VS(d), VS(o), VS("read")})
			}
		}
	}
	fs = append(fs, Family{Name: "rbac-domains-name-patterns",
		MS: NewMSpec().AddR("r", "sub", "dom", "obj", "act").AddP("p", "sub", "dom", "obj", "act").AddG("g", 3).AddE("e", effAllow).
			AddM("m", "r", "p", And(G3("g", RTok(0), PTok(0), RTok(1)), Eq(RTok(1), PTok(1)), Eq(RTok(2), PTok(2)), Eq(RTok(3), PTok(3)))),
		Rules:    map[string][][]string{"p": {{"user_*", "d2", "data2", "read"}, {"admin", "d1", "data1", "read"}, {"user_*", "d1", "data2", "read"}, {"bob", "d2", "data1", "read"}}},
		Links:    map[string][][]string{"g": {{"user_1", "admin", "d1"}, {"bob", "user_7", "d1"}, {"bob", "admin", "d2"}}},
		Requests: patReqs,
		Opts:     CaseOpts{MatchFns: []string{"keyMatch"}, OraUniverse: []string{"user_1", "user_7", "bob", "admin", "user_*"}},
		Setup:    []EOp{{Kind: "addmf", PType: "g", What: "keyMatch"}}})
	// 6 deny-override RBAC
	eftRules := [][]string{{"alice", "data1", "read", "allow"}, {"admin", "data1", "read", "deny"}, {"bob", "data2", "write", "allow"}, {"admin", "data2", "write", "other"}, {"alice", "data1", "read", "deny"}}
	for _, ek := range []struct{ n, e string }{{"deny-override", effDeny}, {"allow-and-deny", effAllowDen}, {"priority", effPriority}, {"allow-override-with-eft-column", effAllow}} {
		fs = append(fs, Family{Name: "rbac-" + ek.n,
			MS:    NewMSpec().AddR("r", "sub", "obj", "act").AddP("p", "sub", "obj", "act", "eft").AddG("g", 2).AddE("e", ek.e).AddM("m", "r", "p", rbacM),
			Rules: map[string][][]string{"p": eftRules}, Links: map[string][][]string{"g": gRules[:3]}, Requests: strReqs(subs, objs, acts)})
	}
	// 9 ABAC not using policy: owner check and numeric comparison on attributes
	var abacReqs [][]V
	for _, age := range []int{17, 18, 30} {
		for _, owner := range []string{"alice", "bob"} {
			abacReqs = append(abacReqs, []V{{Kind: "o", O: map[string]Atom{"Name": {S: "alice"}, "Age": {N: age, Num: true}}},
				{Kind: "o", O: map[string]Atom{"Owner": {S: owner}}}, VS("read")})
		}
	}
	abacReqs = append(abacReqs, []V{VS("alice"), VS("data1"), VS("read")}) // attribute access on a string: error
	fs = append(fs, Family{Name: "abac-no-policy",
		MS: NewMSpec().AddR("r", "sub", "obj", "act").AddP("p", "sub", "obj", "act").AddE("e", effAllow).
			AddM("m", "r", "p", And(Eq(Attr(0, "Name"), Attr(1, "Owner")), Bin("ge", Attr(0, "Age"), LitN(18)))),
		Rules: map[string][][]string{"p": pRules[:2]}, Requests: abacReqs})
	// 10 ABAC with eval(): the rule carries a sub-matcher
	ev1 := Bin("gt", Attr(0, "Age"), LitN(18))
	ev2 := Eq(Attr(0, "Name"), LitS("alice"))
	ms10 := NewMSpec().AddR("r", "sub", "obj", "act").AddP("p", "sub_rule", "obj", "act").AddE("e", effAllow).
		AddM("m", "r", "p", And(Eval(PTok(0)), Eq(RTok(1), PTok(1)), Eq(RTok(2), PTok(2))))
	t1 := ev1.Text("r", "p", ms10.R["r"], ms10.P["p"])
	t2 := ev2.Text("r", "p", ms10.R["r"], ms10.P["p"])
	var evReqs [][]V
	for _, age := range []int{10, 30} {
		for _, name := range []string{"alice", "bob"} {
			for _, o := range objs {
				evReqs = append(evReqs, []V{{Kind: "o", O: map[string]Atom{"Name": {S: name}, "Age": {N: age, Num: true}}}, VS(o), VS("read")})
			}
		}
	}
	fs = append(fs, Family{Name: "abac-eval", MS: ms10,
		Rules:    map[string][][]string{"p": {{t1, "data1", "read"}, {t2, "data2", "read"}, {t1, "data2", "read"}, {"this is ( not a matcher", "data1", "read"}}},
		Requests: evReqs, Opts: CaseOpts{EvalTab: map[string]*Ex{t1: ev1, t2: ev2}}})
	// 11 keyMatch / regexMatch through oracle tables
	kmObjs := []string{"/data/1", "/data/2", "/other"}
	fs = append(fs, Family{Name: "keymatch",
		MS: NewMSpec().AddR("r", "sub", "obj", "act").AddP("p", "sub", "obj", "act").AddE("e", effAllow).
			AddM("m", "r", "p", And(Eq(RTok(0), PTok(0)), Call2("keyMatch", RTok(1), PTok(1)), Call2("regexMatch", RTok(2), PTok(2)))),
		Rules:    map[string][][]string{"p": {{"alice", "/data/*", "read|write"}, {"bob", "/data/2", "read"}, {"alice", "/other", "("}, {"bob", "*", ".*"}}},
		Requests: strReqs([]string{"alice", "bob"}, kmObjs, acts),
		Opts:     CaseOpts{OraUniverse: []string{"/data/1", "/data/2", "/other", "/data/*", "*", "read", "write", "read|write", "(", ".*"}}})
	// 12 in-operator
	fs = append(fs, Family{Name: "in-operator",
		MS: NewMSpec().AddR("r", "sub", "obj", "act").AddP("p", "sub", "obj", "act").AddE("e", effAllow).
			AddM("m", "r", "p", And(Eq(RTok(0), PTok(0)), In(RTok(1), Atom{S: "data1"}, Atom{S: "data3"}))),
		Rules: map[string][][]string{"p": pRules[:3]}, Requests: strReqs(subs, objs, acts[:1])})
	// 13 two policy types through EnforceContext
	ctx2 := casbin.NewEnforceContext("2")
	fs = append(fs, Family{Name: "enforce-context",
		MS: NewMSpec().AddR("r", "sub", "obj", "act").AddR("r2", "sub", "obj").AddP("p", "sub", "obj", "act").AddP("p2", "sub", "obj", "eft").
			AddG("g", 2).AddE("e", effAllow).AddE("e2", effDeny).AddM("m", "r", "p", rbacM).
			AddM("m2", "r2", "p2", And(G2("g", RTok(0), PTok(0)), Eq(RTok(1), PTok(1)))),
		Rules: map[string][][]string{"p": pRules[:2], "p2": {{"admin", "data1", "deny"}, {"alice", "data2", "allow"}, {"bob", "data1", "other"}}},
		Links: map[string][][]string{"g": gRules[:2]},
		Requests: [][]V{{VS("alice"), VS("data1")}, {VS("alice"), VS("data2")}, {VS("bob"), VS("data1")}, {VS("bob"), VS("data2")}, {VS("admin"), VS("data1")}},
		Ctx:      &ctx2})
	// 14 negation and a number-valued matcher side (result typing)
	fs = append(fs, Family{Name: "negation",
		MS: NewMSpec().AddR("r", "sub", "obj", "act").AddP("p", "sub", "obj", "act").AddG("g", 2).AddE("e", effAllow).
			AddM("m", "r", "p", And(Not(G2("g", RTok(0), PTok(0))), Bin("ne", RTok(1), PTok(1)))),
		Rules: map[string][][]string{"p": pRules[:4]}, Links: map[string][][]string{"g": gRules[:3]}, Requests: strReqs(subs, objs, acts[:1])})
	return fs
}

// subsets of size <= k, in order (as index lists)
func subsetsUpTo(n, k int) [][]int {
	out := [][]int{{}}
	var rec func(start int, cur []int)
	rec = func(start int, cur []int) {
		for i := start; i < n; i++ {
			next := append(append([]int(nil), cur...), i)
			out = append(out, next)
			if len(next) < k {
				rec(i+1, next)
			}
		}
	}
	if k > 0 {
		rec(0, nil)
	}
	return out
}

// ordered sequences without repetition of length <= k (stored order matters for priority)
func seqsUpTo(n, k int) [][]int {
	out := [][]int{{}}
	var rec func(cur []int)
	rec = func(cur []int) {
		for i := 0; i < n; i++ {
			used := false
			for _, j := range cur {
				if j == i {
					used = true
				}
			}
			if used {
				continue
			}
			next := append(append([]int(nil), cur...), i)
			out = append(out, next)
			if len(next) < k {
				rec(next)
			}
		}
	}
	if k > 0 {
		rec(nil)
	}
	return out
}

func pick(rs [][]string, idx []int) [][]string {
	out := make([][]string, len(idx))
	for i, j := range idx {
		out[i] = rs[j]
	}
	return out
}

func runFamilyCase(c *Ctx, f Family, pol map[string][][]string, links map[string][][]string) {
	s := StartCase(c, f.MS, f.Opts)
	if s == nil {
		return
	}
	for _, op := range f.Setup {
		s.Do(c, op)
	}
	for _, gt := range f.MS.GTypes {
		if len(links[gt]) > 0 {
			s.Do(c, EOp{Kind: "adds", Sec: "g", PType: gt, Ex: true, Rules: links[gt]})
		}
	}
	for _, pt := range f.MS.PTypes {
		if len(pol[pt]) > 0 {
			s.Do(c, EOp{Kind: "adds", Sec: "p", PType: pt, Ex: true, Rules: pol[pt]})
		}
	}
	sawTrue, sawFalse := false, false
	var sample string
	for _, req := range f.Requests {
		obs := s.Do(c, EOp{Kind: "enfx", Ctx: f.Ctx, Req: req})
		o2 := s.Exec(EOp{Kind: "enf", Ctx: f.Ctx, Req: req})
		if !strings.HasPrefix(obs, o2) {
			c.Direct("Enforce and EnforceEx disagree", fmt.Sprintf("family=%s policy=%v links=%v request=%v enfx=%s enf=%s", f.Name, pol, links, req, obs, o2))
		}
		if strings.HasPrefix(obs, "true") {
			sawTrue = true
		}
		if strings.HasPrefix(obs, "false") {
			sawFalse = true
		}
		if obs == "err-but-true" {
			c.Direct("an error is reported together with an allow decision", fmt.Sprintf("family=%s policy=%v links=%v request=%v", f.Name, pol, links, req))
		}
		c.Count("decision="+strings.SplitN(obs, " ", 2)[0], 1)
		c.Evals++
		sample = EOp{Kind: "enfx", Ctx: f.Ctx, Req: req}.Line() + " => " + obs
	}
	// EnforceWithMatcher given the model's own matcher, BatchEnforce: same decisions
	if f.Ctx == nil && len(f.Requests) > 0 {
		own := f.MS.MatcherText("m")
		var batch [][]interface{}
		var want []bool
		allOk := true
		for _, req := range f.Requests {
			a, errA := s.E.Enforce(reqGo(nil, req)...)
			b, errB := s.E.EnforceWithMatcher(own, reqGo(nil, req)...)
			if (errA == nil) != (errB == nil) || a != b {
				c.Direct("EnforceWithMatcher(own matcher) differs from Enforce", fmt.Sprintf("family=%s policy=%v links=%v request=%v", f.Name, pol, links, req))
			}
			batch = append(batch, reqGo(nil, req))
			want = append(want, a)
			if errA != nil {
				allOk = false
			}
		}
		if allOk {
			got, err := s.E.BatchEnforce(batch)
			if err != nil || fmt.Sprint(got) != fmt.Sprint(want) {
				c.Direct("BatchEnforce differs from Enforce", fmt.Sprintf("family=%s policy=%v links=%v", f.Name, pol, links))
			}
		}
		c.Count("variant_checks", 1)
	}
	if sawTrue && sawFalse {
		c.Nontrivial(fmt.Sprintf("%s|%v|%v", f.Name, pol, links))
	}
	c.Count("family="+f.Name, 1)
	if c.Stats["family="+f.Name] == 7 {
		c.Sample(fmt.Sprintf("%s: policy=%v links=%v %s", f.Name, pol, links, sample))
	}
}

func runC01(c *Ctx) {
	maxRules, maxLinks := 2, 2
	if c.Thorough() {
		maxRules, maxLinks = 3, 3
	}
	c.Exhaustive = true
	c.Rule = fmt.Sprintf("%d model families (ACL, superuser, RBAC, RBAC over names with coinciding concatenations under 14 separators in both orders, resource roles, domains, domains with a role-name matching function, deny-override, allow-and-deny, allow-override with an eft column, priority, ABAC attributes, eval() rules, keyMatch/regexMatch, in-operator, EnforceContext with two policy types, negation; plus a policy of 40 eval() rules and one eval() text shared by two rules; per case EnforceWithMatcher(own matcher) and BatchEnforce must agree with Enforce) x all policies of <= %d rules (ordered sequences for priority) x all grouping sets of <= %d links over the family's universe x all requests of its universe (bounded-exhaustive), plus seeded random models/matchers/graphs; reference = Lean specEnforce (no govaluate, effector or role manager); non-trivial = a case with both an allowed and a denied request; distinct = (family, policy, links)", len(c01Families()), maxRules, maxLinks)
	for _, f := range c01Families() {
		// policies: per ptype subsets (ordered sequences for the priority effect)
		var polChoices []map[string][][]string
		polChoices = append(polChoices, map[string][][]string{})
		for _, pt := range f.MS.PTypes {
			cands := f.Rules[pt]
			var sets [][]int
			if strings.Contains(f.Name, "priority") {
				sets = seqsUpTo(len(cands), maxRules)
			} else {
				sets = subsetsUpTo(len(cands), maxRules)
			}
			var next []map[string][][]string
			for _, base := range polChoices {
				for _, idx := range sets {
					m := map[string][][]string{}
					for k, v := range base {
						m[k] = v
					}
					m[pt] = pick(cands, idx)
					next = append(next, m)
				}
			}
			polChoices = next
		}
		linkChoices := []map[string][][]string{{}}
		for _, gt := range f.MS.GTypes {
			cands := f.Links[gt]
			sets := subsetsUpTo(len(cands), maxLinks)
			var next []map[string][][]string
			for _, base := range linkChoices {
				for _, idx := range sets {
					m := map[string][][]string{}
					for k, v := range base {
						m[k] = v
					}
					m[gt] = pick(cands, idx)
					next = append(next, m)
				}
			}
			linkChoices = next
		}
		for _, pol := range polChoices {
			for _, links := range linkChoices {
				runFamilyCase(c, f, pol, links)
			}
		}
	}
	c01ManyEvalRules(c)
	c01Random(c)
}

// c01ManyEvalRules: a policy of 40 rules that each carry an eval() sub-matcher, one object per rule: the request
// for the i-th object is decided by the i-th rule, however many eval() calls came before it in the same request
// (eval() may nest, it is not rationed per request)
func c01ManyEvalRules(c *Ctx) {
	ms := NewMSpec().AddR("r", "sub", "obj", "act").AddP("p", "sub_rule", "obj", "act").AddE("e", effAllow).
		AddM("m", "r", "p", And(Eval(PTok(0)), Eq(RTok(1), PTok(1)), Eq(RTok(2), PTok(2))))
	tab := map[string]*Ex{}
	var rules [][]string
	for i := 0; i < 40; i++ {
		ev := Bin("gt", Attr(0, "Age"), LitN(i))
		t := ev.Text("r", "p", ms.R["r"], ms.P["p"])
		tab[t] = ev
		rules = append(rules, []string{t, fmt.Sprintf("data%d", i), "read"})
	}
	s := StartCase(c, ms, CaseOpts{EvalTab: tab})
	if s == nil {
		return
	}
	s.Do(c, EOp{Kind: "adds", Sec: "p", PType: "p", Ex: true, Rules: rules})
	for _, age := range []int{100, 20} {
		for i := 0; i < 40; i++ {
			s.Do(c, EOp{Kind: "enfx", Req: []V{{Kind: "o", O: map[string]Atom{"Age": {N: age, Num: true}}}, VS(fmt.Sprintf("data%d", i)), VS("read")}})
			c.Evals++
		}
	}
	c.Nontrivial("many-eval-rules")
	// an eval() rule whose text calls eval() on another field of its line (nested), several requests on one
	// enforcer that differ in what the inner rule reads: every request is decided on its own values
	ms3 := NewMSpec().AddR("r", "sub", "obj", "act").AddP("p", "sub_rule", "obj_rule", "act").AddE("e", effAllow).
		AddM("m", "r", "p", And(Eval(PTok(0)), Eq(RTok(2), PTok(2))))
	outer := And(Bin("ge", Attr(0, "Age"), LitN(18)), Eval(PTok(1)))
	inner := Eq(Attr(1, "Owner"), Attr(0, "Name"))
	ot := outer.Text("r", "p", ms3.R["r"], ms3.P["p"])
	it := inner.Text("r", "p", ms3.R["r"], ms3.P["p"])
	for _, order := range [][]string{{"alice", "bob", "alice", "carol"}, {"bob", "alice", "bob"}, {"carol", "carol", "alice"}} {
		s3 := StartCase(c, ms3, CaseOpts{EvalTab: map[string]*Ex{ot: outer, it: inner}})
		if s3 == nil {
			return
		}
		s3.Do(c, EOp{Kind: "adds", Sec: "p", PType: "p", Ex: true, Rules: [][]string{{ot, it, "read"}}})
		for _, name := range order {
			for _, age := range []int{30, 10} {
				req := []V{{Kind: "o", O: map[string]Atom{"Name": {S: name}, "Age": {N: age, Num: true}}}, {Kind: "o", O: map[string]Atom{"Owner": {S: "alice"}}}, VS("read")}
				s3.Do(c, EOp{Kind: "enfx", Req: req})
				s3.Do(c, EOp{Kind: "enf", Req: req})
				c.Evals++
			}
		}
	}
	c.Nontrivial("nested-eval-rules")
	// one eval() text shared by two policy lines and referring to a field of the line it stands in: the text is
	// evaluated against each line anew
	ms2 := NewMSpec().AddR("r", "sub", "obj", "act").AddP("p", "sub_rule", "dept", "obj", "act").AddE("e", effAllow).
		AddM("m", "r", "p", And(Eval(PTok(0)), Eq(RTok(1), PTok(2)), Eq(RTok(2), PTok(3))))
	shared := Eq(Attr(0, "Dept"), PTok(1))
	st := shared.Text("r", "p", ms2.R["r"], ms2.P["p"])
	s2 := StartCase(c, ms2, CaseOpts{EvalTab: map[string]*Ex{st: shared}})
	if s2 == nil {
		return
	}
	s2.Do(c, EOp{Kind: "adds", Sec: "p", PType: "p", Ex: true, Rules: [][]string{{st, "hr", "/hr/files", "read"}, {st, "eng", "/eng/files", "read"}, {st, "ops", "/eng/files", "read"}}})
	for _, dept := range []string{"hr", "eng", "ops", "sales"} {
		for _, obj := range []string{"/hr/files", "/eng/files"} {
			s2.Do(c, EOp{Kind: "enfx", Req: []V{{Kind: "o", O: map[string]Atom{"Dept": {S: dept}}}, VS(obj), VS("read")}})
			c.Evals++
		}
	}
}
