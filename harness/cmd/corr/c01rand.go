package main

import (
	"fmt"
	"math/rand"
)

// random matchers from the grammar (type-directed: mostly well-typed), random graphs incl. cycles
// and chains around the hierarchy depth limit
func randBoolExpr(rng *rand.Rand, depth int, hasG bool, gdom bool) *Ex {
	if depth <= 0 || rng.Intn(4) == 0 {
		switch k := rng.Intn(10); {
		case k < 4:
			i := rng.Intn(3)
			return Eq(RTok(i), PTok(i))
		case k < 5:
			return Eq(RTok(rng.Intn(3)), LitS([]string{"alice", "root", "data1", "read"}[rng.Intn(4)]))
		case k < 7 && hasG:
			if gdom {
				return G3("g", RTok(0), PTok(0), LitS([]string{"d1", "d2"}[rng.Intn(2)]))
			}
			return G2("g", RTok(0), PTok(0))
		case k < 8:
			return Bin("ne", RTok(rng.Intn(3)), PTok(rng.Intn(3)))
		case k < 9:
			return Bin([]string{"lt", "le", "gt", "ge"}[rng.Intn(4)], RTok(1), PTok(1))
		default:
			// ill-typed on purpose now and then: a string where a bool is needed
			if rng.Intn(4) == 0 {
				return RTok(2)
			}
			return &Ex{Op: "blit", B: rng.Intn(2) == 0}
		}
	}
	switch rng.Intn(5) {
	case 0:
		return Not(randBoolExpr(rng, depth-1, hasG, gdom))
	case 1, 2:
		return Bin("and", randBoolExpr(rng, depth-1, hasG, gdom), randBoolExpr(rng, depth-1, hasG, gdom))
	default:
		return Bin("or", randBoolExpr(rng, depth-1, hasG, gdom), randBoolExpr(rng, depth-1, hasG, gdom))
	}
}

func c01Random(c *Ctx) {
	n := 150
	if c.Thorough() {
		n = 6000
	}
	rng := c.Rng
	names := []string{"alice", "bob", "carol", "admin", "root", "u1", "u2", "u3", "u4", "u5", "u6", "u7", "u8", "u9", "u10", "u11", "u12", "u13", "u14"}
	objs := []string{"data1", "data2", "data3"}
	acts := []string{"read", "write"}
	effs := []string{effAllow, effDeny, effAllowDen, effPriority}
	for i := 0; i < n; i++ {
		gdom := rng.Intn(4) == 0
		ms := NewMSpec().AddR("r", "sub", "obj", "act")
		eff := effs[rng.Intn(len(effs))]
		withEft := eff != effAllow || rng.Intn(2) == 0
		if withEft {
			ms.AddP("p", "sub", "obj", "act", "eft")
		} else {
			ms.AddP("p", "sub", "obj", "act")
		}
		if gdom {
			ms.AddG("g", 3)
		} else {
			ms.AddG("g", 2)
		}
		ms.AddE("e", eff)
		m := randBoolExpr(rng, 1+rng.Intn(4), true, gdom)
		if rng.Intn(3) != 0 {
			// make sure most matchers look at the subject through g
			if gdom {
				m = Bin("and", G3("g", RTok(0), PTok(0), LitS("d1")), m)
			} else {
				m = Bin("and", G2("g", RTok(0), PTok(0)), m)
			}
		}
		ms.AddM("m", "r", "p", m)
		f := Family{Name: "random", MS: ms}
		// graph: chains around the depth limit, cycles, self loops, random edges
		var links [][]string
		nl := rng.Intn(14)
		switch rng.Intn(4) {
		case 0: // a chain u1 -> u2 -> ... of length 9..12 plus noise
			L := 9 + rng.Intn(4)
			for k := 0; k < L; k++ {
				links = append(links, []string{names[5+k], names[5+k+1]})
			}
			links = append(links, []string{names[5+L], "admin"})
		case 1: // cycle
			links = append(links, []string{"alice", "bob"}, []string{"bob", "carol"}, []string{"carol", "alice"}, []string{"carol", "admin"})
		}
		for k := 0; k < nl; k++ {
			links = append(links, []string{names[rng.Intn(8)], names[rng.Intn(8)]})
		}
		if gdom {
			for k := range links {
				links[k] = append(links[k], []string{"d1", "d2"}[rng.Intn(2)])
			}
		}
		// dedup links (AddGroupingPoliciesEx skips duplicates itself; keep the list as given)
		var pol [][]string
		np := rng.Intn(10)
		for k := 0; k < np; k++ {
			r := []string{names[rng.Intn(7)], objs[rng.Intn(3)], acts[rng.Intn(2)]}
			if withEft {
				r = append(r, []string{"allow", "deny", "other"}[rng.Intn(3)])
			}
			pol = append(pol, r)
		}
		for k := 0; k < 8; k++ {
			f.Requests = append(f.Requests, []V{VS(names[rng.Intn(9)]), VS(objs[rng.Intn(3)]), VS(acts[rng.Intn(2)])})
		}
		// requests for the chain ends
		f.Requests = append(f.Requests, []V{VS("u1"), VS("data1"), VS("read")}, []V{VS("u2"), VS("data1"), VS("read")}, []V{VS("u3"), VS("data1"), VS("read")})
		if rng.Intn(10) == 0 {
			f.Requests = append(f.Requests, []V{VS("alice"), VS("data1")}) // wrong arity
		}
		if rng.Intn(10) == 0 {
			f.Requests = append(f.Requests, []V{VN(3), VS("data1"), VS("read")}) // non-string into g
		}
		pol = append(pol, []string{"admin", "data1", "read", "allow"}[:len(ms.P["p"])])
		runFamilyCase(c, f, map[string][][]string{"p": pol}, map[string][][]string{"g": links})
		c.Count("random_cases", 1)
	}
	_ = fmt.Sprint
}
