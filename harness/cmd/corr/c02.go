package main

import (
	"fmt"
	"sort"
	"strings"

	"github.com/casbin/casbin/v2"
	"github.com/casbin/casbin/v2/constant"
	"github.com/casbin/casbin/v2/effector"
	"github.com/casbin/casbin/v2/model"
)

func init() { registry["C02"] = runC02 }

var effectKinds = []struct{ name, expr string }{
	{"allowOverride", constant.AllowOverrideEffect},
	{"denyOverride", constant.DenyOverrideEffect},
	{"allowAndDeny", constant.AllowAndDenyEffect},
	{"priority", constant.PriorityEffect},
	{"subjectPriority", constant.SubjectPriorityEffect},
}

// a cell is one of 6 values: matched? x {allow, deny, other}
var cellNames = []string{"Ma", "Md", "Mi", "Ua", "Ud", "Ui"}

func cellRule(cell int, i int) []string {
	sub := "alice"
	if cell >= 3 {
		sub = "bob"
	}
	eft := []string{"allow", "deny", "other"}[cell%3]
	if cell%3 == 2 {
		// an effect that is neither "allow" nor "deny" — another word, the empty string, or one of the two spelled
		// with capitals — decides nothing
		eft = []string{"other", "", "Allow", "DENY"}[i%4]
	}
	return []string{sub, fmt.Sprintf("o%d", i), "read", eft}
}

func c02Model(expr string) model.Model {
	m := model.NewModel()
	m.AddDef("r", "r", "sub, obj, act")
	m.AddDef("p", "p", "sub, obj, act, eft")
	m.AddDef("g", "g", "_, _")
	m.AddDef("e", "e", expr)
	m.AddDef("m", "m", "r.sub == p.sub")
	return m
}

func runC02(c *Ctx) {
	maxN := 5
	if c.Thorough() {
		maxN = 7
	}
	c.Exhaustive = true
	c.Rule = fmt.Sprintf("every vector in ({matched,unmatched} x {allow,deny,other})^n for 1 <= n <= %d and each of the 5 effect expressions, driven through the real Enforce/EnforceEx/BatchEnforce on a model whose matcher is r.sub == p.sub (exhaustive), each followed (n <= 4) on the same enforcer by EnforceWithMatcher / EnforceExWithMatcher / BatchEnforceWithMatcher with a custom matcher that selects one rule by its object; n = 0 (empty policy, also after the last rule was removed) for each effect; every ordered pair of distinct effects as e / e2 with the request made through EnforceContext (e2 must decide; both as a struct literal over r/p/m and as NewEnforceContext(\"2\") over a complete second set r2/p2/e2/m2), vectors of length <= 2; every vector of length <= 3 again on a policy definition whose effect column comes first, and with a matcher function that itself calls Enforce for another subject (the outer decision and explanation must not change); every direct MergeEffects call on arrays of length <= 3 at every index; for n <= 5 and the three order-insensitive effects all orderings of one multiset of cells must give one decision; rule effects other than allow / deny (other, empty, Allow, DENY) are cells of the vectors; an unsupported effect expression must fail closed in MergeEffects; non-trivial = at least one matched rule; distinct = (effect, vector)", maxN)

	for _, k := range effectKinds {
		e, err := casbin.NewEnforcer(c02Model(k.expr))
		if err != nil {
			panic(err)
		}
		// decisions per multiset of cells, for the permutation part of the property
		byMultiset := map[string]string{}
		vec := make([]int, 0, maxN)
		var rec func(n int)
		visit := func() {
			n := len(vec)
			e.ClearPolicy()
			rules := make([][]string, n)
			names := make([]string, n)
			matchedAny := false
			for i, cell := range vec {
				rules[i] = cellRule(cell, i)
				names[i] = cellNames[cell]
				if cell < 3 {
					matchedAny = true
				}
			}
			if _, err := e.AddPolicies(rules); err != nil {
				panic(err)
			}
			cells := strings.Join(names, "")
			ok, explain, err := e.EnforceEx("alice", "x", "read")
			idx := -1
			if len(explain) > 0 {
				fmt.Sscanf(explain[1], "o%d", &idx)
				// the named rule must be the stored rule at that index
				if idx < 0 || idx >= n || strings.Join(explain, ",") != strings.Join(rules[idx], ",") {
					c.Direct("EnforceEx names a rule that is not in the policy", fmt.Sprintf("effect=%s cells=%s explain=%v", k.name, cells, explain))
				}
			}
			obs := fmt.Sprintf("%v %d", ok, idx)
			if err != nil {
				obs = "err"
			}
			op := fmt.Sprintf("enfvec %s %s", k.name, cells)
			c.W.Op(op, obs)
			c.Evals++
			// variants must agree (checked directly on the implementation)
			ok2, err2 := e.Enforce("alice", "x", "read")
			oks, err3 := e.BatchEnforce([][]interface{}{{"alice", "x", "read"}})
			if err2 != nil || err3 != nil || ok2 != ok || len(oks) != 1 || oks[0] != ok {
				c.Direct("Enforce / EnforceEx / BatchEnforce disagree", op)
			}
			// the WithMatcher entry points on the same enforcer, right after the call with the model's matcher: a
			// custom matcher that selects exactly the rule whose object is asked for, whatever its subject, so the
			// vector it sees is (rule j matched with its effect, every other rule unmatched)
			if n <= 4 {
				j := c.Evals % n
				mnames := make([]string, n)
				for i, cell := range vec {
					if i == j {
						mnames[i] = cellNames[cell%3]
					} else {
						mnames[i] = cellNames[3+cell%3]
					}
				}
				okm, explm, errm := e.EnforceExWithMatcher("r.obj == p.obj", "zed", fmt.Sprintf("o%d", j), "read")
				idxm := -1
				if len(explm) > 0 {
					fmt.Sscanf(explm[1], "o%d", &idxm)
				}
				obsm := fmt.Sprintf("%v %d", okm, idxm)
				if errm != nil {
					obsm = "err"
				}
				c.W.Op(fmt.Sprintf("enfvec %s %s", k.name, strings.Join(mnames, "")), obsm)
				okw, errw := e.EnforceWithMatcher("r.obj == p.obj", "zed", fmt.Sprintf("o%d", j), "read")
				okb, errb := e.BatchEnforceWithMatcher("r.obj == p.obj", [][]interface{}{{"zed", fmt.Sprintf("o%d", j), "read"}})
				if errw != nil || errb != nil || okw != okm || len(okb) != 1 || okb[0] != okm {
					c.Direct("EnforceWithMatcher / EnforceExWithMatcher / BatchEnforceWithMatcher disagree", op)
				}
				c.Count("custom_matcher_calls", 1)
			}
			if matchedAny {
				c.Nontrivial(op)
			}
			c.Count(fmt.Sprintf("n=%d", n), 1)
			c.Count("decision="+fmt.Sprint(ok), 1)
			if idx >= 0 {
				c.Count("explained", 1)
			}
			if n <= 5 && k.name != "priority" && k.name != "subjectPriority" {
				sorted := append([]int(nil), vec...)
				sort.Ints(sorted)
				key := fmt.Sprint(sorted)
				if prev, seen := byMultiset[key]; seen {
					if prev != fmt.Sprint(ok) {
						c.Direct("decision depends on rule order under an order-insensitive effect", op)
					}
				} else {
					byMultiset[key] = fmt.Sprint(ok)
				}
				c.Count("permutation_checks", 1)
			}
			if c.Evals%9973 == 1 {
				c.Sample(op + " => " + obs)
			}
		}
		rec = func(n int) {
			if len(vec) >= 1 {
				visit()
			}
			if len(vec) == n {
				return
			}
			for cell := 0; cell < 6; cell++ {
				vec = append(vec, cell)
				rec(n)
				vec = vec[:len(vec)-1]
			}
		}
		rec(maxN)
		// the same vectors grown rule by rule on one enforcer that is never cleared or reloaded (rules are taken
		// away with RemovePolicies): a decision after the i-th AddPolicy is the decision of the prefix vector,
		// whatever the enforcer answered while the policy was shorter
		inc, err := casbin.NewEnforcer(c02Model(k.expr))
		if err != nil {
			panic(err)
		}
		var recInc func()
		recInc = func() {
			if len(vec) == 3 {
				if cur, _ := inc.GetPolicy(); len(cur) > 0 {
					_, _ = inc.RemovePolicies(cur)
				}
				for i, cell := range vec {
					_, _ = inc.AddPolicy(cellRule(cell, i))
					names := make([]string, i+1)
					for j := 0; j <= i; j++ {
						names[j] = cellNames[vec[j]]
					}
					ok, explain, err := inc.EnforceEx("alice", "x", "read")
					idx := -1
					if len(explain) > 0 {
						fmt.Sscanf(explain[1], "o%d", &idx)
					}
					obs := fmt.Sprintf("%v %d", ok, idx)
					if err != nil {
						obs = "err"
					}
					c.W.Op(fmt.Sprintf("enfvec %s %s", k.name, strings.Join(names, "")), obs)
					c.Evals++
					c.Count("incremental_vector_calls", 1)
				}
				return
			}
			for cell := 0; cell < 6; cell++ {
				vec = append(vec, cell)
				recInc()
				vec = vec[:len(vec)-1]
			}
		}
		vec = vec[:0]
		recInc()
	}

	// n = 0: the branch enforce() takes on an empty policy, for a request that does not / does satisfy the
	// matcher against the all-empty rule
	for _, k := range effectKinds {
		e, err := casbin.NewEnforcer(c02Model(k.expr))
		if err != nil {
			panic(err)
		}
		for bi, sub := range []string{"alice", ""} {
			ok, err := e.Enforce(sub, "x", "read")
			obs := fmt.Sprint(ok)
			if err != nil {
				obs = "err"
			}
			c.W.Op(fmt.Sprintf("elsevec %s %d", k.name, bi), obs)
			c.Evals++
			c.Count("empty_policy_calls", 1)
		}
		// … and after the last rule has been removed again
		_, _ = e.AddPolicy("alice", "o0", "read", "deny")
		_, _ = e.RemovePolicy("alice", "o0", "read", "deny")
		ok, err := e.Enforce("alice", "x", "read")
		obs := fmt.Sprint(ok)
		if err != nil {
			obs = "err"
		}
		c.W.Op(fmt.Sprintf("elsevec %s 0", k.name), obs)
	}
	// a second effect definition selected through EnforceContext: e2 decides, not e
	for _, ka := range effectKinds {
		for _, kb := range effectKinds {
			if ka.name == kb.name {
				continue
			}
			m := c02Model(ka.expr)
			m.AddDef("e", "e2", kb.expr)
			e, err := casbin.NewEnforcer(m)
			if err != nil {
				panic(err)
			}
			ctx := casbin.EnforceContext{RType: "r", PType: "p", EType: "e2", MType: "m"}
			// the same through the constructor: a complete second set of definitions, selected by NewEnforceContext("2")
			m.AddDef("r", "r2", "sub, obj, act")
			m.AddDef("p", "p2", "sub, obj, act, eft")
			m.AddDef("m", "m2", "r2.sub == p2.sub")
			e2, err := casbin.NewEnforcer(m)
			if err != nil {
				panic(err)
			}
			ctxNew := casbin.NewEnforceContext("2")
			for code := 0; code < 6+36; code++ {
				var vec []int
				if code < 6 {
					vec = []int{code}
				} else {
					vec = []int{(code - 6) / 6, (code - 6) % 6}
				}
				e.ClearPolicy()
				rules := make([][]string, len(vec))
				names := make([]string, len(vec))
				for i, cell := range vec {
					rules[i] = cellRule(cell, i)
					names[i] = cellNames[cell]
				}
				_, _ = e.AddPolicies(rules)
				ok, explain, err := e.EnforceEx(ctx, "alice", "x", "read")
				idx := -1
				if len(explain) > 0 {
					fmt.Sscanf(explain[1], "o%d", &idx)
				}
				obs := fmt.Sprintf("%v %d", ok, idx)
				if err != nil {
					obs = "err"
				}
				c.W.Op(fmt.Sprintf("enfvec %s %s", kb.name, strings.Join(names, "")), obs)
				c.Evals++
				c.Count("second_effect_definition_calls", 1)
				e2.ClearPolicy()
				_, _ = e2.AddNamedPolicies("p2", rules)
				ok, explain, err = e2.EnforceEx(ctxNew, "alice", "x", "read")
				idx = -1
				if len(explain) > 0 {
					fmt.Sscanf(explain[1], "o%d", &idx)
				}
				obs = fmt.Sprintf("%v %d", ok, idx)
				if err != nil {
					obs = "err"
				}
				c.W.Op(fmt.Sprintf("enfvec %s %s", kb.name, strings.Join(names, "")), obs)
				c.Evals++
				c.Count("second_definition_set_calls", 1)
			}
		}
	}

	// the effect column is found by its name, wherever it stands: the same vectors (n <= 3) on a definition that
	// puts it first
	for _, k := range effectKinds {
		m := model.NewModel()
		m.AddDef("r", "r", "sub, obj, act")
		m.AddDef("p", "p", "eft, sub, obj, act")
		m.AddDef("g", "g", "_, _")
		m.AddDef("e", "e", k.expr)
		m.AddDef("m", "m", "r.sub == p.sub")
		e, err := casbin.NewEnforcer(m)
		if err != nil {
			panic(err)
		}
		for code := 0; code < 6+36+216; code++ {
			var vec []int
			switch {
			case code < 6:
				vec = []int{code}
			case code < 42:
				vec = []int{(code - 6) / 6, (code - 6) % 6}
			default:
				x := code - 42
				vec = []int{x / 36, (x / 6) % 6, x % 6}
			}
			e.ClearPolicy()
			rules := make([][]string, len(vec))
			names := make([]string, len(vec))
			for i, cell := range vec {
				r := cellRule(cell, i)
				rules[i] = []string{r[3], r[0], r[1], r[2]}
				names[i] = cellNames[cell]
			}
			_, _ = e.AddPolicies(rules)
			ok, explain, err := e.EnforceEx("alice", "x", "read")
			idx := -1
			if len(explain) > 0 {
				fmt.Sscanf(explain[2], "o%d", &idx)
			}
			obs := fmt.Sprintf("%v %d", ok, idx)
			if err != nil {
				obs = "err"
			}
			c.W.Op(fmt.Sprintf("enfvec %s %s", k.name, strings.Join(names, "")), obs)
			c.Evals++
			c.Count("effect_column_first_calls", 1)
		}
	}

	// an Enforce call made from inside a matcher function (a custom function that consults the enforcer about
	// another subject) runs its own merge pass while the outer one is under way: the outer decision and explanation
	// must be what they are without the nested call (implementation only)
	for _, k := range effectKinds {
		m := c02Model(k.expr)
		m.AddDef("m", "m", "r.sub == p.sub && probe(p.obj)")
		e, err := casbin.NewEnforcer(m)
		if err != nil {
			panic(err)
		}
		nest, depth := false, 0
		e.AddFunction("probe", func(args ...interface{}) (interface{}, error) {
			if nest && depth == 0 {
				depth++
				_, _, _ = e.EnforceEx("bob", "y", "read")
				depth--
			}
			return true, nil
		})
		for code := 0; code < 6+36+216; code++ {
			var vec []int
			switch {
			case code < 6:
				vec = []int{code}
			case code < 42:
				vec = []int{(code - 6) / 6, (code - 6) % 6}
			default:
				x := code - 42
				vec = []int{x / 36, (x / 6) % 6, x % 6}
			}
			e.ClearPolicy()
			rules := make([][]string, len(vec))
			names := make([]string, len(vec))
			for i, cell := range vec {
				rules[i] = cellRule(cell, i)
				names[i] = cellNames[cell]
			}
			_, _ = e.AddPolicies(rules)
			nest = false
			ok0, ex0, err0 := e.EnforceEx("alice", "x", "read")
			nest = true
			ok1, ex1, err1 := e.EnforceEx("alice", "x", "read")
			nest = false
			c.Evals++
			c.Count("nested_enforce_cases", 1)
			if ok0 != ok1 || fmt.Sprint(ex0) != fmt.Sprint(ex1) || (err0 == nil) != (err1 == nil) {
				c.Direct("an Enforce call made from inside a matcher function changes the outer decision or explanation", fmt.Sprintf("effect=%s cells=%s: without the nested call %v %v, with it %v %v", k.name, strings.Join(names, ""), ok0, ex0, ok1, ex1))
			}
		}
	}

	// direct MergeEffects calls on arbitrary (also partially filled) arrays
	eff := effector.NewDefaultEffector()
	toEft := []effector.Effect{effector.Allow, effector.Deny, effector.Indeterminate}
	eftName := map[effector.Effect]string{effector.Allow: "allow", effector.Deny: "deny", effector.Indeterminate: "indeterminate"}
	for _, k := range effectKinds {
		for L := 1; L <= 3; L++ {
			total := 1
			for i := 0; i < L; i++ {
				total *= 6
			}
			for code := 0; code < total; code++ {
				effects := make([]effector.Effect, L)
				matches := make([]float64, L)
				names := make([]string, L)
				x := code
				for i := 0; i < L; i++ {
					cell := x % 6
					x /= 6
					effects[i] = toEft[cell%3]
					if cell < 3 {
						matches[i] = 1
					}
					names[i] = cellNames[cell]
				}
				for idx := 0; idx < L; idx++ {
					r, ex, err := eff.MergeEffects(k.expr, effects, matches, idx, L)
					obs := fmt.Sprintf("%s %d", eftName[r], ex)
					if err != nil {
						obs = "err"
					}
					c.W.Op(fmt.Sprintf("merge %s %d %d %s", k.name, idx, L, strings.Join(names, "")), obs)
					c.Evals++
					c.Count("merge_calls", 1)
				}
			}
		}
	}
	// an unknown effect expression must fail closed
	r, ex, err := eff.MergeEffects("some(where (p_eft == maybe))", []effector.Effect{effector.Allow}, []float64{1}, 0, 1)
	if err == nil || r != effector.Deny || ex != -1 {
		c.Direct("unsupported effect expression does not fail closed", "MergeEffects(some(where (p_eft == maybe)))")
	}
}
