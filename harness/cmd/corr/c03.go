package main

import (
	"fmt"
	"strings"
	"time"

	"github.com/casbin/casbin/v2"
)

func init() { registry["C03"] = runC03 }

// doGuarded records an op executed under the watchdog and checks the fail-closed contract on the observation.
func doGuarded(c *Ctx, s *Sess, o EOp, what string) string {
	obs := s.ExecGuarded(o, 5*time.Second)
	c.W.Op(o.Line(), obs)
	c.Evals++
	switch {
	case obs == "panic":
		c.Direct("a panic escaped from "+what, o.Line())
	case obs == "hang":
		c.Direct(what+" did not return within 5 s", o.Line())
	case obs == "err-but-true":
		c.Direct("an error was reported together with an allow decision", o.Line())
	}
	c.Count("class="+strings.SplitN(obs, " ", 2)[0], 1)
	return obs
}

func runC03(c *Ctx) {
	c.Rule = "structured and malformed streams: (0) Enforce over conditional role graphs with cycles, in a child process (a stack overflow is fatal), and subject-priority loads over large hierarchies (chains of up to 40 diamonds, fully connected clusters, a complete layered DAG) in a child process with a time and address-space limit; (A) every model family of C01 plus built-in-heavy matchers (keyMatch, regexMatch, ipMatch, eval) with requests of wrong arity, non-string values into g() and built-ins, attribute access on strings and missing attributes, unknown EnforceContext names, operands on which built-ins panic, unparsable and self-referential eval() rules; (B) policy text for the file and string adapters assembled from a line alphabet (valid rules, wrong arity, unknown and empty types, quoted / unbalanced / bare quotes, comments, blanks, CRLF, NUL, commas only, an over-long line), under every effect incl. subjectPriority with cyclic role graphs and explicit priority; every call runs under a 5 s watchdog with recover at the harness boundary; the Lean model must predict exactly the class (decision / error) and the loaded rules; arbitrary invalid-UTF-8 bytes are run on the implementation only; non-trivial = a case containing both a successful and a failing call; distinct = case text"
	// ---- (0) conditional role managers (not modelled): cycles must not hang or crash Enforce (child process)
	condCycles(c)
	subjectDags(c)
	// ---- (A) enforcement
	fams := c01Families()
	weird := func(f Family) [][]V {
		n := len(f.MS.R[f.MS.MR[f.MS.MTypes[0]]])
		var out [][]V
		base := make([]V, n)
		for i := range base {
			base[i] = VS("alice")
		}
		out = append(out, []V{}, base[:n-1], append(append([]V(nil), base...), VS("extra")))
		for i := 0; i < n; i++ {
			for _, v := range []V{VN(42), {Kind: "b", B: true}, {Kind: "o", O: map[string]Atom{"Name": {S: "alice"}}}, VS(""), VS("\x00"), VS("a,b"), VS(strings.Repeat("x", 3000))} {
				r := append([]V(nil), base...)
				r[i] = v
				out = append(out, r)
			}
		}
		return out
	}
	for _, f := range fams {
		pol := map[string][][]string{}
		for _, pt := range f.MS.PTypes {
			pol[pt] = f.Rules[pt]
		}
		opts := f.Opts
		if len(opts.OraUniverse) > 0 {
			// the weird request values reach the built-ins too
			opts.OraUniverse = append(append([]string(nil), opts.OraUniverse...), "alice", "", "\x00", "a,b", strings.Repeat("x", 3000), "extra")
		}
		s := StartCase(c, f.MS, opts)
		if s == nil {
			continue
		}
		for _, gt := range f.MS.GTypes {
			if len(f.Links[gt]) > 0 {
				s.Do(c, EOp{Kind: "adds", Sec: "g", PType: gt, Ex: true, Rules: f.Links[gt]})
			}
		}
		for _, pt := range f.MS.PTypes {
			if len(pol[pt]) > 0 {
				s.Do(c, EOp{Kind: "adds", Sec: "p", PType: pt, Ex: true, Rules: pol[pt]})
			}
		}
		okSeen, errSeen := false, false
		for _, req := range append(weird(f), f.Requests...) {
			obs := doGuarded(c, s, EOp{Kind: "enf", Ctx: f.Ctx, Req: req}, "Enforce")
			doGuarded(c, s, EOp{Kind: "enfx", Ctx: f.Ctx, Req: req}, "EnforceEx")
			if obs == "err" {
				errSeen = true
			} else {
				okSeen = true
			}
		}
		for _, ctx := range []casbin.EnforceContext{{RType: "r9", PType: "p", EType: "e", MType: "m"}, {RType: "r", PType: "p9", EType: "e", MType: "m"},
			{RType: "r", PType: "p", EType: "e9", MType: "m"}, {RType: "r", PType: "p", EType: "e", MType: "m9"}, {}} {
			ctx := ctx
			if len(f.Requests) > 0 {
				doGuarded(c, s, EOp{Kind: "enf", Ctx: &ctx, Req: f.Requests[0]}, "Enforce with an unknown context name")
			}
		}
		if okSeen && errSeen {
			c.Nontrivial("enforce|" + f.Name)
		}
		// invalid UTF-8 and raw bytes: implementation only
		for _, raw := range []string{"\xff\xfe", "a\xc3", string([]byte{0, 1, 2, 0xff}), "\xed\xa0\x80"} {
			args := make([]interface{}, len(f.Requests[0]))
			for i := range args {
				args[i] = raw
			}
			func() {
				defer func() {
					if r := recover(); r != nil {
						c.Direct("a panic escaped from Enforce on raw bytes", fmt.Sprintf("family=%s bytes=%q", f.Name, raw))
					}
				}()
				ok, err := s.E.Enforce(args...)
				if err != nil && ok {
					c.Direct("an error was reported together with an allow decision", fmt.Sprintf("family=%s bytes=%q", f.Name, raw))
				}
			}()
			c.Count("raw_byte_requests", 1)
		}
	}
	// built-in-heavy matcher with operands that make built-ins panic or err
	uni := []string{"10.0.0.1", "10.0.0.0/8", "not-an-ip", "/a/b", "/a/*", "(", "a|b", "", "::1", "a"}
	msB := NewMSpec().AddR("r", "sub", "obj", "act").AddP("p", "sub", "obj", "act").AddE("e", effAllow).
		AddM("m", "r", "p", And(Call2("ipMatch", RTok(0), PTok(0)), Call2("keyMatch2", RTok(1), PTok(1)), Call2("regexMatch", RTok(2), PTok(2))))
	for _, rule := range [][]string{{"10.0.0.0/8", "/a/*", "a|b"}, {"not-an-ip", "/a/b", "a|b"}, {"10.0.0.0/8", "/a/b", "("}} {
		s := StartCase(c, msB, CaseOpts{OraUniverse: uni})
		s.Do(c, EOp{Kind: "add", Sec: "p", PType: "p", Rule: rule})
		for _, a := range uni {
			doGuarded(c, s, EOp{Kind: "enf", Req: []V{VS(a), VS("/a/b"), VS("a")}}, "Enforce")
			doGuarded(c, s, EOp{Kind: "enf", Req: []V{VS("10.0.0.1"), VS(a), VS("a")}}, "Enforce")
			doGuarded(c, s, EOp{Kind: "enf", Req: []V{VS("10.0.0.1"), VS("/a/b"), VS(a)}}, "Enforce")
		}
		doGuarded(c, s, EOp{Kind: "enf", Req: []V{VN(1), VN(2), VN(3)}}, "Enforce")
		c.Nontrivial("builtins|" + strings.Join(rule, ","))
	}
	// eval(): unparsable, self-referential and mutually referential rules
	ev := Bin("gt", Attr(0, "Age"), LitN(18))
	ms10 := NewMSpec().AddR("r", "sub", "obj", "act").AddP("p", "sub_rule", "obj", "act").AddE("e", effAllow).
		AddM("m", "r", "p", And(Eval(PTok(0)), Eq(RTok(1), PTok(1))))
	tOK := ev.Text("r", "p", ms10.R["r"], ms10.P["p"])
	self := Eval(PTok(0))
	tSelf := self.Text("r", "p", ms10.R["r"], ms10.P["p"])
	sE := StartCase(c, ms10, CaseOpts{EvalTab: map[string]*Ex{tOK: ev, tSelf: self}})
	for _, r := range [][]string{{tOK, "d1", "read"}, {"this is ( not a matcher", "d2", "read"}, {tSelf, "d3", "read"}} {
		sE.Do(c, EOp{Kind: "add", Sec: "p", PType: "p", Rule: r})
	}
	for _, o := range []string{"d1", "d2", "d3", "d4"} {
		doGuarded(c, sE, EOp{Kind: "enf", Req: []V{{Kind: "o", O: map[string]Atom{"Age": {N: 30, Num: true}}}, VS(o), VS("read")}}, "Enforce with eval()")
	}
	c.Nontrivial("eval")

	// ---- (B) loading
	lineAlpha := []string{"p, alice, data1, read", "p, bob, data2, write, allow", "g, alice, admin", "g, admin, alice", "g, admin, root", "g, bob", "p, alice, data1",
		"x, a, b", ", alice, data1, read", "p, \"a,b\", data1, read", "p, \"unbalanced, data1, read", "p, ba\"re, data1, read", "p, \"x\"y, data1, read",
		"# comment", "", "   ", "p,alice,data1,read\r", "p, a\x00b, data1, read", ",,,", "p", "g, a, b, c, d", "p2, alice, data1", "\"p\", carol, data1, read", "p , dave, data1, read",
		"\" \", bob, data2, write", "\"\t \", x, y, z",
		"p, 1, alice, data1, read, allow", "p, 3, alice, data1, read, deny", "p, -1, bob, data1, read, deny", "p, alice, data1, read, deny"}
	effects := []struct{ name, e string }{{"allow", effAllow}, {"deny", effDeny}, {"allow-and-deny", effAllowDen}, {"priority", effPriority}, {"subject", "subjectPriority(p_eft) || deny"}}
	nTexts := 250
	if c.Thorough() {
		nTexts = 15000
	}
	for i := 0; i < nTexts; i++ {
		ef := effects[c.Rng.Intn(len(effects))]
		ms := NewMSpec().AddR("r", "sub", "obj", "act")
		switch {
		case ef.name == "priority" && c.Rng.Intn(2) == 0:
			ms.AddP("p", "priority", "sub", "obj", "act", "eft")
		case ef.name == "allow":
			ms.AddP("p", "sub", "obj", "act")
		default:
			ms.AddP("p", "sub", "obj", "act", "eft")
		}
		ms.AddG("g", 2).AddE("e", ef.e).AddM("m", "r", "p", And(G2("g", RTok(0), PTok(len(ms.P["p"])-4+0)), Eq(RTok(1), PTok(len(ms.P["p"])-4+1))))
		if len(ms.P["p"]) == 3 {
			ms.M["m"] = And(G2("g", RTok(0), PTok(0)), Eq(RTok(1), PTok(1)))
		} else if ms.P["p"][0] == "priority" {
			ms.M["m"] = And(G2("g", RTok(0), PTok(1)), Eq(RTok(1), PTok(2)))
		} else {
			ms.M["m"] = And(G2("g", RTok(0), PTok(0)), Eq(RTok(1), PTok(1)))
		}
		var lines []string
		for k := 0; k < 1+c.Rng.Intn(7); k++ {
			lines = append(lines, lineAlpha[c.Rng.Intn(len(lineAlpha))])
		}
		sep := "\n"
		if c.Rng.Intn(6) == 0 {
			sep = "\r\n"
		}
		text := strings.Join(lines, sep)
		if c.Rng.Intn(2) == 0 {
			text += "\n"
		}
		if c.Rng.Intn(60) == 0 {
			text += "p, " + strings.Repeat("y", 70000) + ", data1, read\n"
		}
		s := StartCase(c, ms, CaseOpts{})
		if s == nil {
			continue
		}
		kind := []string{"file", "string"}[c.Rng.Intn(2)]
		obs := doGuarded(c, s, EOp{Kind: "loadtext", What: kind, Text: text}, "LoadPolicy through the "+kind+" adapter")
		s.Do(c, EOp{Kind: "obs", Args: []string{"pol", "p", "p"}})
		s.Do(c, EOp{Kind: "obs", Args: []string{"pol", "g", "g"}})
		for _, sub := range []string{"alice", "bob"} {
			doGuarded(c, s, EOp{Kind: "enf", Req: []V{VS(sub), VS("data1"), VS("read")}}, "Enforce after a load")
		}
		c.Count("effect="+ef.name, 1)
		c.Count("adapter="+kind, 1)
		if i%2 == 0 && obs == "ok" || obs == "err" {
			c.Nontrivial(ef.name + "|" + kind + "|" + text)
		}
		if i%37 == 0 {
			c.Sample(fmt.Sprintf("%s adapter, effect %s: %q => %s", kind, ef.name, text[:min(len(text), 120)], obs))
		}
	}
	// raw bytes as policy text: implementation only
	for i := 0; i < nTexts/5; i++ {
		b := make([]byte, 1+c.Rng.Intn(60))
		for k := range b {
			b[k] = []byte{',', '"', '\n', '\r', '#', ' ', 'p', 'g', 'a', 0, 0xff, 0xc3, '2'}[c.Rng.Intn(13)]
		}
		ms := rbacSpec(false, false)
		s := StartCaseQuiet(ms, CaseOpts{})
		for _, kind := range []string{"file", "string"} {
			obs := s.ExecGuarded(EOp{Kind: "loadtext", What: kind, Text: string(b)}, 5*time.Second)
			if obs == "panic" || obs == "hang" {
				c.Direct("loading raw bytes through the "+kind+" adapter: "+obs, fmt.Sprintf("%q", string(b)))
			}
			c.Count("raw_byte_loads", 1)
		}
	}
}
