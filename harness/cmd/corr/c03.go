package main

import (
	"fmt"
	"strings"
	"time"

	"github.com/casbin/casbin/v2"
)

func init() { registry["C03"] = runC03 }

// doGuarded records an op executed under the watchdog and checks the fail-closed contract on the observation.
func doGuarded(c *Ctx, s *Sess, o EOp, what string) string {
	obs := s.ExecGuarded(o, 5*time.Second)
	c.W.Op(o.Line(), obs)
	c.Evals++
	switch {
	case obs == "panic":
		c.Direct("a panic escaped from "+what, o.Line())
	case obs == "hang":
		c.Direct(what+" did not return within 5 s", o.Line())
	case obs == "err-but-true":
		c.Direct("an error was reported together with an allow decision", o.Line())
	}
	c.Count("class="+strings.SplitN(obs, " ", 2)[0], 1)
	return obs
}

func runC03(c *Ctx) {
	c.Rule = "structured and malformed streams: (0) Enforce over conditional role graphs with cycles, in a child process (a stack overflow is fatal), and subject-priority loads over large hierarchies (chains of up to 40 diamonds, fully connected clusters, a complete layered DAG) in a child process with a time and address-space limit; (A) every model family of C01 plus built-in-heavy matchers (keyMatch, regexMatch, ipMatch, eval) with requests of wrong arity, non-string values into g() and built-ins, attribute access on strings and missing attributes, unknown EnforceContext names, operands on which built-ins panic, unparsable and self-referential eval() rules, and for the pattern built-ins keyMatch2-5, keyGet2-3, regexMatch and globMatch a pattern that does not compile followed by well-formed requests on the same and on a fresh enforcer; (B) policy text for the file and string adapters assembled from a line alphabet (valid rules, wrong arity, unknown and empty types, quoted / unbalanced / bare quotes, comments, blanks, CRLF, NUL, commas only, an over-long line), under every effect incl. subjectPriority with cyclic role graphs and explicit priority, every third model with a second, shorter policy definition p2; every generated Enforce / load call runs under a 5 s watchdog with recover at the harness boundary (set-up calls of a case under recover only); a systematic pass loads, for every effect, each column layout of p (plain, with eft, first column called user; priority first / last under the priority effect) with p2 lines through the file and the string adapter; the Lean model must predict exactly the class (decision / error) and the loaded rules; arbitrary invalid-UTF-8 bytes are run on the implementation only; non-trivial = a case containing both a successful and a failing call; distinct = case text"
	// ---- (0) conditional role managers (not modelled): cycles must not hang or crash Enforce (child process)
	condCycles(c)
	subjectDags(c)
	c03PatternLoads(c)
	// ---- (A) enforcement
	fams := c01Families()
	weird := func(f Family) [][]V {
		n := len(f.MS.R[f.MS.MR[f.MS.MTypes[0]]])
		var out [][]V
		base := make([]V, n)
		for i := range base {
			base[i] = VS("alice")
		}
		out = append(out, []V{}, base[:n-1], append(append([]V(nil), base...), VS("extra")))
		for i := 0; i < n; i++ {
			for _, v := range []V{VN(42), {Kind: "b", B: true}, {Kind: "o", O: map[string]Atom{"Name": {S: "alice"}}}, VS(""), VS("\x00"), VS("a,b"), VS(strings.Repeat("x", 3000))} {
				r := append([]V(nil), base...)
				r[i] = v
				out = append(out, r)
			}
		}
		return out
	}
	for _, f := range fams {
		pol := map[string][][]string{}
		for _, pt := range f.MS.PTypes {
			pol[pt] = f.Rules[pt]
		}
		opts := f.Opts
		if len(opts.OraUniverse) > 0 {
			// the weird request values reach the built-ins too
			opts.OraUniverse = append(append([]string(nil), opts.OraUniverse...), "alice", "", "\x00", "a,b", strings.Repeat("x", 3000), "extra")
		}
		s := StartCase(c, f.MS, opts)
		if s == nil {
			continue
		}
		for _, gt := range f.MS.GTypes {
			if len(f.Links[gt]) > 0 {
				s.Do(c, EOp{Kind: "adds", Sec: "g", PType: gt, Ex: true, Rules: f.Links[gt]})
			}
		}
		for _, pt := range f.MS.PTypes {
			if len(pol[pt]) > 0 {
				s.Do(c, EOp{Kind: "adds", Sec: "p", PType: pt, Ex: true, Rules: pol[pt]})
			}
		}
		okSeen, errSeen := false, false
		for _, req := range append(weird(f), f.Requests...) {
			obs := doGuarded(c, s, EOp{Kind: "enf", Ctx: f.Ctx, Req: req}, "Enforce")
			doGuarded(c, s, EOp{Kind: "enfx", Ctx: f.Ctx, Req: req}, "EnforceEx")
			if obs == "err" {
				errSeen = true
			} else {
				okSeen = true
			}
		}
		for _, ctx := range []casbin.EnforceContext{{RType: "r9", PType: "p", EType: "e", MType: "m"}, {RType: "r", PType: "p9", EType: "e", MType: "m"},
			{RType: "r", PType: "p", EType: "e9", MType: "m"}, {RType: "r", PType: "p", EType: "e", MType: "m9"}, {}} {
			ctx := ctx
			if len(f.Requests) > 0 {
				doGuarded(c, s, EOp{Kind: "enf", Ctx: &ctx, Req: f.Requests[0]}, "Enforce with an unknown context name")
			}
		}
		if okSeen && errSeen {
			c.Nontrivial("enforce|" + f.Name)
		}
		// invalid UTF-8 and raw bytes: implementation only
		for _, raw := range []string{"\xff\xfe", "a\xc3", string([]byte{0, 1, 2, 0xff}), "\xed\xa0\x80"} {
			args := make([]interface{}, len(f.Requests[0]))
			for i := range args {
				args[i] = raw
			}
			func() {
				defer func() {
					if r := recover(); r != nil {
						c.Direct("a panic escaped from Enforce on raw bytes", fmt.Sprintf("family=%s bytes=%q", f.Name, raw))
					}
				}()
				ok, err := s.E.Enforce(args...)
				if err != nil && ok {
					c.Direct("an error was reported together with an allow decision", fmt.Sprintf("family=%s bytes=%q", f.Name, raw))
				}
			}()
			c.Count("raw_byte_requests", 1)
		}
	}
	// built-in-heavy matcher with operands that make built-ins panic or err
	uni := []string{"10.0.0.1", "10.0.0.0/8", "not-an-ip", "/a/b", "/a/*", "(", "a|b", "", "::1", "a"}
	msB := NewMSpec().AddR("r", "sub", "obj", "act").AddP("p", "sub", "obj", "act").AddE("e", effAllow).
		AddM("m", "r", "p", And(Call2("ipMatch", RTok(0), PTok(0)), Call2("keyMatch2", RTok(1), PTok(1)), Call2("regexMatch", RTok(2), PTok(2))))
	for _, rule := range [][]string{{"10.0.0.0/8", "/a/*", "a|b"}, {"not-an-ip", "/a/b", "a|b"}, {"10.0.0.0/8", "/a/b", "("}} {
		s := StartCase(c, msB, CaseOpts{OraUniverse: uni})
		s.Do(c, EOp{Kind: "add", Sec: "p", PType: "p", Rule: rule})
		for _, a := range uni {
			doGuarded(c, s, EOp{Kind: "enf", Req: []V{VS(a), VS("/a/b"), VS("a")}}, "Enforce")
			doGuarded(c, s, EOp{Kind: "enf", Req: []V{VS("10.0.0.1"), VS(a), VS("a")}}, "Enforce")
			doGuarded(c, s, EOp{Kind: "enf", Req: []V{VS("10.0.0.1"), VS("/a/b"), VS(a)}}, "Enforce")
		}
		doGuarded(c, s, EOp{Kind: "enf", Req: []V{VN(1), VN(2), VN(3)}}, "Enforce")
		c.Nontrivial("builtins|" + strings.Join(rule, ","))
	}
	// eval(): unparsable, self-referential and mutually referential rules
	ev := Bin("gt", Attr(0, "Age"), LitN(18))
	ms10 := NewMSpec().AddR("r", "sub", "obj", "act").AddP("p", "sub_rule", "obj", "act").AddE("e", effAllow).
		AddM("m", "r", "p", And(Eval(PTok(0)), Eq(RTok(1), PTok(1))))
	tOK := ev.Text("r", "p", ms10.R["r"], ms10.P["p"])
	self := Eval(PTok(0))
	tSelf := self.Text("r", "p", ms10.R["r"], ms10.P["p"])
	sE := StartCase(c, ms10, CaseOpts{EvalTab: map[string]*Ex{tOK: ev, tSelf: self}})
	for _, r := range [][]string{{tOK, "d1", "read"}, {"this is ( not a matcher", "d2", "read"}, {tSelf, "d3", "read"}} {
		sE.Do(c, EOp{Kind: "add", Sec: "p", PType: "p", Rule: r})
	}
	for _, o := range []string{"d1", "d2", "d3", "d4"} {
		doGuarded(c, sE, EOp{Kind: "enf", Req: []V{{Kind: "o", O: map[string]Atom{"Age": {N: 30, Num: true}}}, VS(o), VS("read")}}, "Enforce with eval()")
	}
	c.Nontrivial("eval")

	// ---- (B) loading
	lineAlpha := []string{"p, alice, data1, read", "p, bob, data2, write, allow", "g, alice, admin", "g, admin, alice", "g, admin, root", "g, bob", "p, alice, data1",
		"x, a, b", ", alice, data1, read", "p, \"a,b\", data1, read", "p, \"unbalanced, data1, read", "p, ba\"re, data1, read", "p, \"x\"y, data1, read",
		"# comment", "", "   ", "p,alice,data1,read\r", "p, a\x00b, data1, read", ",,,", "p", "g, a, b, c, d", "p2, alice, data1", "\"p\", carol, data1, read", "p , dave, data1, read",
		"\" \", bob, data2, write", "\"\t \", x, y, z",
		"p, 1, alice, data1, read, allow", "p, 3, alice, data1, read, deny", "p, -1, bob, data1, read, deny", "p, alice, data1, read, deny",
		"p2, alice, read", "p2, bob, write", "p2, carol, read"}
	effects := []struct{ name, e string }{{"allow", effAllow}, {"deny", effDeny}, {"allow-and-deny", effAllowDen}, {"priority", effPriority}, {"subject", "subjectPriority(p_eft) || deny"}}
	nTexts := 250
	if c.Thorough() {
		nTexts = 15000
	}
	// every effect x every layout of p, with a second policy definition that has fewer columns than p and
	// several rules (the load-time sorts compare rules pairwise): the load succeeds and p2 is left in file order
	for _, ef := range effects {
		for _, layout := range [][]string{{"sub", "obj", "act"}, {"sub", "obj", "act", "eft"}, {"priority", "sub", "obj", "act", "eft"}, {"sub", "obj", "act", "eft", "priority"},
			{"user", "obj", "act", "eft"}} { // the first column is the subject whatever it is called
			if layout[0] == "priority" || layout[len(layout)-1] == "priority" {
				if ef.name != "priority" {
					continue
				}
			}
			ms := NewMSpec().AddR("r", "sub", "obj", "act").AddP("p", layout...).AddP("p2", "sub", "act").AddG("g", 2).AddE("e", ef.e)
			off := 0
			if layout[0] == "priority" {
				off = 1
			}
			ms.AddM("m", "r", "p", And(G2("g", RTok(0), PTok(off)), Eq(RTok(1), PTok(off+1))))
			rule := func(prio, sub, obj, act, eft string) string {
				f := []string{"p"}
				for _, col := range layout {
					f = append(f, map[string]string{"priority": prio, "sub": sub, "user": sub, "obj": obj, "act": act, "eft": eft}[col])
				}
				return strings.Join(f, ", ")
			}
			text := strings.Join([]string{rule("3", "alice", "data1", "read", "deny"), rule("1", "admin", "data1", "read", "allow"),
				"p2, zoe, write", "p2, alice, read", "p2, bob, write", "p2, alice, write", "g, alice, admin", "g, admin, root"}, "\n") + "\n"
			for _, kind := range []string{"file", "string"} {
				s := StartCase(c, ms, CaseOpts{})
				if s == nil {
					continue
				}
				doGuarded(c, s, EOp{Kind: "loadtext", What: kind, Text: text}, "LoadPolicy through the "+kind+" adapter with a second, shorter policy definition")
				s.Do(c, EOp{Kind: "obs", Args: []string{"pol", "p", "p"}})
				s.Do(c, EOp{Kind: "obs", Args: []string{"pol", "p", "p2"}})
				for _, sub := range []string{"alice", "bob"} {
					doGuarded(c, s, EOp{Kind: "enf", Req: []V{VS(sub), VS("data1"), VS("read")}}, "Enforce after a load")
				}
				c.Count("second_definition_loads", 1)
			}
		}
	}
	for i := 0; i < nTexts; i++ {
		ef := effects[c.Rng.Intn(len(effects))]
		ms := NewMSpec().AddR("r", "sub", "obj", "act")
		switch {
		case ef.name == "priority" && c.Rng.Intn(2) == 0:
			ms.AddP("p", "priority", "sub", "obj", "act", "eft")
		case ef.name == "allow":
			ms.AddP("p", "sub", "obj", "act")
		default:
			ms.AddP("p", "sub", "obj", "act", "eft")
		}
		ms.AddG("g", 2).AddE("e", ef.e).AddM("m", "r", "p", And(G2("g", RTok(0), PTok(len(ms.P["p"])-4+0)), Eq(RTok(1), PTok(len(ms.P["p"])-4+1))))
		if len(ms.P["p"]) == 3 {
			ms.M["m"] = And(G2("g", RTok(0), PTok(0)), Eq(RTok(1), PTok(1)))
		} else if ms.P["p"][0] == "priority" {
			ms.M["m"] = And(G2("g", RTok(0), PTok(1)), Eq(RTok(1), PTok(2)))
		} else {
			ms.M["m"] = And(G2("g", RTok(0), PTok(0)), Eq(RTok(1), PTok(1)))
		}
		// every third model has a second, shorter policy definition without eft / priority columns: the
		// load-time sorts must leave it alone whatever p looks like
		if i%3 == 2 {
			ms.AddP("p2", "sub", "act")
		}
		var lines []string
		for k := 0; k < 1+c.Rng.Intn(7); k++ {
			lines = append(lines, lineAlpha[c.Rng.Intn(len(lineAlpha))])
		}
		sep := "\n"
		if c.Rng.Intn(6) == 0 {
			sep = "\r\n"
		}
		text := strings.Join(lines, sep)
		if c.Rng.Intn(2) == 0 {
			text += "\n"
		}
		if c.Rng.Intn(60) == 0 {
			text += "p, " + strings.Repeat("y", 70000) + ", data1, read\n"
		}
		s := StartCase(c, ms, CaseOpts{})
		if s == nil {
			continue
		}
		kind := []string{"file", "string"}[c.Rng.Intn(2)]
		obs := doGuarded(c, s, EOp{Kind: "loadtext", What: kind, Text: text}, "LoadPolicy through the "+kind+" adapter")
		s.Do(c, EOp{Kind: "obs", Args: []string{"pol", "p", "p"}})
		s.Do(c, EOp{Kind: "obs", Args: []string{"pol", "g", "g"}})
		if i%3 == 2 {
			s.Do(c, EOp{Kind: "obs", Args: []string{"pol", "p", "p2"}})
		}
		for _, sub := range []string{"alice", "bob"} {
			doGuarded(c, s, EOp{Kind: "enf", Req: []V{VS(sub), VS("data1"), VS("read")}}, "Enforce after a load")
		}
		c.Count("effect="+ef.name, 1)
		c.Count("adapter="+kind, 1)
		if i%2 == 0 && obs == "ok" || obs == "err" {
			c.Nontrivial(ef.name + "|" + kind + "|" + text)
		}
		if i%37 == 0 {
			c.Sample(fmt.Sprintf("%s adapter, effect %s: %q => %s", kind, ef.name, text[:min(len(text), 120)], obs))
		}
	}
	// raw bytes as policy text: implementation only
	for i := 0; i < nTexts/5; i++ {
		b := make([]byte, 1+c.Rng.Intn(60))
		for k := range b {
			b[k] = []byte{',', '"', '\n', '\r', '#', ' ', 'p', 'g', 'a', 0, 0xff, 0xc3, '2'}[c.Rng.Intn(13)]
		}
		ms := rbacSpec(false, false)
		s := StartCaseQuiet(ms, CaseOpts{})
		for _, kind := range []string{"file", "string"} {
			obs := s.ExecGuarded(EOp{Kind: "loadtext", What: kind, Text: string(b)}, 5*time.Second)
			if obs == "panic" || obs == "hang" {
				c.Direct("loading raw bytes through the "+kind+" adapter: "+obs, fmt.Sprintf("%q", string(b)))
			}
			c.Count("raw_byte_loads", 1)
		}
	}
	c03AfterRejectedPattern(c)
}

// c03AfterRejectedPattern: a call that was rejected must not poison the calls after it.  The pattern built-ins
// that compile their second argument (keyMatch4, keyGet2, keyGet3 through a process-wide cache; regexMatch,
// keyMatch2/3 directly) get a pattern that does not compile, then the same and a fresh enforcer are asked
// requests that only meet well-formed patterns: each call returns within the watchdog and decides as the
// reference says.  Implementation only; last in the run because a poisoned process-wide lock would stall
// everything after it.
func c03AfterRejectedPattern(c *Ctx) {
	type tc struct {
		name, matcher string
		bad, good     []string
		reqBad, req   []interface{}
	}
	cases := []tc{
		{"keyMatch4", "r.sub == p.sub && keyMatch4(r.obj, p.obj) && r.act == p.act", []string{"alice", "/res/{id}/(", "read"}, []string{"alice", "/ok/{id}", "read"}, []interface{}{"alice", "/res/1/x", "read"}, []interface{}{"alice", "/ok/1", "read"}},
		{"keyGet2", "r.sub == p.sub && keyGet2(r.obj, p.obj, 'id') == '1' && r.act == p.act", []string{"alice", "/res/:id/(", "read"}, []string{"alice", "/ok/:id", "read"}, []interface{}{"alice", "/res/1/x", "read"}, []interface{}{"alice", "/ok/1", "read"}},
		{"keyGet3", "r.sub == p.sub && keyGet3(r.obj, p.obj, 'id') == '1' && r.act == p.act", []string{"alice", "/res/{id}/(", "read"}, []string{"alice", "/ok/{id}", "read"}, []interface{}{"alice", "/res/1/x", "read"}, []interface{}{"alice", "/ok/1", "read"}},
		{"regexMatch", "r.sub == p.sub && regexMatch(r.obj, p.obj) && r.act == p.act", []string{"alice", "/res/(", "read"}, []string{"alice", "/ok/[0-9]+", "read"}, []interface{}{"alice", "/res/1", "read"}, []interface{}{"alice", "/ok/1", "read"}},
		{"keyMatch2", "r.sub == p.sub && keyMatch2(r.obj, p.obj) && r.act == p.act", []string{"alice", "/res/:id/(", "read"}, []string{"alice", "/ok/:id", "read"}, []interface{}{"alice", "/res/1/x", "read"}, []interface{}{"alice", "/ok/1", "read"}},
		{"keyMatch3", "r.sub == p.sub && keyMatch3(r.obj, p.obj) && r.act == p.act", []string{"alice", "/res/{id}/(", "read"}, []string{"alice", "/ok/{id}", "read"}, []interface{}{"alice", "/res/1/x", "read"}, []interface{}{"alice", "/ok/1", "read"}},
		{"keyMatch5", "r.sub == p.sub && keyMatch5(r.obj, p.obj) && r.act == p.act", []string{"alice", "/res/{id}/(", "read"}, []string{"alice", "/ok/{id}", "read"}, []interface{}{"alice", "/res/1/x?a=1", "read"}, []interface{}{"alice", "/ok/1?a=1", "read"}},
		{"globMatch", "r.sub == p.sub && globMatch(r.obj, p.obj) && r.act == p.act", []string{"alice", "/res/[", "read"}, []string{"alice", "/ok/*", "read"}, []interface{}{"alice", "/res/1", "read"}, []interface{}{"alice", "/ok/1", "read"}},
	}
	enforce := func(e *casbin.Enforcer, req []interface{}) string {
		type res struct {
			ok  bool
			err error
		}
		ch := make(chan res, 1)
		go func() {
			defer func() {
				if r := recover(); r != nil {
					ch <- res{false, fmt.Errorf("escaped-panic: %v", r)}
				}
			}()
			ok, err := e.Enforce(req...)
			ch <- res{ok, err}
		}()
		select {
		case r := <-ch:
			if r.err != nil && strings.HasPrefix(r.err.Error(), "escaped-panic:") {
				return "panic"
			}
			if r.err != nil {
				if r.ok {
					return "err-but-true"
				}
				return "err"
			}
			return fmt.Sprint(r.ok)
		case <-time.After(5 * time.Second):
			return "hang"
		}
	}
	for _, t := range cases {
		text := strings.Replace(rbacText, "m = g(r.sub, p.sub) && r.obj == p.obj && r.act == p.act", "m = "+t.matcher, 1)
		if !strings.Contains(text, t.matcher) {
			panic("c03AfterRejectedPattern: matcher line not found")
		}
		e, err := casbin.NewEnforcer(mustModel(text))
		if err != nil {
			panic(err)
		}
		_, _ = e.AddPolicy(t.bad)
		_, _ = e.AddPolicy(t.good)
		first := enforce(e, t.reqBad)
		again := enforce(e, t.reqBad)
		fresh, _ := casbin.NewEnforcer(mustModel(text))
		_, _ = fresh.AddPolicy(t.good)
		after := enforce(fresh, t.req)
		c.Evals += 3
		c.Count("after_rejected_pattern_cases", 1)
		what := fmt.Sprintf("%s: rule %v (pattern does not compile) and rule %v; Enforce%v = %s, again = %s; then on a fresh enforcer holding only the good rule Enforce%v = %s", t.name, t.bad, t.good, t.reqBad, first, again, t.req, after)
		for _, o := range []string{first, again, after} {
			if o == "panic" || o == "hang" || o == "err-but-true" {
				c.Direct("a call after (or on) a pattern that does not compile panics, hangs or allows with an error", what)
			}
		}
		if first != again {
			c.Direct("the same request on the same state is classified differently the second time", what)
		}
		if after != "true" {
			c.Direct("a rejected pattern in one enforcer changes what another enforcer decides on well-formed patterns", what)
		}
		c.Nontrivial("after-rejected|" + t.name)
	}
}
