package main

import (
	"context"
	"fmt"
	"os"
	"os/exec"
	"strings"
	"syscall"
	"time"

	"github.com/casbin/casbin/v2"

	"verif/harness/internal/mem"
)

// Subject-priority loads over large role hierarchies, in a child process with an address-space limit: a
// level-order walk that queues a subject once per path needs 2^n queue entries on a chain of n diamonds
// (D3b) and does not come back on a dense cycle.  Every load must return within the time limit and the
// most specific subject's rule must decide.

const rbacDomText = "[request_definition]\nr = sub, dom, obj, act\n[policy_definition]\np = sub, dom, obj, act\n[role_definition]\ng = _, _, _\n[policy_effect]\ne = some(where (p.eft == allow))\n[matchers]\nm = g(r.sub, p.sub, r.dom) && r.dom == p.dom && r.obj == p.obj && r.act == p.act\n"

func subjectDagChild() int {
	_ = syscall.Setrlimit(syscall.RLIMIT_AS, &syscall.Rlimit{Cur: 6 << 30, Max: 6 << 30})
	type tc struct {
		name string
		a    *mem.Adapter
		req  []interface{}
		want bool
	}
	var cases []tc
	for _, n := range []int{8, 24, 40} {
		cases = append(cases, tc{fmt.Sprintf("chain of %d diamonds", n), diamondChain(n), []interface{}{fmt.Sprintf("n%d", n), "d", "read"}, true})
	}
	// a fully connected cluster of k subjects below a root (every pair linked both ways)
	for _, k := range []int{6, 10, 14} {
		a := mem.New()
		for i := 0; i < k; i++ {
			a.Lines = append(a.Lines, mem.Line{PType: "g", Rule: []string{fmt.Sprintf("c%d", i), "root"}})
			for j := 0; j < k; j++ {
				if i != j {
					a.Lines = append(a.Lines, mem.Line{PType: "g", Rule: []string{fmt.Sprintf("c%d", i), fmt.Sprintf("c%d", j)}})
				}
			}
		}
		a.Lines = append(a.Lines, mem.Line{PType: "p", Rule: []string{"root", "d", "read", "allow"}})
		cases = append(cases, tc{fmt.Sprintf("fully connected cluster of %d subjects below a root", k), a, []interface{}{"root", "d", "read"}, true})
	}
	// a wide layered DAG: 6 layers of 12 subjects, every subject below every subject of the layer above
	{
		a := mem.New()
		for l := 1; l < 6; l++ {
			for i := 0; i < 12; i++ {
				for j := 0; j < 12; j++ {
					a.Lines = append(a.Lines, mem.Line{PType: "g", Rule: []string{fmt.Sprintf("l%d_%d", l, i), fmt.Sprintf("l%d_%d", l-1, j)}})
				}
			}
		}
		for j := 0; j < 12; j++ {
			a.Lines = append(a.Lines, mem.Line{PType: "g", Rule: []string{fmt.Sprintf("l0_%d", j), "top"}})
		}
		a.Lines = append(a.Lines, mem.Line{PType: "p", Rule: []string{"top", "d", "read", "deny"}}, mem.Line{PType: "p", Rule: []string{"l5_3", "d", "read", "allow"}})
		cases = append(cases, tc{"layered DAG 6 x 12, complete between layers", a, []interface{}{"l5_3", "d", "read"}, true})
	}
	for _, t := range cases {
		start := time.Now()
		e, err := casbin.NewEnforcer(mustModel(subjectPriorityText()), t.a)
		if err != nil {
			fmt.Printf("FAIL %s: load error %v\n", t.name, err)
			return 1
		}
		ok, err := e.Enforce(t.req...)
		if err != nil || ok != t.want {
			fmt.Printf("FAIL %s: Enforce%v = %v, %v; want %v\n", t.name, t.req, ok, err, t.want)
			return 1
		}
		fmt.Printf("done %s in %v\n", t.name, time.Since(start).Round(time.Millisecond))
	}
	// plain RBAC over dense role graphs, requests whose answer needs every path ruled out: g() must come back
	// (the role manager's search is level by level, each name once per level; a search that follows every path
	// needs 11^10 steps on a clique of 12)
	for _, dom := range []bool{false, true} {
		rule := func(f ...string) []string {
			if dom && len(f) == 2 {
				return append(f, "d1")
			}
			if dom {
				return append([]string{f[0], "d1"}, f[1:]...)
			}
			return f
		}
		text := rbacText
		if dom {
			text = rbacDomText
		}
		a := mem.New()
		for i := 0; i < 12; i++ {
			for j := 0; j < 12; j++ {
				if i != j {
					a.Lines = append(a.Lines, mem.Line{PType: "g", Rule: rule(fmt.Sprintf("team%d", i), fmt.Sprintf("team%d", j))})
				}
			}
		}
		// ten complete layers of five
		for l := 1; l < 10; l++ {
			for i := 0; i < 5; i++ {
				for j := 0; j < 5; j++ {
					a.Lines = append(a.Lines, mem.Line{PType: "g", Rule: rule(fmt.Sprintf("k%d_%d", l, i), fmt.Sprintf("k%d_%d", l-1, j))})
				}
			}
		}
		a.Lines = append(a.Lines, mem.Line{PType: "g", Rule: rule("alice", "team0")}, mem.Line{PType: "g", Rule: rule("bob", "k9_0")},
			mem.Line{PType: "p", Rule: rule("team7", "data2", "write")}, mem.Line{PType: "p", Rule: rule("auditor", "data1", "read")},
			mem.Line{PType: "p", Rule: rule("k0_3", "data3", "read")})
		start := time.Now()
		e, err := casbin.NewEnforcer(mustModel(text), a)
		if err != nil {
			fmt.Printf("FAIL dense graph: load error %v\n", err)
			return 1
		}
		req := func(f ...string) []interface{} {
			f = rule(f...)
			out := make([]interface{}, len(f))
			for i, x := range f {
				out[i] = x
			}
			return out
		}
		for _, t := range []struct {
			r    []interface{}
			want bool
		}{{req("alice", "data1", "read"), false}, {req("alice", "data2", "write"), true}, {req("bob", "data1", "read"), false}, {req("bob", "data3", "read"), true}, {req("team3", "data1", "read"), false}} {
			ok, err := e.Enforce(t.r...)
			if err != nil || ok != t.want {
				fmt.Printf("FAIL dense role graph (domains=%v): Enforce%v = %v, %v; want %v\n", dom, t.r, ok, err, t.want)
				return 1
			}
		}
		var domArg []string
		if dom {
			domArg = []string{"d1"}
		}
		if _, err := e.GetImplicitRolesForUser("alice", domArg...); err != nil {
			fmt.Printf("FAIL dense role graph: GetImplicitRolesForUser: %v\n", err)
			return 1
		}
		fmt.Printf("done dense role graphs (domains=%v) in %v\n", dom, time.Since(start).Round(time.Millisecond))
	}
	fmt.Println("OK")
	return 0
}

func subjectDags(c *Ctx) {
	ctx, cancel := context.WithTimeout(context.Background(), 25*time.Second)
	defer cancel()
	cmd := exec.CommandContext(ctx, os.Args[0], "child:subjectdag", "quick", "0", os.TempDir())
	out, err := cmd.CombinedOutput()
	c.Evals++
	c.Count("subject_dag_child_runs", 1)
	if err != nil || !strings.Contains(string(out), "OK") {
		tail := string(out)
		if len(tail) > 800 {
			tail = tail[len(tail)-800:]
		}
		c.Direct("a load or a decision over a large role hierarchy (subject-priority order, dense role graphs) hangs, runs out of memory or decides wrongly", fmt.Sprintf("child exit: %v (25 s limit, 6 GiB address space)\n%s", err, tail))
	}
}
