package main

import (
	"context"
	"fmt"
	"os"
	"os/exec"
	"strings"
	"syscall"
	"time"

	"github.com/casbin/casbin/v2"

	"verif/harness/internal/mem"
)

// Subject-priority loads over large role hierarchies, in a child process with an address-space limit: a
// level-order walk that queues a subject once per path needs 2^n queue entries on a chain of n diamonds
// (D3b) and does not come back on a dense cycle.  Every load must return within the time limit and the
// most specific subject's rule must decide.

func subjectDagChild() int {
	_ = syscall.Setrlimit(syscall.RLIMIT_AS, &syscall.Rlimit{Cur: 6 << 30, Max: 6 << 30})
	type tc struct {
		name string
		a    *mem.Adapter
		req  []interface{}
		want bool
	}
	var cases []tc
	for _, n := range []int{8, 24, 40} {
		cases = append(cases, tc{fmt.Sprintf("chain of %d diamonds", n), diamondChain(n), []interface{}{fmt.Sprintf("n%d", n), "d", "read"}, true})
	}
	// a fully connected cluster of k subjects below a root (every pair linked both ways)
	for _, k := range []int{6, 10, 14} {
		a := mem.New()
		for i := 0; i < k; i++ {
			a.Lines = append(a.Lines, mem.Line{PType: "g", Rule: []string{fmt.Sprintf("c%d", i), "root"}})
			for j := 0; j < k; j++ {
				if i != j {
					a.Lines = append(a.Lines, mem.Line{PType: "g", Rule: []string{fmt.Sprintf("c%d", i), fmt.Sprintf("c%d", j)}})
				}
			}
		}
		a.Lines = append(a.Lines, mem.Line{PType: "p", Rule: []string{"root", "d", "read", "allow"}})
		cases = append(cases, tc{fmt.Sprintf("fully connected cluster of %d subjects below a root", k), a, []interface{}{"root", "d", "read"}, true})
	}
	// a wide layered DAG: 6 layers of 12 subjects, every subject below every subject of the layer above
	{
		a := mem.New()
		for l := 1; l < 6; l++ {
			for i := 0; i < 12; i++ {
				for j := 0; j < 12; j++ {
					a.Lines = append(a.Lines, mem.Line{PType: "g", Rule: []string{fmt.Sprintf("l%d_%d", l, i), fmt.Sprintf("l%d_%d", l-1, j)}})
				}
			}
		}
		for j := 0; j < 12; j++ {
			a.Lines = append(a.Lines, mem.Line{PType: "g", Rule: []string{fmt.Sprintf("l0_%d", j), "top"}})
		}
		a.Lines = append(a.Lines, mem.Line{PType: "p", Rule: []string{"top", "d", "read", "deny"}}, mem.Line{PType: "p", Rule: []string{"l5_3", "d", "read", "allow"}})
		cases = append(cases, tc{"layered DAG 6 x 12, complete between layers", a, []interface{}{"l5_3", "d", "read"}, true})
	}
	for _, t := range cases {
		start := time.Now()
		e, err := casbin.NewEnforcer(mustModel(subjectPriorityText()), t.a)
		if err != nil {
			fmt.Printf("FAIL %s: load error %v\n", t.name, err)
			return 1
		}
		ok, err := e.Enforce(t.req...)
		if err != nil || ok != t.want {
			fmt.Printf("FAIL %s: Enforce%v = %v, %v; want %v\n", t.name, t.req, ok, err, t.want)
			return 1
		}
		fmt.Printf("done %s in %v\n", t.name, time.Since(start).Round(time.Millisecond))
	}
	fmt.Println("OK")
	return 0
}

func subjectDags(c *Ctx) {
	ctx, cancel := context.WithTimeout(context.Background(), 25*time.Second)
	defer cancel()
	cmd := exec.CommandContext(ctx, os.Args[0], "child:subjectdag", "quick", "0", os.TempDir())
	out, err := cmd.CombinedOutput()
	c.Evals++
	c.Count("subject_dag_child_runs", 1)
	if err != nil || !strings.Contains(string(out), "OK") {
		tail := string(out)
		if len(tail) > 800 {
			tail = tail[len(tail)-800:]
		}
		c.Direct("a subject-priority load over a large role hierarchy hangs, runs out of memory or decides wrongly", fmt.Sprintf("child exit: %v (25 s limit, 6 GiB address space)\n%s", err, tail))
	}
}
