package main

import (
	"fmt"
	"os"
	"time"

	"github.com/casbin/casbin/v2"
	fileadapter "github.com/casbin/casbin/v2/persist/file-adapter"
	stringadapter "github.com/casbin/casbin/v2/persist/string-adapter"
	"github.com/casbin/casbin/v2/util"
)

// Loading with a pattern built-in registered as the role manager's matching function (and as its domain
// matching function): names that are not valid patterns in a grouping line.  LoadPolicy through the string and
// the file adapter must return nil or an error, never panic or hang, and after an error the listed rules and
// the decisions are what they were (implementation only; defect D43 was found here).
func c03PatternLoads(c *Ctx) {
	fns := map[string]func(string, string) bool{
		"keyMatch": util.KeyMatch, "keyMatch2": util.KeyMatch2, "keyMatch3": util.KeyMatch3, "keyMatch4": util.KeyMatch4,
		"keyMatch5": util.KeyMatch5, "regexMatch": util.RegexMatch, "globMatch": func(a, b string) bool { ok, _ := util.GlobMatch(a, b); return ok },
	}
	bad := []string{"/book/(", "[", "*a", "a{2,1}", "(?P<", "/x/{a", "\\", "/:id/(", "a)b", "[z-a]"}
	order := []string{"keyMatch", "keyMatch2", "keyMatch3", "keyMatch4", "keyMatch5", "regexMatch", "globMatch"}
	for _, fn := range order {
		for _, b := range bad {
			for pos := 0; pos < 3; pos++ {
				for _, dom := range []bool{false, true} {
					if pos == 2 && !dom {
						continue
					}
					f := []string{"alice", "book_admin"}
					if dom {
						f = append(f, "d1")
					}
					f[pos] = b
					text := "p, book_admin, data1, read\ng, bob, book_admin"
					mtext := rbacText
					if dom {
						text = "p, book_admin, d1, data1, read\ng, bob, book_admin, d1"
						mtext = rbacDomText
					}
					badText := text + "\ng, " + f[0] + ", " + f[1]
					if dom {
						badText += ", " + f[2]
					}
					for _, via := range []string{"string", "file"} {
						what := fmt.Sprintf("matching function %s (domains=%v) loading %q through the %s adapter", fn, dom, badText, via)
						res := guardedStr(func() string {
							e, err := casbin.NewEnforcer(mustModel(mtext), stringadapter.NewAdapter(text))
							if err != nil {
								return "setup-err"
							}
							e.AddNamedMatchingFunc("g", fn, fns[fn])
							if dom {
								e.AddNamedDomainMatchingFunc("g", fn, fns[fn])
							}
							before := fmt.Sprint(e.GetPolicy()) + fmt.Sprint(e.GetGroupingPolicy())
							if via == "string" {
								e.SetAdapter(stringadapter.NewAdapter(badText))
							} else {
								p := scratchFile()
								_ = os.WriteFile(p, []byte(badText+"\n"), 0o644)
								e.SetAdapter(fileadapter.NewAdapter(p))
							}
							err = e.LoadPolicy()
							if err == nil {
								return "ok"
							}
							after := fmt.Sprint(e.GetPolicy()) + fmt.Sprint(e.GetGroupingPolicy())
							if before != after {
								return "err-changed " + before + " -> " + after
							}
							// the reload was refused: the old links still decide
							var ok bool
							if dom {
								ok, _ = e.Enforce("bob", "d1", "data1", "read")
							} else {
								ok, _ = e.Enforce("bob", "data1", "read")
							}
							if !ok {
								return "err-links-lost"
							}
							return "err"
						})
						c.Evals++
						c.Count("pattern_load="+res[:min(len(res), 3)], 1)
						switch {
						case res == "panic" || res == "hang":
							c.Direct("loading a policy whose grouping line carries a name that is not a valid pattern: "+res, what)
						case res != "ok" && res != "err" && res != "setup-err":
							c.Direct("a refused load with a pattern matching function left the enforcer changed", what+": "+res)
						}
					}
				}
			}
		}
	}
}

// guardedStr runs f under recover and a 5 s watchdog
func guardedStr(f func() string) string {
	ch := make(chan string, 1)
	go func() {
		defer func() {
			if r := recover(); r != nil {
				ch <- "panic"
			}
		}()
		ch <- f()
	}()
	select {
	case r := <-ch:
		return r
	case <-time.After(5 * time.Second):
		return "hang"
	}
}
