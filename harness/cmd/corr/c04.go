package main

import (
	"fmt"
	"strings"

	"github.com/casbin/casbin/v2"
	"github.com/casbin/casbin/v2/rbac"

	"verif/harness/internal/mem"
)

type memLineT = mem.Line

func init() { registry["C04"] = runC04 }

func runC04(c *Ctx) {
	depth := 3
	if c.Thorough() {
		depth = 4
	}
	c.Exhaustive = true
	c.Rule = fmt.Sprintf("all call sequences, every request of the configuration's universe enforced before the first and after every change, the live decisions compared after every change with the Lean model and (on the implementation) with a freshly constructed enforcer given the listed rules and the functions registered so far: (1) RBAC model whose names include patterns (/book/* etc.), depth <= %d over 17 calls {Add/Remove (Grouping)Policy, UpdateGroupingPolicy incl. an identity update, AddGroupingPoliciesEx, RemoveFilteredGroupingPolicy, ClearPolicy, LoadPolicy, BuildRoleLinks, SetRoleManager(+BuildRoleLinks), AddNamedMatchingFunc, SetModel}, two of the requests also through EnforceWithMatcher with a second matcher; (2) the same model, depth 2 over those calls plus every other path (batch removal and update on p and g, UpdateFilteredPolicies, SavePolicy, batches rejected half-way); (3) the same model with auto-build and auto-save off over a pre-filled store, depth <= %d over 7 calls (stale links between LoadPolicy and BuildRoleLinks are by design and not judged); (4) a domain model with a '*' domain, depth <= %d over 14 calls {Add/Remove policy and grouping rules, ClearPolicy, LoadPolicy, SetRoleManager, AddNamedMatchingFunc, AddNamedDomainMatchingFunc, SetModel}; (5) a model with two role definitions g / g2, depth 3 over every way of changing g2's rules (13 calls); direct cases: a domain matching function replaced after a query, a custom function registered twice; a conditional role definition at depth 3 (implementation vs fresh enforcer only); seeded random sequences to length 30 on (1) and (4); non-trivial = a sequence in which some decision changed; distinct = whole sequence", depth, depth+1, map[bool]int{false: 3, true: depth}[c.Thorough()])
	c04SetModelPairs(c)
	// plain RBAC with pattern-like names
	ms := rbacSpec(false, false)
	P := [][]string{{"book_admin", "data", "read"}, {"alice", "data", "write"}}
	G := [][]string{{"/book/*", "book_admin"}, {"alice", "book_admin"}, {"/book/1", "reader"}}
	universe := []string{"/book/1", "/book/*", "alice", "book_admin", "reader", "data", "read", "write"}
	alpha := []EOp{
		{Kind: "add", Sec: "p", PType: "p", Rule: P[0]}, {Kind: "rm", Sec: "p", PType: "p", Rule: P[0]},
		{Kind: "add", Sec: "p", PType: "p", Rule: []string{"reader", "data", "read"}},
		{Kind: "add", Sec: "g", PType: "g", Rule: G[0]}, {Kind: "rm", Sec: "g", PType: "g", Rule: G[0]},
		{Kind: "add", Sec: "g", PType: "g", Rule: G[1]}, {Kind: "add", Sec: "g", PType: "g", Rule: G[2]},
		{Kind: "upd", Sec: "g", PType: "g", Rule: G[1], New: []string{"alice", "reader"}},
		// an update whose new rule denotes the link of its old rule: unlinking and linking must not cancel out
		{Kind: "upd", Sec: "g", PType: "g", Rule: G[1], New: G[1]},
		{Kind: "adds", Sec: "g", PType: "g", Ex: true, Rules: G},
		{Kind: "rmf", Sec: "g", PType: "g", FI: 1, Vals: []string{"book_admin"}},
		{Kind: "clear"}, {Kind: "load"}, {Kind: "buildlinks"},
		{Kind: "setrm", PType: "g"}, {Kind: "addmf", PType: "g", What: "keyMatch"}, {Kind: "setmodel"},
	}
	reqs := strReqs([]string{"/book/1", "alice", "book_admin"}, []string{"data"}, []string{"read", "write"})
	var probes []EOp
	for _, r := range reqs {
		probes = append(probes, EOp{Kind: "enf", Req: r})
	}
	// the custom matcher ignores the action: on the write request it decides differently from the model's own
	// matcher, so a compiled matcher served for the wrong matcher text shows
	probes = append(probes, EOp{Kind: "enfm", Custom: "m2", Req: reqs[0]}, EOp{Kind: "enfm", Custom: "m2", Req: reqs[1]}, EOp{Kind: "haslink", PType: "g", Args: []string{"/book/1", "book_admin"}})
	custom := map[string]*Ex{"m2": And(G2("g", RTok(0), PTok(0)), Eq(RTok(1), PTok(1)))}
	mk := func(name string, ms *MSpec, alpha []EOp, probes []EOp, reqs [][]V, opts CaseOpts) *HistCfg {
		cfg := &HistCfg{Name: name, MS: ms, Opts: opts, Depth: depth, Alphabet: alpha, Probes: probes}
		var regs map[string][2]string // gtype -> (matching fn, domain matching fn)
		var lastDec string
		changed := false
		// finding D15: with a domain matching function, DeleteLink in one domain also removes the link that a
		// rule of a pattern domain (or of a matching concrete domain) still stands for; until the next rebuild
		// the live links may then legitimately-known differ from a rebuild
		d15Risk := false
		cfg.Setup = append([]EOp{}, probes...)
		cfg.AfterStep = func(c *Ctx, s *Sess, hist []EOp, obs string) {
			if len(hist) == 1 {
				regs = map[string][2]string{}
				lastDec = ""
				changed = false
				d15Risk = false
			}
			last := hist[len(hist)-1]
			switch last.Kind {
			case "addmf":
				r := regs[last.PType]
				r[0] = last.What
				regs[last.PType] = r
			case "adddmf":
				r := regs[last.PType]
				r[1] = last.What
				regs[last.PType] = r
			case "setrm":
				delete(regs, last.PType)
				d15Risk = false
			case "setmodel":
				regs = map[string][2]string{}
				d15Risk = false
			case "load", "buildlinks", "clear":
				d15Risk = false
			case "rm", "rms", "upd", "upds", "rmf":
				if last.Sec == "g" && regs[last.PType][1] != "" && obs == "true" {
					d15Risk = true
				}
			}
			// the fresh enforcer: same model, listed rules, same registered functions
			fresh, err := casbin.NewEnforcer(ms.Build())
			if err != nil {
				panic(err)
			}
			for gt, r := range regs {
				if r[0] != "" {
					fresh.AddNamedMatchingFunc(gt, r[0], matchFns[r[0]])
				}
				if r[1] != "" {
					fresh.AddNamedDomainMatchingFunc(gt, r[1], matchFns[r[1]])
				}
			}
			wf := true
			for _, pt := range ms.PTypes {
				pol := s.E.GetModel()["p"][pt].Policy
				if len(pol) > 0 {
					if _, err := fresh.AddNamedPoliciesEx(pt, cloneRules(pol)); err != nil {
						wf = false
					}
				}
			}
			for _, gt := range ms.GTypes {
				pol := s.E.GetModel()["g"][gt].Policy
				seen := map[string]bool{}
				for _, r := range pol {
					if seen[strings.Join(r, ",")] || len(r) != ms.GCount[gt] {
						wf = false // duplicates / wrong arity: recorded findings, outside the statement's reach
					}
					seen[strings.Join(r, ",")] = true
				}
				if len(pol) > 0 {
					if _, err := fresh.AddNamedGroupingPoliciesEx(gt, cloneRules(pol)); err != nil {
						wf = false
					}
				}
			}
			var a, b strings.Builder
			for _, r := range reqs {
				x, e1 := s.E.Enforce(reqGo(nil, r)...)
				y, e2 := fresh.Enforce(reqGo(nil, r)...)
				fmt.Fprintf(&a, "%v%v", x, e1 != nil)
				fmt.Fprintf(&b, "%v%v", y, e2 != nil)
			}
			if d15Risk {
				c.Count("comparisons_skipped_finding_D15", 1)
			}
			if wf && !d15Risk && a.String() != b.String() {
				c.Direct("a decision differs from that of a freshly constructed enforcer on the same listed rules and functions", fmt.Sprintf("%s: %s\nlive=%s fresh=%s", name, histText(hist), a.String(), b.String()))
			}
			if lastDec != "" && lastDec != a.String() {
				changed = true
			}
			lastDec = a.String()
			c.Count("fresh_comparisons", 1)
		}
		cfg.AfterCase = func(c *Ctx, s *Sess, hist []EOp) {
			if changed {
				c.Nontrivial(name + "|" + histText(hist))
			}
		}
		return cfg
	}
	opts := CaseOpts{Adapter: true, ALines: nil, Customs: custom, MatchFns: []string{"keyMatch"}, OraUniverse: universe}
	cfg := mk("rbac-pattern", ms, alpha, probes, reqs, opts)
	enumerate(c, cfg)
	// every other way of changing rules (batch removal and update on p and g, filtered removal on p,
	// UpdateFilteredPolicies, SavePolicy): each path has its own invalidation; sequences of two calls
	alphaX := append(append([]EOp(nil), alpha...),
		EOp{Kind: "rms", Sec: "g", PType: "g", Rules: [][]string{G[0], G[1]}},
		EOp{Kind: "rms", Sec: "p", PType: "p", Rules: [][]string{P[0]}},
		EOp{Kind: "upds", Sec: "g", PType: "g", Rules: [][]string{G[1]}, News: [][]string{{"alice", "reader"}}},
		EOp{Kind: "upds", Sec: "p", PType: "p", Rules: [][]string{P[0]}, News: [][]string{{"reader", "data", "read"}}},
		EOp{Kind: "upd", Sec: "p", PType: "p", Rule: P[0], New: []string{"reader", "data", "read"}},
		EOp{Kind: "rmf", Sec: "p", PType: "p", FI: 0, Vals: []string{"book_admin"}},
		EOp{Kind: "rmf", Sec: "g", PType: "g", FI: 0, Vals: []string{"alice"}},
		EOp{Kind: "updf", Sec: "p", PType: "p", FI: 0, Vals: []string{"book_admin"}, News: [][]string{{"reader", "data", "read"}}},
		EOp{Kind: "adds", Sec: "p", PType: "p", Rules: [][]string{P[0], P[1]}},
		EOp{Kind: "save"},
		// a batch that is applied in part and then rejected (finding D13: a grouping rule shorter than its
		// definition is only noticed when its link is built): the links that were built count, memoised
		// answers must go
		EOp{Kind: "adds", Sec: "g", PType: "g", Ex: true, Rules: [][]string{G[1], {"short"}}},
		EOp{Kind: "adds", Sec: "g", PType: "g", Ex: true, Rules: [][]string{G[0], {"short"}}},
	)
	cfgX := mk("rbac-pattern-all-paths", ms, alphaX, probes, reqs, opts)
	cfgX.Depth = 2
	enumerate(c, cfgX)

	// manual role links: auto-build and auto-save off, the store already holds rules; LoadPolicy then leaves the
	// links alone until BuildRoleLinks (which does not invalidate by itself)
	optsM := CaseOpts{Adapter: true, Customs: custom, MatchFns: []string{"keyMatch"}, OraUniverse: universe,
		ALines: []memLineT{{"p", P[0]}, {"g", G[1]}, {"g", G[0]}}}
	alphaM := []EOp{
		{Kind: "rm", Sec: "g", PType: "g", Rule: G[1]}, {Kind: "add", Sec: "g", PType: "g", Rule: G[2]},
		{Kind: "add", Sec: "p", PType: "p", Rule: []string{"reader", "data", "read"}}, {Kind: "rm", Sec: "p", PType: "p", Rule: P[0]},
		{Kind: "load"}, {Kind: "buildlinks"}, {Kind: "clear"},
	}
	cfgM := mk("rbac-manual-links", ms, alphaM, probes, reqs, optsM)
	cfgM.Setup = append([]EOp{{Kind: "set", Flag: "autosave", On: false}, {Kind: "set", Flag: "autobuild", On: false}}, probes...)
	cfgM.Depth = depth + 1
	inner := cfgM.AfterStep
	manualStale := false
	cfgM.AfterStep = func(c *Ctx, s *Sess, hist []EOp, obs string) {
		if len(hist) == 1 {
			manualStale = false
		}
		switch hist[len(hist)-1].Kind {
		case "load":
			manualStale = true // by design: the caller has to rebuild the links
		case "buildlinks":
			manualStale = false
		}
		if !manualStale {
			inner(c, s, hist, obs)
		}
	}
	enumerate(c, cfgM)

	// domain model with a pattern domain
	msD := rbacSpec(true, false)
	GD := [][]string{{"alice", "admin", "*"}, {"alice", "admin", "d1"}, {"bob", "admin", "d2"}}
	PD := [][]string{{"admin", "d1", "data", "read"}, {"admin", "*", "data", "read"}}
	alphaD := []EOp{
		{Kind: "add", Sec: "p", PType: "p", Rule: PD[0]}, {Kind: "add", Sec: "p", PType: "p", Rule: PD[1]}, {Kind: "rm", Sec: "p", PType: "p", Rule: PD[0]},
		{Kind: "add", Sec: "g", PType: "g", Rule: GD[0]}, {Kind: "rm", Sec: "g", PType: "g", Rule: GD[0]},
		{Kind: "add", Sec: "g", PType: "g", Rule: GD[1]}, {Kind: "rm", Sec: "g", PType: "g", Rule: GD[1]},
		{Kind: "add", Sec: "g", PType: "g", Rule: GD[2]},
		{Kind: "clear"}, {Kind: "load"}, {Kind: "setrm", PType: "g"}, {Kind: "adddmf", PType: "g", What: "keyMatch"},
		{Kind: "addmf", PType: "g", What: "keyMatch"}, {Kind: "setmodel"},
	}
	var reqsD [][]V
	for _, sub := range []string{"alice", "bob"} {
		for _, d := range []string{"d1", "d2"} {
			reqsD = append(reqsD, []V{VS(sub), VS(d), VS("data"), VS("read")})
		}
	}
	var probesD []EOp
	for _, r := range reqsD {
		probesD = append(probesD, EOp{Kind: "enf", Req: r})
	}
	probesD = append(probesD, EOp{Kind: "haslink", PType: "g", Args: []string{"alice", "admin", "d1"}})
	optsD := CaseOpts{Adapter: true, MatchFns: []string{"keyMatch"}, OraUniverse: []string{"alice", "bob", "admin", "d1", "d2", "*", "data", "read"}}
	cfgD := mk("domain-pattern", msD, alphaD, probesD, reqsD, optsD)
	if !c.Thorough() {
		cfgD.Depth = 3
	}
	enumerate(c, cfgD)

	// two role definitions (g over subjects, g2 over objects): every way of changing g2's rules must reach g2's
	// role manager and drop the memoised answers of both
	ms2 := rbacSpec(false, true)
	G2r := [][]string{{"data1", "data_group"}, {"data2", "data_group"}}
	alpha2 := []EOp{
		{Kind: "add", Sec: "p", PType: "p", Rule: []string{"admin", "data_group", "read"}},
		{Kind: "add", Sec: "g", PType: "g", Rule: []string{"alice", "admin"}}, {Kind: "rm", Sec: "g", PType: "g", Rule: []string{"alice", "admin"}},
		{Kind: "add", Sec: "g", PType: "g2", Rule: G2r[0]}, {Kind: "rm", Sec: "g", PType: "g2", Rule: G2r[0]},
		{Kind: "adds", Sec: "g", PType: "g2", Ex: true, Rules: G2r}, {Kind: "rms", Sec: "g", PType: "g2", Rules: G2r},
		{Kind: "rmf", Sec: "g", PType: "g2", FI: 0, Vals: []string{"data1"}}, {Kind: "rmf", Sec: "g", PType: "g2", FI: 1, Vals: []string{"data_group"}},
		{Kind: "upd", Sec: "g", PType: "g2", Rule: G2r[0], New: []string{"data1", "other_group"}},
		{Kind: "upds", Sec: "g", PType: "g2", Rules: [][]string{G2r[1]}, News: [][]string{{"data2", "other_group"}}},
		{Kind: "clear"}, {Kind: "load"},
	}
	reqs2 := strReqs([]string{"alice", "admin"}, []string{"data1", "data2", "data_group"}, []string{"read"})
	var probes2 []EOp
	for _, r := range reqs2 {
		probes2 = append(probes2, EOp{Kind: "enf", Req: r})
	}
	probes2 = append(probes2, EOp{Kind: "haslink", PType: "g2", Args: []string{"data1", "data_group"}}, EOp{Kind: "haslink", PType: "g", Args: []string{"data1", "data_group"}})
	cfg2 := mk("two-role-definitions", ms2, alpha2, probes2, reqs2, CaseOpts{Adapter: true})
	cfg2.Depth = 3
	enumerate(c, cfg2)

	c04DomainFnReplacedAfterQuery(c)
	c04FunctionRegisteredTwice(c)
	// conditional role managers (not modelled): no stale decision after any change either
	condFamily(c, 3, "on a conditional role definition a decision went stale: the live enforcer decides differently from a fresh one given the listed rules")
	n := 100
	if c.Thorough() {
		n = 4000
	}
	c.Exhaustive = false
	randomHistories(c, mk("rbac-pattern-random", ms, alpha, probes, reqs, opts), n, 5, 30)
	randomHistories(c, mk("domain-pattern-random", msD, alphaD, probesD, reqsD, optsD), n, 5, 30)
	c.Exhaustive = true
}

// c04DomainFnReplacedAfterQuery: rules only in a pattern domain, a concrete domain that was merely asked about
// (never written), then the domain matching function is replaced: the live enforcer decides like a fresh one
// given the same rules and the same registrations, whatever was asked before.  (Concrete domains with rules of
// their own are the subject of finding D39 and stay out.)  Implementation only.
func c04DomainFnReplacedAfterQuery(c *Ctx) {
	text := `
[request_definition]
r = sub, dom, obj, act
[policy_definition]
p = sub, dom, obj, act
[role_definition]
g = _, _, _
[policy_effect]
e = some(where (p.eft == allow))
[matchers]
m = g(r.sub, p.sub, r.dom) && keyMatch(r.dom, p.dom) && r.obj == p.obj && r.act == p.act
`
	strict := func(a, b string) bool { return a == b }
	fns := map[string]rbac.MatchingFunc{"keyMatch2": matchFns["keyMatch2"], "strict": strict, "keyMatch": matchFns["keyMatch"]}
	build := func(ask bool, second string) *casbin.Enforcer {
		e, err := casbin.NewEnforcer(mustModel(text))
		if err != nil {
			panic(err)
		}
		_, _ = e.AddGroupingPolicy("alice", "admin", "tenant*")
		_, _ = e.AddPolicy("admin", "tenant*", "data", "read")
		if ask {
			_, _ = e.Enforce("alice", "tenant1", "data", "read")
			_, _ = e.Enforce("bob", "tenant1", "data", "read")
		}
		e.AddNamedDomainMatchingFunc("g", second, fns[second])
		return e
	}
	for _, second := range []string{"strict", "keyMatch2", "keyMatch"} {
		live, fresh := build(true, second), build(false, second)
		for _, dom := range []string{"tenant1", "tenant2", "tenant*"} {
			for _, u := range []string{"alice", "bob", "admin"} {
				a, errA := live.Enforce(u, dom, "data", "read")
				b, errB := fresh.Enforce(u, dom, "data", "read")
				c.Evals++
				if a != b || (errA == nil) != (errB == nil) {
					c.Direct("an earlier Enforce call influences a decision after the domain matching function was replaced", fmt.Sprintf("g alice admin tenant*; p admin tenant* data read; domain matching function replaced by %s; Enforce(%s, %s, data, read): asked-before enforcer %v, fresh enforcer %v", second, u, dom, a, b))
				}
			}
		}
		c.Count("domain_fn_replaced_after_query_cases", 1)
	}
}

// c04FunctionRegisteredTwice: a custom matcher function registered, used, and registered again under the same
// name with other behaviour (whatever the library's policy for a second registration is): the enforcer that
// evaluated a request in between decides like a fresh one given the same registrations in the same order and no
// request in between.  Implementation only.
func c04FunctionRegisteredTwice(c *Ctx) {
	text := strings.Replace(rbacText, "m = g(r.sub, p.sub) && r.obj == p.obj && r.act == p.act", "m = vip(r.sub) && r.obj == p.obj && r.act == p.act", 1)
	f1 := func(args ...interface{}) (interface{}, error) { return args[0] == "alice", nil }
	f2 := func(args ...interface{}) (interface{}, error) { return args[0] == "bob", nil }
	build := func(ask bool) *casbin.Enforcer {
		e, err := casbin.NewEnforcer(mustModel(text))
		if err != nil {
			panic(err)
		}
		_, _ = e.AddPolicy("anyone", "data1", "read")
		e.AddFunction("vip", f1)
		if ask {
			_, _ = e.Enforce("alice", "data1", "read")
			_, _ = e.Enforce("bob", "data1", "read")
		}
		e.AddFunction("vip", f2)
		return e
	}
	live, fresh := build(true), build(false)
	for _, u := range []string{"alice", "bob", "carol"} {
		a, errA := live.Enforce(u, "data1", "read")
		b, errB := fresh.Enforce(u, "data1", "read")
		c.Evals++
		if a != b || (errA == nil) != (errB == nil) {
			c.Direct("an earlier Enforce call influences a decision after a matcher function was registered again", fmt.Sprintf("function vip registered, then registered again with other behaviour: Enforce(%s, data1, read): asked-before enforcer %v, fresh enforcer %v", u, a, b))
		}
	}
	c.Count("function_registered_twice_cases", 1)
}
