package main

import (
	"fmt"

	"github.com/casbin/casbin/v2"
)

// SetModel with a DIFFERENT model (other column layout, other effect, other request width) after the enforcer
// has answered requests: whatever was derived from the old model's definitions must be gone.  For every ordered
// pair of six small models: build on X, add X's rules, enforce X's requests, SetModel(Y), add Y's rules with plain
// AddPolicies (no reload, no grouping change in between), enforce Y's requests — decisions and explanations must be
// those of a fresh enforcer on Y with the same rules.  Implementation only.
type c04Model struct {
	name  string
	text  string
	rules [][]string
	links [][]string
	reqs  [][]interface{}
}

func c04Models() []c04Model {
	hdr := func(r, p, g, e, m string) string {
		s := "[request_definition]\nr = " + r + "\n[policy_definition]\np = " + p + "\n"
		if g != "" {
			s += "[role_definition]\ng = " + g + "\n"
		}
		return s + "[policy_effect]\ne = " + e + "\n[matchers]\nm = " + m + "\n"
	}
	allow := "some(where (p.eft == allow))"
	and := "some(where (p.eft == allow)) && !some(where (p.eft == deny))"
	r3 := func(xs ...string) []interface{} {
		out := make([]interface{}, len(xs))
		for i, x := range xs {
			out[i] = x
		}
		return out
	}
	return []c04Model{
		{"acl", hdr("sub, obj, act", "sub, obj, act", "", allow, "r.sub == p.sub && r.obj == p.obj && r.act == p.act"),
			[][]string{{"alice", "data1", "read"}, {"bob", "data2", "write"}}, nil,
			[][]interface{}{r3("alice", "data1", "read"), r3("alice", "data1", "write"), r3("bob", "data2", "write"), r3("read", "data1", "alice")}},
		{"acl-eft", hdr("sub, obj, act", "sub, obj, act, eft", "", and, "r.sub == p.sub && r.obj == p.obj && r.act == p.act"),
			[][]string{{"alice", "data1", "read", "allow"}, {"alice", "data1", "write", "deny"}, {"bob", "data2", "write", "deny"}, {"bob", "data2", "write", "allow"}}, nil,
			[][]interface{}{r3("alice", "data1", "read"), r3("alice", "data1", "write"), r3("bob", "data2", "write")}},
		{"acl-reordered", hdr("sub, obj, act", "act, obj, sub", "", allow, "r.sub == p.sub && r.obj == p.obj && r.act == p.act"),
			[][]string{{"read", "data1", "alice"}, {"write", "data2", "bob"}, {"alice", "data1", "read"}}, nil,
			[][]interface{}{r3("alice", "data1", "read"), r3("read", "data1", "alice"), r3("bob", "data2", "write")}},
		{"request-reordered", hdr("act, obj, sub", "sub, obj, act", "", allow, "r.sub == p.sub && r.obj == p.obj && r.act == p.act"),
			[][]string{{"alice", "data1", "read"}, {"read", "data1", "alice"}}, nil,
			[][]interface{}{r3("read", "data1", "alice"), r3("alice", "data1", "read"), r3("write", "data1", "alice")}},
		{"rbac-domains", hdr("sub, dom, obj, act", "sub, dom, obj, act", "_, _, _", allow, "g(r.sub, p.sub, r.dom) && r.dom == p.dom && r.obj == p.obj && r.act == p.act"),
			[][]string{{"admin", "d1", "data1", "read"}, {"alice", "d2", "data2", "read"}}, [][]string{{"alice", "admin", "d1"}},
			[][]interface{}{r3("alice", "d1", "data1", "read"), r3("alice", "d2", "data1", "read"), r3("alice", "d2", "data2", "read")}},
		{"rbac", hdr("sub, obj, act", "sub, obj, act", "_, _", allow, "g(r.sub, p.sub) && r.obj == p.obj && r.act == p.act"),
			[][]string{{"admin", "data1", "read"}, {"bob", "data2", "write"}}, [][]string{{"alice", "admin"}},
			[][]interface{}{r3("alice", "data1", "read"), r3("bob", "data1", "read"), r3("bob", "data2", "write")}},
	}
}

func c04Answers(e *casbin.Enforcer, reqs [][]interface{}) []string {
	out := make([]string, len(reqs))
	for i, r := range reqs {
		ok, ex, err := e.EnforceEx(r...)
		if err != nil {
			out[i] = "err"
		} else {
			out[i] = fmt.Sprintf("%v %v", ok, ex)
		}
	}
	return out
}

func c04SetModelPairs(c *Ctx) {
	ms := c04Models()
	for _, x := range ms {
		for _, y := range ms {
			if x.name == y.name {
				continue
			}
			for variant := 0; variant < 2; variant++ {
				e, err := casbin.NewEnforcer(mustModel(x.text))
				if err != nil {
					panic(err)
				}
				_, _ = e.AddPolicies(cloneRules(x.rules))
				if len(x.links) > 0 {
					_, _ = e.AddGroupingPolicies(cloneRules(x.links))
				}
				_ = c04Answers(e, x.reqs)
				e.SetModel(mustModel(y.text))
				if variant == 1 {
					// the role managers of the new model are set up by LoadPolicy / BuildRoleLinks in casbin's own idiom;
					// variant 0 leaves that to the first grouping call
					_ = e.BuildRoleLinks()
				}
				// grouping rules first (they may invalidate), the policy rules last with plain AddPolicies
				if len(y.links) > 0 {
					_, _ = e.AddGroupingPolicies(cloneRules(y.links))
				}
				_, _ = e.AddPolicies(cloneRules(y.rules))
				live := c04Answers(e, y.reqs)
				f, err := casbin.NewEnforcer(mustModel(y.text))
				if err != nil {
					panic(err)
				}
				if len(y.links) > 0 {
					_, _ = f.AddGroupingPolicies(cloneRules(y.links))
				}
				_, _ = f.AddPolicies(cloneRules(y.rules))
				fresh := c04Answers(f, y.reqs)
				for i := range live {
					if live[i] != fresh[i] {
						c.Direct("after SetModel with a different model the enforcer decides differently from a fresh enforcer on that model with the same rules", fmt.Sprintf("model %s, requests answered, SetModel(%s) (variant %d), rules %v links %v: request %v live=%s fresh=%s", x.name, y.name, variant, y.rules, y.links, y.reqs[i], live[i], fresh[i]))
					}
				}
				c.Evals++
				c.Count("setmodel_pairs", 1)
			}
		}
	}
}
