package main

import (
	"fmt"

	"github.com/casbin/casbin/v2"
)

func init() { registry["C05"] = runC05 }

var handBackN int

func rbacSpec(domains bool, g2 bool) *MSpec {
	ms := NewMSpec()
	if domains {
		ms.AddR("r", "sub", "dom", "obj", "act").AddP("p", "sub", "dom", "obj", "act").AddG("g", 3)
		ms.AddE("e", effAllow)
		ms.AddM("m", "r", "p", And(G3("g", RTok(0), PTok(0), RTok(1)), Eq(RTok(1), PTok(1)), Eq(RTok(2), PTok(2)), Eq(RTok(3), PTok(3))))
		return ms
	}
	ms.AddR("r", "sub", "obj", "act").AddP("p", "sub", "obj", "act").AddG("g", 2)
	if g2 {
		ms.AddG("g2", 2)
	}
	ms.AddE("e", effAllow)
	if g2 {
		ms.AddM("m", "r", "p", And(G2("g", RTok(0), PTok(0)), G2("g2", RTok(1), PTok(1)), Eq(RTok(2), PTok(2))))
	} else {
		ms.AddM("m", "r", "p", And(G2("g", RTok(0), PTok(0)), Eq(RTok(1), PTok(1)), Eq(RTok(2), PTok(2))))
	}
	return ms
}

func linkProbes(gt string, names []string, doms []string) []EOp {
	var ps []EOp
	ds := [][]string{{}}
	if len(doms) > 0 {
		ds = nil
		for _, d := range doms {
			ds = append(ds, []string{d})
		}
	}
	for _, d := range ds {
		for _, u := range names {
			for _, r := range names {
				ps = append(ps, EOp{Kind: "haslink", PType: gt, Args: append([]string{u, r}, d...)})
			}
			ps = append(ps, EOp{Kind: "roles", PType: gt, Args: append([]string{u}, d...)})
			ps = append(ps, EOp{Kind: "users", PType: gt, Args: append([]string{u}, d...)})
		}
	}
	ps = append(ps, EOp{Kind: "obs", Args: []string{"pol", "g", gt}}, EOp{Kind: "obs", Args: []string{"adapter"}})
	return ps
}

func groupingAlphabet(gt string, L [][]string, fresh []string) []EOp {
	var ops []EOp
	for _, l := range L {
		ops = append(ops, EOp{Kind: "add", Sec: "g", PType: gt, Rule: l}, EOp{Kind: "rm", Sec: "g", PType: gt, Rule: l})
	}
	ops = append(ops,
		EOp{Kind: "adds", Sec: "g", PType: gt, Rules: [][]string{L[0], L[1]}},
		EOp{Kind: "adds", Sec: "g", PType: gt, Ex: true, Rules: [][]string{L[1], L[2]}},
		EOp{Kind: "rms", Sec: "g", PType: gt, Rules: [][]string{L[0], L[3]}},
		EOp{Kind: "upd", Sec: "g", PType: gt, Rule: L[0], New: fresh},
		EOp{Kind: "upd", Sec: "g", PType: gt, Rule: L[1], New: L[3]},
		EOp{Kind: "upds", Sec: "g", PType: gt, Rules: [][]string{L[0], L[1]}, News: [][]string{fresh, L[3]}},
		// a link on both sides of an update: the order of unlinking and linking becomes observable
		EOp{Kind: "upd", Sec: "g", PType: gt, Rule: L[0], New: L[0]},
		EOp{Kind: "upds", Sec: "g", PType: gt, Rules: [][]string{L[0], L[1]}, News: [][]string{L[2], L[0]}},
		// an unchanged pair first: the pairing of old and new rules must not shift
		EOp{Kind: "upds", Sec: "g", PType: gt, Rules: [][]string{L[0], L[1]}, News: [][]string{L[0], L[3]}},
		// two pairs onto one new rule / one old rule named twice: refused as a whole, nothing may change
		EOp{Kind: "upds", Sec: "g", PType: gt, Rules: [][]string{L[0], L[1]}, News: [][]string{fresh, fresh}},
		EOp{Kind: "upds", Sec: "g", PType: gt, Rules: [][]string{L[0], L[0]}, News: [][]string{fresh, L[3]}},
		EOp{Kind: "rmf", Sec: "g", PType: gt, FI: 0, Vals: []string{L[0][0]}},
		EOp{Kind: "rmf", Sec: "g", PType: gt, FI: 1, Vals: []string{L[1][1]}},
		EOp{Kind: "clear"}, EOp{Kind: "load"}, EOp{Kind: "save"},
	)
	return ops
}

func runC05(c *Ctx) {
	depth := 3
	if c.Thorough() {
		depth = 4
	}
	c.Exhaustive = true
	names := []string{"a", "b", "c"}
	// plain manager
	L := [][]string{{"a", "b"}, {"b", "c"}, {"c", "a"}, {"a", "c"}}
	cfg := &HistCfg{Name: "plain", MS: rbacSpec(false, false), Opts: CaseOpts{Adapter: true}, Depth: depth,
		Alphabet: groupingAlphabet("g", L, []string{"b", "a"}), Probes: linkProbes("g", names, nil)}
	dDom, d2 := 2, 2
	if c.Thorough() {
		dDom, d2 = depth, 3
	}
	c.Rule = fmt.Sprintf("all histories over %d grouping-policy calls (single, batch, Ex, update, batch update, filtered removal, ClearPolicy, LoadPolicy, SavePolicy) on a 3-name universe with an auto-saving adapter: depth <= %d for the plain manager, depth <= %d for a plain manager installed with SetRoleManager on the empty policy (with Enforce probes), depth <= %d for the domain manager (2 domains), depth <= %d for two role definitions (g, g2; the calls of both, single add/remove from one name only, no SavePolicy); plain and domain histories that leave two or more rules listed end with the listing handed straight back to the batch removal; after every call HasLink over the whole universe, GetRoles, GetUsers and the listed grouping rules are compared with the Lean model and with reachability through the listed rules (spec); a reload that a failing role manager rejects at its 1st..4th link must leave the graph mirroring the listed rules (implementation only); a conditional role definition (g = _, _, (_, _)): all histories of depth <= %d over 12 calls (single / batch add and remove, filtered removal, update, policy batches, ClearPolicy, BuildRoleLinks), live vs rebuilt from the listed rules and vs a plain RBAC model holding the same rules, on the implementation, and link chains around the hierarchy limit plus grouping calls through the enforcer (every other pair of cases on an enforcer whose policy was loaded from an adapter) compared with the Lean model of the conditional managers (case condrm); plus seeded random histories incl. over-long rules; non-trivial = some call changed the graph and some call was refused; distinct = whole history", len(cfg.Alphabet), depth, depth-1, dDom, d2, depth)
	// every history ends with the grouping listing handed straight back to the batch removal
	// (RemoveGroupingPolicies(GetGroupingPolicy())): no rule and no link may be left
	handBack := func(gt string, probes []EOp) func(c *Ctx, s *Sess, hist []EOp) {
		return func(c *Ctx, s *Sess, hist []EOp) {
			now := cloneRules(s.E.GetModel()["g"][gt].Policy)
			if len(now) < 2 {
				return
			}
			handBackN++
			if handBackN%2 == 0 {
				// … or to the batch update: every listed rule gets a new role
				news := cloneRules(now)
				for i := range news {
					news[i][1] = news[i][1] + "_n"
				}
				s.Do(c, EOp{Kind: "upds", Sec: "g", PType: gt, Rules: now, News: news, Listed: true})
			} else {
				s.Do(c, EOp{Kind: "rms", Sec: "g", PType: gt, Rules: now, Listed: true})
			}
			for _, p := range probes {
				s.Do(c, p)
			}
			c.Count("listing_handed_back_removals", 1)
		}
	}
	cfg.AfterCase = handBack("g", cfg.Probes)
	enumerate(c, cfg)
	// a role manager installed with SetRoleManager on the empty policy: the graph the listings read and the graph
	// Enforce reads must stay one graph through every grouping call
	enfProbes := []EOp{}
	for _, u := range names {
		enfProbes = append(enfProbes, EOp{Kind: "enf", Req: []V{VS(u), VS("data"), VS("read")}})
	}
	cfgRM := &HistCfg{Name: "plain-set-role-manager", MS: rbacSpec(false, false), Opts: CaseOpts{Adapter: true}, Depth: depth - 1,
		Alphabet: groupingAlphabet("g", L, []string{"b", "a"}), Probes: append(linkProbes("g", names, nil), enfProbes...),
		Setup: []EOp{{Kind: "setrm", PType: "g", NoBuild: true}, {Kind: "add", Sec: "p", PType: "p", Rule: []string{"c", "data", "read"}}}}
	enumerate(c, cfgRM)
	// domain manager
	LD := [][]string{{"a", "b", "d1"}, {"b", "c", "d1"}, {"a", "b", "d2"}, {"c", "a", "d2"}}
	cfgD := &HistCfg{Name: "domain", MS: rbacSpec(true, false), Opts: CaseOpts{Adapter: true}, Depth: depth,
		Alphabet: groupingAlphabet("g", LD, []string{"b", "a", "d1"}), Probes: linkProbes("g", names, []string{"d1", "d2"})}
	if !c.Thorough() {
		cfgD.Depth = 2
	}
	cfgD.AfterCase = handBack("g", cfgD.Probes)
	enumerate(c, cfgD)
	// two role definitions: links of g must not leak into g2 and vice versa
	// the same links in both definitions, so that an operation reaching the wrong manager is visible
	var alpha2 []EOp
	for _, gt := range []string{"g", "g2"} {
		for _, o := range groupingAlphabet(gt, L, []string{"b", "a"}) {
			switch o.Kind {
			case "clear", "load", "save":
			default:
				if o.Kind == "add" || o.Kind == "rm" {
					if o.Rule[0] != "a" { // keep the alphabet small: a->b, a->c
						continue
					}
				}
				alpha2 = append(alpha2, o)
			}
		}
	}
	alpha2 = append(alpha2, EOp{Kind: "clear"}, EOp{Kind: "load"})
	cfg2 := &HistCfg{Name: "g+g2", MS: rbacSpec(false, true), Opts: CaseOpts{Adapter: true}, Depth: 2,
		Alphabet: alpha2, Probes: append(linkProbes("g", names, nil), linkProbes("g2", names, nil)...)}
	if c.Thorough() {
		cfg2.Depth = 3
	}
	enumerate(c, cfg2)
	// the convenience layer (rbac_api.go, rbac_api_with_domains.go) against Model/RbacApi.lean
	rbacApiFamily(c, "")

	// a reload that the role manager rejects at its j-th link (implementation only: a failing role
	// manager is not part of the protocol): afterwards the graph must still mirror the listed rules
	for j := 1; j <= 4; j++ {
		for _, preLinks := range [][][]string{{}, {{"a", "b"}}, {{"a", "b"}, {"b", "c"}}} {
			s := StartCaseQuiet(rbacSpec(false, false), CaseOpts{Adapter: true})
			for _, l := range preLinks {
				s.Exec(EOp{Kind: "add", Sec: "g", PType: "g", Rule: l})
			}
			frm := &failingRM{RoleManager: s.E.GetRoleManager()}
			s.E.SetRoleManager(frm)
			_ = s.E.BuildRoleLinks()
			s.A.Lines = append(s.A.Lines, memLine("g", "c", "a"), memLine("g", "x", "a"), memLine("g", "b", "x"))
			frm.n, frm.failAt = 0, j
			err := s.E.LoadPolicy()
			frm.failAt = 0
			c.Evals++
			if err == nil {
				continue
			}
			listed, _ := s.E.GetGroupingPolicy()
			ref, _ := casbin.NewEnforcer(rbacSpec(false, false).Build())
			_, _ = ref.AddGroupingPolicies(cloneRules(listed))
			for _, u := range []string{"a", "b", "c", "x"} {
				for _, r := range []string{"a", "b", "c", "x"} {
					live, _ := s.E.GetRoleManager().HasLink(u, r)
					want, _ := ref.GetRoleManager().HasLink(u, r)
					if live != want {
						c.Direct("after a reload rejected by the role manager the role graph does not mirror the listed grouping rules", fmt.Sprintf("links before=%v AddLink #%d fails; listed=%v HasLink(%s,%s) live=%v rebuilt-from-listed=%v", preLinks, j, listed, u, r, live, want))
					}
				}
			}
			c.Count("rejected_reload_mirror_checks", 1)
		}
	}
	// conditional role managers (not modelled): the maintained graph decides like one rebuilt from the listed rules
	condFamily(c, depth, "after grouping-policy calls on a conditional role definition the live enforcer decides differently from one rebuilt from the listed rules")
	// conditional role managers against the Lean model: driven directly, and through the grouping API
	c05CondDirect(c)
	c05CondEnforcer(c)
	c.W.Op("case enforcer", "#")
	// random: longer histories, over-long rules (truncated to the definition's arity by casbin)
	n := 60
	if c.Thorough() {
		n = 3000
	}
	long := append(append([]EOp(nil), cfg.Alphabet...),
		EOp{Kind: "add", Sec: "g", PType: "g", Rule: []string{"a", "b", "x"}},
		EOp{Kind: "rm", Sec: "g", PType: "g", Rule: []string{"a", "b", "x"}},
		EOp{Kind: "add", Sec: "g", PType: "g", Rule: []string{"c", "b"}},
		EOp{Kind: "buildlinks"},
	)
	cfgR := &HistCfg{Name: "plain-random", MS: rbacSpec(false, false), Opts: CaseOpts{Adapter: true}, Alphabet: long, Probes: cfg.Probes}
	randomHistories(c, cfgR, n, 5, 40)
	cfgRD := &HistCfg{Name: "domain-random", MS: rbacSpec(true, false), Opts: CaseOpts{Adapter: true}, Alphabet: cfgD.Alphabet, Probes: cfgD.Probes}
	randomHistories(c, cfgRD, n, 5, 40)
}
