package main

import (
	"fmt"
	"strings"
	"verif/harness/internal/mem"

	"github.com/casbin/casbin/v2"
	"github.com/casbin/casbin/v2/rbac"
	defaultrolemanager "github.com/casbin/casbin/v2/rbac/default-role-manager"

	"verif/harness/internal/proto"
)

// Conditional role managers against the Lean model (Model/CondRM.lean, driver case `condrm`).
// Two drivers send the same role-manager level operations:
//   - direct: NewConditionalRoleManager / NewConditionalDomainManager driven by seeded random and
//     enumerated operation sequences;
//   - enforcer: an Enforcer with a conditional role definition driven through the grouping API; each
//     call is translated into the role-manager operations the model theorems are about (a rule that was
//     added = addlink with its parameters, a rule that was removed = dellink, ClearPolicy = clear,
//     LoadPolicy = clear + addlink per listed rule), so a grouping call that does not reach the
//     conditional role manager (D14) shows as a difference.
// The one registered condition function accepts a link iff its first parameter is "on".

func condOn(args ...string) (bool, error) { return len(args) > 0 && args[0] == "on", nil }

const condDomainModelText = `
[request_definition]
r = sub, dom, obj, act
[policy_definition]
p = sub, dom, obj, act
[role_definition]
g = _, _, _, (_, _)
[policy_effect]
e = some(where (p.eft == allow))
[matchers]
m = g(r.sub, p.sub, r.dom) && r.dom == p.dom && r.obj == p.obj && r.act == p.act
`

type condRMOp struct {
	kind   string // addlink dellink addcond clear
	u, r   string
	d      string
	params []string
}

func (o condRMOp) line(domain bool) string {
	key := proto.Enc(o.u) + " " + proto.Enc(o.r)
	if domain {
		key += " " + proto.Enc(o.d)
	}
	switch o.kind {
	case "addlink":
		return strings.TrimRight("addlink "+key+" ; "+proto.EncRule(o.params), " ")
	case "clear":
		return "clear"
	}
	return o.kind + " " + key
}

func condApply(rm rbac.ConditionalRoleManager, domain bool, o condRMOp) {
	switch o.kind {
	case "addlink":
		if domain {
			_ = rm.AddLink(o.u, o.r, o.d)
			rm.SetDomainLinkConditionFuncParams(o.u, o.r, o.d, o.params...)
		} else {
			_ = rm.AddLink(o.u, o.r)
			rm.SetLinkConditionFuncParams(o.u, o.r, o.params...)
		}
	case "dellink":
		if domain {
			_ = rm.DeleteLink(o.u, o.r, o.d)
		} else {
			_ = rm.DeleteLink(o.u, o.r)
		}
	case "addcond":
		if domain {
			rm.AddDomainLinkConditionFunc(o.u, o.r, o.d, condOn)
		} else {
			rm.AddLinkConditionFunc(o.u, o.r, condOn)
		}
	case "clear":
		_ = rm.Clear()
	}
}

var condNames = []string{"a", "b", "c", "d"}

func condProbe(c *Ctx, rm rbac.ConditionalRoleManager, domain bool, doms []string, what func() string) {
	ds := []string{""}
	if domain {
		ds = doms
	}
	for _, d := range ds {
		for _, u := range condNames {
			for _, r := range condNames {
				var ok bool
				var err error
				line := "haslink " + proto.Enc(u) + " " + proto.Enc(r)
				if domain {
					ok, err = rm.HasLink(u, r, d)
					line += " " + proto.Enc(d)
				} else {
					ok, err = rm.HasLink(u, r)
				}
				if err != nil {
					c.Direct("HasLink of a conditional role manager failed", what())
				}
				c.W.Op(line, proto.Bool(ok))
				if ok && u != r {
					c.Count("cond_links_held", 1)
				}
			}
		}
	}
}

func condRandomOp(c *Ctx, domain bool, doms []string) condRMOp {
	o := condRMOp{u: condNames[c.Rng.Intn(len(condNames))], r: condNames[c.Rng.Intn(len(condNames))]}
	if domain {
		o.d = doms[c.Rng.Intn(len(doms))]
	}
	switch k := c.Rng.Intn(20); {
	case k < 9:
		o.kind = "addlink"
		o.params = [][]string{{"on", "x"}, {"off", "x"}, {"on"}, {}}[c.Rng.Intn(4)]
	case k < 13:
		o.kind = "dellink"
	case k < 19:
		o.kind = "addcond"
	default:
		o.kind = "clear"
	}
	return o
}

// condChains: chains around the hierarchy depth limit (10): reachable over exactly 10 links, not over 11
func condChains(c *Ctx) {
	for _, domain := range []bool{false, true} {
		var rm rbac.ConditionalRoleManager
		if domain {
			rm = defaultrolemanager.NewConditionalDomainManager(10)
			c.W.Op("new domain", "ok")
		} else {
			rm = defaultrolemanager.NewConditionalRoleManager(10)
			c.W.Op("new plain", "ok")
		}
		name := func(i int) string { return fmt.Sprintf("n%d", i) }
		for i := 0; i < 12; i++ {
			o := condRMOp{kind: "addlink", u: name(i), r: name(i + 1), d: "d1", params: []string{"on"}}
			condApply(rm, domain, o)
			c.W.Op(o.line(domain), "ok")
		}
		for _, pr := range [][2]int{{0, 9}, {0, 10}, {0, 11}, {2, 12}, {1, 12}, {3, 3}, {5, 4}} {
			line := "haslink " + name(pr[0]) + " " + name(pr[1])
			var ok bool
			if domain {
				ok, _ = rm.HasLink(name(pr[0]), name(pr[1]), "d1")
				line += " d1"
			} else {
				ok, _ = rm.HasLink(name(pr[0]), name(pr[1]))
			}
			c.W.Op(line, proto.Bool(ok))
		}
		c.Evals++
		c.Count("cond_rm_chain_cases", 1)
	}
}

func c05CondDirect(c *Ctx) {
	c.W.Op("case condrm", "#")
	condChains(c)
	n := 150
	if c.Thorough() {
		n = 6000
	}
	for i := 0; i < n; i++ {
		domain := i%2 == 1
		doms := []string{"d1", "d2"}
		if i%6 == 5 {
			doms = []string{"d1", ""} // the default domain "" is the one deeper hops look conditions up under
		}
		var rm rbac.ConditionalRoleManager
		if domain {
			rm = defaultrolemanager.NewConditionalDomainManager(10)
			c.W.Op("new domain", "ok")
		} else {
			rm = defaultrolemanager.NewConditionalRoleManager(10)
			c.W.Op("new plain", "ok")
		}
		var hist []string
		L := 2 + c.Rng.Intn(14)
		for k := 0; k < L; k++ {
			o := condRandomOp(c, domain, doms)
			condApply(rm, domain, o)
			c.W.Op(o.line(domain), "ok")
			hist = append(hist, o.line(domain))
			if k == L-1 || c.Rng.Intn(3) == 0 {
				condProbe(c, rm, domain, doms, func() string { return strings.Join(hist, " ; ") })
			}
		}
		c.Evals++
		c.Count("cond_rm_histories", 1)
		c.Nontrivial("condrm|" + strings.Join(hist, ";"))
	}
}

// c05CondEnforcer drives an Enforcer with a conditional role definition through the grouping API.
func c05CondEnforcer(c *Ctx) {
	n := 80
	if c.Thorough() {
		n = 2500
	}
	for i := 0; i < n; i++ {
		domain := i%2 == 1
		doms := []string{"d1", "d2"}
		text := condModelText
		if domain {
			text = condDomainModelText
			c.W.Op("new domain", "ok")
		} else {
			c.W.Op("new plain", "ok")
		}
		// every other pair of cases on an enforcer whose policy came from an adapter: the model in use is
		// then the copy LoadPolicy made, not the one that was parsed
		var e *casbin.Enforcer
		var err error
		if i%4 >= 2 {
			e, err = casbin.NewEnforcer(mustModel(text), mem.New())
			c.Count("cond_enforcer_loaded_from_adapter", 1)
		} else {
			e, err = casbin.NewEnforcer(mustModel(text))
		}
		if err != nil {
			panic(err)
		}
		rule := func(u, r, d string, params []string) []string {
			out := []string{u, r}
			if domain {
				out = append(out, d)
			}
			return append(out, params...)
		}
		opOf := func(kind string, rl []string) condRMOp {
			o := condRMOp{kind: kind, u: rl[0], r: rl[1]}
			rest := rl[2:]
			if domain {
				o.d = rl[2]
				rest = rl[3:]
			}
			o.params = rest
			return o
		}
		emit := func(o condRMOp) { c.W.Op(o.line(domain), "ok") }
		var hist []string
		L := 2 + c.Rng.Intn(12)
		for k := 0; k < L; k++ {
			u, r := condNames[c.Rng.Intn(len(condNames))], condNames[c.Rng.Intn(len(condNames))]
			d := doms[c.Rng.Intn(len(doms))]
			params := [][]string{{"on", "x"}, {"off", "x"}}[c.Rng.Intn(2)]
			rl := rule(u, r, d, params)
			listedBefore, _ := e.GetGroupingPolicy()
			switch k := c.Rng.Intn(24); {
			case k < 6:
				hist = append(hist, fmt.Sprintf("AddGroupingPolicy%v", rl))
				if ok, _ := e.AddGroupingPolicy(rl); ok {
					emit(opOf("addlink", rl))
				}
			case k < 9:
				other := rule(condNames[c.Rng.Intn(len(condNames))], condNames[c.Rng.Intn(len(condNames))], d, params)
				hist = append(hist, fmt.Sprintf("AddGroupingPolicies[%v %v]", rl, other))
				if ok, _ := e.AddGroupingPolicies([][]string{rl, other}); ok {
					emit(opOf("addlink", rl))
					if strings.Join(other, ",") != strings.Join(rl, ",") {
						emit(opOf("addlink", other))
					}
				}
			case k < 12:
				// remove a listed rule (or a random one)
				if len(listedBefore) > 0 && c.Rng.Intn(4) > 0 {
					rl = listedBefore[c.Rng.Intn(len(listedBefore))]
				}
				hist = append(hist, fmt.Sprintf("RemoveGroupingPolicy%v", rl))
				if ok, _ := e.RemoveGroupingPolicy(rl); ok {
					emit(opOf("dellink", rl))
				}
			case k < 14:
				hist = append(hist, fmt.Sprintf("RemoveFilteredGroupingPolicy(0,%s)", u))
				if ok, _ := e.RemoveFilteredGroupingPolicy(0, u); ok {
					for _, l := range listedBefore {
						if l[0] == u {
							emit(opOf("dellink", l))
						}
					}
				}
			case k < 16:
				if len(listedBefore) == 0 {
					continue
				}
				old := listedBefore[c.Rng.Intn(len(listedBefore))]
				hist = append(hist, fmt.Sprintf("UpdateGroupingPolicy(%v -> %v)", old, rl))
				if ok, _ := e.UpdateGroupingPolicy(old, rl); ok {
					emit(opOf("dellink", old))
					emit(opOf("addlink", rl))
				}
			case k < 21:
				hist = append(hist, fmt.Sprintf("AddNamed(Domain)LinkConditionFunc(%s,%s,%s)", u, r, d))
				if domain {
					e.AddNamedDomainLinkConditionFunc("g", u, r, d, condOn)
				} else {
					e.AddNamedLinkConditionFunc("g", u, r, condOn)
				}
				emit(condRMOp{kind: "addcond", u: u, r: r, d: d})
			case k < 22:
				hist = append(hist, "ClearPolicy")
				e.ClearPolicy()
				emit(condRMOp{kind: "clear"})
			default:
				hist = append(hist, "BuildRoleLinks")
				_ = e.BuildRoleLinks()
				emit(condRMOp{kind: "clear"})
				listed, _ := e.GetGroupingPolicy()
				for _, l := range listed {
					emit(opOf("addlink", l))
				}
			}
			crm := e.GetModel()["g"]["g"].CondRM
			if crm == nil {
				c.Direct("a conditional role definition has no conditional role manager", strings.Join(hist, " ; "))
				break
			}
			if k == L-1 || c.Rng.Intn(2) == 0 {
				condProbe(c, crm, domain, doms, func() string { return strings.Join(hist, " ; ") })
			}
		}
		c.Evals++
		c.Count("cond_enforcer_histories", 1)
		c.Nontrivial("condenf|" + strings.Join(hist, ";"))
	}
}
