package main

import (
	stringadapter "github.com/casbin/casbin/v2/persist/string-adapter"
	"fmt"
	"math/rand"
	"strings"

	"github.com/casbin/casbin/v2"
	"github.com/casbin/casbin/v2/model"
)

func init() { registry["C06"] = runC06 }

func c06Model() model.Model {
	m := model.NewModel()
	m.AddDef("r", "r", "sub, obj, act")
	m.AddDef("p", "p", "sub, obj, act")
	m.AddDef("p", "p2", "sub, obj")
	m.AddDef("p", "p3", "priority, sub, act") // rules are inserted by priority, the index map is shifted
	m.AddDef("g", "g", "_, _")
	m.AddDef("e", "e", "some(where (p.eft == allow))")
	m.AddDef("m", "m", "g(r.sub, p.sub) && r.obj == p.obj && r.act == p.act")
	return m
}

// for the priority definition the first field is a number: b < d < a < c, e does not parse
var c06Prio = map[string]string{"a": "20", "b": "10", "c": "30", "d": "15", "e": "oops"}
var c06PrioOn bool

// c06Extra > 0: every rule carries that many fields beyond the definition (casbin accepts over-long rules; for
// grouping rules they are legitimate extra columns), each rule with its own value there
var c06Extra int

// the small op alphabet for exhaustive histories over three rules A, B, C of arity n
func c06Alphabet(n int, big bool) []SOp {
	mk := func(s string) []string {
		r := make([]string, n)
		for i := range r {
			r[i] = fmt.Sprintf("%s%d", s, i)
		}
		r[n-1] = "x" // shared last field so that filters can select several rules
		if c06PrioOn {
			r[0] = c06Prio[s]
		}
		for k := 0; k < c06Extra; k++ {
			r = append(r, fmt.Sprintf("%sx%d", s, k))
		}
		return r
	}
	A, B, C := mk("a"), mk("b"), mk("c")
	rules := [][]string{A, B, C}
	var ops []SOp
	for _, r := range rules {
		ops = append(ops, SOp{Kind: "add", Rule: r}, SOp{Kind: "rm", Rule: r})
	}
	ops = append(ops,
		SOp{Kind: "adds", Rules: [][]string{A, B}}, SOp{Kind: "adds", Ex: true, Rules: [][]string{A, B}},
		SOp{Kind: "adds", Rules: [][]string{B, C}}, SOp{Kind: "adds", Ex: true, Rules: [][]string{C, C}},
		SOp{Kind: "rms", Rules: [][]string{A, B}}, SOp{Kind: "rms", Rules: [][]string{C, A}},
		SOp{Kind: "upd", Rule: A, New: B}, SOp{Kind: "upd", Rule: B, New: C}, SOp{Kind: "upd", Rule: C, New: A},
		SOp{Kind: "upds", Rules: [][]string{A, B}, News: [][]string{C, mk("d")}},
		SOp{Kind: "upds", Rules: [][]string{A}, News: [][]string{mk("d")}},
		// an unchanged pair followed by a pair whose old rule is missing: the rollback must leave A indexed
		SOp{Kind: "upds", Rules: [][]string{A, mk("d")}, News: [][]string{A, mk("e")}},
		SOp{Kind: "rmf", FI: 0, Vals: []string{A[0]}}, SOp{Kind: "rmf", FI: n - 1, Vals: []string{"x"}},
		SOp{Kind: "rmf", FI: 0, Vals: []string{"", B[1]}},
		// a fixed-width filter padded with empty values beyond the rule's last field: empty values select nothing
		// out, wherever they stand
		SOp{Kind: "rmf", FI: 0, Vals: append([]string{A[0]}, make([]string, n+1)...)},
		SOp{Kind: "rmf", FI: n - 1, Vals: []string{"x", "", ""}},
	)
	if c06Extra > 0 {
		// filters that reach into the columns beyond the definition: they select by those values too
		ops = append(ops,
			SOp{Kind: "rmf", FI: n - 1, Vals: []string{"x", B[n]}},    // B only
			SOp{Kind: "rmf", FI: 0, Vals: append(append([]string{A[0]}, make([]string, n-1)...), A[n])}, // A only
			SOp{Kind: "rmf", FI: n - 1, Vals: []string{"x", "nobody"}}, // nothing
			SOp{Kind: "rmf", FI: n, Vals: []string{C[n]}},              // C only
		)
	}
	if big {
		ops = append(ops,
			SOp{Kind: "upd", Rule: A, New: mk("d")}, SOp{Kind: "upd", Rule: B, New: A},
			SOp{Kind: "adds", Rules: [][]string{C}}, SOp{Kind: "rms", Rules: [][]string{B}},
			SOp{Kind: "upds", Rules: [][]string{B, C}, News: [][]string{mk("d"), mk("e")}},
			SOp{Kind: "rmf", FI: 1, Vals: []string{C[1]}},
		)
	}
	return ops
}

func c06Probes(n int) []SOp {
	mk := func(s string) []string {
		r := make([]string, n)
		for i := range r {
			r[i] = fmt.Sprintf("%s%d", s, i)
		}
		r[n-1] = "x"
		if c06PrioOn {
			r[0] = c06Prio[s]
		}
		for k := 0; k < c06Extra; k++ {
			r = append(r, fmt.Sprintf("%sx%d", s, k))
		}
		return r
	}
	return []SOp{
		{Kind: "has", Rule: mk("a")}, {Kind: "has", Rule: mk("b")}, {Kind: "has", Rule: mk("c")}, {Kind: "has", Rule: mk("d")},
		{Kind: "getf", FI: n - 1, Vals: []string{"x"}}, {Kind: "getf", FI: 0, Vals: []string{"a0"}},
		{Kind: "getf", FI: n - 1, Vals: []string{"x", "", ""}},
	}
}

type storeTarget struct {
	sec, ptype string
	n          int
	prio       bool
	extra      int
}

func runC06(c *Ctx) {
	depth := 3
	if c.Thorough() {
		depth = 4
	}
	c.Rule = fmt.Sprintf("all histories of depth <= %d over an alphabet of Add/Remove/Update/RemoveFiltered and batch/Ex variants on three rules, for p (arity 3), p2 (arity 2), g, g with rules that carry a column beyond the definition (filters reach into it) and a definition with a priority field (insertion by priority shifts the index map), through the Enforcer API, observing result, GetPolicy order and the exported PolicyMap after every call and HasPolicy/GetFilteredPolicy probes at the end (exhaustive); plus seeded random histories of 10 to 59 calls over a universe with separator-like fields (',', '$$', NUL, blanks, empty), over-long rules, update chains; after loads whose sorts (subject hierarchy, explicit priority) re-order the rules: index vs list, removal by value of every listed rule (implementation only); every exported SyncedEnforcer method (except the lock, auto-load, SetWatcher and LoadModel wrappers) vs the Enforcer method it wraps on twin enforcers (results, rules, store, notifications, decisions; implementation only); every enumerated history ends with the listing handed straight back to the batch removal (RemovePolicies(GetPolicy())); non-trivial = at least one call that changed the store and one that reported false; distinct = whole history", depth)
	targets := []storeTarget{{"p", "p", 3, false, 0}, {"p", "p2", 2, false, 0}, {"g", "g", 2, false, 0}, {"p", "p3", 3, true, 0}, {"g", "g", 2, false, 1}}
	caseNo := 0
	for _, t := range targets {
		c06PrioOn = t.prio
		c06Extra = t.extra
		alpha := c06Alphabet(t.n, false)
		if t.prio {
			// additions in every priority order, then removal / update of what was inserted in the middle
			alpha = append(alpha, SOp{Kind: "add", Rule: []string{"15", "d1", "x"}}, SOp{Kind: "rm", Rule: []string{"15", "d1", "x"}},
				SOp{Kind: "upd", Rule: []string{"15", "d1", "x"}, New: []string{"15", "d9", "x"}}, SOp{Kind: "add", Rule: []string{"oops", "e1", "x"}})
		}
		probes := c06Probes(t.n)
		hdr := "-"
		if t.prio {
			hdr = "0"
		}
		seq := make([]int, 0, depth)
		var rec func()
		run := func() {
			e, err := casbin.NewEnforcer(c06Model())
			if err != nil {
				panic(err)
			}
			caseNo++
			c.W.Op(fmt.Sprintf("case store %d %s", t.n, hdr), "#")
			changed, refused := false, false
			var lines []string
			dupSeen := false // findings D11 / D12: once two listed rules share a key the index is known to be off
			for _, i := range seq {
				// finding D12: an update onto a rule that is already listed (even one that is rolled back)
				{
					listedNow := map[string]bool{}
					for _, r := range e.GetModel()[t.sec][t.ptype].Policy {
						listedNow[strings.Join(r, ",")] = true
					}
					o := alpha[i]
					news, olds := o.News, o.Rules
					if o.Kind == "upd" {
						news, olds = [][]string{o.New}, [][]string{o.Rule}
					}
					if o.Kind == "upd" || o.Kind == "upds" {
						for k, nr := range news {
							if listedNow[strings.Join(nr, ",")] && (k >= len(olds) || strings.Join(olds[k], ",") != strings.Join(nr, ",")) {
								dupSeen = true
							}
						}
					}
				}
				obs := execStore(e, t.sec, t.ptype, alpha[i])
				c.W.Op(alpha[i].Line(), obs)
				lines = append(lines, alpha[i].Line())
				// on the implementation itself: present exactly when listed — every listed rule is indexed
				// at its slot and nothing else is indexed
				ast := e.GetModel()[t.sec][t.ptype]
				keys := map[string]bool{}
				for _, r := range ast.Policy {
					k := strings.Join(r, ",")
					if keys[k] {
						dupSeen = true
					}
					keys[k] = true
				}
				if !dupSeen {
					bad := len(ast.PolicyMap) != len(ast.Policy)
					for idx, r := range ast.Policy {
						if j, ok := ast.PolicyMap[strings.Join(r, ",")]; !ok || j != idx {
							bad = true
						}
					}
					if bad {
						c.Direct("the index map and the rule list disagree: a listed rule is not indexed at its slot (HasPolicy / RemovePolicy / UpdatePolicy then act on the wrong rule)", fmt.Sprintf("%s/%s: %s\npolicy=%v index=%v", t.sec, t.ptype, strings.Join(lines, " ; "), ast.Policy, ast.PolicyMap))
					}
				}
				if strings.HasPrefix(obs, "true") {
					changed = true
				}
				if strings.HasPrefix(obs, "false") {
					refused = true
				}
				c.Count("op="+alpha[i].Kind, 1)
				c.Count("res="+strings.SplitN(obs, " ", 2)[0], 1)
			}
			for _, pr := range probes {
				c.W.Op(pr.Line(), execStore(e, t.sec, t.ptype, pr))
			}
			// finally the listing handed straight back to the batch removal (RemovePolicies(GetPolicy())): it
			// removes every listed rule, whatever the library does to its own list on the way
			if now := cloneRules(e.GetModel()[t.sec][t.ptype].Policy); len(now) > 1 && !dupSeen {
				o := SOp{Kind: "rms", Rules: now, Listed: true}
				c.W.Op(o.Line(), execStore(e, t.sec, t.ptype, o))
				for _, pr := range probes {
					c.W.Op(pr.Line(), execStore(e, t.sec, t.ptype, pr))
				}
				c.Count("listing_handed_back_removals", 1)
			}
			c.Evals++
			if changed && refused {
				c.Nontrivial(t.ptype + ":" + strings.Join(lines, ";"))
			}
			if caseNo%4001 == 1 {
				c.Sample(t.sec + "/" + t.ptype + ": " + strings.Join(lines, " ; "))
			}
		}
		rec = func() {
			if len(seq) > 0 {
				run()
			}
			if len(seq) == depth {
				return
			}
			for i := range alpha {
				seq = append(seq, i)
				rec()
				seq = seq[:len(seq)-1]
			}
		}
		rec()
	}
	c.Exhaustive = true

	// seeded random histories over a hostile universe
	nRandom := 400
	if c.Thorough() {
		nRandom = 20000
	}
	for i := 0; i < nRandom; i++ {
		t := targets[c.Rng.Intn(len(targets))]
		c06Random(c, t, 10+c.Rng.Intn(50))
	}
	c06LoadedSorts(c)
	// the synchronised wrapper must do to the store what the plain enforcer does
	rounds := 3
	if c.Thorough() {
		rounds = 30
	}
	wrapperTransparency(c, rounds, nil)
}

var hostileFields = []string{"alice", "bob", "d1", "d2", "read", "a,b", "a", "b", "b,c", "c", "", ",", "$$", "a$$b", "x\x00y", " lead", "trail ", "#h", "\"q\"", "é", "*"}

func c06Random(c *Ctx, t storeTarget, length int) {
	e, err := casbin.NewEnforcer(c06Model())
	if err != nil {
		panic(err)
	}
	rng := c.Rng
	hostile := rng.Intn(3) == 0 // two thirds of the cases stay inside the theorem's hypothesis
	field := func() string {
		if hostile {
			return hostileFields[rng.Intn(len(hostileFields))]
		}
		return []string{"alice", "bob", "carol", "d1", "d2", "read", "write"}[rng.Intn(7)]
	}
	prioField := func() string {
		return []string{"1", "2", "3", "5", "8", "-1", "+4", "x", ""}[rng.Intn(9)]
	}
	pool := [][]string{}
	newRule := func() []string {
		n := t.n
		if hostile && rng.Intn(8) == 0 {
			n++ // over-long rules are accepted by casbin
		}
		r := make([]string, n)
		for i := range r {
			r[i] = field()
		}
		if t.prio {
			r[0] = prioField()
		}
		pool = append(pool, r)
		return r
	}
	anyRule := func() []string {
		if len(pool) > 0 && rng.Intn(3) != 0 {
			return pool[rng.Intn(len(pool))]
		}
		return newRule()
	}
	listed := func() [][]string {
		return e.GetModel()[t.sec][t.ptype].Policy
	}
	key := func(r []string) string { return strings.Join(r, ",") }
	hdr := "-"
	if t.prio {
		hdr = "0"
	}
	c.W.Op(fmt.Sprintf("case store %d %s", t.n, hdr), "#")
	var lines []string
	changed, refused := false, false
	for i := 0; i < length; i++ {
		var o SOp
		switch k := rng.Intn(12); {
		case k < 3:
			o = SOp{Kind: "add", Rule: anyRule()}
		case k < 4:
			o = SOp{Kind: "rm", Rule: anyRule()}
		case k < 5:
			n := rng.Intn(4)
			o = SOp{Kind: "adds", Ex: rng.Intn(2) == 0}
			for j := 0; j < n; j++ {
				o.Rules = append(o.Rules, anyRule())
			}
		case k < 6:
			n := rng.Intn(3)
			o = SOp{Kind: "rms"}
			for j := 0; j < n; j++ {
				o.Rules = append(o.Rules, anyRule())
			}
		case k < 8:
			o = SOp{Kind: "upd", Rule: anyRule(), New: anyRule()}
		case k < 9:
			// batch update: old rules mostly listed; when an old rule may be missing (rollback) the new
			// rules are kept fresh and key-disjoint, because Go's rollback iterates a map and its result
			// is order-dependent exactly when keys of old and new rules overlap
			n := 1 + rng.Intn(3)
			o = SOp{Kind: "upds"}
			cur := listed()
			allListed := true
			seen := map[string]bool{}
			for j := 0; j < n; j++ {
				var old []string
				if len(cur) > 0 && rng.Intn(5) != 0 {
					old = cur[rng.Intn(len(cur))]
				} else {
					old = anyRule()
				}
				if ok, _ := e.GetModel().HasPolicy(t.sec, t.ptype, old); !ok || seen[key(old)] {
					allListed = false
				}
				seen[key(old)] = true
				o.Rules = append(o.Rules, old)
			}
			for j := 0; j < n; j++ {
				if allListed && rng.Intn(2) == 0 {
					o.News = append(o.News, anyRule())
				} else {
					var nr []string
					for {
						nr = newRule()
						if !seen[key(nr)] {
							break
						}
					}
					seen[key(nr)] = true
					o.News = append(o.News, nr)
				}
			}
			if !allListed {
				// make sure no new key equals an old key
				for _, nr := range o.News {
					for _, old := range o.Rules {
						if key(nr) == key(old) {
							o.News = cloneRules(o.Rules) // degenerate but deterministic: new == old
						}
					}
				}
			}
			if rng.Intn(10) == 0 {
				o.News = o.News[:len(o.News)-1] // length error
			}
		case k < 10:
			fi := rng.Intn(t.n)
			nv := 1 + rng.Intn(t.n-fi)
			o = SOp{Kind: "rmf", FI: fi}
			for j := 0; j < nv; j++ {
				if rng.Intn(3) == 0 {
					o.Vals = append(o.Vals, "")
				} else {
					o.Vals = append(o.Vals, field())
				}
			}
		case k < 11:
			o = SOp{Kind: "has", Rule: anyRule()}
		default:
			fi := rng.Intn(t.n)
			o = SOp{Kind: "getf", FI: fi, Vals: []string{field()}}
		}
		obs := execStore(e, t.sec, t.ptype, o)
		c.W.Op(o.Line(), obs)
		lines = append(lines, o.Line())
		if strings.HasPrefix(obs, "true") {
			changed = true
		}
		if strings.HasPrefix(obs, "false") {
			refused = true
		}
		c.Count("rop="+o.Kind, 1)
		c.Count("rres="+strings.SplitN(obs, " ", 2)[0], 1)
	}
	if hostile {
		c.Count("random_hostile_cases", 1)
	} else {
		c.Count("random_plain_cases", 1)
	}
	c.Evals++
	if changed && refused {
		c.Nontrivial(strings.Join(lines, ";"))
	}
	_ = rand.Int
}

// c06LoadedSorts: the load-time sorts (subject hierarchy, explicit priority) re-order the listed rules; afterwards
// every listed rule must be indexed at its slot, be reported present, and a removal by value must remove exactly
// that rule.  Implementation only.
func c06LoadedSorts(c *Ctx) {
	type tc struct {
		name, model, policy string
	}
	subj := strings.Replace(strings.Replace(rbacText, "some(where (p.eft == allow))", "subjectPriority(p_eft) || deny", 1), "p = sub, obj, act", "p = sub, obj, act, eft", 1)
	prio := strings.Replace(strings.Replace(rbacText, "some(where (p.eft == allow))", "priority(p_eft) || deny", 1), "p = sub, obj, act", "p = priority, sub, obj, act, eft", 1)
	prio = strings.Replace(prio, "m = g(r.sub, p.sub) && r.obj == p.obj && r.act == p.act", "m = g(r.sub, p.sub) && r.obj == p.obj && r.act == p.act", 1)
	cases := []tc{
		{"subject priority", subj, "p, root, data1, read, deny\np, admin, data1, read, deny\np, alice, data1, read, allow\np, bob, data2, write, allow\ng, admin, root\ng, alice, admin\ng, bob, root\n"},
		{"explicit priority", prio, "p, 30, alice, data1, read, deny\np, 10, admin, data1, read, allow\np, 20, bob, data2, write, allow\np, 10, root, data1, read, deny\ng, alice, admin\n"},
	}
	for _, t := range cases {
		for victim := 0; victim < 4; victim++ {
			e, err := casbin.NewEnforcer(mustModel(t.model), stringadapter.NewAdapter(t.policy))
			if err != nil {
				panic(err)
			}
			ast := e.GetModel()["p"]["p"]
			what := fmt.Sprintf("%s, loaded from %q", t.name, t.policy)
			for idx, r := range ast.Policy {
				if j, ok := ast.PolicyMap[strings.Join(r, ",")]; !ok || j != idx {
					c.Direct("after a load that re-ordered the rules the index map and the rule list disagree", fmt.Sprintf("%s\npolicy=%v index=%v", what, ast.Policy, ast.PolicyMap))
					break
				}
			}
			live, _ := e.GetPolicy()
			listed := cloneRules(live) // GetPolicy hands out the live list
			if victim >= len(listed) {
				continue
			}
			gone := append([]string(nil), listed[victim]...)
			ok, err := e.RemovePolicy(gone)
			after, _ := e.GetPolicy()
			var want [][]string
			for i, r := range listed {
				if i != victim {
					want = append(want, r)
				}
			}
			c.Evals++
			c.Count("loaded_sort_cases", 1)
			if !ok || err != nil || fmt.Sprint(after) != fmt.Sprint(want) {
				c.Direct("after a load that re-ordered the rules, removing a listed rule by value does not remove exactly that rule", fmt.Sprintf("%s\nlisted=%v RemovePolicy(%v) = %v, %v\nlisted afterwards=%v\nexpected          %v", what, listed, gone, ok, err, after, want))
			}
			if has, _ := e.HasPolicy(gone); has {
				c.Direct("a removed rule is still reported present", fmt.Sprintf("%s rule=%v", what, gone))
			}
		}
	}
}
