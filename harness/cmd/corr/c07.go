package main

import (
	"fmt"
	"strconv"
	"strings"
	"time"

	"github.com/casbin/casbin/v2"
)

func init() { registry["C07"] = runC07 }

func prioSpecModel() *MSpec {
	return NewMSpec().AddR("r", "sub", "obj", "act").AddP("p", "priority", "sub", "obj", "act", "eft").AddG("g", 2).
		AddE("e", effPriority).AddM("m", "r", "p", And(G2("g", RTok(0), PTok(1)), Eq(RTok(1), PTok(2)), Eq(RTok(2), PTok(3))))
}

// sortedByPriority: non-decreasing numeric priorities, equal priorities in insertion order (seq = insertion number)
func sortedByPriority(pol [][]string, seq map[string]int) (bool, string) {
	for i := 1; i < len(pol); i++ {
		a, e1 := strconv.Atoi(pol[i-1][0])
		b, e2 := strconv.Atoi(pol[i][0])
		if e1 != nil { // a priority that does not parse sorts after every number
			a = 1 << 40
		}
		if e2 != nil {
			b = 1 << 40
		}
		if a > b {
			return false, fmt.Sprintf("%v before %v", pol[i-1], pol[i])
		}
		if a == b && seq[strings.Join(pol[i-1], ",")] > seq[strings.Join(pol[i], ",")] {
			return false, fmt.Sprintf("equal priorities out of insertion order: %v before %v", pol[i-1], pol[i])
		}
	}
	return true, ""
}

// two policy definitions with a priority field: on p it is the last field, on p2 the first; each has
// its own matcher (EnforceContext selects p2)
func prioTwoTypesModel() *MSpec {
	return NewMSpec().AddR("r", "sub", "obj", "act").
		AddP("p", "sub", "obj", "act", "eft", "priority").
		AddP("p2", "priority", "sub", "obj", "act", "eft").
		AddE("e", effPriority).
		AddM("m", "r", "p", And(Eq(RTok(0), PTok(0)), Eq(RTok(1), PTok(1)), Eq(RTok(2), PTok(2)))).
		AddM("m2", "r", "p2", And(Eq(RTok(0), PTok(1)), Eq(RTok(1), PTok(2)), Eq(RTok(2), PTok(3))))
}

func c07TwoTypes(c *Ctx) {
	ms := prioTwoTypesModel()
	req := []V{VS("alice"), VS("data1"), VS("read")}
	ctx2 := &casbin.EnforceContext{RType: "r", PType: "p2", EType: "e", MType: "m2"}
	rulesP := [][]string{{"alice", "data1", "read", "allow", "10"}, {"alice", "data1", "read", "deny", "1"}, {"alice", "data1", "read", "allow", "5"}}
	rulesP2 := [][]string{{"10", "alice", "data1", "read", "allow"}, {"1", "alice", "data1", "read", "deny"}, {"5", "alice", "data1", "read", "allow"}}
	for _, loaded := range []bool{false, true} {
		for _, idx := range seqsUpTo(3, 3) {
			if len(idx) == 0 {
				continue
			}
			opts := CaseOpts{}
			if loaded {
				opts.Adapter = true
			}
			s := StartCase(c, ms, opts)
			if s == nil {
				continue
			}
			for _, i := range idx {
				s.Do(c, EOp{Kind: "add", Sec: "p", PType: "p", Rule: rulesP[i]})
				s.Do(c, EOp{Kind: "add", Sec: "p", PType: "p2", Rule: rulesP2[i]})
				s.Do(c, EOp{Kind: "obs", Args: []string{"pol", "p", "p"}})
				s.Do(c, EOp{Kind: "obs", Args: []string{"pol", "p", "p2"}})
				d1 := s.Do(c, EOp{Kind: "enf", Req: req})
				d2 := s.Do(c, EOp{Kind: "enf", Ctx: ctx2, Req: req})
				// on the implementation: both definitions hold the same rules, so they decide alike, and the
				// listed order is the priority order whatever the insertion order
				if d1 != d2 {
					c.Direct("two policy definitions holding the same prioritised rules decide differently", fmt.Sprintf("loaded=%v insertion order %v: p decides %s, p2 decides %s", loaded, idx, d1, d2))
				}
				for _, pt := range []string{"p", "p2"} {
					pol := s.E.GetModel()["p"][pt].Policy
					fi := 0
					if pt == "p" {
						fi = 4
					}
					for k := 1; k < len(pol); k++ {
						a, _ := strconv.Atoi(pol[k-1][fi])
						b, _ := strconv.Atoi(pol[k][fi])
						if a > b {
							c.Direct("the listed rules of a prioritised definition are not in priority order", fmt.Sprintf("loaded=%v definition %s insertion order %v: %v", loaded, pt, idx, pol))
						}
					}
				}
			}
			c.Evals++
			c.Count("two_type_cases", 1)
			if len(idx) > 1 && idx[0] != 1 {
				c.Nontrivial(fmt.Sprintf("two-types|%v|%v", loaded, idx))
			}
		}
	}
}

func runC07(c *Ctx) {
	maxIns := 4
	maxEdges := 4
	if c.Thorough() {
		maxIns = 5
		maxEdges = 6
	}
	c.Exhaustive = true
	c.Rule = fmt.Sprintf("explicit priority: all insertion orders of <= %d of 7 prioritised rules (priorities -1, 0, 1, 1, 2, 10, and one that does not parse; and of 5 rules whose priorities are written with leading zeros or a sign: 010, 9, 008, +7, 0011) x {never loaded, loaded empty, loaded from a store with two rules} followed by a removal, an update that keeps the priority, a batch add and a reload; the listed order and the decision are compared with the Lean model after every call; on the implementation the listed rules must be in non-decreasing priority order with equal priorities in insertion order, and the decision must be the effect of the matching rule of least priority; two prioritised definitions in one model (priority as last field of p, first field of p2, EnforceContext), all insertion orders, never loaded / loaded; subject priority: all role graphs with <= %d links on 4 names (trees, DAGs, cycles, self loops) loaded through the string adapter under a 5 s watchdog (every third with auto-build-role-links off, the links built by hand afterwards), loaded order and decisions vs the model (graphs whose order depends on map iteration are recognised by the model and skipped: finding D22); for forests the deeper subject's rule must precede; non-trivial = a case in which the insertion order differs from the priority order / a graph with at least two levels; distinct = case", maxIns, maxEdges)
	candsMain := [][]string{{"-1", "alice", "data1", "read", "deny"}, {"0", "alice", "data1", "read", "allow"}, {"1", "alice", "data1", "read", "deny"},
		{"1", "alice", "data1", "read", "allow"}, {"2", "alice", "data1", "read", "other"}, {"10", "admin", "data1", "read", "deny"}, {"x", "alice", "data1", "read", "allow"}}
	ms := prioSpecModel()
	c07TwoTypes(c)
	starts := []string{"never-loaded", "loaded-empty", "loaded-two"}
	req := []V{VS("alice"), VS("data1"), VS("read")}
	// a second candidate set: priorities written with leading zeros and a sign are decimal numbers too
	// ("010" is ten, "008" is eight, "+7" is seven)
	candsPadded := [][]string{{"010", "alice", "data1", "read", "allow"}, {"9", "alice", "data1", "read", "deny"}, {"008", "alice", "data1", "read", "other"},
		{"+7", "alice", "data1", "read", "allow"}, {"0011", "admin", "data1", "read", "deny"}}
	for _, cands := range [][][]string{candsMain, candsPadded} {
		for _, start := range starts {
			for _, idx := range seqsUpTo(len(cands), maxIns) {
				if len(idx) == 0 {
					continue
				}
				opts := CaseOpts{}
				if start != "never-loaded" {
					opts.Adapter = true
				}
				if start == "loaded-two" {
					opts.ALines = []memLineT{{"p", []string{"1", "bob", "data1", "read", "allow"}}, {"p", []string{"5", "alice", "data1", "read", "deny"}}, {"g", []string{"alice", "admin"}}}
				}
				s := StartCase(c, ms, opts)
				if s == nil {
					continue
				}
				seq := map[string]int{}
				n := 0
				note := func() {
					pol := s.E.GetModel()["p"]["p"].Policy
					present := map[string]bool{}
					for _, r := range pol {
						present[strings.Join(r, ",")] = true
					}
					for k := range seq {
						if !present[k] {
							delete(seq, k) // removed: a later re-insertion counts as new
						}
					}
					for _, r := range pol {
						k := strings.Join(r, ",")
						if _, ok := seq[k]; !ok {
							n++
							seq[k] = n
						}
					}
				}
				note()
				check := func(what string) {
					s.Do(c, EOp{Kind: "obs", Args: []string{"pol", "p", "p"}})
					obs := s.Do(c, EOp{Kind: "enfx", Req: req})
					note()
					pol := s.E.GetModel()["p"]["p"].Policy
					if ok, why := sortedByPriority(pol, seq); !ok {
						c.Direct("the listed rules are not in priority order", fmt.Sprintf("start=%s inserted=%v after %s: %s; policy=%v", start, pick(cands, idx), what, why, pol))
					}
					// least priority among the matching determinate rules decides (alice is also admin in loaded-two)
					numeric := true
					best, bestEft := 1<<30, ""
					for _, r := range pol {
						p, err := strconv.Atoi(r[0])
						if err != nil {
							numeric = false
							break
						}
						matches := r[1] == "alice" || (r[1] == "admin" && start == "loaded-two")
						if matches && r[2] == "data1" && r[3] == "read" && (r[4] == "allow" || r[4] == "deny") && p < best {
							best, bestEft = p, r[4]
						}
					}
					if numeric && (strings.HasPrefix(obs, "true") || strings.HasPrefix(obs, "false")) {
						want := bestEft == "allow"
						if strings.HasPrefix(obs, "true") != want {
							// equal priorities: the earliest inserted decides; recompute with ties
							tieOK := false
							for _, r := range pol {
								p, _ := strconv.Atoi(r[0])
								matches := r[1] == "alice" || (r[1] == "admin" && start == "loaded-two")
								if matches && p == best && (r[4] == "allow" || r[4] == "deny") {
									tieOK = (r[4] == "allow") == strings.HasPrefix(obs, "true")
									break
								}
							}
							if !tieOK {
								c.Direct("the decision is not the effect of the matching rule of least priority", fmt.Sprintf("start=%s policy=%v decision=%s", start, pol, obs))
							}
						}
					}
					c.Evals++
				}
				for _, i := range idx {
					s.Do(c, EOp{Kind: "add", Sec: "p", PType: "p", Rule: cands[i]})
					check("add")
				}
				s.Do(c, EOp{Kind: "rm", Sec: "p", PType: "p", Rule: cands[idx[0]]})
				note()
				check("remove")
				if len(idx) > 1 {
					old := cands[idx[1]]
					nw := append([]string(nil), old...)
					nw[2] = "data1" // an update that keeps the priority (and the rule's meaning)
					nw[4] = map[string]string{"allow": "deny", "deny": "allow", "other": "allow"}[old[4]]
					s.Do(c, EOp{Kind: "upd", Sec: "p", PType: "p", Rule: old, New: nw})
					check("update keeping the priority")
				}
				s.Do(c, EOp{Kind: "adds", Sec: "p", PType: "p", Ex: true, Rules: [][]string{{"0", "bob", "data1", "read", "deny"}, cands[idx[0]]}})
				check("batch add")
				if start != "never-loaded" {
					s.Do(c, EOp{Kind: "load"})
					seq = map[string]int{}
					n = 0
					note()
					check("reload")
				}
				inOrder := true
				for k := 1; k < len(idx); k++ {
					if idx[k] < idx[k-1] {
						inOrder = false
					}
				}
				if !inOrder {
					c.Nontrivial(start + fmt.Sprint(idx))
				}
				c.Count("start="+start, 1)
				if c.Evals%977 == 1 {
					c.Sample(fmt.Sprintf("%s: insert %v", start, pick(cands, idx)))
				}
			}
		}
	}
	// ---- subject priority
	names := []string{"a", "b", "c", "d"}
	var allEdges [][]string
	for _, x := range names {
		for _, y := range names {
			allEdges = append(allEdges, []string{x, y}) // incl. self loops
		}
	}
	msS := NewMSpec().AddR("r", "sub", "obj", "act").AddP("p", "sub", "obj", "act", "eft").AddG("g", 2).
		AddE("e", "subjectPriority(p_eft) || deny").AddM("m", "r", "p", And(G2("g", RTok(0), PTok(0)), Eq(RTok(1), PTok(1)), Eq(RTok(2), PTok(2))))
	for _, idx := range subsetsUpTo(len(allEdges), maxEdges) {
		var lines []string
		for i, nm := range names {
			lines = append(lines, fmt.Sprintf("p, %s, data1, read, %s", nm, []string{"allow", "deny"}[i%2]))
		}
		parents := map[string]int{}
		for _, e := range pick(allEdges, idx) {
			lines = append(lines, "g, "+e[0]+", "+e[1])
			parents[e[0]]++
		}
		text := strings.Join(lines, "\n")
		s := StartCase(c, msS, CaseOpts{})
		if c.Evals%3 == 2 {
			// the order after a load must not depend on whether role links are built automatically
			s.Do(c, EOp{Kind: "set", Flag: "autobuild", On: false})
			c.Count("subject_graphs_autobuild_off", 1)
		}
		obs := s.ExecGuarded(EOp{Kind: "loadtext", What: "string", Text: text}, 5*time.Second)
		c.W.Op(EOp{Kind: "loadtext", What: "string", Text: text}.Line(), obs)
		c.Evals++
		if obs == "hang" || obs == "panic" {
			c.Direct("ordering a policy by subject hierarchy: "+obs, text)
			continue
		}
		s.Do(c, EOp{Kind: "obs", Args: []string{"pol", "p", "p"}})
		// forests (every subject has at most one parent, no cycle): the rule of a subject precedes the rule of
		// the subject it inherits from, whatever the model says
		if isForest(pick(allEdges, idx), parents) && strings.HasPrefix(obs, "ok") {
			listed, _ := s.E.GetPolicy()
			pos := map[string]int{}
			for i, r := range listed {
				pos[r[0]] = i
			}
			for _, e := range pick(allEdges, idx) {
				if pos[e[0]] > pos[e[1]] {
					c.Direct("after a load under the subject-priority effect the rule of a subject comes after the rule of the subject it inherits from", fmt.Sprintf("%s\nlisted: %v (edge %s -> %s)", text, listed, e[0], e[1]))
				}
			}
			c.Count("subject_forest_order_checks", 1)
		}
		s.Do(c, EOp{Kind: "buildlinks"}) // (a no-op with auto-build on; with it off the links are built now)
		for _, nm := range names {
			s.Do(c, EOp{Kind: "enf", Req: []V{VS(nm), VS("data1"), VS("read")}})
		}
		c.Count("subject_graphs", 1)
		if len(idx) >= 2 {
			c.Nontrivial("subject|" + text)
		}
	}
	c07SubjectDomains(c)
}

// subject priority with a domain column: every domain has its own hierarchy (names are prefixed by the
// domain of the grouping rule / of the policy rule's `dom` field), and rules of different domains are
// interleaved in every order, so that a rule and the rule of the subject inheriting from it are separated by
// rules of the other domain.  Loaded order and decisions vs the Lean model (sortBySubject with domIdx); on the
// implementation: within a domain the inheriting subject's rule precedes the inherited one's (forests).
func c07SubjectDomains(c *Ctx) {
	ms := NewMSpec().AddR("r", "sub", "dom", "obj", "act").AddP("p", "sub", "dom", "obj", "act", "eft").AddG("g", 3).
		AddE("e", "subjectPriority(p_eft) || deny").
		AddM("m", "r", "p", And(G3("g", RTok(0), PTok(0), RTok(1)), Eq(RTok(1), PTok(1)), Eq(RTok(2), PTok(2)), Eq(RTok(3), PTok(3))))
	rules := [][]string{{"a", "d1", "deny"}, {"a", "d2", "deny"}, {"b", "d1", "allow"}, {"c", "d2", "allow"}, {"b", "d2", "allow"}}
	edges := [][]string{{"b", "a", "d1"}, {"c", "a", "d2"}, {"b", "a", "d2"}, {"c", "b", "d2"}}
	maxLen := 4
	if c.Thorough() {
		maxLen = 5
	}
	var perms [][]int
	var rec func(cur []int, used int)
	rec = func(cur []int, used int) {
		if len(cur) >= 2 {
			perms = append(perms, append([]int(nil), cur...))
		}
		if len(cur) == maxLen {
			return
		}
		for i := range rules {
			if used&(1<<i) == 0 {
				rec(append(cur, i), used|1<<i)
			}
		}
	}
	rec(nil, 0)
	n := 0
	for _, pm := range perms {
		for mask := 1; mask < 1<<len(edges); mask++ {
			n++
			if !c.Thorough() && n%4 != int(c.Seed%4) {
				continue
			}
			var lines []string
			for _, i := range pm {
				r := rules[i]
				lines = append(lines, fmt.Sprintf("p, %s, %s, data1, read, %s", r[0], r[1], r[2]))
			}
			var es [][]string
			for j, e := range edges {
				if mask&(1<<j) != 0 {
					es = append(es, e)
					lines = append(lines, "g, "+e[0]+", "+e[1]+", "+e[2])
				}
			}
			text := strings.Join(lines, "\n")
			s := StartCase(c, ms, CaseOpts{})
			op := EOp{Kind: "loadtext", What: "string", Text: text}
			obs := s.ExecGuarded(op, 5*time.Second)
			c.W.Op(op.Line(), obs)
			c.Evals++
			if obs == "hang" || obs == "panic" {
				c.Direct("ordering a policy by subject hierarchy (with domains): "+obs, text)
				continue
			}
			s.Do(c, EOp{Kind: "obs", Args: []string{"pol", "p", "p"}})
			if strings.HasPrefix(obs, "ok") {
				listed, _ := s.E.GetPolicy()
				pos := map[string]int{}
				for i, r := range listed {
					pos[r[1]+"::"+r[0]] = i + 1
				}
				for _, e := range es {
					child, parent := pos[e[2]+"::"+e[0]], pos[e[2]+"::"+e[1]]
					// the edge set is a forest per domain except for {b->a, c->b} chains, which are still trees
					if child != 0 && parent != 0 && child > parent {
						c.Direct("after a load under the subject-priority effect (with domains) the rule of a subject comes after the rule of the subject it inherits from in that domain", fmt.Sprintf("%s\nlisted: %v (edge %v)", text, listed, e))
					}
				}
				c.Count("subject_domain_order_checks", 1)
			}
			for _, nm := range []string{"a", "b", "c"} {
				for _, d := range []string{"d1", "d2"} {
					s.Do(c, EOp{Kind: "enf", Req: []V{VS(nm), VS(d), VS("data1"), VS("read")}})
				}
			}
			c.Count("subject_domain_graphs", 1)
			c.Nontrivial("subject-dom|" + text)
		}
	}
}

// isForest: no self loop, at most one parent per name, no cycle
func isForest(edges [][]string, parents map[string]int) bool {
	up := map[string]string{}
	for _, e := range edges {
		if e[0] == e[1] || parents[e[0]] > 1 {
			return false
		}
		up[e[0]] = e[1]
	}
	for n := range up {
		x, steps := n, 0
		for {
			nx, ok := up[x]
			if !ok {
				break
			}
			x = nx
			steps++
			if steps > len(edges) {
				return false
			}
		}
	}
	return true
}
