package main

import (
	"fmt"
	"os"
	"path/filepath"
	"sort"
	"strings"

	"github.com/casbin/casbin/v2"
	"github.com/casbin/casbin/v2/model"
	fileadapter "github.com/casbin/casbin/v2/persist/file-adapter"

	"verif/harness/internal/proto"
)

func init() { registry["C08"] = runC08 }

func encList(xs []string) string {
	if len(xs) == 0 {
		return "-"
	}
	parts := make([]string, len(xs))
	for i, x := range xs {
		parts[i] = proto.Enc(x)
	}
	return strings.Join(parts, ",")
}

// dumpModel prints the assertions the way Driver/Config.lean does.
func dumpModel(text string) (obs string, m model.Model) {
	return dumpModelVia(text, false)
}

// dumpModelVia: the same through either entry point: the text itself, or a file holding it
func dumpModelVia(text string, file bool) (obs string, m model.Model) {
	defer func() {
		if r := recover(); r != nil {
			obs = "panic"
		}
	}()
	var err error
	if file {
		path := scratchFile() + ".c08.conf"
		if werr := os.WriteFile(path, []byte(text), 0o644); werr != nil {
			panic(werr)
		}
		m, err = model.NewModelFromFile(path)
		_ = os.Remove(path)
	} else {
		m, err = model.NewModelFromString(text)
	}
	if err != nil {
		return "err", nil
	}
	var parts []string
	for _, sec := range []string{"r", "p", "g", "e", "m"} {
		for i := 1; ; i++ {
			key := sec
			if i > 1 {
				key = fmt.Sprintf("%s%d", sec, i)
			}
			ast, ok := m[sec][key]
			if !ok {
				break
			}
			parts = append(parts, fmt.Sprintf("%s|%s|%s|%s|%s", sec, proto.Enc(ast.Key), proto.Enc(ast.Value), encList(ast.Tokens), encList(ast.ParamsTokens)))
		}
	}
	return strings.Join(parts, " "), m
}

// layout transformations that must not change the definitions
func isContinuation(line string) bool { return strings.HasSuffix(strings.TrimSpace(line), "\\") }

func layoutVariants(text string, thorough bool) map[string]string {
	out := map[string]string{}
	lines := strings.Split(strings.ReplaceAll(text, "\r\n", "\n"), "\n")
	join := func(ls []string) string { return strings.Join(ls, "\n") }
	out["crlf"] = strings.Join(lines, "\r\n")
	// padding
	pad := make([]string, len(lines))
	for i, l := range lines {
		pad[i] = " \t " + l + "\t  "
	}
	out["pad"] = join(pad)
	// one line padded past the reader's buffer, on either side, every line in turn
	for i := range lines {
		if strings.TrimSpace(lines[i]) == "" {
			continue
		}
		big := append([]string(nil), lines...)
		big[i] = strings.Repeat(" ", 4100) + lines[i] + strings.Repeat("\t", 4100)
		out[fmt.Sprintf("bigpad@%d", i)] = join(big)
		if !thorough && i > 3 {
			break
		}
	}
	// one line padded past 64 KiB (the token limit of a default bufio.Scanner) and past 1 MiB, and a comment line of
	// that length above it: a line has no maximum length
	done := 0
	for i := range lines {
		t := strings.TrimSpace(lines[i])
		if t == "" || (i > 0 && isContinuation(lines[i-1])) {
			continue
		}
		for _, n := range []int{70000, 1100000} {
			huge := append([]string(nil), lines...)
			huge[i] = strings.Repeat(" ", n) + lines[i] + strings.Repeat("\t", 17)
			out[fmt.Sprintf("hugepad%d@%d", n, i)] = join(huge)
			if t[0] != '#' && t[0] != ';' {
				v := append(append(append([]string(nil), lines[:i]...), "# "+strings.Repeat("x", n)), lines[i:]...)
				out[fmt.Sprintf("hugecomment%d@%d", n, i)] = join(v)
			}
			if !thorough {
				break
			}
		}
		done++
		if done >= 2 && !thorough || done >= 6 {
			break
		}
	}
	// a comment line longer than the reader's buffer directly above (or one blank line above) a line that is
	// itself longer than the buffer
	for i := range lines {
		t := strings.TrimSpace(lines[i])
		if t == "" || t[0] == '#' || t[0] == ';' || (i > 0 && isContinuation(lines[i-1])) {
			continue
		}
		bigLine := strings.Repeat(" ", 4100) + lines[i] + strings.Repeat("\t", 4100)
		comment := "# " + strings.Repeat("a commented-out line ", 250)
		v := append(append(append([]string(nil), lines[:i]...), comment, bigLine), lines[i+1:]...)
		out[fmt.Sprintf("bigcomment@%d", i)] = join(v)
		v2 := append(append(append([]string(nil), lines[:i]...), comment, "", "; short", bigLine), lines[i+1:]...)
		out[fmt.Sprintf("bigcomment-gap@%d", i)] = join(v2)
		if !thorough && i > 5 {
			break
		}
	}
	// the LAST line padded to an exact multiple of the reader's buffer, without a final newline
	last := len(lines) - 1
	for last > 0 && strings.TrimSpace(lines[last]) == "" {
		last--
	}
	for _, total := range []int{4096, 8192, 4095, 4097} {
		if len(lines[last]) < total {
			v := append([]string(nil), lines[:last+1]...)
			v[last] = lines[last] + strings.Repeat(" ", total-len(lines[last]))
			out[fmt.Sprintf("lastline=%d", total)] = join(v)
		}
	}
	// whitespace around the separators inside a definition (tokens are trimmed one by one)
	tabbed := make([]string, len(lines))
	for i, l := range lines {
		t := strings.TrimSpace(l)
		if strings.HasPrefix(t, "r") || strings.HasPrefix(t, "p") {
			if k := strings.Index(l, "="); k > 0 && !strings.ContainsAny(l, "#;\\") && !strings.Contains(l, "(") {
				tabbed[i] = l[:k] + "\t=\t " + strings.ReplaceAll(strings.TrimSpace(l[k+1:]), ",", "\t ,\t")
				continue
			}
		}
		tabbed[i] = l
	}
	out["tabs-around-separators"] = join(tabbed)
	// blank / comment lines at every position that is not inside a continuation
	for i := 0; i <= len(lines); i++ {
		if i > 0 && isContinuation(lines[i-1]) {
			continue
		}
		for k, ins := range []string{"", "# a comment = with [brackets]", "; another \\"} {
			v := append(append(append([]string(nil), lines[:i]...), ins), lines[i:]...)
			out[fmt.Sprintf("ins%d@%d", k, i)] = join(v)
		}
	}
	// an inline comment after a definition, introduced by either marker and containing the other one
	for i, l := range lines {
		t := strings.TrimSpace(l)
		if t == "" || t[0] == '#' || t[0] == ';' || t[0] == '[' || isContinuation(l) || strings.ContainsAny(t, "#;") || (i > 0 && isContinuation(lines[i-1])) {
			continue
		}
		for k, tail := range []string{" # the note; it has = both [markers]", " ; the note # it has = both [markers]", "\t#x;y", "#;"} {
			v := append([]string(nil), lines...)
			v[i] = l + strings.ReplaceAll(tail, "\\t", "\t")
			out[fmt.Sprintf("inline%d@%d", k, i)] = join(v)
		}
		if !thorough && i > 6 {
			break
		}
	}
	// continuation split at every single blank inside a definition line
	for i, l := range lines {
		t := strings.TrimSpace(l)
		if t == "" || t[0] == '#' || t[0] == ';' || t[0] == '[' || isContinuation(l) || strings.ContainsAny(t, "#;") {
			continue
		}
		for pos := 1; pos < len(t)-1; pos++ {
			if t[pos] != ' ' || t[pos-1] == ' ' || t[pos+1] == ' ' {
				continue
			}
			b := t[pos+1:]
			if b[0] == '#' || b[0] == ';' || (b[0] == '[' && b[len(b)-1] == ']') || strings.HasSuffix(b, "\\") {
				continue
			}
			v := append(append(append([]string(nil), lines[:i]...), t[:pos]+" \\", strings.Repeat(" ", pos%5)+b), lines[i+1:]...)
			out[fmt.Sprintf("split@%d:%d", i, pos)] = join(v)
			// the same with an inline comment on the first physical line, before its backslash: comments end at
			// the end of their own physical line
			if thorough || pos%3 == 0 {
				v3 := append(append(append([]string(nil), lines[:i]...), t[:pos]+" # a note; on this line only \\", b+" ; and one here"), lines[i+1:]...)
				out[fmt.Sprintf("splitcomment@%d:%d", i, pos)] = join(v3)
			}
			// the same with the first part padded past 4 KiB
			if thorough || pos%7 == 0 {
				v2 := append(append(append([]string(nil), lines[:i]...), t[:pos]+strings.Repeat(" ", 4200)+"\\", b), lines[i+1:]...)
				out[fmt.Sprintf("bigsplit@%d:%d", i, pos)] = join(v2)
			}
		}
	}
	// section order reversed (blocks = header line and what follows it)
	var blocks [][]string
	var pre []string
	for _, l := range lines {
		t := strings.TrimSpace(l)
		if strings.HasPrefix(t, "[") && strings.HasSuffix(t, "]") {
			blocks = append(blocks, []string{l})
		} else if len(blocks) == 0 {
			pre = append(pre, l)
		} else {
			blocks[len(blocks)-1] = append(blocks[len(blocks)-1], l)
		}
	}
	if len(blocks) > 1 && strings.TrimSpace(strings.Join(pre, "")) == "" {
		var rev []string
		for i := len(blocks) - 1; i >= 0; i-- {
			rev = append(rev, blocks[i]...)
		}
		out["revsections"] = join(rev)
		rot := append(append([][]string(nil), blocks[1:]...), blocks[0])
		var rl []string
		for _, b := range rot {
			rl = append(rl, b...)
		}
		out["rotsections"] = join(rl)
	}
	return out
}

func runC08(c *Ctx) {
	c.Rule = "every examples/*.conf plus one generated model text with several definitions per section x the layout transformations (CRLF, padding every line, padding one line past 4 KiB on either side, the last line padded to exactly 4096/8192 bytes without a final newline, tabs around '=' and ',' inside r/p definitions, blank/#/; lines at every position outside a continuation, an inline comment after every definition introduced by either marker and containing the other (quick tier: the definitions in the first 8 lines of each text; likewise the 4 KiB paddings and the over-long comment lines are placed at the first positions only), an inline comment before the backslash of a continued line, a comment line longer than the buffer above a line longer than the buffer, backslash continuation split at every single blank of every definition line incl. past 4 KiB, reversed and rotated section order): the assertions (Key, Value, Tokens, ParamsTokens of r/p/g/e/m) of the real NewModelFromString are compared with the Lean mirror (and NewModelFromFile on a file holding the same text must give the same outcome), and every variant with its original (same definitions, same resolved field indexes) and, for every variant that loads, on the example's policy with the original's decisions; arbitrary text (examples with random tokens spliced in or chunks deleted, random sequences over a 25-token alphabet; valid UTF-8 only) for totality; non-trivial = a variant that differs textually from its original and loads; distinct = variant text"
	files, _ := filepath.Glob("/repo/examples/*.conf")
	sort.Strings(files)
	texts := map[string]string{}
	for _, f := range files {
		b, err := os.ReadFile(f)
		if err == nil {
			texts[filepath.Base(f)] = string(b)
		}
	}
	texts["gen-multi"] = "[request_definition]\nr = sub, obj, act\nr2 = sub, obj\n[policy_definition]\np = sub, obj, act\np2= sub_rule, obj, eft\n[role_definition]\ng = _, _\ng2 = _, _, _\ng3 = _, _, (_, _)\n[policy_effect]\ne = some(where (p.eft == allow))\ne2 = !some(where (p.eft == deny))\n[matchers]\nm = g(r.sub, p.sub) && r.obj == p.obj && r.act == p.act || r.sub == \"root\" # superuser\nm2 = eval(p2.sub_rule) && r2.obj in [ 'data1' , 'data2' ]\n"
	names := make([]string, 0, len(texts))
	for n := range texts {
		names = append(names, n)
	}
	sort.Strings(names)
	for _, name := range names {
		text := texts[name]
		orig, origModel := dumpModel(text)
		c.W.Op("cfg "+proto.Enc(text), orig)
		c.Evals++
		c.Count("originals", 1)
		if orig == "err" || orig == "panic" {
			continue
		}
		// decisions of the original on its example policy
		csv := "/repo/examples/" + strings.Replace(strings.TrimSuffix(name, ".conf"), "_model", "_policy", 1) + ".csv"
		var origDec string
		decide := func(m model.Model) string {
			if _, err := os.Stat(csv); err != nil {
				return "-"
			}
			e, err := casbin.NewEnforcer(m, fileadapter.NewAdapter(csv))
			if err != nil {
				return "load-err"
			}
			pol, _ := e.GetPolicy()
			var sb strings.Builder
			n := len(m["r"]["r"].Tokens)
			for i, r := range pol {
				if i >= 6 || len(r) < n {
					break
				}
				args := make([]interface{}, n)
				for k := 0; k < n; k++ {
					args[k] = r[k]
				}
				ok, err := e.Enforce(args...)
				fmt.Fprintf(&sb, "%v%v;", ok, err != nil)
				args[0] = "nobody"
				ok, err = e.Enforce(args...)
				fmt.Fprintf(&sb, "%v%v;", ok, err != nil)
			}
			return sb.String()
		}
		origDec = decide(origModel)
		variants := layoutVariants(text, c.Thorough())
		keys := make([]string, 0, len(variants))
		for k := range variants {
			keys = append(keys, k)
		}
		sort.Strings(keys)
		for _, k := range keys {
			v := variants[k]
			obs, vm := dumpModel(v)
			c.W.Op("cfg "+proto.Enc(v), obs)
			c.Evals++
			// the same text through the file entry point: same outcome (definitions, or an error)
			if fobs, _ := dumpModelVia(v, true); fobs != obs {
				c.Direct("the file entry point reads a model text differently from the text entry point", fmt.Sprintf("file=%s variant=%s\nNewModelFromString: %s\nNewModelFromFile:   %s", name, k, obs, fobs))
			}
			c.Count("file_entry_point_checks", 1)
			c.Count("variant="+strings.SplitN(k, "@", 2)[0], 1)
			if obs == "panic" {
				c.Direct("parsing a model text panics", fmt.Sprintf("file=%s variant=%s", name, k))
				continue
			}
			same := obs == orig
			if k == "tabs-around-separators" {
				// the raw Value of r/p keeps the inner blanks; the definitions are the tokens
				same = tokensOnly(obs) == tokensOnly(orig)
			}
			// the resolved field indexes (priority, sub, dom, … by name) belong to the definitions too:
			// AddPolicy reads them directly
			if vm != nil && origModel != nil && fieldIndexes(vm) != fieldIndexes(origModel) {
				c.Direct("a layout change altered the resolved field indexes of a policy definition", fmt.Sprintf("file=%s variant=%s\noriginal: %s\nvariant:  %s", name, k, fieldIndexes(origModel), fieldIndexes(vm)))
			}
			if !same {
				c.Direct("a layout change altered the definitions", fmt.Sprintf("file=%s variant=%s\noriginal: %s\nvariant:  %s", name, k, orig, obs))
				continue
			}
			if v != text {
				c.Nontrivial(v)
			}
			if vm != nil {
				if d := decide(vm); d != origDec {
					c.Direct("a layout change altered decisions", fmt.Sprintf("file=%s variant=%s", name, k))
				}
				c.Count("decision_comparisons", 1)
			}
			if c.Evals%997 == 1 {
				c.Sample(fmt.Sprintf("%s / %s => %s", name, k, obs[:min(len(obs), 120)]))
			}
		}
	}
	// totality: mutated examples and random bytes; the model must predict ok/err, a panic is a violation
	n := 2000
	if c.Thorough() {
		n = 60000
	}
	alphabet := []string{"[", "]", "=", "\\", "\n", "#", ";", " ", "r", "p", "e", "m", "g", ",", "_", ".", "(", ")", "request_definition", "matchers", "in", "\r\n", "\t", "é", "2"}
	for i := 0; i < n; i++ {
		base := texts[names[c.Rng.Intn(len(names))]]
		var t string
		switch c.Rng.Intn(3) {
		case 0: // splice random tokens into an example
			b := []byte(base)
			for k := 0; k < 1+c.Rng.Intn(4); k++ {
				pos := c.Rng.Intn(len(b) + 1)
				ins := alphabet[c.Rng.Intn(len(alphabet))]
				b = append(append(append([]byte(nil), b[:pos]...), ins...), b[pos:]...)
			}
			t = string(b)
		case 1: // delete a random chunk
			b := []byte(base)
			pos := c.Rng.Intn(len(b))
			end := pos + c.Rng.Intn(20)
			if end > len(b) {
				end = len(b)
			}
			t = string(append(append([]byte(nil), b[:pos]...), b[end:]...))
		default:
			var sb strings.Builder
			for k := 0; k < c.Rng.Intn(40); k++ {
				sb.WriteString(alphabet[c.Rng.Intn(len(alphabet))])
			}
			t = sb.String()
		}
		if !validUTF8(t) {
			continue
		}
		obs, _ := dumpModel(t)
		c.W.Op("cfg "+proto.Enc(t), obs)
		c.Evals++
		if obs == "panic" {
			c.Direct("parsing a model text panics", t)
		}
		// every fourth text also through the file entry point: a text one entry point rejects the other rejects too
		if i%4 == 0 {
			if fobs, _ := dumpModelVia(t, true); fobs != obs {
				c.Direct("the file entry point reads a model text differently from the text entry point", fmt.Sprintf("text=%q\nNewModelFromString: %s\nNewModelFromFile:   %s", t, obs, fobs))
			}
			c.Count("file_entry_point_checks", 1)
		}
		if obs == "err" {
			c.Count("malformed=err", 1)
		} else {
			c.Count("malformed=ok", 1)
		}
	}
}

// tokensOnly drops the raw Value of r/p assertions from a dump (their meaning is the token list).
func tokensOnly(dump string) string {
	parts := strings.Split(dump, " ")
	for i, p := range parts {
		f := strings.Split(p, "|")
		if len(f) == 5 && (f[0] == "r" || f[0] == "p") {
			f[2] = "_"
			parts[i] = strings.Join(f, "|")
		}
	}
	return strings.Join(parts, " ")
}

// fieldIndexes prints Assertion.FieldIndexMap of every policy definition, sorted.
func fieldIndexes(m model.Model) string {
	var parts []string
	for pt, ast := range m["p"] {
		var ks []string
		for k, v := range ast.FieldIndexMap {
			ks = append(ks, fmt.Sprintf("%q=%d", k, v))
		}
		sort.Strings(ks)
		parts = append(parts, pt+":"+strings.Join(ks, ","))
	}
	sort.Strings(parts)
	return strings.Join(parts, " ")
}
