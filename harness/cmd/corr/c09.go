package main

import (
	"fmt"
	"net"
	"strings"

	"github.com/casbin/casbin/v2/model"
	"github.com/casbin/govaluate"
	"github.com/casbin/casbin/v2/util"

	"verif/harness/internal/proto"
)

func init() { registry["C09"] = runC09 }

type pseg struct {
	ph   bool
	text string
}

func renderPat(style string, segs []pseg, wild bool) string {
	var sb strings.Builder
	for _, s := range segs {
		sb.WriteByte('/')
		if s.ph {
			if style == "colon" {
				sb.WriteString(":" + s.text)
			} else {
				sb.WriteString("{" + s.text + "}")
			}
		} else {
			sb.WriteString(s.text)
		}
	}
	if wild {
		sb.WriteString("/*")
	}
	return sb.String()
}

func obsBool(f func() bool) (obs string) {
	defer func() {
		if r := recover(); r != nil {
			obs = "none"
		}
	}()
	return proto.Bool(f())
}

func obsStr(f func() string) (obs string) {
	defer func() {
		if r := recover(); r != nil {
			obs = "none"
		}
	}()
	return "s:" + proto.Enc(f())
}

// the functions Enforce really calls: the model's function map, by built-in name
var c09FM = func() map[string]govaluate.ExpressionFunction {
	fm := model.LoadFunctionMap()
	return fm.GetFunctions()
}()
var c09FMDiffs []string
var c09FMCalls int

// viaFunctionMap evaluates the built-in as a matcher would (through the function registered under its name) and
// records a difference from the direct call
func viaFunctionMap(fn string, direct string, args ...string) {
	f, ok := c09FM[fn]
	if !ok {
		if len(c09FMDiffs) < 5 {
			c09FMDiffs = append(c09FMDiffs, fn+": not registered in the function map")
		}
		return
	}
	c09FMCalls++
	obs := func() (obs string) {
		defer func() {
			if r := recover(); r != nil {
				obs = "none"
			}
		}()
		ia := make([]interface{}, len(args))
		for i, a := range args {
			ia[i] = a
		}
		r, err := f(ia...)
		if err != nil {
			return "none"
		}
		switch x := r.(type) {
		case bool:
			return proto.Bool(x)
		case string:
			return "s:" + proto.Enc(x)
		}
		return fmt.Sprintf("?%T", r)
	}()
	if obs != direct && len(c09FMDiffs) < 5 {
		c09FMDiffs = append(c09FMDiffs, fmt.Sprintf("%s%q: util function = %s, function registered under that name in the model's function map = %s", fn, args, direct, obs))
	}
}

func kmImpl(fn, key1, key2, v string) (out string) {
	defer func() {
		if fn == "keyGet2" || fn == "keyGet3" {
			viaFunctionMap(fn, out, key1, key2, v)
		} else {
			viaFunctionMap(fn, out, key1, key2)
		}
	}()
	switch fn {
	case "keyMatch":
		return obsBool(func() bool { return util.KeyMatch(key1, key2) })
	case "keyGet":
		return obsStr(func() string { return util.KeyGet(key1, key2) })
	case "keyMatch2":
		return obsBool(func() bool { return util.KeyMatch2(key1, key2) })
	case "keyMatch3":
		return obsBool(func() bool { return util.KeyMatch3(key1, key2) })
	case "keyMatch4":
		return obsBool(func() bool { return util.KeyMatch4(key1, key2) })
	case "keyMatch5":
		return obsBool(func() bool { return util.KeyMatch5(key1, key2) })
	case "keyGet2":
		return obsStr(func() string { return util.KeyGet2(key1, key2, v) })
	case "keyGet3":
		return obsStr(func() string { return util.KeyGet3(key1, key2, v) })
	}
	panic(fn)
}

func runC09(c *Ctx) {
	maxPat, maxPath := 3, 4
	if c.Thorough() {
		maxPat, maxPath = 4, 5
	}
	c.Exhaustive = true
	c.Rule = fmt.Sprintf("all patterns of the segment grammar (literal | placeholder | trailing /*) with <= %d segments over {a, b, empty, id, x} x all paths with <= %d segments over {a, b, 1, empty} (plus query strings for keyMatch5), for keyMatch2/3/4/5 and keyGet2/3 (after regexMatch has been called on every pattern text and on its regex translation: the answers must not depend on what was called before), against the Lean model (rendered pattern text) and the Lean segment semantics (bounded-exhaustive); all raw pattern strings of length <= %d over {/ a b : { } * ? .} against 10 probe paths, for keyMatch, keyGet and keyMatch2-5 (the boundary of the modelled regex fragment); random IPv4 and IPv6 addresses/CIDRs incl. boundary prefix lengths and malformed text; request paths with percent escapes, a leading //, several ? and a fragment against literal, placeholder and wildcard patterns (paths are taken literally); every call is also made through the function registered under the built-in's name in model.LoadFunctionMap() (what a matcher calls) and must give the same answer; IPv6 on the implementation only: every address against four spellings of a second address (as given, upper case, all groups written out, leading zeros), as a single address and as its /128, against net.IP equality; every IPv4 address also in its IPv4-mapped spelling (::ffff:a.b.c.d) and every IPv4 prefix as the mapped /96+n prefix: same answers; non-trivial = a pattern with a placeholder or wildcard on which some path matches and some does not; distinct = (function, pattern)", maxPat, maxPath, map[bool]int{false: 3, true: 5}[c.Thorough()])
	segAlpha := []pseg{{false, "a"}, {false, "b"}, {false, ""}, {true, "id"}, {true, "x"}}
	var patterns [][]pseg
	var recP func(cur []pseg)
	recP = func(cur []pseg) {
		patterns = append(patterns, append([]pseg(nil), cur...))
		if len(cur) == maxPat {
			return
		}
		for _, s := range segAlpha {
			recP(append(cur, s))
		}
	}
	recP(nil)
	pathAlpha := []string{"a", "b", "1", ""}
	var paths []string
	var recQ func(cur string, n int)
	recQ = func(cur string, n int) {
		paths = append(paths, cur)
		if n == maxPath {
			return
		}
		for _, s := range pathAlpha {
			recQ(cur+"/"+s, n+1)
		}
	}
	recQ("", 0)
	paths = append(paths, "a", "a/b", "/a?x=1", "/a/1?q=/b", "/a/b\n", "/a/\nb")
	fns := []struct{ fn, style string }{{"keyMatch2", "colon"}, {"keyMatch3", "brace"}, {"keyMatch4", "brace"}, {"keyMatch5", "brace"}, {"keyGet2", "colon"}, {"keyGet3", "brace"}}
	// "pure functions of their arguments": whatever other built-ins were called before must not matter.
	// regexMatch is called first on every pattern text and on the regular expression each pattern
	// translates to (a process-wide cache shared between built-ins would now hold an un-anchored entry)
	for _, f := range fns {
		for _, segs := range patterns {
			for _, wild := range []bool{false, true} {
				text := renderPat(f.style, segs, wild)
				func() {
					defer func() { _ = recover() }()
					_ = util.RegexMatch("zz", text)
					_ = util.RegexMatch("zz", strings.ReplaceAll(text, "/*", "/.*"))
					_ = util.RegexMatch("zz", "^"+strings.ReplaceAll(text, "/*", "/.*")+"$")
				}()
			}
		}
	}
	c.Count("regexMatch_precalls", 1)
	for _, f := range fns {
		for _, segs := range patterns {
			for _, wild := range []bool{false, true} {
				text := renderPat(f.style, segs, wild)
				hasPh := wild
				segToks := make([]string, len(segs))
				for i, s := range segs {
					if s.ph {
						hasPh = true
						segToks[i] = "p:" + proto.Enc(s.text)
					} else {
						segToks[i] = "l:" + proto.Enc(s.text)
					}
				}
				w := "0"
				if wild {
					w = "1"
				}
				anyT, anyF := false, false
				vars := []string{""}
				if strings.HasPrefix(f.fn, "keyGet") {
					vars = []string{"id", "x", "nope"}
				}
				for _, p := range paths {
					for _, v := range vars {
						obs := kmImpl(f.fn, p, text, v)
						line := fmt.Sprintf("kmp %s %s %s %s", f.fn, f.style, w, proto.Enc(p))
						if v != "" {
							line += " " + proto.Enc(v)
						}
						if len(segToks) > 0 {
							line += " " + strings.Join(segToks, " ")
						}
						c.W.Op(line, obs)
						c.Evals++
						if obs == "true" || (strings.HasPrefix(obs, "s:") && obs != "s:~") {
							anyT = true
						} else {
							anyF = true
						}
						if c.Evals%50021 == 1 {
							c.Sample(fmt.Sprintf("%s(%q, %q, %q) => %s", f.fn, p, text, v, obs))
						}
					}
				}
				if hasPh && anyT && anyF {
					c.Nontrivial(f.fn + "|" + text)
				}
				c.Count("fn="+f.fn, 1)
			}
		}
	}
	// raw pattern strings: where does the modelled fragment end?
	rawAlpha := []string{"/", "a", ":", "{", "}", "*", "?", ".", "b"}
	maxRaw := 3
	if c.Thorough() {
		maxRaw = 5
	}
	var raws []string
	var recR func(cur string, n int)
	recR = func(cur string, n int) {
		raws = append(raws, cur)
		if n == maxRaw {
			return
		}
		for _, s := range rawAlpha {
			recR(cur+s, n+1)
		}
	}
	recR("", 0)
	probePaths := []string{"", "/", "/a", "/a/b", "a", "/ab", "/a/", "//", "/:", "/a:b"}
	for _, raw := range raws {
		for _, p := range probePaths {
			for _, fn := range []string{"keyMatch", "keyGet", "keyMatch2", "keyMatch3", "keyMatch4", "keyMatch5"} {
				c.W.Op(fmt.Sprintf("km %s %s %s", fn, proto.Enc(p), proto.Enc(raw)), kmImpl(fn, p, raw, ""))
				c.Evals++
			}
		}
		c.Count("raw_patterns", 1)
	}
	// request paths are taken literally: percent escapes are not decoded, a leading "//" is not a host, only the
	// first "?" starts the query string keyMatch5 ignores
	literalPaths := []string{"/files/a%2Fb", "/files/a/b", "/users/%61lice", "/users/alice", "//tenant/admin", "/admin", "/a%3Fb?x=1", "/a?b", "/a?x=/b", "/files/a%2Fb?y=%2F",
		"/x/../admin", "/admin#frag", "/ADMIN", "/admin/", "http://h/admin"}
	literalPatterns := []string{"/files/a/b", "/files/a%2Fb", "/files/{dir}/{name}", "/files/{name}", "/files/:name", "/users/%61lice", "/users/alice", "/admin", "/{x}", "/a", "/a%3Fb", "/*", "/admin/*", "/files/*"}
	for _, p := range literalPaths {
		for _, pat := range literalPatterns {
			for _, fn := range []string{"keyMatch", "keyMatch2", "keyMatch3", "keyMatch4", "keyMatch5"} {
				c.W.Op(fmt.Sprintf("km %s %s %s", fn, proto.Enc(p), proto.Enc(pat)), kmImpl(fn, p, pat, ""))
				c.Evals++
			}
		}
	}
	c.Count("literal_path_cases", len(literalPaths)*len(literalPatterns))
	// IP addresses
	nIP := 3000
	if c.Thorough() {
		nIP = 100000
	}
	for i := 0; i < nIP; i++ {
		rng := c.Rng
		quad := func() string {
			return fmt.Sprintf("%d.%d.%d.%d", rng.Intn(256), rng.Intn(4)*64+rng.Intn(3), rng.Intn(256), rng.Intn(256))
		}
		a := quad()
		var b string
		switch rng.Intn(8) {
		case 0:
			b = quad()
		case 1:
			b = a
		case 2:
			b = []string{"1.2.3", "1.2.3.4.5", "01.2.3.4", "1.2.3.256", "1.2.3.4/33", "1.2.3.4/", "/8", "a.b.c.d", "", "1.2.3.4/08", "::1", "1.2.3.4/-1"}[rng.Intn(12)]
		default:
			// a block around a (so that membership is not almost always false)
			n := quad()
			if rng.Intn(2) == 0 {
				n = a
			}
			b = fmt.Sprintf("%s/%d", n, rng.Intn(33))
		}
		if rng.Intn(20) == 0 {
			a, b = b, a
		}
		if i%3 == 0 {
			// IPv6: hex groups, "::" compression, prefix lengths incl. the boundaries 0, 32, 64, 128
			grp := func() string { return fmt.Sprintf("%x", rng.Intn(65536)>>uint(rng.Intn(3)*4)) }
			addr := func() string {
				switch rng.Intn(4) {
				case 0:
					return "2001:db8::" + grp()
				case 1:
					return "2001:db8:" + grp() + "::" + grp() + ":" + grp()
				case 2:
					return "::" + grp()
				default:
					gs := make([]string, 8)
					for k := range gs {
						gs[k] = grp()
					}
					if rng.Intn(2) == 0 {
						gs[0], gs[1] = "2001", "db8"
					}
					return strings.Join(gs, ":")
				}
			}
			a = addr()
			lens := []int{0, 1, 16, 31, 32, 33, 48, 64, 96, 127, 128, rng.Intn(129)}
			switch rng.Intn(6) {
			case 0:
				b = a
			case 1:
				b = addr()
			case 2:
				b = []string{"2001:db8::/129", "2001:db8:::1/32", "1:2:3:4:5:6:7:8:9/64", "12345::/16", "::g/8", "2001:db8::/032"}[rng.Intn(6)]
			default:
				n := addr()
				if rng.Intn(2) == 0 {
					n = a
				}
				b = fmt.Sprintf("%s/%d", n, lens[rng.Intn(len(lens))])
			}
		}
		// IPv6 is outside the Lean model: on the implementation, an address matches every other spelling of itself
		// (hex case, written-out zeros, leading zeros) as a single address and as its own /128, and a single
		// address b behaves like b/128 (CIDR arithmetic does not depend on the spelling)
		if i%3 == 0 && !strings.Contains(b, "/") {
			if pa, pb := net.ParseIP(a), net.ParseIP(b); pa != nil && pb != nil {
				for _, sp := range []string{b, strings.ToUpper(b), expandIPv6(pb, false), expandIPv6(pb, true)} {
					got := obsBool(func() bool { return util.IPMatch(a, sp) })
					cidr := obsBool(func() bool { return util.IPMatch(a, sp+"/128") })
					want := proto.Bool(pa.Equal(pb))
					if got != want || cidr != want {
						c.Direct("ipMatch disagrees with CIDR arithmetic on another spelling of an IPv6 address", fmt.Sprintf("ipMatch(%q, %q) = %s, ipMatch(%q, %q) = %s, the addresses are equal: %s", a, sp, got, a, sp+"/128", cidr, want))
					}
					c.Count("ipv6_spelling_checks", 1)
				}
			}
		}
		// an IPv4 address written as an IPv4-mapped IPv6 address is the same address: it matches exactly what its
		// dotted form matches (single addresses, every prefix length, mapped patterns)
		if pa := net.ParseIP(a); pa != nil && pa.To4() != nil && !strings.Contains(a, ":") {
			plain := obsBool(func() bool { return util.IPMatch(a, b) })
			mapped := obsBool(func() bool { return util.IPMatch("::ffff:"+a, b) })
			if plain != mapped {
				c.Direct("ipMatch answers differently for an IPv4 address and its IPv4-mapped spelling", fmt.Sprintf("ipMatch(%q, %q) = %s, ipMatch(%q, %q) = %s", a, b, plain, "::ffff:"+a, b, mapped))
			}
			if ip, n, err := net.ParseCIDR(b); err == nil && ip.To4() != nil && !strings.Contains(b, ":") {
				ones, _ := n.Mask.Size()
				mb := fmt.Sprintf("::ffff:%s/%d", ip.String(), 96+ones)
				if viaMapped := obsBool(func() bool { return util.IPMatch(a, mb) }); viaMapped != plain {
					c.Direct("ipMatch answers differently for an IPv4 prefix and its IPv4-mapped spelling", fmt.Sprintf("ipMatch(%q, %q) = %s, ipMatch(%q, %q) = %s", a, b, plain, a, mb, viaMapped))
				}
			}
			c.Count("ipv4_mapped_checks", 1)
		}
		obs := obsBool(func() bool { return util.IPMatch(a, b) })
		viaFunctionMap("ipMatch", obs, a, b)
		c.W.Op(fmt.Sprintf("ip %s %s", proto.Enc(a), proto.Enc(b)), obs)
		c.Evals++
		c.Count("ip="+obs, 1)
		if strings.Contains(b, "/") && (obs == "true" || obs == "false") {
			c.Nontrivial("ip|" + a + "|" + b)
		}
	}
	if len(c09FMDiffs) > 0 {
		c.Direct("the function a matcher calls under a built-in's name is not the built-in", strings.Join(c09FMDiffs, "\n"))
	}
	c.Count("function_map_calls", c09FMCalls)
	c09Concurrent(c)
}

// expandIPv6 writes all eight groups of an address, optionally with leading zeros
func expandIPv6(ip net.IP, leading bool) string {
	ip = ip.To16()
	gs := make([]string, 8)
	for k := 0; k < 8; k++ {
		v := int(ip[2*k])<<8 | int(ip[2*k+1])
		if leading {
			gs[k] = fmt.Sprintf("%04x", v)
		} else {
			gs[k] = fmt.Sprintf("%x", v)
		}
	}
	return strings.Join(gs, ":")
}
