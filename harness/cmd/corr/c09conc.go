package main

import (
	"fmt"
	"sync"

	"github.com/casbin/casbin/v2/util"
)

// "A pure function of its arguments, also under concurrent use": many goroutines call the built-ins
// at the same time with patterns that were never compiled before in this process (so every call
// goes through the compiled-pattern cache's slow path and the goroutines queue on its lock), with
// different placeholder names per call; every answer is compared with the answer the segment
// semantics gives (the same one the sequential part ties to the Lean model).  Exploration, not
// proof: it exhibits shared scratch state (pooled buffers, shared slices) between overlapping calls.
var c09ConcRound int

func c09Concurrent(c *Ctx) {
	workers, iters := 48, 400
	if c.Thorough() {
		iters = 4000
	}
	c09ConcRound++
	var wg sync.WaitGroup
	var mu sync.Mutex
	var bad []string
	report := func(s string) {
		mu.Lock()
		if len(bad) < 5 {
			bad = append(bad, s)
		}
		mu.Unlock()
	}
	for w := 0; w < workers; w++ {
		wg.Add(1)
		go func(w int) {
			defer wg.Done()
			defer func() {
				if r := recover(); r != nil {
					report(fmt.Sprintf("panic in worker %d: %v", w, r))
				}
			}()
			for i := 0; i < iters; i++ {
				tag := fmt.Sprintf("r%dw%di%d", c09ConcRound, w, i)
				type call struct {
					fn         string
					key, pat   string
					want       string
					get        func() string
				}
				same := "/{a" + tag + "}/{a" + tag + "}"
				diff := "/{u" + tag + "}/{v" + tag + "}"
				three := "/{x" + tag + "}/mid/{y" + tag + "}/{x" + tag + "}"
				calls := []call{
					{"keyMatch4", "/p/q", same, "false", func() string { return fmt.Sprint(util.KeyMatch4("/p/q", same)) }},
					{"keyMatch4", "/p/p", same, "true", func() string { return fmt.Sprint(util.KeyMatch4("/p/p", same)) }},
					{"keyMatch4", "/p/q", diff, "true", func() string { return fmt.Sprint(util.KeyMatch4("/p/q", diff)) }},
					{"keyMatch4", "/1/mid/2/1", three, "true", func() string { return fmt.Sprint(util.KeyMatch4("/1/mid/2/1", three)) }},
					{"keyMatch4", "/1/mid/2/2", three, "false", func() string { return fmt.Sprint(util.KeyMatch4("/1/mid/2/2", three)) }},
					{"keyGet2", "/res/" + tag, "/res/:id" + tag, tag, func() string { return util.KeyGet2("/res/"+tag, "/res/:id"+tag, "id"+tag) }},
					{"keyGet3", "/res/" + tag, "/res/{id" + tag + "}", tag, func() string { return util.KeyGet3("/res/"+tag, "/res/{id"+tag+"}", "id"+tag) }},
					{"keyMatch2", "/a" + tag + "/7", "/a" + tag + "/:n", "true", func() string { return fmt.Sprint(util.KeyMatch2("/a"+tag+"/7", "/a"+tag+"/:n")) }},
					{"keyMatch3", "/a" + tag + "/7/x", "/a" + tag + "/{n}", "false", func() string { return fmt.Sprint(util.KeyMatch3("/a"+tag+"/7/x", "/a"+tag+"/{n}")) }},
					{"keyMatch5", "/a" + tag + "/7?x=1", "/a" + tag + "/{n}", "true", func() string { return fmt.Sprint(util.KeyMatch5("/a"+tag+"/7?x=1", "/a"+tag+"/{n}")) }},
				}
				for _, cl := range calls {
					if got := cl.get(); got != cl.want {
						report(fmt.Sprintf("%s(%q, %q) = %s while %d goroutines call the built-ins with fresh patterns; alone and by the segment semantics it is %s", cl.fn, cl.key, cl.pat, got, workers, cl.want))
					}
				}
			}
		}(w)
	}
	wg.Wait()
	c.Count("concurrent_builtin_calls", workers*iters*10)
	c.Evals += workers * iters
	for _, b := range bad {
		c.Direct("a built-in matcher answers differently under concurrent use than alone", b)
	}
}
