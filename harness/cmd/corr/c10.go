package main

import (
	"fmt"
	"sort"
	"strings"
	"verif/harness/internal/mem"

	"github.com/casbin/casbin/v2"
)

func init() {
	registry["C10"] = runC10
	registry["C11"] = runC11
	registry["C15"] = runC15
}

// the management alphabet over p and g on a small universe
func mgmtAlphabet() []EOp {
	P := [][]string{{"alice", "data1", "read"}, {"admin", "data2", "write"}, {"bob", "data1", "read"}}
	G := [][]string{{"alice", "admin"}, {"bob", "admin"}}
	ops := []EOp{
		{Kind: "add", Sec: "p", PType: "p", Rule: P[0]}, {Kind: "add", Sec: "p", PType: "p", Rule: P[1]},
		{Kind: "rm", Sec: "p", PType: "p", Rule: P[0]}, {Kind: "rm", Sec: "p", PType: "p", Rule: P[2]},
		{Kind: "adds", Sec: "p", PType: "p", Rules: [][]string{P[0], P[2]}},
		{Kind: "adds", Sec: "p", PType: "p", Ex: true, Rules: [][]string{P[1], P[2]}},
		{Kind: "rms", Sec: "p", PType: "p", Rules: [][]string{P[0], P[1]}},
		{Kind: "upd", Sec: "p", PType: "p", Rule: P[0], New: P[2]},
		{Kind: "upds", Sec: "p", PType: "p", Rules: [][]string{P[0], P[1]}, News: [][]string{P[2], {"carol", "data2", "write"}}},
		{Kind: "rmf", Sec: "p", PType: "p", FI: 1, Vals: []string{"data1"}},
		{Kind: "updf", Sec: "p", PType: "p", FI: 0, Vals: []string{"alice"}, News: [][]string{{"alice", "data2", "write"}}},
		// a replacement set that keeps one of the rules the filter selects
		{Kind: "updf", Sec: "p", PType: "p", FI: 2, Vals: []string{"read"}, News: [][]string{P[0], {"dave", "data1", "read"}}},
		{Kind: "add", Sec: "g", PType: "g", Rule: G[0]}, {Kind: "add", Sec: "g", PType: "g", Rule: G[1]},
		{Kind: "rm", Sec: "g", PType: "g", Rule: G[0]},
		{Kind: "adds", Sec: "g", PType: "g", Rules: G},
		{Kind: "upd", Sec: "g", PType: "g", Rule: G[0], New: []string{"alice", "bob"}},
		{Kind: "rmf", Sec: "g", PType: "g", FI: 1, Vals: []string{"admin"}},
		// batches on g, and batches whose first pair is unchanged (the pairing of old and new rules must not shift)
		{Kind: "rms", Sec: "g", PType: "g", Rules: G},
		{Kind: "upds", Sec: "g", PType: "g", Rules: G, News: [][]string{G[0], {"bob", "alice"}}},
		{Kind: "upds", Sec: "p", PType: "p", Rules: [][]string{P[0], P[1]}, News: [][]string{P[0], {"admin", "data2", "read"}}},
		// a listed old rule named twice, first with a real replacement and then unchanged: whatever the guard says,
		// the adapter must not have been changed when memory was not
		{Kind: "upds", Sec: "p", PType: "p", Rules: [][]string{P[0], P[0]}, News: [][]string{{"erin", "data1", "read"}, P[0]}},
		// a filter made of empty values only selects every rule (DeleteUser("") does that)
		{Kind: "rmf", Sec: "p", PType: "p", FI: 0, Vals: []string{""}},
		// single updates of a rule to itself: nothing changes, not even the index the next calls rely on
		{Kind: "upd", Sec: "p", PType: "p", Rule: P[0], New: P[0]},
		{Kind: "upd", Sec: "g", PType: "g", Rule: G[0], New: G[0]},
	}
	return ops
}

func mgmtRequests() [][]V {
	return strReqs([]string{"alice", "bob", "admin", "carol"}, []string{"data1", "data2"}, []string{"read", "write"})
}

// decisionsOf lists the decisions over the request universe
func decisionsOf(e *casbin.Enforcer) string {
	var sb strings.Builder
	for _, r := range mgmtRequests() {
		ok, err := e.Enforce(reqGo(nil, r)...)
		if err != nil {
			sb.WriteByte('E')
		} else if ok {
			sb.WriteByte('1')
		} else {
			sb.WriteByte('0')
		}
	}
	return sb.String()
}

func memoryOf(s *Sess) string {
	var sb strings.Builder
	m := s.E.GetModel()
	fmt.Fprintf(&sb, "p=%v g=%v ", m["p"]["p"].Policy, m["g"]["g"].Policy)
	// the index map is part of what is held in memory (HasPolicy, RemovePolicy and UpdatePolicy go through it)
	for _, sec := range []string{"p", "g"} {
		var ks []string
		for k, v := range m[sec][sec].PolicyMap {
			ks = append(ks, fmt.Sprintf("%s=%d", k, v))
		}
		sort.Strings(ks)
		fmt.Fprintf(&sb, "ix%s=%v ", sec, ks)
	}
	rm := s.E.GetRoleManager()
	// zed and yan: the names the fault cases add behind the enforcer's back (a link of a rejected load must not show)
	for _, u := range []string{"alice", "bob", "admin", "carol", "zed", "yan"} {
		for _, r := range []string{"alice", "bob", "admin", "zed"} {
			ok, _ := rm.HasLink(u, r)
			if ok {
				sb.WriteByte('1')
			} else {
				sb.WriteByte('0')
			}
		}
	}
	sb.WriteString(" " + decisionsOf(s.E))
	return sb.String()
}

func runC10(c *Ctx) {
	depth := 3
	if c.Thorough() {
		depth = 4
	}
	c.Exhaustive = true
	c.Rule = fmt.Sprintf("all management-call histories over a %d-call alphabet (p and g; single, batch, Ex, update incl. identity updates, batch update, filtered removal, UpdateFilteredPolicies) plus SavePolicy/LoadPolicy, with the recording set-semantics adapter implementing every optional interface: depth <= %d with auto-save on, depth <= %d with auto-save off; depth <= 3 over a 9-call alphabet on a model with explicit priority as first column whose store is attached after construction (never loaded); depth <= %d over an 11-call alphabet on a subject-priority model whose store is loaded out of hierarchy order (implementation only: live vs freshly loaded, rule list vs index); after every call the adapter contents and call log are compared with the Lean model and, after every successful call with auto-save on, a second real enforcer freshly loaded from the adapter must make the same decisions over the 16-request universe (checked on the implementation); the file/string adapter save/load round trip over loadable fields, also on a model with two policy and two role definitions; non-trivial = a history with a call that changed the policy and one that was refused; distinct = whole history", len(mgmtAlphabet()), depth, map[bool]int{false: 2, true: depth}[c.Thorough()], map[bool]int{false: 2, true: 3}[c.Thorough()])
	for _, autosave := range []bool{true, false} {
		autosave := autosave
		alpha := append(mgmtAlphabet(), EOp{Kind: "save"}, EOp{Kind: "load"})
		cfg := &HistCfg{Name: fmt.Sprintf("autosave=%v", autosave), MS: rbacSpec(false, false), Opts: CaseOpts{Adapter: true},
			Depth: depth, Alphabet: alpha,
			Probes: []EOp{{Kind: "obs", Args: []string{"adapter"}}, {Kind: "obs", Args: []string{"pol", "p", "p"}}, {Kind: "obs", Args: []string{"pol", "g", "g"}}},
		}
		if !autosave {
			cfg.Setup = []EOp{{Kind: "set", Flag: "autosave", On: false}}
			if !c.Thorough() {
				cfg.Depth = 2
			}
		}
		// finding D18: a batch update naming an unlisted rule updates the adapter for the listed ones and then
		// rolls memory back; finding D12: UpdateFilteredPolicies whose filter matches nothing adds the new rules
		// and reports false. After either the adapter and memory are known to differ: comparisons stop.
		tainted := false
		storeDupSeen := false
		cfg.AfterStep = func(c *Ctx, s *Sess, hist []EOp, obs string) {
			last := hist[len(hist)-1]
			if len(hist) == 1 {
				tainted = false
			}
			if (last.Kind == "upds" || last.Kind == "updf") && obs == "false" {
				tainted = true
			}
			if last.Kind == "load" || last.Kind == "save" {
				tainted = false // memory and adapter are one again
			}
			// finding D12 (an update onto a listed rule lists it twice) also leaves the store with the
			// line twice, and that survives LoadPolicy (which skips duplicates) and a later removal
			// (which removes one of them): while the store holds a line twice the case is outside WF10
			dupStore := false
			seenLine := map[string]bool{}
			for _, l := range s.A.Lines {
				k := l.PType + "\x00" + strings.Join(l.Rule, "\x00")
				if seenLine[k] {
					dupStore = true
				}
				seenLine[k] = true
			}
			if len(hist) == 1 {
				storeDupSeen = false
			}
			if dupStore {
				storeDupSeen = true // sticky: removing one of two equal lines leaves a line memory no longer has
			}
			if last.Kind == "save" && !dupStore {
				storeDupSeen = false
			}
			if tainted || storeDupSeen {
				c.Count("comparisons_skipped_findings_D12_D18", 1)
				return
			}
			if !autosave {
				// the adapter must be untouched until SavePolicy
				touched := false
				for _, h := range hist {
					if h.Kind == "save" {
						touched = true
					}
				}
				if !touched && len(s.A.Lines) != 0 {
					c.Direct("auto-save is off but the adapter was written", histText(hist))
				}
				return
			}
			if obs != "true" && obs != "ok" {
				return
			}
			// WF10: stay inside the hypotheses (no duplicate-producing update, update-filtered with a matching filter)
			if last.Kind == "upd" || last.Kind == "upds" || last.Kind == "updf" {
				pol := s.E.GetModel()[last.Sec][last.PType].Policy
				seen := map[string]bool{}
				for _, r := range pol {
					if seen[strings.Join(r, ",")] {
						return
					}
					seen[strings.Join(r, ",")] = true
				}
			}
			e2, err := casbin.NewEnforcer(rbacSpec(false, false).Build(), s.A)
			// the fresh load is a read of the adapter: do not let it disturb the recorded call log
			s.A.Log = s.A.Log[:len(s.A.Log)-1]
			s.A.Calls--
			if err != nil {
				c.Direct("an enforcer freshly loaded from the adapter fails to load", histText(hist))
				return
			}
			if a, b := decisionsOf(s.E), decisionsOf(e2); a != b {
				c.Direct("a freshly loaded enforcer decides differently from the live one", fmt.Sprintf("%s\nlive=%s fresh=%s adapter=%v", histText(hist), a, b, s.A.Lines))
			}
			c.Count("fresh_enforcer_comparisons", 1)
		}
		enumerate(c, cfg)
	}
	// explicit priority as the FIRST column, the enforcer built from the model alone and the store attached later
	// (no load ever ran): rules added out of priority order must be listed, persisted and reloaded alike
	{
		msP := NewMSpec().AddR("r", "sub", "obj", "act").AddP("p", "priority", "sub", "obj", "act", "eft").AddG("g", 2).
			AddE("e", effPriority).AddM("m", "r", "p", And(G2("g", RTok(0), PTok(1)), Eq(RTok(1), PTok(2)), Eq(RTok(2), PTok(3))))
		PP := [][]string{{"20", "alice", "data1", "read", "deny"}, {"10", "alice", "data1", "read", "allow"}, {"10", "admin", "data1", "read", "deny"}, {"5", "bob", "data2", "write", "allow"}}
		alphaP := []EOp{
			{Kind: "add", Sec: "p", PType: "p", Rule: PP[0]}, {Kind: "add", Sec: "p", PType: "p", Rule: PP[1]}, {Kind: "add", Sec: "p", PType: "p", Rule: PP[2]},
			{Kind: "add", Sec: "p", PType: "p", Rule: PP[3]}, {Kind: "adds", Sec: "p", PType: "p", Rules: [][]string{PP[0], PP[3]}},
			{Kind: "rm", Sec: "p", PType: "p", Rule: PP[1]}, {Kind: "add", Sec: "g", PType: "g", Rule: []string{"alice", "admin"}},
			{Kind: "load"}, {Kind: "save"},
		}
		cfgP := &HistCfg{Name: "priority-first-late-adapter", MS: msP, Opts: CaseOpts{Adapter: true, LateAdapter: true}, Depth: 3, Alphabet: alphaP,
			Probes: []EOp{{Kind: "obs", Args: []string{"adapter"}}, {Kind: "obs", Args: []string{"pol", "p", "p"}},
				{Kind: "enf", Req: []V{VS("alice"), VS("data1"), VS("read")}}, {Kind: "enf", Req: []V{VS("bob"), VS("data2"), VS("write")}}}}
		cfgP.AfterStep = func(c *Ctx, s *Sess, hist []EOp, obs string) {
			if obs != "true" && obs != "ok" {
				return
			}
			e2, err := casbin.NewEnforcer(msP.Build(), s.A)
			s.A.Log = s.A.Log[:len(s.A.Log)-1]
			s.A.Calls--
			if err != nil {
				c.Direct("an enforcer freshly loaded from the adapter fails to load", histText(hist))
				return
			}
			for _, rq := range [][]interface{}{{"alice", "data1", "read"}, {"admin", "data1", "read"}, {"bob", "data2", "write"}} {
				a, _ := s.E.Enforce(rq...)
				b, _ := e2.Enforce(rq...)
				if a != b {
					lp, _ := s.E.GetPolicy()
					fp, _ := e2.GetPolicy()
					c.Direct("a freshly loaded enforcer decides differently from the live one", fmt.Sprintf("priority first column, store attached after construction: %s\nrequest %v live=%v fresh=%v\nlive rules  %v\nfresh rules %v", histText(hist), rq, a, b, lp, fp))
					return
				}
			}
			c.Count("fresh_enforcer_comparisons_priority_first", 1)
		}
		enumerate(c, cfgP)
	}
	// subject priority: the store holds the rules in an order the load-time sort changes (the most specific
	// subject last); every later call by rule value must still hit that rule in memory and in the adapter
	{
		msS := NewMSpec().AddR("r", "sub", "obj", "act").AddP("p", "sub", "obj", "act", "eft").AddG("g", 2).
			AddE("e", "subjectPriority(p_eft) || deny").AddM("m", "r", "p", And(G2("g", RTok(0), PTok(0)), Eq(RTok(1), PTok(1)), Eq(RTok(2), PTok(2))))
		PS := [][]string{{"root", "data1", "read", "deny"}, {"admin", "data1", "read", "deny"}, {"alice", "data1", "read", "allow"}, {"admin", "data2", "write", "allow"}}
		stored := []memLineT{{PType: "p", Rule: PS[0]}, {PType: "p", Rule: PS[1]}, {PType: "p", Rule: PS[2]}, {PType: "p", Rule: PS[3]},
			{PType: "g", Rule: []string{"admin", "root"}}, {PType: "g", Rule: []string{"alice", "admin"}}}
		alphaS := []EOp{
			{Kind: "rm", Sec: "p", PType: "p", Rule: PS[0]}, {Kind: "rm", Sec: "p", PType: "p", Rule: PS[1]}, {Kind: "rm", Sec: "p", PType: "p", Rule: PS[2]},
			{Kind: "upd", Sec: "p", PType: "p", Rule: PS[0], New: []string{"root", "data1", "read", "allow"}},
			{Kind: "upd", Sec: "p", PType: "p", Rule: PS[2], New: []string{"alice", "data1", "read", "deny"}},
			{Kind: "rms", Sec: "p", PType: "p", Rules: [][]string{PS[1], PS[3]}},
			{Kind: "upds", Sec: "p", PType: "p", Rules: [][]string{PS[1]}, News: [][]string{{"admin", "data1", "read", "allow"}}},
			{Kind: "add", Sec: "p", PType: "p", Rule: []string{"root", "data2", "write", "deny"}},
			{Kind: "rmf", Sec: "p", PType: "p", FI: 0, Vals: []string{"admin"}},
			{Kind: "load"}, {Kind: "save"},
		}
		cfgS := &HistCfg{Name: "subject-priority-loaded", Quiet: true, MS: msS, Opts: CaseOpts{Adapter: true, ALines: stored}, Depth: 3, Alphabet: alphaS,
			Probes: []EOp{{Kind: "obs", Args: []string{"adapter"}}, {Kind: "obs", Args: []string{"pol", "p", "p"}},
				{Kind: "enf", Req: []V{VS("alice"), VS("data1"), VS("read")}}, {Kind: "enf", Req: []V{VS("admin"), VS("data1"), VS("read")}}, {Kind: "enf", Req: []V{VS("alice"), VS("data2"), VS("write")}}}}
		if !c.Thorough() {
			cfgS.Depth = 2
		}
		cfgS.AfterStep = func(c *Ctx, s *Sess, hist []EOp, obs string) {
			if obs != "true" && obs != "ok" {
				return
			}
			e2, err := casbin.NewEnforcer(msS.Build(), s.A)
			s.A.Log = s.A.Log[:len(s.A.Log)-1]
			s.A.Calls--
			if err != nil {
				c.Direct("an enforcer freshly loaded from the adapter fails to load", histText(hist))
				return
			}
			dec := func(e *casbin.Enforcer) string {
				var sb strings.Builder
				for _, sub := range []string{"root", "admin", "alice"} {
					for _, oa := range [][2]string{{"data1", "read"}, {"data2", "write"}} {
						ok, err := e.Enforce(sub, oa[0], oa[1])
						switch {
						case err != nil:
							sb.WriteByte('E')
						case ok:
							sb.WriteByte('1')
						default:
							sb.WriteByte('0')
						}
					}
				}
				return sb.String()
			}
			ast := s.E.GetModel()["p"]["p"]
			for idx, r := range ast.Policy {
				if j, ok := ast.PolicyMap[strings.Join(r, ",")]; !ok || j != idx {
					c.Direct("after a load that re-ordered the rules the index map and the rule list disagree", fmt.Sprintf("%s\npolicy=%v index=%v", histText(hist), ast.Policy, ast.PolicyMap))
					break
				}
			}
			if a, b := dec(s.E), dec(e2); a != b {
				c.Direct("a freshly loaded enforcer decides differently from the live one", fmt.Sprintf("subject priority, store loaded out of hierarchy order: %s\nlive=%s fresh=%s adapter=%v", histText(hist), a, b, s.A.Lines))
			}
			c.Count("fresh_enforcer_comparisons_subject_priority", 1)
		}
		enumerate(c, cfgS)
	}
	// the convenience layer of rbac_api.go under auto-save (Properties/C10Rbac.lean): adapter = listed rules after every call
	rbacApiFamily(c, "c10-")
	c10RoundTrip(c)
	c10RoundTripMultiType(c)
}

func runC11(c *Ctx) {
	c.Exhaustive = true
	c.Rule = fmt.Sprintf("fault enumeration: from every state reachable in <= 1 call (quick) / <= 2 calls (thorough) over the %d-call management alphabet:", len(mgmtAlphabet())) + " every management call, SavePolicy and LoadPolicy x failure of its k-th adapter call (k = 1, 2), LoadPolicy failing after k delivered lines for every k <= number of lines, reloads through the file and string adapters from a text whose (k+1)-th line the line reader itself rejects (empty type, short rule, unbalanced quote; implementation only), role-link rebuilding failing at the j-th link for j = 1..5 (also on a model whose role definitions are all conditional: the j-th grouping line of the reloaded text lacks its parameters); the calls of the RBAC API and its domain variants (20 calls) x failure of their k-th adapter call for every k they make (implementation only; the four calls composed of several management calls only for k = 1: finding D40); the same first-call faults with a watcher attached (SavePolicy, LoadPolicy, two management calls x both auto-save settings: error reported, nothing announced, memory unchanged); batches rejected half-way (a missing old rule, an already listed rule) from every prefix state, through the Enforcer and handed to Model.UpdatePolicies directly (the path of the Self* replay calls): whatever reports false or an error leaves rules, index, links and decisions as they were; observed: returned error, listed rules, HasLink over the universe, decisions over 16 requests, before vs after (on the implementation) and against the Lean model; non-trivial = a fault that was actually hit (the call reported an error); distinct = (prefix, call, fault)"
	c11RbacFaults(c)
	c11BasicAdapterFaults(c)
	condRejectedReload(c)
	c11RejectedTextReloads(c)
	alpha := mgmtAlphabet()
	prefixes := [][]EOp{{}}
	for _, o := range alpha {
		prefixes = append(prefixes, []EOp{o})
	}
	if c.Thorough() {
		for _, a := range alpha {
			for _, b := range alpha {
				prefixes = append(prefixes, []EOp{a, b})
			}
		}
	}
	targets := append(append([]EOp(nil), alpha...), EOp{Kind: "save"}, EOp{Kind: "load"})
	ms := rbacSpec(false, false)
	// the same faults with a watcher attached: a failing adapter call must still surface as the error of the
	// call, nothing may be announced, and (auto-save off) rules held only in memory must survive a failed SavePolicy
	for _, wk := range []string{"plain", "ex"} {
		for _, op := range []EOp{{Kind: "save"}, {Kind: "load"}, alpha[0], alpha[4]} {
			for _, autosave := range []bool{true, false} {
				s := StartCase(c, ms, CaseOpts{Adapter: true, Watcher: wk})
				if !autosave {
					s.Do(c, EOp{Kind: "set", Flag: "autosave", On: false})
				}
				s.Do(c, EOp{Kind: "add", Sec: "p", PType: "p", Rule: []string{"eve", "data2", "write"}})
				s.Do(c, EOp{Kind: "add", Sec: "g", PType: "g", Rule: []string{"eve", "admin"}})
				before := memoryOf(s)
				nBefore := len(s.W.Log)
				s.Do(c, EOp{Kind: "arm", What: "adapter", K: 1})
				obs := s.Do(c, op)
				s.Do(c, EOp{Kind: "obs", Args: []string{"notif"}})
				s.Do(c, EOp{Kind: "obs", Args: []string{"pol", "p", "p"}})
				after := memoryOf(s)
				c.Evals++
				hit := s.A.FailAt == 0 // the armed call was reached
				if hit && !strings.HasPrefix(obs, "err") {
					c.Direct("an adapter failure was not reported by the call", fmt.Sprintf("watcher=%s autosave=%v call: %s -> %s", wk, autosave, op.Line(), obs))
				}
				if strings.HasPrefix(obs, "err") {
					c.Nontrivial(fmt.Sprintf("watcher-fault|%s|%v|%s", wk, autosave, op.Line()))
					if before != after {
						c.Direct("a failed adapter call changed the in-memory state", fmt.Sprintf("watcher=%s autosave=%v call: %s\nbefore: %s\nafter:  %s", wk, autosave, op.Line(), before, after))
					}
					if len(s.W.Log) != nBefore {
						c.Direct("a call that failed was announced to the watcher", fmt.Sprintf("watcher=%s autosave=%v call: %s announced %v", wk, autosave, op.Line(), s.W.Log[nBefore:]))
					}
				}
			}
		}
	}
	// "no partial batch ever becomes visible": batches that are rejected half-way (an old rule is missing, a
	// rule is already listed), with unchanged pairs in front, from every prefix state; whatever a call reports
	// as false or as an error must leave rules, index, links and decisions exactly as they were
	{
		A, B := []string{"alice", "data1", "read"}, []string{"bob", "data2", "write"}
		ghost, ghost2 := []string{"ghost", "data9", "read"}, []string{"ghost", "data9", "write"}
		GA, GB := []string{"alice", "admin"}, []string{"bob", "admin"}
		rejectable := []EOp{
			{Kind: "upds", Sec: "p", PType: "p", Rules: [][]string{A, ghost}, News: [][]string{A, ghost2}},
			{Kind: "upds", Sec: "p", PType: "p", Rules: [][]string{A, B, ghost}, News: [][]string{A, {"bob", "data2", "read"}, ghost2}},
			{Kind: "upds", Sec: "p", PType: "p", Rules: [][]string{B, ghost}, News: [][]string{{"bob", "data1", "read"}, ghost2}},
			{Kind: "upds", Sec: "g", PType: "g", Rules: [][]string{GA, {"ghost", "admin"}}, News: [][]string{GA, {"ghost", "alice"}}},
			{Kind: "upds", Sec: "g", PType: "g", Rules: [][]string{GA, GB, {"ghost", "admin"}}, News: [][]string{GA, {"bob", "alice"}, {"ghost", "alice"}}},
			// one listed old rule named twice, once with a real replacement and once unchanged (either order), alone and
			// behind another pair: whatever the guard decides, store and memory must stay together
			{Kind: "upds", Sec: "p", PType: "p", Rules: [][]string{A, A}, News: [][]string{{"alice", "data1", "write"}, A}},
			{Kind: "upds", Sec: "p", PType: "p", Rules: [][]string{A, A}, News: [][]string{A, {"alice", "data1", "write"}}},
			{Kind: "upds", Sec: "p", PType: "p", Rules: [][]string{B, A, A}, News: [][]string{{"bob", "data2", "read"}, {"alice", "data1", "write"}, A}},
			{Kind: "upds", Sec: "g", PType: "g", Rules: [][]string{GA, GA}, News: [][]string{{"alice", "staff"}, GA}},
			{Kind: "adds", Sec: "p", PType: "p", Rules: [][]string{ghost, A}},
			{Kind: "rms", Sec: "p", PType: "p", Rules: [][]string{A, ghost}},
			{Kind: "upd", Sec: "p", PType: "p", Rule: ghost, New: ghost2},
		}
		for _, pre := range prefixes {
			for _, op := range rejectable {
				s := StartCase(c, ms, CaseOpts{Adapter: true})
				s.Do(c, EOp{Kind: "adds", Sec: "p", PType: "p", Ex: true, Rules: [][]string{A, B}})
				s.Do(c, EOp{Kind: "adds", Sec: "g", PType: "g", Ex: true, Rules: [][]string{GA, GB}})
				for _, o := range pre {
					s.Do(c, o)
				}
				// finding D12: an update onto a rule that is already listed is outside what is claimed
				d12 := false
				if op.Kind == "upds" || op.Kind == "upd" {
					listedNow := map[string]bool{}
					for _, r := range s.E.GetModel()[op.Sec][op.PType].Policy {
						listedNow[strings.Join(r, ",")] = true
					}
					news, olds := op.News, op.Rules
					if op.Kind == "upd" {
						news, olds = [][]string{op.New}, [][]string{op.Rule}
					}
					for k, nr := range news {
						if listedNow[strings.Join(nr, ",")] && strings.Join(olds[k], ",") != strings.Join(nr, ",") {
							d12 = true
						}
					}
				}
				before := memoryOf(s)
				obs := s.Do(c, op)
				s.Do(c, EOp{Kind: "obs", Args: []string{"pol", "p", "p"}})
				s.Do(c, EOp{Kind: "obs", Args: []string{"pol", "g", "g"}})
				after := memoryOf(s)
				c.Evals++
				c.Count("rejected_batch_result="+obs, 1)
				if d12 {
					c.Count("rejected_batch_skipped_finding_D12", 1)
					continue
				}
				if (obs == "false" || strings.HasPrefix(obs, "err")) && before != after {
					c.Direct("a call that reported false or an error changed the in-memory state (a rejected batch became partly visible)", fmt.Sprintf("prefix: %s\ncall: %s -> %s\nbefore: %s\nafter:  %s", histText(pre), op.Line(), obs, before, after))
				}
				// the same batch handed to the model directly (the path the Self* replay calls take: no guard in
				// front of it): a batch the model refuses must be rolled back to exactly what was listed
				if op.Kind == "upds" {
					q := StartCaseQuiet(ms, CaseOpts{Adapter: true})
					q.Exec(EOp{Kind: "adds", Sec: "p", PType: "p", Ex: true, Rules: [][]string{A, B}})
					q.Exec(EOp{Kind: "adds", Sec: "g", PType: "g", Ex: true, Rules: [][]string{GA, GB}})
					for _, o := range pre {
						q.Exec(o)
					}
					qb := memoryOf(q)
					ok, err := q.E.GetModel().UpdatePolicies(op.Sec, op.PType, cloneRules(op.Rules), cloneRules(op.News))
					qa := memoryOf(q)
					c.Evals++
					c.Count("rejected_batch_model_level", 1)
					if (!ok || err != nil) && qb != qa {
						c.Direct("a batch update that the model refused changed the in-memory state (a rejected batch became partly visible)", fmt.Sprintf("prefix: %s\nModel.UpdatePolicies(%s, %v, %v) -> %v, %v\nbefore: %s\nafter:  %s", histText(pre), op.PType, op.Rules, op.News, ok, err, qb, qa))
					}
				}
			}
		}
	}
	for _, pre := range prefixes {
		for _, op := range targets {
			for k := 1; k <= 2; k++ {
				s := StartCase(c, ms, CaseOpts{Adapter: true})
				for _, o := range pre {
					s.Do(c, o)
				}
				before := memoryOf(s)
				s.Do(c, EOp{Kind: "arm", What: "adapter", K: k})
				obs := s.Do(c, op)
				s.Do(c, EOp{Kind: "obs", Args: []string{"pol", "p", "p"}})
				s.Do(c, EOp{Kind: "obs", Args: []string{"pol", "g", "g"}})
				s.Do(c, EOp{Kind: "obs", Args: []string{"adapter"}})
				for _, u := range []string{"alice", "bob"} {
					s.Do(c, EOp{Kind: "haslink", PType: "g", Args: []string{u, "admin"}})
				}
				s.Do(c, EOp{Kind: "enf", Req: []V{VS("alice"), VS("data2"), VS("write")}})
				after := memoryOf(s)
				c.Evals++
				c.Count("fault_result="+obs, 1)
				if strings.HasPrefix(obs, "err") {
					c.Nontrivial(histText(pre) + "|" + op.Line() + fmt.Sprint(k))
					if before != after {
						c.Direct("a failed adapter call changed the in-memory state", fmt.Sprintf("prefix: %s\ncall: %s with adapter call %d failing\nbefore: %s\nafter:  %s", histText(pre), op.Line(), k, before, after))
					}
					if obs == "err:true" {
						c.Direct("a call reports an error together with success", fmt.Sprintf("prefix: %s\ncall: %s", histText(pre), op.Line()))
					}
				}
				if c.Evals%211 == 1 {
					c.Sample(fmt.Sprintf("%s ; arm adapter %d ; %s => %s", histText(pre), k, op.Line(), obs))
				}
			}
		}
		// LoadPolicy failing after k lines, from this state with two more lines waiting in the adapter
		for k := 0; k <= 4; k++ {
			s := StartCase(c, ms, CaseOpts{Adapter: true})
			for _, o := range pre {
				s.Do(c, o)
			}
			// something new to load: written to the adapter behind the enforcer's back is not expressible in the
			// protocol, so switch auto-save off, change memory, and reload the old adapter contents
			s.Do(c, EOp{Kind: "set", Flag: "autosave", On: false})
			// memory and store now drift apart: what is listed first in memory is not what the store lists first,
			// so rules of a rejected load that leak into memory are visible
			for _, r := range cloneRules(s.E.GetModel()["p"]["p"].Policy) {
				s.Do(c, EOp{Kind: "rm", Sec: "p", PType: "p", Rule: r})
				break
			}
			for _, r := range cloneRules(s.E.GetModel()["g"]["g"].Policy) {
				s.Do(c, EOp{Kind: "rm", Sec: "g", PType: "g", Rule: r})
				break
			}
			s.Do(c, EOp{Kind: "add", Sec: "p", PType: "p", Rule: []string{"zed", "data9", "read"}})
			s.Do(c, EOp{Kind: "add", Sec: "g", PType: "g", Rule: []string{"zed", "admin"}})
			before := memoryOf(s)
			s.Do(c, EOp{Kind: "arm", What: "load", K: k})
			obs := s.Do(c, EOp{Kind: "load"})
			s.Do(c, EOp{Kind: "obs", Args: []string{"pol", "p", "p"}})
			s.Do(c, EOp{Kind: "obs", Args: []string{"pol", "g", "g"}})
			after := memoryOf(s)
			c.Evals++
			c.Count("loadfault_result="+obs, 1)
			if obs == "err" {
				c.Nontrivial(histText(pre) + "|loadfail" + fmt.Sprint(k))
				if before != after {
					c.Direct("a rejected load changed the in-memory state", fmt.Sprintf("prefix: %s ; load failing after %d lines\nbefore: %s\nafter:  %s", histText(pre), k, before, after))
				}
			}
		}
		// role-link rebuilding failing at the j-th link during LoadPolicy
		for j := 1; j <= 5; j++ {
			c11RoleLinkFault(c, ms, pre, j)
		}
	}
}

func c11RoleLinkFault(c *Ctx, ms *MSpec, pre []EOp, j int) {
	// implementation-only (a failing role manager is not part of the protocol): the property itself is checked
	s := &Sess{}
	s2 := StartCaseQuiet(ms, CaseOpts{Adapter: true})
	s = s2
	for _, o := range pre {
		s.Exec(o)
	}
	frm := &failingRM{RoleManager: s.E.GetRoleManager()}
	s.E.SetRoleManager(frm)
	_ = s.E.BuildRoleLinks()
	s.A.Lines = append(s.A.Lines, memLine("g", "zed", "admin"), memLine("g", "yan", "zed"), memLine("p", "zed", "data9", "read"))
	before := memoryOf(s)
	frm.n, frm.failAt = 0, j
	err := s.E.LoadPolicy()
	frm.failAt = 0
	after := memoryOf(s)
	c.Evals++
	if err != nil {
		c.Count("rolelink_fault_hit", 1)
		c.Nontrivial(histText(pre) + "|rmfail" + fmt.Sprint(j))
		if before != after {
			c.Direct("a role-manager error during LoadPolicy changed the in-memory state", fmt.Sprintf("prefix: %s ; AddLink #%d fails during LoadPolicy\nbefore: %s\nafter:  %s", histText(pre), j, before, after))
		}
	} else {
		c.Count("rolelink_fault_not_reached", 1)
	}
}

func runC15(c *Ctx) {
	depth := 2
	if c.Thorough() {
		depth = 3
	}
	c.Exhaustive = true
	c.Rule = fmt.Sprintf("all management-call histories of depth <= %d (effective and no-op calls; failing calls: every call of the alphabet from a store holding three rules with its first adapter call armed to fail, every other failure worded like a real backend's error containing the words \"not implemented\") x {Watcher, WatcherEx, UpdatableWatcher, WatcherEx+Updatable} (auto-notify on at the full depth, for two kinds also from a store that already holds a p and a g rule; at depth-1: auto-notify off for every kind, and auto-save off for two kinds: announcements do not depend on it), two real enforcers sharing the recording in-memory adapter over a synchronous bus: the notification log (kind and arguments) is compared with the Lean model after every call, and on the implementation: exactly one notification per effective call, none for false/error results, and the peer, reloading on every notification, reaches the originator's decisions; a watcher whose notifications fail (twin enforcers: same notifications, memory and store, result (bool, error)); every rule-changing SyncedEnforcer method (Self* replays included) vs the Enforcer method it wraps on twin enforcers: same notifications, results and state, and no notification at all from a Self* call; non-trivial = a history with an effective and a no-op call; distinct = (watcher kind, flags, history)", depth)
	type c15Variant struct {
		wk               string
		notify, autosave bool
		preloaded        bool // the store already holds a p and a g rule: histories start from a non-empty policy
	}
	var variants []c15Variant
	for _, wk := range []string{"plain", "ex", "upd", "exupd"} {
		variants = append(variants, c15Variant{wk, true, true, false}, c15Variant{wk, false, true, false})
	}
	// notification does not depend on auto-save: with it off every effective call is still announced
	variants = append(variants, c15Variant{"plain", true, false, false}, c15Variant{"exupd", true, false, false})
	variants = append(variants, c15Variant{"exupd", true, true, true}, c15Variant{"plain", true, true, true})
	for _, v := range variants {
		{
			notify := v.notify
			wk := v.wk
			autosave := v.autosave
			opts := CaseOpts{Adapter: true, Watcher: wk}
			if v.preloaded {
				opts.ALines = []memLineT{{PType: "p", Rule: []string{"alice", "data1", "read"}}, {PType: "g", Rule: []string{"alice", "admin"}}}
			}
			cfg := &HistCfg{Name: fmt.Sprintf("%s/notify=%v/autosave=%v/preloaded=%v", wk, notify, autosave, v.preloaded), MS: rbacSpec(false, false), Opts: opts,
				Depth: depth, Alphabet: append(mgmtAlphabet(), EOp{Kind: "save"}),
				Probes: []EOp{{Kind: "obs", Args: []string{"notif"}}},
			}
			if !notify {
				cfg.Setup = []EOp{{Kind: "set", Flag: "autonotify", On: false}}
				cfg.Depth = depth - 1
			}
			if !autosave {
				cfg.Setup = append(cfg.Setup, EOp{Kind: "set", Flag: "autosave", On: false})
				cfg.Depth = depth - 1
			}
			var peer *casbin.Enforcer
			var peerW *mem.Watcher
			var lastLen int
			// findings D18 / D12: a batch update naming an unlisted rule (or an update-filtered whose
			// filter selects nothing) changes the store and then reports false; from then on store and
			// memory differ until SavePolicy, and peer convergence (which goes through the store) is
			// not claimed (opWF10)
			storeTainted := false
			cfg.AfterStep = func(c *Ctx, s *Sess, hist []EOp, obs string) {
				if len(hist) == 1 {
					storeTainted = false
				}
				if lk := hist[len(hist)-1].Kind; (lk == "upds" || lk == "updf") && obs == "false" {
					storeTainted = true
				}
				if hist[len(hist)-1].Kind == "save" && obs == "ok" {
					storeTainted = false
				}
				if len(hist) == 1 {
					// a peer sharing the adapter; it reloads on every notification (synchronous bus)
					peer, _ = casbin.NewEnforcer(rbacSpec(false, false).Build(), s.A)
					// the peer has a watcher of the same kind; for a watcher that is not a WatcherEx, SetWatcher
					// itself installs the callback that reloads the policy
					peerW = &mem.Watcher{}
					switch wk {
					case "plain":
						_ = peer.SetWatcher(mem.Plain{Watcher: peerW})
					case "ex":
						_ = peer.SetWatcher(mem.Ex{Watcher: peerW})
					case "upd":
						_ = peer.SetWatcher(mem.Upd{Watcher: peerW})
					case "exupd":
						_ = peer.SetWatcher(mem.ExUpd{Watcher: peerW})
					}
					if (wk == "plain" || wk == "upd") && peerW.Callback() == nil {
						c.Direct("SetWatcher did not install the reload callback for a watcher that is not a WatcherEx: a peer with such a watcher never follows the originator", fmt.Sprintf("watcher kind %s", wk))
					}
					s.A.Log = s.A.Log[:0]
					lastLen = 0
					if len(s.W.Log) > 0 {
						lastLen = 0
					}
				}
				last := hist[len(hist)-1]
				n := len(s.W.Log) - lastLen
				lastLen = len(s.W.Log)
				if len(hist) == 1 {
					n = len(s.W.Log)
				}
				effective := obs == "true" || (last.Kind == "save" && obs == "ok")
				if notify || last.Kind == "save" {
					if effective && n != 1 {
						c.Direct("an effective management call did not trigger exactly one notification", fmt.Sprintf("%s: %s -> %d notifications", cfg.Name, histText(hist), n))
					}
				}
				if effective && n == 1 && (notify || last.Kind == "save") {
					if want := c15Expected(wk, last); want != "" && s.W.Log[len(s.W.Log)-1] != want {
						c.Direct("the notification does not carry the kind and the arguments of the call", fmt.Sprintf("%s: %s\nannounced: %s\nexpected:  %s", cfg.Name, histText(hist), s.W.Log[len(s.W.Log)-1], want))
					}
				}
				if !effective && n != 0 {
					c.Direct("a call that reported false or an error triggered a notification", fmt.Sprintf("%s: %s -> %s, %d notifications", cfg.Name, histText(hist), obs, n))
				}
				if !notify && last.Kind != "save" && n != 0 {
					c.Direct("a notification was sent although auto-notify is off", fmt.Sprintf("%s: %s", cfg.Name, histText(hist)))
				}
				if n > 0 && notify && autosave {
					// the peer reloads now (as its callback would) and must agree with the originator
					calls, log := s.A.Calls, len(s.A.Log)
					if cb := peerW.Callback(); cb != nil {
						cb("") // the callback SetWatcher installed
					} else {
						_ = peer.LoadPolicy() // WatcherEx: the application's own callback
					}
					s.A.Calls, s.A.Log = calls, s.A.Log[:log]
					pol := s.E.GetModel()["p"]["p"].Policy
					dup := false
					seen := map[string]bool{}
					for _, r := range pol {
						if seen[strings.Join(r, ",")] {
							dup = true
						}
						seen[strings.Join(r, ",")] = true
					}
					seenLine := map[string]bool{}
					for _, l := range s.A.Lines {
						k := l.PType + "\x00" + strings.Join(l.Rule, "\x00")
						if seenLine[k] {
							dup = true // the store holds a line twice (D12)
						}
						seenLine[k] = true
					}
					if dup {
						storeTainted = true // sticky until SavePolicy: one of two equal lines may be left behind
					}
					if storeTainted {
						c.Count("peer_comparisons_skipped_findings_D12_D18", 1)
					} else if a, b := decisionsOf(s.E), decisionsOf(peer); a != b && !dup {
						c.Direct("a peer that reloads on the notification does not reach the originator's decisions", fmt.Sprintf("%s: %s\noriginator=%s peer=%s", cfg.Name, histText(hist), a, b))
					}
					c.Count("peer_comparisons", 1)
				}
			}
			enumerate(c, cfg)
		}
	}
	// failing calls: the first adapter call of every management call is armed to fail (every other injected failure
	// is worded like a real backend's and contains the words "not implemented"): the call reports the error and
	// nothing is announced; result and notification log are compared with the model
	for _, wk := range []string{"plain", "ex", "upd", "exupd"} {
		for _, op := range mgmtAlphabet() {
			s := StartCase(c, rbacSpec(false, false), CaseOpts{Adapter: true, Watcher: wk,
				ALines: []memLineT{{PType: "p", Rule: []string{"alice", "data1", "read"}}, {PType: "p", Rule: []string{"admin", "data2", "write"}}, {PType: "g", Rule: []string{"alice", "admin"}}}})
			if s == nil {
				continue
			}
			s.Do(c, EOp{Kind: "arm", What: "adapter", K: 1})
			obs := s.Do(c, op)
			s.Do(c, EOp{Kind: "obs", Args: []string{"notif"}})
			s.Do(c, EOp{Kind: "obs", Args: []string{"adapter"}})
			c.Evals++
			c.Count("adapter_fault_cases", 1)
			hit := s.A.FailAt == 0
			if hit && !strings.HasPrefix(obs, "err") {
				c.Direct("an adapter failure was not reported by the call", fmt.Sprintf("watcher=%s call: %s -> %s", wk, op.Line(), obs))
			}
			if hit && len(s.W.Log) != 0 {
				c.Direct("a call whose adapter call failed was announced to the watcher", fmt.Sprintf("watcher=%s call: %s -> %s announced %v", wk, op.Line(), obs, s.W.Log))
			}
			if hit {
				c.Nontrivial("c15-adapter-fault|" + wk + "|" + op.Line())
			}
		}
	}
	c15FailingWatcher(c)
	c15RoleDefinitionShapes(c)
	// the synchronised wrapper announces exactly what the plain enforcer announces: every method that changes
	// rules (Self* replays included) on twin enforcers with a WatcherEx+UpdatableWatcher each
	rounds := 2
	if c.Thorough() {
		rounds = 20
	}
	wrapperTransparency(c, rounds, func(name string) bool {
		for _, k := range []string{"Polic", "Self", "Role", "Permission", "User", "Domain"} {
			if strings.Contains(name, k) && !strings.HasPrefix(name, "Get") && !strings.HasPrefix(name, "Has") {
				return true
			}
		}
		return false
	})
}

// c15Expected: what a watcher of kind wk must be told for an effective call ("" = not checked here)
func c15Expected(wk string, o EOp) string {
	isEx := wk == "ex" || wk == "exupd"
	isUpd := wk == "upd" || wk == "exupd"
	j := func(r []string) string { return strings.Join(r, ",") }
	jr := func(rs [][]string) string {
		parts := make([]string, len(rs))
		for i, r := range rs {
			parts[i] = j(r)
		}
		return strings.Join(parts, "|")
	}
	sp := o.Sec + ";" + o.PType + ";"
	switch o.Kind {
	case "add":
		if isEx {
			return "AddPolicy(" + sp + j(o.Rule) + ")"
		}
	case "adds":
		if isEx {
			return "AddPolicies(" + sp + jr(o.Rules) + ")"
		}
	case "rm":
		if isEx {
			return "RemovePolicy(" + sp + j(o.Rule) + ")"
		}
	case "rms":
		if isEx {
			return "RemovePolicies(" + sp + jr(o.Rules) + ")"
		}
	case "rmf":
		if isEx {
			return fmt.Sprintf("RemoveFilteredPolicy(%s%d;%s)", sp, o.FI, j(o.Vals))
		}
	case "upd":
		if isUpd {
			return "UpdatePolicy(" + sp + j(o.Rule) + ";" + j(o.New) + ")"
		}
	case "upds":
		if isUpd {
			return "UpdatePolicies(" + sp + jr(o.Rules) + ";" + jr(o.News) + ")"
		}
	case "updf":
		return "" // the old rules are whatever the adapter reports
	case "save":
		if isEx {
			return "SavePolicy"
		}
	default:
		return ""
	}
	return "Update"
}
