package main

import (
	"fmt"
	"os"
	"strings"

	"github.com/casbin/casbin/v2"
	fileadapter "github.com/casbin/casbin/v2/persist/file-adapter"
	stringadapter "github.com/casbin/casbin/v2/persist/string-adapter"
)

// save/load round trip of the bundled adapters over loadable rule fields (implementation-level check
// of the last sentence of C10; the Lean side is Properties/C10.lean: csv_roundtrip)
func c10RoundTrip(c *Ctx) {
	// plain = needs no CSV quoting to be loaded: trailing blanks are fine (encoding/csv keeps them)
	plain := []string{"alice", "data1", "read", "a b", "x-y", "été", "d.1", "/a/*", "1", "A", "write\t ", "trail ", "b  "}
	hostile := []string{"a,b", " lead", "trail ", "q\"uote", "#hash", "", "a\tb"}
	ms := rbacSpec(false, false)
	tmp, err := os.MkdirTemp("", "c10rt")
	if err != nil {
		panic(err)
	}
	defer os.RemoveAll(tmp)
	n := 200
	if c.Thorough() {
		n = 5000
	}
	for i := 0; i < n; i++ {
		useHostile := i%5 == 0
		pick := func() string {
			if useHostile && c.Rng.Intn(3) == 0 {
				return hostile[c.Rng.Intn(len(hostile))]
			}
			return plain[c.Rng.Intn(len(plain))]
		}
		var pRules, gRules [][]string
		for k := 0; k < 1+c.Rng.Intn(4); k++ {
			pRules = append(pRules, []string{pick(), pick(), pick()})
		}
		for k := 0; k < c.Rng.Intn(3); k++ {
			gRules = append(gRules, []string{pick(), pick()})
		}
		path := fmt.Sprintf("%s/p%d.csv", tmp, i)
		_ = os.WriteFile(path, nil, 0o644)
		e, err := casbin.NewEnforcer(ms.Build(), fileadapter.NewAdapter(path))
		if err != nil {
			panic(err)
		}
		e.EnableAutoSave(false)
		_, _ = e.AddPoliciesEx(pRules)
		_, _ = e.AddGroupingPoliciesEx(gRules)
		wantP, _ := e.GetPolicy()
		wantG, _ := e.GetGroupingPolicy()
		if err := e.SavePolicy(); err != nil {
			continue
		}
		lerr := e.LoadPolicy()
		gotP, _ := e.GetPolicy()
		gotG, _ := e.GetGroupingPolicy()
		same := lerr == nil && fmt.Sprint(wantP) == fmt.Sprint(gotP) && fmt.Sprint(wantG) == fmt.Sprint(gotG)
		// string adapter
		sa := stringadapter.NewAdapter("")
		e2, _ := casbin.NewEnforcer(ms.Build())
		_, _ = e2.AddPoliciesEx(pRules)
		_, _ = e2.AddGroupingPoliciesEx(gRules)
		_ = sa.SavePolicy(e2.GetModel())
		e3, _ := casbin.NewEnforcer(ms.Build())
		_ = sa.LoadPolicy(e3.GetModel())
		p3, _ := e3.GetPolicy()
		g3, _ := e3.GetGroupingPolicy()
		sameS := fmt.Sprint(wantP) == fmt.Sprint(p3) && fmt.Sprint(wantG) == fmt.Sprint(g3)
		isPlain := true
		for _, r := range append(append([][]string(nil), pRules...), gRules...) {
			for _, f := range r {
				if strings.ContainsAny(f, ",\"#") || strings.TrimLeft(f, " \t") != f || f == "" {
					isPlain = false
				}
			}
		}
		c.Evals++
		lastBlank := false
		for _, r := range append(append([][]string(nil), pRules...), gRules...) {
			if l := r[len(r)-1]; strings.TrimSpace(l) != l {
				lastBlank = true // not loadable through the file adapter (it trims whole lines): string adapter only
			}
		}
		if isPlain && lastBlank {
			same = true
		}
		if isPlain {
			c.Count("roundtrip_plain", 1)
			if !same || !sameS {
				c.Direct("SavePolicy then LoadPolicy does not reproduce the rules", fmt.Sprintf("p=%v g=%v file: err=%v got p=%v g=%v; string adapter got p=%v g=%v", pRules, gRules, lerr, gotP, gotG, p3, g3))
			}
		} else {
			c.Count("roundtrip_hostile", 1)
			if !same {
				c.Count("roundtrip_hostile_fails(finding D17)", 1)
			}
		}
	}
}

// c10RoundTripMultiType: the same round trip on a model with two policy and two role definitions: every
// definition's rules come back under their own definition, in their order, through both bundled adapters.
func c10RoundTripMultiType(c *Ctx) {
	text := twoTypesModel
	tmp, err := os.MkdirTemp("", "c10rtm")
	if err != nil {
		panic(err)
	}
	defer os.RemoveAll(tmp)
	names := []string{"alice", "bob", "admin", "data1", "data2", "data_group", "read", "write", "x-y", "été"}
	n := 40
	if c.Thorough() {
		n = 1500
	}
	for i := 0; i < n; i++ {
		pick := func() string { return names[c.Rng.Intn(len(names))] }
		rules := map[string][][]string{}
		for _, def := range []struct {
			pt string
			n  int
		}{{"p", 3}, {"p2", 2}, {"g", 2}, {"g2", 2}} {
			for k := c.Rng.Intn(4); k > 0; k-- {
				r := make([]string, def.n)
				for j := range r {
					r[j] = pick()
				}
				rules[def.pt] = append(rules[def.pt], r)
			}
		}
		fill := func(e *casbin.Enforcer) {
			_, _ = e.AddNamedPoliciesEx("p", cloneRules(rules["p"]))
			_, _ = e.AddNamedPoliciesEx("p2", cloneRules(rules["p2"]))
			_, _ = e.AddNamedGroupingPoliciesEx("g", cloneRules(rules["g"]))
			_, _ = e.AddNamedGroupingPoliciesEx("g2", cloneRules(rules["g2"]))
		}
		listed := func(e *casbin.Enforcer) string {
			p, _ := e.GetNamedPolicy("p")
			p2, _ := e.GetNamedPolicy("p2")
			g, _ := e.GetNamedGroupingPolicy("g")
			g2, _ := e.GetNamedGroupingPolicy("g2")
			return fmt.Sprintf("p=%v p2=%v g=%v g2=%v", p, p2, g, g2)
		}
		path := fmt.Sprintf("%s/m%d.csv", tmp, i)
		_ = os.WriteFile(path, nil, 0o644)
		e, err := casbin.NewEnforcer(mustModel(text), fileadapter.NewAdapter(path))
		if err != nil {
			panic(err)
		}
		e.EnableAutoSave(false)
		fill(e)
		want := listed(e)
		if err := e.SavePolicy(); err != nil {
			c.Direct("SavePolicy of a model with two policy and two role definitions failed", fmt.Sprint(err))
			continue
		}
		fresh, err := casbin.NewEnforcer(mustModel(text), fileadapter.NewAdapter(path))
		got := "load error"
		if err == nil {
			got = listed(fresh)
		}
		sa := stringadapter.NewAdapter("")
		_ = sa.SavePolicy(e.GetModel())
		e3, _ := casbin.NewEnforcer(mustModel(text))
		_ = sa.LoadPolicy(e3.GetModel())
		gotS := listed(e3)
		c.Evals++
		c.Count("roundtrip_multi_type", 1)
		if got != want || gotS != want {
			c.Direct("SavePolicy then LoadPolicy does not reproduce the rules", fmt.Sprintf("two policy and two role definitions\nsaved:          %s\nfile adapter:   %s\nstring adapter: %s", want, got, gotS))
		}
	}
}
