package main

import (
	"fmt"
	"os"
	"sort"
	"strings"

	"github.com/casbin/casbin/v2"
	fileadapter "github.com/casbin/casbin/v2/persist/file-adapter"
	stringadapter "github.com/casbin/casbin/v2/persist/string-adapter"

	"verif/harness/internal/mem"
)

// The convenience layers (rbac_api.go, rbac_api_with_domains.go, the named and domain variants of the
// management API) under adapter faults: for every call and every k the k-th adapter call the operation makes is
// armed to fail; when the call then reports an error, the listed rules, the index, the role links and the
// decisions must be what they were before.  Implementation only.  The four calls that casbin composes out of
// several auto-saved management calls (DeleteUser, DeleteRole, DeleteAllUsersByDomain, DeleteDomains) are
// excluded for k >= 2: finding D40.

type rbacCall struct {
	name      string
	domain    bool // needs the domain model
	composite bool // made of several management calls in the unmodified library (finding D40)
	run       func(e *casbin.Enforcer) (bool, error)
}

func c11State(e *casbin.Enforcer, domain bool) string {
	var sb strings.Builder
	m := e.GetModel()
	fmt.Fprintf(&sb, "p=%v g=%v", m["p"]["p"].Policy, m["g"]["g"].Policy)
	for _, sec := range []string{"p", "g"} {
		var ks []string
		for k, v := range m[sec][sec].PolicyMap {
			ks = append(ks, fmt.Sprintf("%s=%d", k, v))
		}
		sort.Strings(ks)
		fmt.Fprintf(&sb, " ix%s=%v", sec, ks)
	}
	names := []string{"alice", "bob", "admin", "staff", "root"}
	doms := []string{""}
	if domain {
		doms = []string{"d1", "d2"}
	}
	sb.WriteString(" links=")
	for _, d := range doms {
		for _, u := range names {
			for _, r := range names {
				var ok bool
				if domain {
					ok, _ = e.GetRoleManager().HasLink(u, r, d)
				} else {
					ok, _ = e.GetRoleManager().HasLink(u, r)
				}
				if ok {
					sb.WriteByte('1')
				} else {
					sb.WriteByte('0')
				}
			}
		}
	}
	sb.WriteString(" dec=")
	for _, d := range doms {
		for _, u := range names {
			for _, o := range []string{"data1", "data2"} {
				var ok bool
				var err error
				if domain {
					ok, err = e.Enforce(u, d, o, "read")
				} else {
					ok, err = e.Enforce(u, o, "read")
				}
				switch {
				case err != nil:
					sb.WriteByte('E')
				case ok:
					sb.WriteByte('1')
				default:
					sb.WriteByte('0')
				}
			}
		}
	}
	return sb.String()
}

func c11RbacCalls() []rbacCall {
	return []rbacCall{
		{"AddRoleForUser(bob, staff)", false, false, func(e *casbin.Enforcer) (bool, error) { return e.AddRoleForUser("bob", "staff") }},
		{"AddRolesForUser(bob, [staff root])", false, false, func(e *casbin.Enforcer) (bool, error) { return e.AddRolesForUser("bob", []string{"staff", "root"}) }},
		{"DeleteRoleForUser(alice, admin)", false, false, func(e *casbin.Enforcer) (bool, error) { return e.DeleteRoleForUser("alice", "admin") }},
		{"DeleteRolesForUser(alice)", false, false, func(e *casbin.Enforcer) (bool, error) { return e.DeleteRolesForUser("alice") }},
		{"DeleteUser(alice)", false, true, func(e *casbin.Enforcer) (bool, error) { return e.DeleteUser("alice") }},
		{"DeleteRole(admin)", false, true, func(e *casbin.Enforcer) (bool, error) { return e.DeleteRole("admin") }},
		{"DeletePermission(data1, read)", false, false, func(e *casbin.Enforcer) (bool, error) { return e.DeletePermission("data1", "read") }},
		{"AddPermissionForUser(bob, data2, read)", false, false, func(e *casbin.Enforcer) (bool, error) { return e.AddPermissionForUser("bob", "data2", "read") }},
		{"AddPermissionsForUser(bob, [data2 read] [data1 read])", false, false, func(e *casbin.Enforcer) (bool, error) {
			return e.AddPermissionsForUser("bob", []string{"data2", "read"}, []string{"data1", "read"})
		}},
		{"DeletePermissionForUser(admin, data1, read)", false, false, func(e *casbin.Enforcer) (bool, error) { return e.DeletePermissionForUser("admin", "data1", "read") }},
		{"DeletePermissionsForUser(admin)", false, false, func(e *casbin.Enforcer) (bool, error) { return e.DeletePermissionsForUser("admin") }},
		{"RemoveFilteredNamedGroupingPolicy(g, 0, alice)", false, false, func(e *casbin.Enforcer) (bool, error) { return e.RemoveFilteredNamedGroupingPolicy("g", 0, "alice") }},
		{"UpdateNamedGroupingPolicies(g, ...)", false, false, func(e *casbin.Enforcer) (bool, error) {
			return e.UpdateNamedGroupingPolicies("g", [][]string{{"alice", "admin"}, {"alice", "staff"}}, [][]string{{"alice", "root"}, {"bob", "staff"}})
		}},
		{"AddRoleForUserInDomain(bob, staff, d1)", true, false, func(e *casbin.Enforcer) (bool, error) { return e.AddRoleForUserInDomain("bob", "staff", "d1") }},
		{"DeleteRoleForUserInDomain(alice, admin, d1)", true, false, func(e *casbin.Enforcer) (bool, error) { return e.DeleteRoleForUserInDomain("alice", "admin", "d1") }},
		{"DeleteRolesForUserInDomain(alice, d1)", true, false, func(e *casbin.Enforcer) (bool, error) { return e.DeleteRolesForUserInDomain("alice", "d1") }},
		{"DeleteRolesForUser(alice, d1)", true, false, func(e *casbin.Enforcer) (bool, error) { return e.DeleteRolesForUser("alice", "d1") }},
		{"AddRolesForUser(bob, [staff root], d1)", true, false, func(e *casbin.Enforcer) (bool, error) { return e.AddRolesForUser("bob", []string{"staff", "root"}, "d1") }},
		{"DeleteAllUsersByDomain(d1)", true, true, func(e *casbin.Enforcer) (bool, error) { return e.DeleteAllUsersByDomain("d1") }},
		{"DeleteDomains(d1, d2)", true, true, func(e *casbin.Enforcer) (bool, error) { return e.DeleteDomains("d1", "d2") }},
	}
}

func c11RbacFaults(c *Ctx) {
	plain := []mem.Line{{PType: "p", Rule: []string{"admin", "data1", "read"}}, {PType: "p", Rule: []string{"staff", "data2", "read"}}, {PType: "p", Rule: []string{"alice", "data2", "read"}},
		{PType: "g", Rule: []string{"alice", "admin"}}, {PType: "g", Rule: []string{"alice", "staff"}}, {PType: "g", Rule: []string{"admin", "root"}}, {PType: "g", Rule: []string{"bob", "admin"}}}
	dom := []mem.Line{{PType: "p", Rule: []string{"admin", "d1", "data1", "read"}}, {PType: "p", Rule: []string{"staff", "d1", "data2", "read"}}, {PType: "p", Rule: []string{"admin", "d2", "data1", "read"}},
		{PType: "g", Rule: []string{"alice", "admin", "d1"}}, {PType: "g", Rule: []string{"alice", "staff", "d1"}}, {PType: "g", Rule: []string{"alice", "admin", "d2"}}, {PType: "g", Rule: []string{"bob", "admin", "d1"}}}
	for _, call := range c11RbacCalls() {
		for k := 1; k <= 4; k++ {
			a := mem.New()
			ms := rbacSpec(call.domain, false)
			if call.domain {
				a.Lines = append(a.Lines, dom...)
			} else {
				a.Lines = append(a.Lines, plain...)
			}
			e, err := casbin.NewEnforcer(ms.Build(), a)
			if err != nil {
				panic(err)
			}
			before := c11State(e, call.domain)
			linesBefore := fmt.Sprint(a.Lines)
			a.Arm(k)
			_, err = call.run(e)
			fired := a.FailAt == 0
			a.FailAt = 0
			c.Evals++
			if !fired {
				break // the operation makes fewer than k adapter calls
			}
			c.Count("rbac_api_fault_cases", 1)
			what := fmt.Sprintf("%s with its adapter call #%d failing", call.name, k)
			if err == nil {
				c.Direct("an adapter failure was not reported by the call", what)
				continue
			}
			if call.composite && k >= 2 {
				c.Count("rbac_api_fault_cases_skipped_finding_D40", 1)
				continue
			}
			c.Nontrivial("rbac-fault|" + what)
			if after := c11State(e, call.domain); after != before {
				c.Direct("a failed adapter call changed the in-memory state", fmt.Sprintf("%s\nbefore: %s\nafter:  %s", what, before, after))
			}
			if k == 1 && fmt.Sprint(a.Lines) != linesBefore {
				c.Direct("the store changed although the first adapter call of the operation failed", what)
			}
		}
	}
}

// c11RejectedTextReloads: reloads through the bundled file and string adapters from a text whose (k+1)-th line the
// line reader itself rejects — an empty policy type, a rule one field short, an unbalanced quote — after k good
// lines: the file adapter's LoadPolicy reports an error (whatever its wording) and rules, links and decisions are
// what they were (the string adapter skips such lines by design: then there is nothing to check).
// Implementation only; the error kinds are those of persist.LoadPolicyLine / LoadPolicyArray, not injected ones.
func c11RejectedTextReloads(c *Ctx) {
	good := "p, admin, data1, read\np, staff, data2, read\ng, alice, admin\ng, alice, staff\n"
	fresh := []string{"p, root, data1, read", "g, bob, root", "p, bob, data2, read", "g, carol, admin"}
	badLines := []string{", bob, data2, write", "p, bob, data2", "g, bob", "p, \"unbalanced, data1, read"}
	for _, bad := range badLines {
		for k := 0; k <= len(fresh); k++ {
			text := strings.Join(append(append([]string(nil), fresh[:k]...), bad), "\n") + "\n" + strings.Join(fresh[k:], "\n") + "\n"
			for _, kind := range []string{"file", "string"} {
				ms := rbacSpec(false, false)
				path := scratchFile() + ".c11text"
				if err := os.WriteFile(path, []byte(good), 0o644); err != nil {
					panic(err)
				}
				e, err := casbin.NewEnforcer(ms.Build(), fileadapter.NewAdapter(path))
				if err != nil {
					panic(err)
				}
				before := c11State(e, false)
				if kind == "file" {
					_ = os.WriteFile(path, []byte(text), 0o644)
				} else {
					e.SetAdapter(stringadapter.NewAdapter(text))
				}
				err = e.LoadPolicy()
				after := c11State(e, false)
				c.Evals++
				c.Count("rejected_text_reloads", 1)
				what := fmt.Sprintf("%s adapter, reload from a text whose line %d is %q (after %d good lines)", kind, k+1, bad, k)
				if err == nil {
					if kind == "string" {
						// the string adapter skips the lines its reader rejects (it discards their errors): a load
						// that succeeded is not this property's subject
						c.Count("rejected_text_reloads_string_adapter_skipped_the_line", 1)
						continue
					}
					c.Direct("a reload from a text with a line the reader rejects reported no error", fmt.Sprintf("%s\nstate afterwards: %s", what, after))
					continue
				}
				c.Nontrivial("rejected-text|" + kind + "|" + bad + fmt.Sprint(k))
				if before != after {
					c.Direct("a rejected load changed the in-memory state", fmt.Sprintf("%s\nbefore: %s\nafter:  %s", what, before, after))
				}
			}
		}
	}
}

// The same enumeration with an adapter that implements only the mandatory persist.Adapter interface (no batch, no
// in-place update): whatever casbin does for the optional calls (today: a failed type assertion, recovered here and
// counted as a refused call), a call that reports an error or is refused must leave rules, index, links and
// decisions as they were.  Implementation only.
func c11BasicAdapterFaults(c *Ctx) {
	plain := []mem.Line{{PType: "p", Rule: []string{"admin", "data1", "read"}}, {PType: "p", Rule: []string{"staff", "data2", "read"}}, {PType: "p", Rule: []string{"alice", "data2", "read"}},
		{PType: "g", Rule: []string{"alice", "admin"}}, {PType: "g", Rule: []string{"alice", "staff"}}, {PType: "g", Rule: []string{"admin", "root"}}, {PType: "g", Rule: []string{"bob", "admin"}}}
	calls := []rbacCall{
		{"UpdatePolicy(alice data2 read -> alice data2 write)", false, false, func(e *casbin.Enforcer) (bool, error) {
			return e.UpdatePolicy([]string{"alice", "data2", "read"}, []string{"alice", "data2", "write"})
		}},
		{"UpdateGroupingPolicy(alice admin -> alice root)", false, false, func(e *casbin.Enforcer) (bool, error) {
			return e.UpdateGroupingPolicy([]string{"alice", "admin"}, []string{"alice", "root"})
		}},
		{"UpdatePolicies(2 pairs)", false, false, func(e *casbin.Enforcer) (bool, error) {
			return e.UpdatePolicies([][]string{{"admin", "data1", "read"}, {"alice", "data2", "read"}}, [][]string{{"admin", "data1", "write"}, {"alice", "data1", "read"}})
		}},
		{"UpdateGroupingPolicies(2 pairs)", false, false, func(e *casbin.Enforcer) (bool, error) {
			return e.UpdateGroupingPolicies([][]string{{"alice", "admin"}, {"bob", "admin"}}, [][]string{{"alice", "root"}, {"bob", "staff"}})
		}},
		{"AddPolicy(bob data1 read)", false, false, func(e *casbin.Enforcer) (bool, error) { return e.AddPolicy("bob", "data1", "read") }},
		{"RemovePolicy(alice data2 read)", false, false, func(e *casbin.Enforcer) (bool, error) { return e.RemovePolicy("alice", "data2", "read") }},
		{"AddPolicies(2)", false, false, func(e *casbin.Enforcer) (bool, error) {
			return e.AddPolicies([][]string{{"bob", "data1", "read"}, {"bob", "data2", "read"}})
		}},
		{"RemoveGroupingPolicies(2)", false, false, func(e *casbin.Enforcer) (bool, error) {
			return e.RemoveGroupingPolicies([][]string{{"alice", "admin"}, {"bob", "admin"}})
		}},
	}
	for _, cl := range c11RbacCalls() {
		if !cl.domain {
			calls = append(calls, cl)
		}
	}
	for _, call := range calls {
		for k := 1; k <= 4; k++ {
			a := mem.New()
			a.Lines = append(a.Lines, plain...)
			e, err := casbin.NewEnforcer(rbacSpec(false, false).Build(), mem.Basic{A: a})
			if err != nil {
				panic(err)
			}
			before := c11State(e, false)
			a.Arm(k)
			var cerr error
			refused := false
			func() {
				defer func() {
					if r := recover(); r != nil {
						refused = true
					}
				}()
				_, cerr = call.run(e)
			}()
			fired := a.FailAt == 0
			a.FailAt = 0
			c.Evals++
			c.Count("basic_adapter_fault_cases", 1)
			if !(refused || (fired && cerr != nil)) {
				if !fired {
					break
				}
				continue
			}
			if call.composite && k >= 2 {
				continue // finding D40
			}
			what := fmt.Sprintf("%s on an adapter with the mandatory interface only, adapter call #%d armed (refused=%v, error=%v)", call.name, k, refused, cerr)
			if after := c11State(e, false); after != before {
				c.Direct("a refused or failed call changed the in-memory state (adapter without the optional interfaces)", fmt.Sprintf("%s\nbefore: %s\nafter:  %s", what, before, after))
			}
			c.Nontrivial("basic-adapter-fault|" + what)
			if refused {
				break
			}
		}
	}
}
