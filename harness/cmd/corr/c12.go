package main

import (
	"fmt"
	"math/rand"
	"os"
	"path/filepath"
	"reflect"
	"strings"
	"sync"
	"time"

	"github.com/casbin/casbin/v2"
	"github.com/casbin/casbin/v2/model"
	fileadapter "github.com/casbin/casbin/v2/persist/file-adapter"
	"github.com/casbin/casbin/v2/util"

	"verif/harness/internal/mem"
	"verif/harness/internal/snap"
	"verif/harness/internal/syncapi"
)

func init() { registry["C12"] = runC12 }

// SyncWorld is a model + policy a SyncedEnforcer is built from, with the value pool for arguments.
type SyncWorld struct {
	Name      string
	ModelText string
	Policy    string
	Setup     func(e *casbin.SyncedEnforcer)
	W         syncapi.World
}

const twoTypesModel = `
[request_definition]
r = sub, obj, act
[policy_definition]
p = sub, obj, act
p2 = sub, act
[role_definition]
g = _, _
g2 = _, _
[policy_effect]
e = some(where (p.eft == allow))
[matchers]
m = g(r.sub, p.sub) && g2(r.obj, p.obj) && r.act == p.act
`

const twoTypesPolicy = `p, alice, data1, read
p, admin, data_group, write
p2, bob, write
g, alice, admin
g, bob, admin
g2, data1, data_group
g2, data2, data_group
`

func readExample(name string) string {
	b, err := os.ReadFile(filepath.Join("/repo/examples", name))
	if err != nil {
		panic(err)
	}
	return string(b)
}

func SyncWorlds() []*SyncWorld {
	base := syncapi.World{Users: []string{"alice", "bob", "carol"}, Roles: []string{"admin", "data1_admin", "data2_admin"},
		Domains: []string{"domain1", "domain2"}, Objs: []string{"data1", "data2"}, Acts: []string{"read", "write"},
		PTypes: []string{"p"}, GTypes: []string{"g"}, Arity: map[string]int{"p": 3, "g": 2}}
	rbac := base
	rbac.Matcher = "g(r.sub, p.sub) && r.obj == p.obj && r.act == p.act"
	dom := base
	dom.HasDomains = true
	dom.Arity = map[string]int{"p": 4, "g": 3}
	dom.Matcher = "g(r.sub, p.sub, r.dom) && r.dom == p.dom && r.obj == p.obj && r.act == p.act"
	two := base
	two.PTypes = []string{"p", "p2"}
	two.GTypes = []string{"g", "g2"}
	two.Arity = map[string]int{"p": 3, "p2": 2, "g": 2, "g2": 2}
	two.Matcher = "g(r.sub, p.sub) && g2(r.obj, p.obj) && r.act == p.act"
	pat := base
	pat.Objs = []string{"/book/1", "/pen/2", "book_group"}
	pat.Roles = []string{"book_admin", "pen_admin", "/book/:id"}
	pat.Matcher = "g(r.sub, p.sub) && g2(r.obj, p.obj) && regexMatch(r.act, p.act)"
	pat.GTypes = []string{"g", "g2"}
	pat.Arity = map[string]int{"p": 3, "g": 2, "g2": 2}
	return []*SyncWorld{
		{Name: "rbac", ModelText: readExample("rbac_model.conf"), Policy: readExample("rbac_with_hierarchy_policy.csv"), W: rbac},
		{Name: "rbac-domains", ModelText: readExample("rbac_with_domains_model.conf"), Policy: readExample("rbac_with_domains_policy.csv"), W: dom},
		{Name: "two-policy-types", ModelText: twoTypesModel, Policy: twoTypesPolicy, W: two},
		{Name: "rbac-pattern", ModelText: readExample("rbac_with_pattern_model.conf"), Policy: readExample("rbac_with_pattern_policy.csv"), W: pat,
			Setup: func(e *casbin.SyncedEnforcer) {
				e.AddNamedMatchingFunc("g2", "KeyMatch2", util.KeyMatch2)
				_ = e.BuildRoleLinks()
			}},
	}
}

// New builds a fresh SyncedEnforcer over a private copy of the policy file in dir.
func (sw *SyncWorld) New(dir string) *casbin.SyncedEnforcer {
	m, err := model.NewModelFromString(sw.ModelText)
	if err != nil {
		panic(err)
	}
	path := filepath.Join(dir, sw.Name+".csv")
	if err := os.WriteFile(path, []byte(sw.Policy), 0o644); err != nil {
		panic(err)
	}
	e, err := casbin.NewSyncedEnforcer(m, fileadapter.NewAdapter(path))
	if err != nil {
		panic(err)
	}
	if sw.Setup != nil {
		sw.Setup(e)
	}
	return e
}

// lockModeOf observes which lock a method needs: called while another goroutine holds the read
// lock (completes => at most R) and while it holds the write lock (completes => none).
// panics seen while probing lock modes (the only calls the write-lock wrappers get in this stage)
var probePanics sync.Map

func lockModeOf(sw *SyncWorld, dir string, m syncapi.Method, rng *rand.Rand) string {
	probe := func(write bool) bool {
		e := sw.New(dir)
		w := sw.W
		w.Watcher = mem.Plain{Watcher: &mem.Watcher{}}
		args := w.Args(m, rng)
		if write {
			e.GetLock().Lock()
		} else {
			e.GetLock().RLock()
		}
		done := make(chan struct{})
		go func() {
			if p := syncapi.Call(e, m, args); p != "" {
				probePanics.Store(m.Name, p)
			}
			close(done)
		}()
		completed := false
		select {
		case <-done:
			completed = true
		case <-time.After(1500 * time.Millisecond): // generous: a call that only needs this lock returns in microseconds
		}
		if write {
			e.GetLock().Unlock()
		} else {
			e.GetLock().RUnlock()
		}
		<-done
		if m.Name == "StartAutoLoadPolicy" {
			e.StopAutoLoadPolicy()
		}
		return completed
	}
	if !probe(false) {
		return "W"
	}
	if !probe(true) {
		return "R"
	}
	return "none"
}

func runC12(c *Ctx) {
	c.Exhaustive = true
	rounds := 4
	if c.Thorough() {
		rounds = 40
	}
	c.Rule = fmt.Sprintf("every method of *SyncedEnforcer found in the source (go/ast); models: RBAC with hierarchy, RBAC with domains, two policy types + two role definitions, pattern-matching role manager: (1) the lock the method really needs, observed on the first model by calling it while the read lock / the write lock is held elsewhere, vs the mode in the extracted lock table (Lean driver); (2) on each of the 4 models, for every method that does not take the write lock: a deep snapshot of all plain (non-sync, non-atomic) memory reachable from the embedded Enforcer before and after the call, %d fresh enforcers per method and model with two calls each (the first call on a fresh enforcer, then the method again with other arguments): no difference allowed; (3) no panic escapes a wrapper on plausible arguments: every call of (1) and (2) (write-lock wrappers are called in (1) only; the stress stage calls them all); the race-detector stress stage (cmd/stress, built with -race) runs after this one; non-trivial = a snapshot-compared call; distinct = (model, method, arguments)", rounds)
	methods, err := syncapi.Methods("/repo")
	if err != nil {
		panic(err)
	}
	dir, err := os.MkdirTemp("", "c12")
	if err != nil {
		panic(err)
	}
	defer os.RemoveAll(dir)
	c.W.Op("case sync", "#")
	worlds := SyncWorlds()
	modes := map[string]string{}
	// all probes in parallel, each on its own enforcer (a blocked call costs the whole timeout)
	var mwg sync.WaitGroup
	var mmu sync.Mutex
	for i, m := range methods {
		if m.Name == "GetLock" {
			modes[m.Name] = "none"
			continue
		}
		mwg.Add(1)
		seed := c.Rng.Int63()
		go func(i int, m syncapi.Method) {
			defer mwg.Done()
			sub, err := os.MkdirTemp(dir, "probe")
			if err != nil {
				panic(err)
			}
			mode := lockModeOf(worlds[0], sub, m, rand.New(rand.NewSource(seed)))
			mmu.Lock()
			modes[m.Name] = mode
			mmu.Unlock()
		}(i, m)
	}
	mwg.Wait()
	probePanics.Range(func(k, v interface{}) bool {
		c.Direct("a SyncedEnforcer method panicked", fmt.Sprintf("model=%s method=%v (lock-mode probe) panic=%v", worlds[0].Name, k, v))
		return true
	})
	for _, m := range methods {
		c.W.Op("wrapper "+m.Name, "mode="+modes[m.Name])
		c.Count("mode="+modes[m.Name], 1)
	}
	for _, sw := range worlds {
		for _, m := range methods {
			if modes[m.Name] == "W" || m.Name == "GetLock" {
				continue
			}
			for r := 0; r < rounds; r++ {
				e := sw.New(dir)
				w := sw.W
				w.Watcher = mem.Plain{Watcher: &mem.Watcher{}}
				// the first call on a fresh enforcer, then the same method again with other arguments
				for k := 0; k < 2; k++ {
					args := w.Args(m, c.Rng)
					before := snap.Snapshot(e.Enforcer)
					p := syncapi.Call(e, m, args)
					after := snap.Snapshot(e.Enforcer)
					c.Evals++
					what := fmt.Sprintf("model=%s method=%s args=%s call#%d", sw.Name, m.Name, showArgs(args), k+1)
					if p != "" {
						c.Direct("a SyncedEnforcer method panicked", what+" panic="+p)
					}
					if before != after {
						c.Direct("a method that does not take the write lock wrote plain shared memory (a data race with any concurrent caller)", what+" diff="+snap.Diff(before, after))
					}
					c.Nontrivial(what)
				}
				if m.Name == "StartAutoLoadPolicy" {
					e.StopAutoLoadPolicy()
				}
			}
			c.Count("snapshot_methods", 1)
		}
	}
	c.Sample(fmt.Sprintf("%d methods; modes: %v", len(methods), c.Stats))
}

func showArgs(args []reflect.Value) string {
	parts := make([]string, len(args))
	for i, a := range args {
		if a.Kind() == reflect.Func {
			parts[i] = "func"
			continue
		}
		parts[i] = strings.ReplaceAll(fmt.Sprint(a.Interface()), "\n", " ")
	}
	return "(" + strings.Join(parts, ", ") + ")"
}
