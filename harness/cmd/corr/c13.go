package main

import (
	"fmt"
	"runtime"
	"sort"
	"strings"
	"sync"
	"sync/atomic"
	"time"

	"github.com/casbin/casbin/v2"
	"github.com/casbin/govaluate"

	"verif/harness/internal/mem"
	"verif/harness/internal/proto"
)

func init() { registry["C13"] = runC13 }

// one completed call of a recorded concurrent history
type linCall struct {
	id       int
	inv, res int64
	op       EOp
	obs      string
}

// linSess is a SyncedEnforcer under test with its recording adapter and the history so far.
type linSess struct {
	se    *casbin.SyncedEnforcer
	a     *mem.Adapter
	ms    *MSpec
	clock int64
	mu    sync.Mutex
	calls []linCall
	nextI int32
}

func (ls *linSess) tick() int64 { return atomic.AddInt64(&ls.clock, 1) }

// execSynced runs one op through the synchronised wrappers; observations as in Sess.Exec.
func (ls *linSess) execSynced(o EOp) (obs string) {
	defer func() {
		if r := recover(); r != nil {
			obs = "panic"
		}
	}()
	e := ls.se
	p := o.Sec == "p"
	switch o.Kind {
	case "enf":
		ok, err := e.Enforce(reqGo(nil, o.Req)...)
		if err != nil {
			return "err"
		}
		return proto.Bool(ok)
	case "add":
		if p {
			return mres(e.AddNamedPolicy(o.PType, append([]string(nil), o.Rule...)))
		}
		return mres(e.AddNamedGroupingPolicy(o.PType, append([]string(nil), o.Rule...)))
	case "rm":
		if p {
			return mres(e.RemoveNamedPolicy(o.PType, append([]string(nil), o.Rule...)))
		}
		return mres(e.RemoveNamedGroupingPolicy(o.PType, append([]string(nil), o.Rule...)))
	case "upd":
		if p {
			return mres(e.UpdatePolicy(append([]string(nil), o.Rule...), append([]string(nil), o.New...)))
		}
		return mres(e.UpdateGroupingPolicy(append([]string(nil), o.Rule...), append([]string(nil), o.New...)))
	case "load":
		return okErr(e.LoadPolicy())
	case "save":
		return okErr(e.SavePolicy())
	case "has":
		var ok bool
		var err error
		if p {
			ok, err = e.HasNamedPolicy(o.PType, append([]string(nil), o.Rule...))
		} else {
			ok, err = e.HasNamedGroupingPolicy(o.PType, append([]string(nil), o.Rule...))
		}
		if err != nil {
			return "err"
		}
		return proto.Bool(ok)
	case "obs":
		var rules [][]string
		var err error
		if o.Args[1] == "p" {
			rules, err = e.GetNamedPolicy(o.Args[2])
		} else {
			rules, err = e.GetNamedGroupingPolicy(o.Args[2])
		}
		if err != nil {
			return "err"
		}
		return proto.EncRules(rules)
	}
	panic("execSynced: bad op " + o.Kind)
}

func (o EOp) linLine() string {
	if o.Kind == "has" {
		return "has " + o.Sec + " " + o.PType + " " + proto.EncRule(o.Rule)
	}
	return o.Line()
}

// do runs one call with time stamps from the global counter and records it.
func (ls *linSess) do(o EOp) string {
	id := int(atomic.AddInt32(&ls.nextI, 1))
	inv := ls.tick()
	obs := ls.execSynced(o)
	res := ls.tick()
	ls.mu.Lock()
	ls.calls = append(ls.calls, linCall{id: id, inv: inv, res: res, op: o, obs: obs})
	ls.mu.Unlock()
	return obs
}

// startAndWait starts the call on its own goroutine and returns when it has completed or is
// (as far as one can tell) blocked on the enforcer's lock.
func (ls *linSess) startAndWait(o EOp, wg *sync.WaitGroup) {
	done := make(chan struct{})
	wg.Add(1)
	go func() {
		defer wg.Done()
		ls.do(o)
		close(done)
	}()
	deadline := time.Now().Add(30 * time.Millisecond)
	for spins := 0; ; spins++ {
		select {
		case <-done:
			return
		default:
		}
		if spins > 200 && !ls.se.GetLock().TryRLock() {
			return // a writer holds or waits for the lock: the call is queued behind it
		} else if spins > 200 {
			ls.se.GetLock().RUnlock()
		}
		if time.Now().After(deadline) {
			return
		}
		runtime.Gosched()
	}
}

type linCfg struct {
	name    string
	ms      *MSpec
	alines  []mem.Line
	reqs    [][]V
	opts    CaseOpts
	pattern bool // register a (hookable) matching function on g
	// domPattern: register a (hookable) domain matching function on g (a domain model)
	domPattern bool
}

var probeHook atomic.Value // func()
var dmfHook atomic.Value   // func(): called inside the domain matching function

func probeFn(args ...interface{}) (interface{}, error) {
	if f, ok := probeHook.Load().(func()); ok && f != nil {
		f()
	}
	return true, nil
}

// newLin builds the enforcer and writes the case header (the sequential specification's initial state).
func newLin(c *Ctx, cfg *linCfg, mfHook *atomic.Value) *linSess {
	m := cfg.ms.Build()
	c.W.Op("case lin", "#")
	for _, l := range cfg.ms.Header(m) {
		c.W.Op(l, "#")
	}
	used := map[string]bool{}
	for _, t := range cfg.ms.MTypes {
		cfg.ms.M[t].Calls(used)
	}
	var uni []string
	seen := map[string]bool{"": true}
	uni = append(uni, "")
	for _, l := range cfg.alines {
		for _, f := range l.Rule {
			if !seen[f] {
				seen[f] = true
				uni = append(uni, f)
			}
		}
	}
	for _, r := range cfg.reqs {
		for _, v := range r {
			if !seen[v.S] {
				seen[v.S] = true
				uni = append(uni, v.S)
			}
		}
	}
	for _, x := range cfg.opts.OraUniverse {
		if !seen[x] {
			seen[x] = true
			uni = append(uni, x)
		}
	}
	for name := range used {
		var fn govaluate.ExpressionFunction
		if name == "probe" {
			fn = func(args ...interface{}) (interface{}, error) { return true, nil }
		} else {
			fn = builtinFns[name]
		}
		for _, a := range uni {
			for _, b := range uni {
				c.W.Op(oraLine(name, fn, a, b), "#")
			}
		}
	}
	if cfg.pattern || cfg.domPattern {
		for _, a := range uni {
			for _, b := range uni {
				res := "b:0"
				if matchFns["keyMatch"](a, b) {
					res = "b:1"
				}
				c.W.Op("ora keyMatch s:"+proto.Enc(a)+" s:"+proto.Enc(b)+" = "+res, "#")
			}
		}
	}
	a := mem.New()
	c.W.Op("adapter mem", "#")
	for _, l := range cfg.alines {
		a.Lines = append(a.Lines, mem.Line{PType: l.PType, Rule: append([]string(nil), l.Rule...)})
		c.W.Op("aline "+l.PType+" "+proto.EncRule(l.Rule), "#")
	}
	se, err := casbin.NewSyncedEnforcer(m, a)
	if err != nil {
		c.W.Op("init", "err")
		return nil
	}
	se.AddFunction("probe", probeFn)
	c.W.Op("init", "ok")
	if cfg.domPattern {
		ok := se.AddNamedDomainMatchingFunc("g", "keyMatch", func(x, y string) bool {
			if f, ok := dmfHook.Load().(func()); ok && f != nil {
				f()
			}
			return matchFns["keyMatch"](x, y)
		})
		c.W.Op("adddmf g keyMatch", proto.Bool(ok))
	}
	if cfg.pattern {
		ok := se.AddNamedMatchingFunc("g", "keyMatch", func(x, y string) bool {
			if f, ok := mfHook.Load().(func()); ok && f != nil {
				f()
			}
			return matchFns["keyMatch"](x, y)
		})
		c.W.Op("addmf g keyMatch", proto.Bool(ok))
	}
	return &linSess{se: se, a: a, ms: cfg.ms}
}

// overlapsWriter: did a LoadPolicy overlap a call that changed the policy (the D19 pattern)?
func d19Pattern(calls []linCall) bool {
	for _, l := range calls {
		if l.op.Kind != "load" {
			continue
		}
		for _, w := range calls {
			switch w.op.Kind {
			case "add", "rm", "upd", "save":
				if w.res > l.inv && w.inv < l.res {
					return true
				}
			}
		}
	}
	return false
}

// finish: post-quiescence probes (part of the history), the history lines, the verdict line, and
// the direct checks on the implementation.
func (ls *linSess) finish(c *Ctx, cfg *linCfg, what string) {
	// sequential probes after everything has returned
	ls.do(EOp{Kind: "obs", Args: []string{"pol", "p", "p"}})
	ls.do(EOp{Kind: "obs", Args: []string{"pol", "g", "g"}})
	var decisions []string
	for _, q := range cfg.reqs {
		decisions = append(decisions, ls.do(EOp{Kind: "enf", Req: q}))
	}
	calls := append([]linCall(nil), ls.calls...)
	sort.Slice(calls, func(i, j int) bool { return calls[i].inv < calls[j].inv })
	nextID := 100000
	for _, k := range calls {
		if k.op.Kind == "load" && k.obs == "ok" {
			// LoadPolicy is two critical sections (finding D19): the history is checked against
			// exactly that reading — snapshot of the store, later installation of the snapshot
			nextID++
			c.W.Op(fmt.Sprintf("call %d %d %d - %s loadread %d", k.id, k.inv, k.res, proto.Enc("ok"), k.id), "#")
			c.W.Op(fmt.Sprintf("call %d %d %d %d %s loadapply %d", nextID, k.inv, k.res, k.id, proto.Enc("ok"), k.id), "#")
			continue
		}
		c.W.Op(fmt.Sprintf("call %d %d %d - %s %s", k.id, k.inv, k.res, proto.Enc(k.obs), k.op.linLine()), "#")
	}
	c.W.Op("check", "linearizable")
	c.Evals++
	overl := 0
	for i, a := range calls {
		for _, b := range calls[i+1:] {
			if b.inv < a.res {
				overl++
			}
		}
	}
	c.Count("overlapping_call_pairs", overl)
	if overl > 0 {
		c.Nontrivial(what)
	}
	// a wrong decision is never retained: the live enforcer decides like a fresh one given the listed rules
	pp, _ := ls.se.GetPolicy()
	gp, _ := ls.se.GetGroupingPolicy()
	fresh, err := casbin.NewEnforcer(cfg.ms.Build())
	if err == nil {
		fresh.AddFunction("probe", func(args ...interface{}) (interface{}, error) { return true, nil })
		if cfg.pattern {
			fresh.AddNamedMatchingFunc("g", "keyMatch", matchFns["keyMatch"])
		}
		if cfg.domPattern {
			fresh.AddNamedDomainMatchingFunc("g", "keyMatch", matchFns["keyMatch"])
		}
		_, _ = fresh.AddPoliciesEx(cloneRules(pp))
		_, _ = fresh.AddGroupingPoliciesEx(cloneRules(gp))
		for i, q := range cfg.reqs {
			ok, ferr := fresh.Enforce(reqGo(nil, q)...)
			want := proto.Bool(ok)
			if ferr != nil {
				want = "err"
			}
			if want != decisions[i] {
				c.Direct("after all calls have returned the enforcer keeps a decision that its own listed rules do not support (a stale answer is retained)", fmt.Sprintf("%s request=%v live=%s fresh-enforcer-on-listed-rules=%s rules p=%v g=%v", what, reqText(q), decisions[i], want, pp, gp))
				break
			}
		}
	}
	// a completed, persisted change is never lost: memory = store (except under the D19 pattern)
	if !d19Pattern(calls) {
		store := func(pt string) string { return fmt.Sprint(ls.a.RulesOf(pt)) }
		if a, b := fmt.Sprint(pp), store("p"); a != b && !(len(pp) == 0 && len(ls.a.RulesOf("p")) == 0) {
			c.Direct("after quiescence the listed rules differ from the store although no LoadPolicy overlapped a change", fmt.Sprintf("%s memory p=%s store p=%s", what, a, b))
		}
		if a, b := fmt.Sprint(gp), store("g"); a != b && !(len(gp) == 0 && len(ls.a.RulesOf("g")) == 0) {
			c.Direct("after quiescence the listed grouping rules differ from the store although no LoadPolicy overlapped a change", fmt.Sprintf("%s memory g=%s store g=%s", what, a, b))
		}
	} else {
		c.Count("histories_with_load_overlapping_a_change(D19 pattern)", 1)
	}
}

func reqText(q []V) string {
	parts := make([]string, len(q))
	for i, v := range q {
		parts[i] = v.S
	}
	return "(" + strings.Join(parts, ",") + ")"
}

func opsText(ops []EOp) string {
	parts := make([]string, len(ops))
	for i, o := range ops {
		parts[i] = o.linLine()
	}
	return strings.Join(parts, " ; ")
}

func runC13(c *Ctx) {
	c.Rule = "concurrent histories recorded on the real SyncedEnforcer (auto-saving recording adapter, invocation/response stamps from one atomic counter) on a plain RBAC model with a custom matcher function, on a pattern-matching model and on a domain model with a domain matching function: (a) schedules forced through the library's own callbacks — a primary call (LoadPolicy at the end of its first phase, Enforce inside a custom matcher function, Enforce inside the role manager's matching function or domain matching function, AddPolicy/UpdatePolicy inside the adapter) during which every single secondary call and (thorough tier: every; quick tier: a seeded fifth plus every pair of updates) pair of secondary calls over the model's alphabet (13 calls on the plain model, 10 on the pattern model, 8 on the domain model) is started and runs to completion or until it queues on the lock; (b) seeded random schedules of 2-4 goroutines x <= 4 calls with callback-induced delays; every history ends with sequential probes (GetPolicy, GetGroupingPolicy, all requests) and is decided by the Lean checker Lin.check against the enforcer model (LoadPolicy read as its two phases, finding D19); on the implementation: decisions after quiescence = a fresh enforcer given the listed rules, listed rules = store unless a LoadPolicy overlapped a change; non-trivial = a history with overlapping calls; distinct = history"
	probeM := And(Call2("probe", PTok(0), RTok(0)), G2("g", RTok(0), PTok(0)), Eq(RTok(1), PTok(1)), Eq(RTok(2), PTok(2)))
	msPlain := NewMSpec().AddR("r", "sub", "obj", "act").AddP("p", "sub", "obj", "act").AddG("g", 2).AddE("e", effAllow).AddM("m", "r", "p", probeM)
	plain := &linCfg{name: "plain", ms: msPlain, opts: CaseOpts{OraUniverse: []string{"carol", "bob", "admin", "alice", "data1", "data2", "read", "write"}},
		alines: []mem.Line{memLine("p", "admin", "data1", "read"), memLine("p", "alice", "data2", "read"), memLine("g", "alice", "admin")},
		reqs:   [][]V{{VS("alice"), VS("data1"), VS("read")}, {VS("alice"), VS("data2"), VS("read")}, {VS("bob"), VS("data1"), VS("read")}, {VS("bob"), VS("data2"), VS("write")}}}
	patM := And(G2("g", RTok(0), PTok(0)), Eq(RTok(1), PTok(1)), Eq(RTok(2), PTok(2)))
	msPat := NewMSpec().AddR("r", "sub", "obj", "act").AddP("p", "sub", "obj", "act").AddG("g", 2).AddE("e", effAllow).AddM("m", "r", "p", patM)
	// every subject and rule subject is a name of the role graph: no temporary roles (finding D23)
	pattern := &linCfg{name: "pattern", ms: msPat, pattern: true, opts: CaseOpts{OraUniverse: []string{"/pen/*", "/book/*", "/book/1", "/pen/1", "reader", "book_admin", "data9", "data1", "data2", "read"}},
		alines: []mem.Line{memLine("p", "book_admin", "data1", "read"), memLine("p", "/pen/1", "data2", "read"), memLine("g", "/book/*", "book_admin"), memLine("g", "/book/1", "reader"), memLine("g", "/pen/1", "reader")},
		reqs:   [][]V{{VS("/book/1"), VS("data1"), VS("read")}, {VS("/pen/1"), VS("data1"), VS("read")}, {VS("/pen/1"), VS("data2"), VS("read")}}}

	// a domain model with a pattern domain: the manager of a concrete domain that has no rule of its own is
	// derived on the fly from the pattern domains
	domM := And(G3("g", RTok(0), PTok(0), RTok(1)), Eq(RTok(1), PTok(1)), Eq(RTok(2), PTok(2)), Eq(RTok(3), PTok(3)))
	msDom := NewMSpec().AddR("r", "sub", "dom", "obj", "act").AddP("p", "sub", "dom", "obj", "act").AddG("g", 3).AddE("e", effAllow).AddM("m", "r", "p", domM)
	domain := &linCfg{name: "domain-pattern", ms: msDom, domPattern: true, opts: CaseOpts{OraUniverse: []string{"*", "d1", "d3", "alice", "bob", "carol", "admin", "data1", "read"}},
		alines: []mem.Line{memLine("p", "admin", "d1", "data1", "read"), memLine("p", "admin", "d3", "data1", "read"), memLine("g", "alice", "admin", "*"), memLine("g", "bob", "admin", "d1")},
		reqs:   [][]V{{VS("alice"), VS("d3"), VS("data1"), VS("read")}, {VS("alice"), VS("d1"), VS("data1"), VS("read")}, {VS("bob"), VS("d3"), VS("data1"), VS("read")}, {VS("bob"), VS("d1"), VS("data1"), VS("read")}}}

	alphabet := func(cfg *linCfg) []EOp {
		if cfg.domPattern {
			return []EOp{
				{Kind: "enf", Req: cfg.reqs[0]}, {Kind: "enf", Req: cfg.reqs[1]}, {Kind: "enf", Req: cfg.reqs[2]},
				{Kind: "add", Sec: "g", PType: "g", Rule: []string{"bob", "admin", "*"}},
				// (no removal of grouping rules here: with a domain matching function that is finding D15)
				{Kind: "rm", Sec: "p", PType: "p", Rule: []string{"admin", "d3", "data1", "read"}},
				{Kind: "add", Sec: "p", PType: "p", Rule: []string{"bob", "d3", "data1", "read"}},
				{Kind: "load"},
				{Kind: "obs", Args: []string{"pol", "g", "g"}},
			}
		}
		if cfg.pattern {
			return []EOp{
				{Kind: "enf", Req: cfg.reqs[0]}, {Kind: "enf", Req: cfg.reqs[1]},
				{Kind: "add", Sec: "g", PType: "g", Rule: []string{"/pen/*", "book_admin"}},
				{Kind: "rm", Sec: "g", PType: "g", Rule: []string{"/book/*", "book_admin"}},
				{Kind: "add", Sec: "p", PType: "p", Rule: []string{"reader", "data1", "read"}},
				{Kind: "rm", Sec: "p", PType: "p", Rule: []string{"book_admin", "data1", "read"}},
				{Kind: "load"}, {Kind: "save"},
				{Kind: "obs", Args: []string{"pol", "g", "g"}},
				{Kind: "has", Sec: "p", PType: "p", Rule: []string{"reader", "data1", "read"}},
			}
		}
		return []EOp{
			{Kind: "enf", Req: cfg.reqs[0]}, {Kind: "enf", Req: cfg.reqs[2]},
			{Kind: "add", Sec: "p", PType: "p", Rule: []string{"bob", "data1", "read"}},
			{Kind: "rm", Sec: "p", PType: "p", Rule: []string{"admin", "data1", "read"}},
			{Kind: "add", Sec: "g", PType: "g", Rule: []string{"bob", "admin"}},
			{Kind: "rm", Sec: "g", PType: "g", Rule: []string{"alice", "admin"}},
			{Kind: "upd", Sec: "p", PType: "p", Rule: []string{"alice", "data2", "read"}, New: []string{"alice", "data1", "read"}},
			{Kind: "upd", Sec: "p", PType: "p", Rule: []string{"admin", "data1", "read"}, New: []string{"admin", "data2", "write"}},
			// a permission moving from a later rule to an earlier one: allowed in every state in between
			{Kind: "upd", Sec: "p", PType: "p", Rule: []string{"admin", "data1", "read"}, New: []string{"admin", "data2", "read"}},
			{Kind: "load"}, {Kind: "save"},
			{Kind: "obs", Args: []string{"pol", "p", "p"}},
			{Kind: "has", Sec: "p", PType: "p", Rule: []string{"bob", "data1", "read"}},
		}
	}
	depth := 1
	if c.Thorough() {
		depth = 2
	}
	var mfHook atomic.Value
	mfHook.Store(func() {})
	for _, cfg := range []*linCfg{plain, pattern, domain} {
		alpha := alphabet(cfg)
		var seqs [][]int
		for i := range alpha {
			seqs = append(seqs, []int{i})
		}
		// pairs: all of them in the thorough tier, a seeded sample in the quick one
		for i := range alpha {
			for j := range alpha {
				if depth >= 2 || (i*len(alpha)+j+int(c.Seed))%5 == 0 || (alpha[i].Kind == "upd" && alpha[j].Kind == "upd") {
					seqs = append(seqs, []int{i, j})
				}
			}
		}
		// enforce primaries: every request, the hook firing at the first or at the second call of the callback
		primaries := []string{"load", "add-adapter", "upd-adapter"}
		for qi := range cfg.reqs {
			for _, tr := range []int{1, 2} {
				if cfg.pattern {
					primaries = append(primaries, fmt.Sprintf("enforce-matchfn:%d:%d", qi, tr))
				} else {
					primaries = append(primaries, fmt.Sprintf("enforce-probe:%d:%d", qi, tr))
				}
			}
		}
		if cfg.pattern {
			primaries = primaries[:0:0]
			primaries = append(primaries, "load", "add-adapter")
			for qi := range cfg.reqs {
				primaries = append(primaries, fmt.Sprintf("enforce-matchfn:%d:1", qi), fmt.Sprintf("enforce-matchfn:%d:2", qi))
			}
		}
		if cfg.domPattern {
			primaries = primaries[:0:0]
			primaries = append(primaries, "load")
			for qi := range cfg.reqs {
				for tr := 1; tr <= 3; tr++ {
					primaries = append(primaries, fmt.Sprintf("enforce-dmatchfn:%d:%d", qi, tr))
				}
			}
		}
		for _, primFull := range primaries {
			prim, qi, trig := primFull, 0, 1
			if parts := strings.Split(primFull, ":"); len(parts) == 3 {
				prim = parts[0]
				fmt.Sscan(parts[1], &qi)
				fmt.Sscan(parts[2], &trig)
			}
			for _, seq := range seqs {
				ls := newLin(c, cfg, &mfHook)
				if ls == nil {
					continue
				}
				var wg sync.WaitGroup
				second := pickOps(alpha, seq)
				// the hook fires at its trigger-th invocation (the custom matcher function is called once per rule)
				var hits int32
				trigger := int32(trig)
				hook := func() {
					if atomic.AddInt32(&hits, 1) == trigger {
						for _, o := range second {
							ls.startAndWait(o, &wg)
						}
					}
				}
				var primary EOp
				switch prim {
				case "load":
					ls.a.OnLoad = hook
					primary = EOp{Kind: "load"}
				case "enforce-probe":
					probeHook.Store(hook)
					primary = EOp{Kind: "enf", Req: cfg.reqs[qi]}
				case "enforce-matchfn":
					mfHook.Store(hook)
					primary = EOp{Kind: "enf", Req: cfg.reqs[qi]}
				case "enforce-dmatchfn":
					dmfHook.Store(hook)
					primary = EOp{Kind: "enf", Req: cfg.reqs[qi]}
				case "add-adapter":
					ls.a.OnWrite = func(string) { hook() }
					if cfg.pattern {
						primary = EOp{Kind: "add", Sec: "p", PType: "p", Rule: []string{"/book/1", "data9", "read"}}
					} else {
						primary = EOp{Kind: "add", Sec: "p", PType: "p", Rule: []string{"carol", "data1", "read"}}
					}
				case "upd-adapter":
					ls.a.OnWrite = func(string) { hook() }
					primary = EOp{Kind: "upd", Sec: "p", PType: "p", Rule: []string{"admin", "data1", "read"}, New: []string{"admin", "data1", "write"}}
				}
				ls.do(primary)
				wg.Wait()
				ls.a.OnLoad, ls.a.OnWrite = nil, nil
				probeHook.Store(func() {})
				mfHook.Store(func() {})
				dmfHook.Store(func() {})
				what := fmt.Sprintf("%s: during %s (%s): %s", cfg.name, primFull, primary.linLine(), opsText(second))
				ls.finish(c, cfg, what)
				c.Count("forced="+prim, 1)
				if c.Evals%97 == 1 {
					c.Sample(what)
				}
			}
		}
		// seeded random schedules
		n := 40
		if c.Thorough() {
			n = 1500
		}
		for i := 0; i < n; i++ {
			ls := newLin(c, cfg, &mfHook)
			if ls == nil {
				continue
			}
			g := 2 + c.Rng.Intn(3)
			var progs [][]EOp
			for t := 0; t < g; t++ {
				k := 1 + c.Rng.Intn(4)
				var ops []EOp
				for j := 0; j < k; j++ {
					ops = append(ops, alpha[c.Rng.Intn(len(alpha))])
				}
				progs = append(progs, ops)
			}
			// callbacks yield the processor: other goroutines get to run in the middle of a call
			yield := func() { runtime.Gosched(); time.Sleep(50 * time.Microsecond) }
			ls.a.OnLoad = yield
			ls.a.OnWrite = func(string) { yield() }
			probeHook.Store(yield)
			mfHook.Store(yield)
			dmfHook.Store(yield)
			var wg sync.WaitGroup
			gate := make(chan struct{})
			for t := range progs {
				wg.Add(1)
				go func(ops []EOp) {
					defer wg.Done()
					<-gate
					for _, o := range ops {
						ls.do(o)
					}
				}(progs[t])
			}
			close(gate)
			wg.Wait()
			ls.a.OnLoad, ls.a.OnWrite = nil, nil
			probeHook.Store(func() {})
			mfHook.Store(func() {})
			dmfHook.Store(func() {})
			var parts []string
			for _, p := range progs {
				parts = append(parts, "["+opsText(p)+"]")
			}
			ls.finish(c, cfg, fmt.Sprintf("%s: random %s", cfg.name, strings.Join(parts, " || ")))
			c.Count("random_histories", 1)
		}
	}
}
