package main

import (
	"fmt"
	"strings"
	"time"

	"github.com/casbin/casbin/v2"

	"verif/harness/internal/mem"
	"verif/harness/internal/proto"
)

func init() { registry["C14"] = runC14 }

// cachedAPI is what both cached wrappers offer.
type cachedAPI interface {
	Enforce(rvals ...interface{}) (bool, error)
	LoadPolicy() error
	ClearPolicy()
	InvalidateCache() error
	RemovePolicy(params ...interface{}) (bool, error)
	RemovePolicies(rules [][]string) (bool, error)
	AddPolicy(params ...interface{}) (bool, error)
	AddPolicies(rules [][]string) (bool, error)
	EnableCache(bool)
	SetExpireTime(time.Duration)
}

type cParam struct {
	kind string // s c x
	s    string
}

func (p cParam) tok() string {
	switch p.kind {
	case "s":
		return "s:" + proto.Enc(p.s)
	case "l":
		return "x" // a []string value is not a cacheable parameter
	case "c":
		// the key the model files the context under is written out here, field by field — not asked of the
		// implementation, whose key function is part of what is checked
		ctx := p.ctx()
		return "c:" + proto.Enc("EnforceContext{"+ctx.RType+"-"+ctx.PType+"-"+ctx.EType+"-"+ctx.MType+"}")
	}
	return "x"
}

// ctx: the context a "c" parameter stands for: s == "" the default definitions, otherwise the effect named s
// (the model of newC14Case defines e and e2, which decide differently when nothing matches)
func (p cParam) ctx() casbin.EnforceContext {
	ctx := casbin.NewEnforceContext("")
	if p.s != "" {
		ctx.EType = p.s
	}
	return ctx
}

func (p cParam) goVal() interface{} {
	switch p.kind {
	case "s":
		return p.s
	case "c":
		return p.ctx()
	case "l":
		return strings.Split(p.s, ",")
	}
	return 5
}

func paramsTok(ps []cParam) string {
	parts := make([]string, len(ps))
	for i, p := range ps {
		parts[i] = p.tok()
	}
	return strings.Join(parts, " ")
}

func strParams(r []string) []cParam {
	out := make([]cParam, len(r))
	for i, f := range r {
		out[i] = cParam{"s", f}
	}
	return out
}

func rulesTok(rs [][]string) string {
	if len(rs) == 0 {
		return "-"
	}
	parts := make([]string, len(rs))
	for i, r := range rs {
		parts[i] = paramsTok(strParams(r))
	}
	return strings.Join(parts, " | ")
}

const ttlUnit = 300 * time.Millisecond

type c14Case struct {
	synced bool
	api    cachedAPI
	under  func(rvals ...interface{}) (bool, error)
	direct *casbin.Enforcer // the embedded enforcer: changes made here do not (and need not) invalidate
}

// c14FailingWatcher: the next cases get a watcher whose notifications fail — every management call then
// returns (true, err) with the change applied; invalidation must not depend on the error
var c14FailingWatcher bool

func newC14Case(synced bool) *c14Case {
	a := mem.New()
	m := mustModel(strings.Replace(rbacText, "g(r.sub, p.sub)", "r.sub == p.sub", 1))
	m.AddDef("e", "e2", "!some(where (p.eft == deny))") // selected by a request's EnforceContext: allows what matches nothing
	if synced {
		e, err := casbin.NewSyncedCachedEnforcer(m, a)
		if err != nil {
			panic(err)
		}
		if c14FailingWatcher {
			_ = e.SetWatcher(mem.Plain{Watcher: &mem.Watcher{Fail: true}})
		}
		return &c14Case{synced: true, api: e, under: e.SyncedEnforcer.Enforce, direct: e.SyncedEnforcer.Enforcer}
	}
	e, err := casbin.NewCachedEnforcer(m, a)
	if err != nil {
		panic(err)
	}
	if c14FailingWatcher {
		_ = e.SetWatcher(mem.Plain{Watcher: &mem.Watcher{Fail: true}})
	}
	return &c14Case{api: e, under: e.Enforcer.Enforce, direct: e.Enforcer}
}

func runC14(c *Ctx) {
	c.Rule = "histories of Enforce and invalidating / non-invalidating calls on the real CachedEnforcer and SyncedCachedEnforcer (seeded random to length 40, plus all histories of depth <= 3 (quick) / 4 (thorough) over a 15-call alphabet on a listed and an unlisted rule, slice and variadic forms, both batch orders, x both enforcers x with and without a failing watcher), request tuples over strings that include the key separator ('$$', '$', '1:a', '@3:abc$$', empty, multi-byte), EnforceContext and uncacheable parameters, cache on/off, lifetime 0 / 300 ms with real sleeps, every third case with a watcher whose notifications fail (management calls then return (true, err) with the change applied); the underlying enforcer's current answer is read through the embedded enforcer before every cached Enforce; every served answer is compared with the Lean model and must lie in the admissible set of C14.served_was_given; a recording cache supplied through SetCache must be used exactly like the built-in one (key, value, lifetime; Delete / Clear at the invalidating calls); non-trivial = a history that repeats a request tuple and contains an invalidating call; distinct = whole history"
	c14CustomCache(c)
	fields := []string{"alice", "a$$b", "c", "a", "b$$c", "", "$", "1:a", "@3:abc$$", "é", "read", "data1"}
	rules := [][]string{{"alice", "data1", "read"}, {"a$$b", "c", "read"}, {"a", "b$$c", "read"}, {"", "", ""}, {"é", "$", "1:a"}}
	nRandom := 300
	if c.Thorough() {
		nRandom = 15000
	}
	for i := 0; i < nRandom; i++ {
		synced := c.Rng.Intn(2) == 0
		withTTL := i%40 == 0 // the few real-time cases
		c14FailingWatcher = i%3 == 2
		if c14FailingWatcher {
			c.Count("cases_with_failing_watcher", 1)
		}
		c14Random(c, synced, 5+c.Rng.Intn(36), fields, rules, withTTL)
		c14FailingWatcher = false
	}
	c.Count("ttl_cases", nRandom/40)
	xdepth := 3
	if c.Thorough() {
		xdepth = 4
	}
	c14Exhaustive(c, xdepth)
	c14Keys(c)
	for _, synced := range []bool{false, true} {
		c14Lifetime(c, synced)
	}
}

// the cache key itself: equal to the Lean mirror byte for byte, and injective over a universe of fields built
// to collide (separators, length-prefix look-alikes, multi-byte characters)
func c14Keys(c *Ctx) {
	fields := []string{"a", "b", "c", "d", "a$$b", "c$$d", "b$$c", "4:a", "4:c", "1:a", "@1:a", "$", "a$", "$b", "$$", "", "é", "alice", "alice$", "$data1", "data1", "read", "1:", ":"}
	byKey := map[string]string{}
	check := func(ps []cParam) {
		args := make([]interface{}, len(ps))
		for i, p := range ps {
			args[i] = p.goVal()
		}
		key, ok := casbin.GetCacheKey(args...)
		obs := "none"
		if ok {
			obs = "k:" + proto.Enc(key)
			canon := paramsTok(ps)
			if prev, seen := byKey[key]; seen && prev != canon {
				c.Direct("two different request tuples share one cache key", fmt.Sprintf("%s and %s -> %q", prev, canon, key))
			}
			byKey[key] = canon
		}
		c.W.Op("ckey "+paramsTok(ps), obs)
		c.Evals++
		c.Count("key_checks", 1)
	}
	for _, a := range fields {
		check([]cParam{{"s", a}})
		for _, b := range fields {
			check([]cParam{{"s", a}, {"s", b}})
			for _, d := range fields {
				check([]cParam{{"s", a}, {"s", b}, {"s", d}})
			}
		}
	}
	check([]cParam{{"c", ""}, {"s", "a"}})
	check([]cParam{{"c", "e2"}, {"s", "a"}})
	check([]cParam{{"s", casbin.NewEnforceContext("").GetCacheKey()}, {"s", "a"}})
	check([]cParam{{"x", ""}, {"s", "a"}})
	// a string that spells a context's key, with and without the marker the key function puts in front of one
	check([]cParam{{"s", "@EnforceContext{r-p-e-m}"}, {"s", "a"}})
	check([]cParam{{"s", "@EnforceContext{r-p-e2-m}"}, {"s", "a"}})
	check([]cParam{{"s", "EnforceContext{r-p-e-m}"}, {"s", "a"}})
	// a request handed over as ONE []string value is one value that cannot be cached, not the tuple of its fields
	check([]cParam{{"l", "a,b,c"}})
	check([]cParam{{"s", "a"}, {"s", "b"}, {"s", "c"}})
	check([]cParam{{"l", "alice,data1,read"}})
	check([]cParam{{"l", "a"}, {"s", "b"}})
	// a tuple whose later value cannot be cached, then cacheable tuples: whatever the key function wrote before it
	// gave up must not leak into the next key (repeated: pooled state may or may not be handed back)
	for rep := 0; rep < 8; rep++ {
		check([]cParam{{"s", "bob"}, {"x", ""}, {"s", "write"}})
		check([]cParam{{"s", "bob"}, {"s", "data2"}, {"s", "write"}})
		check([]cParam{{"s", "a"}, {"s", "b"}, {"x", ""}})
		check([]cParam{{"s", "b"}})
	}
}

// scripted lifetime scenarios (real time): a decision cached under a positive lifetime must not be served
// after the lifetime; one cached under lifetime 0 never expires
func c14Lifetime(c *Ctx, synced bool) {
	for variant := 0; variant < 4; variant++ {
		cs := newC14Case(synced)
		s := "0"
		if synced {
			s = "1"
		}
		c.W.Op("case cached "+s, "#")
		q := strParams([]string{"alice", "data1", "read"})
		args := []interface{}{"alice", "data1", "read"}
		enf := func() {
			ub, uerr := cs.under(args...)
			u := "f"
			if uerr != nil {
				u = "e"
			} else if ub {
				u = "t"
			}
			ok, err := cs.api.Enforce(args...)
			obs := proto.Bool(ok)
			if err != nil {
				obs = "err"
			}
			c.W.Op("cenf "+u+" "+paramsTok(q), obs)
		}
		start := time.Now()
		switch variant {
		case 0: // cached under a 300 ms lifetime, underlying changes, lifetime passes
			cs.api.SetExpireTime(ttlUnit)
			c.W.Op("cttl 300", "#")
			enf()
			_, _ = cs.direct.AddNamedPolicy("p", []string{"alice", "data1", "read"})
			enf()
			if time.Since(start) > ttlUnit/3 {
				c.Count("ttl_case_abandoned", 1)
				continue
			}
			time.Sleep(ttlUnit + ttlUnit/3)
			c.W.Op("tick 400", "#")
			enf()
		case 1: // cached with lifetime 0 (never expires), then a lifetime is configured
			enf()
			cs.api.SetExpireTime(ttlUnit)
			c.W.Op("cttl 300", "#")
			_, _ = cs.direct.AddNamedPolicy("p", []string{"alice", "data1", "read"})
			time.Sleep(ttlUnit + ttlUnit/3)
			c.W.Op("tick 400", "#")
			enf()
		case 3: // a hit inside the lifetime does not prolong it: cached at 0, hit at 200 ms, asked again at 350 ms
			cs.api.SetExpireTime(ttlUnit)
			c.W.Op("cttl 300", "#")
			enf()
			_, _ = cs.direct.AddNamedPolicy("p", []string{"alice", "data1", "read"})
			time.Sleep(2 * ttlUnit / 3)
			if time.Since(start) > ttlUnit-ttlUnit/6 {
				c.Count("ttl_case_abandoned", 1)
				continue
			}
			c.W.Op("tick 200", "#")
			enf()
			time.Sleep(ttlUnit / 2)
			if el := time.Since(start); el < ttlUnit+ttlUnit/20 || el > 5*ttlUnit/3-ttlUnit/10 {
				c.Count("ttl_case_abandoned", 1)
				continue
			}
			c.W.Op("tick 150", "#")
			enf()
		case 2: // re-cached after expiry: the new entry lives for a full lifetime again
			cs.api.SetExpireTime(ttlUnit)
			c.W.Op("cttl 300", "#")
			enf()
			time.Sleep(ttlUnit + ttlUnit/3)
			c.W.Op("tick 400", "#")
			_, _ = cs.direct.AddNamedPolicy("p", []string{"alice", "data1", "read"})
			t1 := time.Now()
			enf()
			_, _ = cs.direct.RemoveNamedPolicy("p", []string{"alice", "data1", "read"})
			enf()
			if time.Since(t1) > ttlUnit/3 {
				c.Count("ttl_case_abandoned", 1)
				continue
			}
		}
		c.Evals++
		c.Count("lifetime_scenarios", 1)
		c.Nontrivial(fmt.Sprintf("lifetime|%v|%d", synced, variant))
	}
}

// all histories of depth <= d over every invalidating and non-invalidating call on two rules (one listed at
// the start, one not), slice and variadic forms, both batch orders, for both enforcers, with and without a
// watcher whose notifications fail
func c14Exhaustive(c *Ctx, depth int) {
	r1, r2 := []string{"alice", "data1", "read"}, []string{"bob", "data2", "write"}
	type xop struct {
		line string
		run  func(cs *c14Case) string
	}
	enf := func(r []string) xop {
		q := strParams(r)
		return xop{run: func(cs *c14Case) string {
			args := make([]interface{}, len(q))
			for j, p := range q {
				args[j] = p.goVal()
			}
			ub, uerr := cs.under(args...)
			u := "f"
			if uerr != nil {
				u = "e"
			} else if ub {
				u = "t"
			}
			ok, err := cs.api.Enforce(args...)
			obs := proto.Bool(ok)
			if err != nil {
				obs = "err"
			}
			return "cenf " + u + " " + paramsTok(q) + "\t" + obs
		}}
	}
	hdr := func(line string, f func(cs *c14Case)) xop {
		return xop{run: func(cs *c14Case) string { f(cs); return line + "\t#" }}
	}
	alpha := []xop{
		enf(r1), enf(r2),
		hdr("cadd "+paramsTok(strParams(r1)), func(cs *c14Case) { _, _ = cs.api.AddPolicy(r1) }),
		hdr("cadd "+paramsTok(strParams(r2)), func(cs *c14Case) { _, _ = cs.api.AddPolicy(r2[0], r2[1], r2[2]) }),
		hdr("crm "+paramsTok(strParams(r1)), func(cs *c14Case) { _, _ = cs.api.RemovePolicy(r1) }),
		hdr("crm "+paramsTok(strParams(r2)), func(cs *c14Case) { _, _ = cs.api.RemovePolicy(r2[0], r2[1], r2[2]) }),
		hdr("crms "+rulesTok([][]string{r1, r2}), func(cs *c14Case) { _, _ = cs.api.RemovePolicies([][]string{r1, r2}) }),
		hdr("crms "+rulesTok([][]string{r2, r1}), func(cs *c14Case) { _, _ = cs.api.RemovePolicies([][]string{r2, r1}) }),
		// a rule with more fields in front of the rule whose decision is cached: every rule of a batch is its own key
		hdr("crms "+rulesTok([][]string{append(append([]string(nil), r1...), "allow"), r2}), func(cs *c14Case) {
			_, _ = cs.api.RemovePolicies([][]string{append(append([]string(nil), r1...), "allow"), r2})
		}),
		hdr("cadds "+rulesTok([][]string{append(append([]string(nil), r2...), "allow"), r1}), func(cs *c14Case) {
			_, _ = cs.api.AddPolicies([][]string{append(append([]string(nil), r2...), "allow"), r1})
		}),
		hdr("cadds "+rulesTok([][]string{r1, r2}), func(cs *c14Case) { _, _ = cs.api.AddPolicies([][]string{r1, r2}) }),
		hdr("cadds "+rulesTok([][]string{r2, r1}), func(cs *c14Case) { _, _ = cs.api.AddPolicies([][]string{r2, r1}) }),
		hdr("cinv", func(cs *c14Case) { _ = cs.api.InvalidateCache() }),
		hdr("cload", func(cs *c14Case) { _ = cs.api.LoadPolicy() }),
		hdr("cclear", func(cs *c14Case) { cs.api.ClearPolicy() }),
		hdr("cenable 0", func(cs *c14Case) { cs.api.EnableCache(false) }),
		hdr("cenable 1", func(cs *c14Case) { cs.api.EnableCache(true) }),
	}
	for _, synced := range []bool{false, true} {
		for _, failW := range []bool{false, true} {
			seq := make([]int, 0, depth)
			var rec func()
			run := func() {
				c14FailingWatcher = failW
				cs := newC14Case(synced)
				c14FailingWatcher = false
				// r1 is listed (and stored) from the start
				_, _ = cs.direct.AddNamedPolicy("p", r1)
				s := "0"
				if synced {
					s = "1"
				}
				c.W.Op("case cached "+s, "#")
				var lines []string
				for _, i := range seq {
					lo := alpha[i].run(cs)
					line, obs, _ := strings.Cut(lo, "\t")
					c.W.Op(line, obs)
					lines = append(lines, line)
				}
				c.Evals++
				c.Count("exhaustive_histories", 1)
				if len(seq) == depth && (seq[0] < 2) && (seq[depth-1] < 2) {
					c.Nontrivial(fmt.Sprintf("x|%v|%v|%s", synced, failW, strings.Join(lines, ";")))
				}
			}
			rec = func() {
				if len(seq) > 0 {
					run()
				}
				if len(seq) == depth {
					return
				}
				for i := range alpha {
					seq = append(seq, i)
					rec()
					seq = seq[:len(seq)-1]
				}
			}
			rec()
		}
	}
}

func c14Random(c *Ctx, synced bool, length int, fields []string, rules [][]string, withTTL bool) {
	rng := c.Rng
	cs := newC14Case(synced)
	s := "0"
	if synced {
		s = "1"
	}
	c.W.Op("case cached "+s, "#")
	var lines []string
	rec := func(line, obs string) {
		c.W.Op(line, obs)
		lines = append(lines, line)
	}
	anyRule := func() []string { return rules[rng.Intn(len(rules))] }
	randReq := func() []cParam {
		if rng.Intn(3) != 0 {
			r := anyRule()
			if rng.Intn(7) == 0 {
				// a listed rule's fields as ONE []string value: not the request (alice, data1, read), whatever is
				// cached for that
				return []cParam{{"l", strings.Join(r, ",")}}
			}
			return strParams(r)
		}
		n := 3
		ps := make([]cParam, n)
		for i := range ps {
			ps[i] = cParam{"s", fields[rng.Intn(len(fields))]}
		}
		switch rng.Intn(8) {
		case 0:
			ps = append([]cParam{{"c", []string{"", "e2"}[rng.Intn(2)]}}, ps...)
		case 1:
			ps[rng.Intn(n)] = cParam{"x", ""}
		case 3:
			// the same fields as one []string value: uncacheable, and (wrong request size) an error underneath
			ps = []cParam{{"l", ps[0].s + "," + ps[1].s + "," + ps[2].s}}
		case 2:
			ps = ps[:2] // wrong arity: the underlying enforcer reports an error
		}
		return ps
	}
	hit, inval := false, false
	seenReq := map[string]bool{}
	lastSet := time.Now()
	for i := 0; i < length; i++ {
		switch k := rng.Intn(20); {
		case k < 9:
			q := randReq()
			args := make([]interface{}, len(q))
			for j, p := range q {
				args[j] = p.goVal()
			}
			ub, uerr := cs.under(args...)
			u := "f"
			if uerr != nil {
				u = "e"
			} else if ub {
				u = "t"
			}
			if withTTL && time.Since(lastSet) > ttlUnit/3 {
				// the machine stalled: real time is no longer what the script assumes; stop this case
				c.Count("ttl_case_abandoned", 1)
				return
			}
			ok, err := cs.api.Enforce(args...)
			obs := proto.Bool(ok)
			if err != nil {
				obs = "err"
			}
			if seenReq[paramsTok(q)] {
				hit = true // the same tuple asked again: a candidate for a cache hit
			}
			seenReq[paramsTok(q)] = true
			if err == nil && uerr == nil && ok != ub {
				c.Count("served_differs_from_current_underlying", 1)
			}
			rec("cenf "+u+" "+paramsTok(q), obs)
			c.Count("enforce="+obs, 1)
		case k < 10:
			_ = cs.api.InvalidateCache()
			rec("cinv", "#")
			inval = true
		case k < 11:
			_ = cs.api.LoadPolicy()
			rec("cload", "#")
			inval = true
		case k < 12:
			cs.api.ClearPolicy()
			rec("cclear", "#")
			inval = true
		case k < 14:
			r := anyRule()
			if rng.Intn(2) == 0 {
				_, _ = cs.api.RemovePolicy(r)
			} else {
				_, _ = cs.api.RemovePolicy(r[0], r[1], r[2])
			}
			rec("crm "+paramsTok(strParams(r)), "#")
			inval = true
		case k < 15:
			rs := [][]string{anyRule(), anyRule()}
			if rng.Intn(3) == 0 {
				rs = append(rs, []string{"x"})
			}
			if rng.Intn(3) == 0 {
				rs = append([][]string{append(append([]string(nil), anyRule()...), "allow")}, rs...)
			}
			_, _ = cs.api.RemovePolicies(rs)
			rec("crms "+rulesTok(rs), "#")
		case k < 17:
			r := anyRule()
			_, _ = cs.api.AddPolicy(r)
			rec("cadd "+paramsTok(strParams(r)), "#")
		case k < 18 && rng.Intn(2) == 0:
			rs := [][]string{anyRule(), anyRule()}
			if rng.Intn(3) == 0 {
				rs = append([][]string{append(append([]string(nil), anyRule()...), "allow")}, rs...)
			}
			_, _ = cs.api.AddPolicies(rs)
			rec("cadds "+rulesTok(rs), "#")
		case k < 20 && rng.Intn(3) != 0:
			// a change through the embedded enforcer: not an invalidation (documented)
			r := anyRule()
			if rng.Intn(2) == 0 {
				_, _ = cs.direct.AddNamedPolicy("p", r)
			} else {
				_, _ = cs.direct.RemoveNamedPolicy("p", r)
			}
			c.Count("underlying_change", 1)
		default:
			on := rng.Intn(2) == 0
			cs.api.EnableCache(on)
			b := "0"
			if on {
				b = "1"
			}
			rec("cenable "+b, "#")
		}
		if withTTL && rng.Intn(6) == 0 {
			if rng.Intn(2) == 0 {
				cs.api.SetExpireTime(ttlUnit)
				rec("cttl 300", "#")
			} else {
				time.Sleep(ttlUnit + ttlUnit/3)
				rec("tick 400", "#")
			}
			lastSet = time.Now()
		}
	}
	c.Evals++
	if hit && inval {
		c.Nontrivial(strings.Join(lines, ";"))
	}
	if c.Evals%97 == 1 {
		c.Sample(fmt.Sprintf("synced=%v: %s", synced, strings.Join(lines, " ; ")))
	}
}
