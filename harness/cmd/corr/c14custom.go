package main

import (
	"fmt"
	"strings"
	"time"

	"github.com/casbin/casbin/v2"
	"github.com/casbin/casbin/v2/persist/cache"

	"verif/harness/internal/mem"
)

// A cache supplied by the application (SetCache): the caching enforcers must use it exactly as they use their
// own — look a request up under its key, store what the embedded enforcer answered under the same key with the
// configured lifetime, delete the key of a removed (synced: or added) rule, clear on LoadPolicy / ClearPolicy /
// InvalidateCache — so that the property does not depend on which cache is plugged in.  Implementation only.

type recCache struct {
	m   map[string]bool
	log []string
}

func (r *recCache) Set(key string, value bool, extra ...interface{}) error {
	ttl := "-"
	if len(extra) > 0 {
		ttl = fmt.Sprint(extra[0])
	}
	r.log = append(r.log, fmt.Sprintf("Set(%s,%v,%s)", key, value, ttl))
	r.m[key] = value
	return nil
}

func (r *recCache) Get(key string) (bool, error) {
	v, ok := r.m[key]
	if !ok {
		r.log = append(r.log, "Get("+key+")=miss")
		return false, cache.ErrNoSuchKey
	}
	r.log = append(r.log, fmt.Sprintf("Get(%s)=%v", key, v))
	return v, nil
}

func (r *recCache) Delete(key string) error {
	r.log = append(r.log, "Delete("+key+")")
	if _, ok := r.m[key]; !ok {
		return cache.ErrNoSuchKey
	}
	delete(r.m, key)
	return nil
}

func (r *recCache) Clear() error {
	r.log = append(r.log, "Clear")
	r.m = map[string]bool{}
	return nil
}

func c14CustomCache(c *Ctx) {
	for _, synced := range []bool{false, true} {
		a := mem.New()
		a.Lines = []mem.Line{{PType: "p", Rule: []string{"alice", "data1", "read"}}, {PType: "p", Rule: []string{"bob", "data2", "write"}}}
		m := mustModel(strings.Replace(rbacText, "g(r.sub, p.sub)", "r.sub == p.sub", 1))
		rc := &recCache{m: map[string]bool{}}
		var api cachedAPI
		var under *casbin.Enforcer
		var setCache func(cache.Cache)
		if synced {
			e, err := casbin.NewSyncedCachedEnforcer(m, a)
			if err != nil {
				panic(err)
			}
			api, under, setCache = e, e.SyncedEnforcer.Enforcer, e.SetCache
		} else {
			e, err := casbin.NewCachedEnforcer(m, a)
			if err != nil {
				panic(err)
			}
			api, under, setCache = e, e.Enforcer, e.SetCache
		}
		setCache(rc)
		api.SetExpireTime(time.Hour)
		who := map[bool]string{false: "CachedEnforcer", true: "SyncedCachedEnforcer"}[synced]
		key := func(r ...interface{}) string { k, _ := casbin.GetCacheKey(r...); return k }
		kA, kB := key("alice", "data1", "read"), key("bob", "data2", "write")
		step := func(what string, wantLog []string, f func()) {
			rc.log = nil
			f()
			c.Evals++
			if fmt.Sprint(rc.log) != fmt.Sprint(wantLog) {
				c.Direct("a cache supplied through SetCache is not used the way the built-in cache is", fmt.Sprintf("%s, %s: cache calls %v, expected %v", who, what, rc.log, wantLog))
			}
		}
		ask := func(req []interface{}) func() {
			return func() {
				want, _ := under.Enforce(req...)
				got, err := api.Enforce(req...)
				_ = want
				_ = got
				_ = err
			}
		}
		reqA, reqB := []interface{}{"alice", "data1", "read"}, []interface{}{"bob", "data2", "write"}
		ttl := fmt.Sprint(time.Hour)
		step("first Enforce(alice,data1,read)", []string{"Get(" + kA + ")=miss", "Set(" + kA + ",true," + ttl + ")"}, ask(reqA))
		step("second Enforce(alice,data1,read)", []string{"Get(" + kA + ")=true"}, ask(reqA))
		step("first Enforce(bob,data2,write)", []string{"Get(" + kB + ")=miss", "Set(" + kB + ",true," + ttl + ")"}, ask(reqB))
		step("RemovePolicy(alice,data1,read)", []string{"Delete(" + kA + ")"}, func() { _, _ = api.RemovePolicy("alice", "data1", "read") })
		step("Enforce(alice,data1,read) after the removal", []string{"Get(" + kA + ")=miss", "Set(" + kA + ",false," + ttl + ")"}, ask(reqA))
		step("Enforce(bob,data2,write) after the removal of another rule", []string{"Get(" + kB + ")=true"}, ask(reqB))
		step("InvalidateCache", []string{"Clear"}, func() { _ = api.InvalidateCache() })
		step("Enforce(bob,data2,write) after InvalidateCache", []string{"Get(" + kB + ")=miss", "Set(" + kB + ",true," + ttl + ")"}, ask(reqB))
		step("LoadPolicy", []string{"Clear"}, func() { _ = api.LoadPolicy() })
		step("ClearPolicy", []string{"Clear"}, func() { api.ClearPolicy() })
		step("RemovePolicies([[bob data2 write]])", []string{"Delete(" + kB + ")"}, func() { _, _ = api.RemovePolicies([][]string{{"bob", "data2", "write"}}) })
		// decisions through the custom cache are the embedded enforcer's
		for _, req := range [][]interface{}{reqA, reqB, {"carol", "data1", "read"}} {
			want, _ := under.Enforce(req...)
			got, err := api.Enforce(req...)
			if err != nil || got != want {
				c.Direct("with a cache supplied through SetCache a decision differs from the embedded enforcer's", fmt.Sprintf("%s request=%v cached=%v embedded=%v err=%v", who, req, got, want, err))
			}
		}
		c.Count("custom_cache_scenarios", 1)
	}
}
