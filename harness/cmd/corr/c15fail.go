package main

import (
	"fmt"
	"strings"

	"github.com/casbin/casbin/v2"

	"verif/harness/internal/mem"
)

// c15FailingWatcher: a watcher whose notifications fail.  The change has been applied and persisted by then, so
// the call reports (true, error); everything else — what is listed, what is stored, which notification was
// attempted, with which arguments, and that it was attempted once — is as with a watcher that works.  Every call
// of the management alphabet from a store holding a p and a g rule, for the four watcher kinds, on twin enforcers.
// Implementation only.
func c15FailingWatcher(c *Ctx) {
	ms := rbacSpec(false, false)
	wrap := func(kind string, w *mem.Watcher) interface{} {
		switch kind {
		case "plain":
			return mem.Plain{Watcher: w}
		case "ex":
			return mem.Ex{Watcher: w}
		case "upd":
			return mem.Upd{Watcher: w}
		}
		return mem.ExUpd{Watcher: w}
	}
	for _, kind := range []string{"plain", "ex", "upd", "exupd"} {
		for _, op := range mgmtAlphabet() {
			mk := func(fail bool) *Sess {
				a := mem.New()
				a.Lines = []mem.Line{{PType: "p", Rule: []string{"alice", "data1", "read"}}, {PType: "p", Rule: []string{"admin", "data2", "write"}}, {PType: "g", Rule: []string{"alice", "admin"}}}
				e, err := casbin.NewEnforcer(ms.Build(), a)
				if err != nil {
					panic(err)
				}
				w := &mem.Watcher{Fail: fail}
				switch x := wrap(kind, w).(type) {
				case mem.Plain:
					_ = e.SetWatcher(x)
				case mem.Ex:
					_ = e.SetWatcher(x)
				case mem.Upd:
					_ = e.SetWatcher(x)
				case mem.ExUpd:
					_ = e.SetWatcher(x)
				}
				w.Log = nil
				return &Sess{E: e, A: a, W: w, MS: ms, Customs: map[string]string{}}
			}
			good, bad := mk(false), mk(true)
			og, ob := good.Exec(op), bad.Exec(op)
			c.Evals++
			c.Count("failing_watcher_cases", 1)
			what := fmt.Sprintf("watcher=%s call: %s -> %s with a working watcher, %s with a failing one", kind, op.Line(), og, ob)
			wantBad := og
			if len(good.W.Log) > 0 {
				wantBad = "err:" + og // the notification was attempted and failed: the result keeps its boolean
			}
			if ob != wantBad {
				c.Direct("with a failing watcher a call does not report (its result, error)", what)
			}
			if fmt.Sprint(good.W.Log) != fmt.Sprint(bad.W.Log) {
				c.Direct("a failing watcher is notified differently from a working one", fmt.Sprintf("%s\nworking: %v\nfailing: %v", what, good.W.Log, bad.W.Log))
			}
			if mg, mb := memoryOf(good), memoryOf(bad); mg != mb || fmt.Sprint(good.A.Lines) != fmt.Sprint(bad.A.Lines) {
				c.Direct("with a failing watcher memory or store end up different", fmt.Sprintf("%s\nworking: %s store=%v\nfailing: %s store=%v", what, mg, good.A.Lines, mb, bad.A.Lines))
			}
			if strings.HasPrefix(ob, "err") {
				c.Nontrivial("failing-watcher|" + kind + "|" + op.Line())
			}
		}
	}
}
