package main

import (
	"fmt"

	"github.com/casbin/casbin/v2"

	"verif/harness/internal/mem"
)

// Exactly-once over the shapes of role definitions the enforcer model does not cover (link conditions, with and
// without a domain column, next to the plain ones): every grouping-policy call from a store holding two rules,
// with a WatcherEx+UpdatableWatcher attached and auto-save on.  A call after which the listed or the stored rules
// differ must report (true, nil) and be announced exactly once; a call that changed nothing is announced not at
// all.  Implementation only.
func c15RoleDefinitionShapes(c *Ctx) {
	type shape struct {
		name, g, m string
		dom        bool
		tail       []string // condition parameters
	}
	shapes := []shape{
		{"plain", "_, _", "g(r.sub, p.sub)", false, nil},
		{"domain", "_, _, _", "g(r.sub, p.sub, r.dom)", true, nil},
		{"conditional", "_, _, (_, _)", "g(r.sub, p.sub)", false, []string{"0000-01-01 00:00:00", "0000-01-02 00:00:00"}},
		{"conditional-domain", "_, _, _, (_, _)", "g(r.sub, p.sub, r.dom)", true, []string{"0000-01-01 00:00:00", "0000-01-02 00:00:00"}},
	}
	for _, sh := range shapes {
		r, p := "sub, obj, act", "sub, obj, act"
		match := sh.m + " && r.obj == p.obj && r.act == p.act"
		if sh.dom {
			r, p = "sub, dom, obj, act", "sub, dom, obj, act"
			match = sh.m + " && r.dom == p.dom && r.obj == p.obj && r.act == p.act"
		}
		text := "[request_definition]\nr = " + r + "\n[policy_definition]\np = " + p + "\n[role_definition]\ng = " + sh.g + "\n[policy_effect]\ne = some(where (p.eft == allow))\n[matchers]\nm = " + match + "\n"
		rule := func(u, ro string) []string {
			x := []string{u, ro}
			if sh.dom {
				x = append(x, "d1")
			}
			return append(x, sh.tail...)
		}
		A, B, C := rule("alice", "admin"), rule("bob", "admin"), rule("carol", "staff")
		type call struct {
			name string
			run  func(e *casbin.Enforcer) (bool, error)
		}
		calls := []call{
			{"AddGroupingPolicy(new)", func(e *casbin.Enforcer) (bool, error) { return e.AddGroupingPolicy(C) }},
			{"AddGroupingPolicy(listed)", func(e *casbin.Enforcer) (bool, error) { return e.AddGroupingPolicy(A) }},
			{"AddGroupingPolicies(new)", func(e *casbin.Enforcer) (bool, error) { return e.AddGroupingPolicies([][]string{C, rule("dave", "staff")}) }},
			{"AddGroupingPoliciesEx(mixed)", func(e *casbin.Enforcer) (bool, error) { return e.AddGroupingPoliciesEx([][]string{A, C}) }},
			{"RemoveGroupingPolicy(listed)", func(e *casbin.Enforcer) (bool, error) { return e.RemoveGroupingPolicy(A) }},
			{"RemoveGroupingPolicy(unlisted)", func(e *casbin.Enforcer) (bool, error) { return e.RemoveGroupingPolicy(C) }},
			{"RemoveGroupingPolicies(listed)", func(e *casbin.Enforcer) (bool, error) { return e.RemoveGroupingPolicies([][]string{A, B}) }},
			{"RemoveFilteredGroupingPolicy(0, alice)", func(e *casbin.Enforcer) (bool, error) { return e.RemoveFilteredGroupingPolicy(0, "alice") }},
			{"RemoveFilteredGroupingPolicy(1, admin)", func(e *casbin.Enforcer) (bool, error) { return e.RemoveFilteredGroupingPolicy(1, "admin") }},
			{"RemoveFilteredGroupingPolicy(0, nobody)", func(e *casbin.Enforcer) (bool, error) { return e.RemoveFilteredGroupingPolicy(0, "nobody") }},
			{"UpdateGroupingPolicy(listed -> new)", func(e *casbin.Enforcer) (bool, error) { return e.UpdateGroupingPolicy(A, C) }},
			{"UpdateGroupingPolicies(listed -> new)", func(e *casbin.Enforcer) (bool, error) {
				return e.UpdateGroupingPolicies([][]string{A, B}, [][]string{C, rule("dave", "staff")})
			}},
			{"DeleteRoleForUser", func(e *casbin.Enforcer) (bool, error) { return e.RemoveGroupingPolicy(B) }},
		}
		for _, cl := range calls {
			a := mem.New()
			a.Lines = []mem.Line{{PType: "g", Rule: append([]string(nil), A...)}, {PType: "g", Rule: append([]string(nil), B...)}}
			e, err := casbin.NewEnforcer(mustModel(text), a)
			if err != nil {
				c.Direct("an enforcer over a "+sh.name+" role definition could not be built", err.Error())
				break
			}
			w := &mem.Watcher{}
			_ = e.SetWatcher(mem.ExUpd{Watcher: w})
			w.Log = nil
			before, _ := e.GetGroupingPolicy()
			storeBefore := fmt.Sprint(a.Lines)
			var ok bool
			res := guardedStr(func() string {
				var err error
				ok, err = cl.run(e)
				if err != nil {
					return "err: " + err.Error()
				}
				return "nil"
			})
			after, _ := e.GetGroupingPolicy()
			changed := fmt.Sprint(before) != fmt.Sprint(after) || storeBefore != fmt.Sprint(a.Lines)
			what := fmt.Sprintf("role definition g = %s, rules %v: %s returned (%v, %s); listed before %v after %v; notifications %v", sh.g, [][]string{A, B}, cl.name, ok, res, before, after, w.Log)
			c.Evals++
			c.Count("role_definition_shape_calls", 1)
			switch {
			case res == "panic" || res == "hang":
				c.Direct("a grouping-policy call panicked or hung", what)
			case changed && (res != "nil" || !ok || len(w.Log) != 1):
				c.Direct("a call that changed the policy is not reported as success and announced exactly once", what)
			case !changed && len(w.Log) != 0:
				c.Direct("a call that changed nothing was announced", what)
			}
			if changed {
				c.Nontrivial("shape|" + sh.name + "|" + cl.name)
			}
		}
	}
}
