package main

import (
	"fmt"
	"sort"
	"strings"

	defaultrolemanager "github.com/casbin/casbin/v2/rbac/default-role-manager"
)

func init() { registry["C16"] = runC16 }

// c16Case builds one enforcer from (links, rules) and compares every listing API with the model and
// — on the implementation itself — with Enforce / HasLink.
var c16Variant int

func c16Case(c *Ctx, name string, domains bool, links [][]string, rules [][]string, names []string, doms []string, perms [][]string) {
	ms := rbacSpec(domains, false)
	s := StartCase(c, ms, CaseOpts{})
	if s == nil {
		return
	}
	// set-up variants (chosen by the case counter, so every family sees all of them): 0 = one batch;
	// 1 = a fresh default role manager installed with SetRoleManager before any link is added (Enforce's g()
	// and the listings must still walk the same graph); 2 = every link removed and added again one by one
	// after the batch (the graph is the same, whatever the role manager did with names in between)
	variant := c16Variant % 3
	c16Variant++
	if variant == 1 && !domains {
		s.E.SetRoleManager(defaultrolemanager.NewRoleManagerImpl(10))
	}
	if len(links) > 0 {
		s.Do(c, EOp{Kind: "adds", Sec: "g", PType: "g", Ex: true, Rules: links})
	}
	if len(rules) > 0 {
		s.Do(c, EOp{Kind: "adds", Sec: "p", PType: "p", Ex: true, Rules: rules})
	}
	if variant == 2 {
		for i := len(links) - 1; i >= 0; i-- {
			s.Do(c, EOp{Kind: "rm", Sec: "g", PType: "g", Rule: links[i]})
			s.Do(c, EOp{Kind: "add", Sec: "g", PType: "g", Rule: links[i]})
		}
	}
	name = fmt.Sprintf("%s/setup=%d", name, variant)
	e := s.E
	// the listing APIs are queries: what is listed (rule by rule, field by field) and what is indexed must be the
	// same after all of them as before
	stateOf := func() string {
		m := e.GetModel()
		return fmt.Sprintf("p=%v g=%v ixp=%d ixg=%d", m["p"]["p"].Policy, m["g"]["g"].Policy, len(m["p"]["p"].PolicyMap), len(m["g"]["g"].PolicyMap))
	}
	stateBefore := stateOf()
	rm := e.GetRoleManager()
	dlist := [][]string{{}}
	if domains {
		dlist = nil
		for _, d := range doms {
			dlist = append(dlist, []string{d})
		}
	}
	what := func() string { return fmt.Sprintf("%s links=%v rules=%v", name, links, rules) }
	listed := 0
	for _, d := range dlist {
		for _, u := range names {
			args := append([]string{u}, d...)
			obs := s.Do(c, EOp{Kind: "iroles", PType: "g", Args: args})
			s.Do(c, EOp{Kind: "iusersrole", Args: args})
			s.Do(c, EOp{Kind: "iperms", What: "p", PType: "g", Args: args})
			// implementation only: the listing vs g()
			roles, err := e.GetImplicitRolesForUser(u, d...)
			if err != nil || obs == "err" {
				c.Direct("GetImplicitRolesForUser failed on a plain role graph", what()+" user="+u)
				continue
			}
			listed += len(roles)
			inList := map[string]bool{}
			for _, r := range roles {
				if inList[r] {
					c.Direct("GetImplicitRolesForUser lists a role twice", what()+" user="+u+" role="+r)
				}
				inList[r] = true
			}
			depthOk := true
			for _, r := range roles {
				if ok, _ := rm.HasLink(u, r, d...); !ok {
					depthOk = false // beyond the role manager's depth limit (the property's hypothesis)
				}
			}
			for _, r := range names {
				ok, _ := rm.HasLink(u, r, d...)
				if r != u && ok && !inList[r] {
					c.Direct("g() holds for a role that GetImplicitRolesForUser does not list", fmt.Sprintf("%s user=%s role=%s domain=%v listed=%v", what(), u, r, d, roles))
				}
				if depthOk && inList[r] && (r == u || !ok) {
					c.Direct("GetImplicitRolesForUser lists a name for which g() does not hold (or the user itself)", fmt.Sprintf("%s user=%s role=%s domain=%v", what(), u, r, d))
				}
			}
			// users of a role: the converse walk
			users, _ := e.GetImplicitUsersForRole(u, d...)
			inUsers := map[string]bool{}
			for _, x := range users {
				inUsers[x] = true
			}
			for _, x := range names {
				ok, _ := rm.HasLink(x, u, d...)
				if x != u && ok && !inUsers[x] {
					c.Direct("g(x, role) holds for a name that GetImplicitUsersForRole(role) does not list", fmt.Sprintf("%s role=%s x=%s domain=%v listed=%v", what(), u, x, d, users))
				}
			}
			// permissions: allowed iff a listed permission grants it
			for _, perm := range perms {
				tail := perm
				if domains {
					tail = append(append([]string(nil), d...), perm...)
				}
				g := s.Do(c, EOp{Kind: "igrant", Args: append([]string{u}, tail...)})
				req := append([]string{u}, tail...)
				vs := make([]V, len(req))
				for i, x := range req {
					vs[i] = VS(x)
				}
				dec := s.Do(c, EOp{Kind: "enf", Req: vs})
				d24 := len(rules) == 0 && tail[len(tail)-2] == ""
				if depthOk && !d24 && g != dec {
					c.Direct("Enforce and GetImplicitPermissionsForUser disagree: a request is allowed iff a listed permission grants it", fmt.Sprintf("%s request=%v Enforce=%s listed-grants=%s", what(), req, dec, g))
				}
				c.Count("grant="+g, 1)
			}
		}
	}
	c16Getters(c, e, domains, names, doms, what)
	// users for a permission: exactly the non-role subjects Enforce allows
	for _, d := range dlist {
		for _, perm := range perms {
			tail := perm
			if domains {
				tail = append(append([]string(nil), d...), perm...)
			}
			obs := s.Do(c, EOp{Kind: "iusers", Args: tail})
			got, err := e.GetImplicitUsersForPermission(tail...)
			if err != nil || obs == "err" {
				c.Direct("GetImplicitUsersForPermission failed", what())
				continue
			}
			isRole := map[string]bool{}
			subj := map[string]bool{}
			gp, _ := e.GetGroupingPolicy()
			for _, l := range gp {
				isRole[l[1]] = true
				subj[l[0]] = true
			}
			pp, _ := e.GetPolicy()
			for _, r := range pp {
				subj[r[0]] = true
			}
			var want []string
			for x := range subj {
				if isRole[x] {
					continue
				}
				req := []interface{}{x}
				for _, t := range tail {
					req = append(req, t)
				}
				if ok, _ := e.Enforce(req...); ok {
					want = append(want, x)
				}
			}
			sort.Strings(want)
			g2 := append([]string(nil), got...)
			sort.Strings(g2)
			if strings.Join(want, "\x01") != strings.Join(g2, "\x01") {
				c.Direct("GetImplicitUsersForPermission does not list exactly the non-role subjects for which Enforce returns true", fmt.Sprintf("%s permission=%v listed=%v want=%v", what(), tail, g2, want))
			}
			c.Count("iusers_checks", 1)
		}
	}
	// users for a resource (plain model): rows = requests Enforce allows, for non-role names
	if !domains {
		gp, _ := e.GetGroupingPolicy()
		isRole := map[string]bool{}
		for _, l := range gp {
			isRole[l[1]] = true
		}
		deep := false // some listed implicit role lies beyond the depth limit of g()
		for _, u := range names {
			roles, _ := e.GetImplicitRolesForUser(u)
			for _, r := range roles {
				if ok, _ := rm.HasLink(u, r); !ok {
					deep = true
				}
			}
		}
		for _, res := range []string{"data1", "data2"} {
			s.Do(c, EOp{Kind: "iusersres", Args: []string{res}})
			rows, err := e.GetImplicitUsersForResource(res)
			if err != nil {
				c.Direct("GetImplicitUsersForResource failed", what())
				continue
			}
			have := map[string]bool{}
			for _, row := range rows {
				have[strings.Join(row, "\x01")] = true
				if isRole[row[0]] {
					c.Direct("GetImplicitUsersForResource lists a role name as a user", fmt.Sprintf("%s resource=%s row=%v", what(), res, row))
				}
				if ok, _ := e.Enforce(row[0], row[1], row[2]); !ok && !deep {
					c.Direct("GetImplicitUsersForResource lists a row that Enforce denies", fmt.Sprintf("%s resource=%s row=%v", what(), res, row))
				}
			}
			for _, u := range names {
				if isRole[u] || len(rules) == 0 {
					continue
				}
				if ok, _ := e.Enforce(u, res, "read"); ok && !have[u+"\x01"+res+"\x01read"] {
					c.Direct("Enforce allows a non-role name on a resource that GetImplicitUsersForResource does not list", fmt.Sprintf("%s resource=%s user=%s rows=%v", what(), res, u, rows))
				}
			}
			c.Count("iusersres_checks", 1)
		}
	}
	// users for a resource in a domain: a name counts as a role only if it is a role in that domain
	if domains {
		gp, _ := e.GetGroupingPolicy()
		deep := false
		for _, d := range doms {
			for _, u := range names {
				roles, _ := e.GetImplicitRolesForUser(u, d)
				for _, r := range roles {
					if ok, _ := rm.HasLink(u, r, d); !ok {
						deep = true
					}
				}
			}
		}
		for _, d := range doms {
			isRole := map[string]bool{}
			for _, l := range gp {
				if len(l) > 2 && l[2] == d {
					isRole[l[1]] = true
				}
			}
			rows, err := e.GetImplicitUsersForResourceByDomain("data1", d)
			if err != nil {
				c.Direct("GetImplicitUsersForResourceByDomain failed", what())
				continue
			}
			have := map[string]bool{}
			for _, row := range rows {
				have[strings.Join(row, "\x01")] = true
				if isRole[row[0]] {
					c.Direct("GetImplicitUsersForResourceByDomain lists a name that is a role in that domain", fmt.Sprintf("%s domain=%s row=%v", what(), d, row))
				}
				if ok, _ := e.Enforce(row[0], row[1], row[2], row[3]); !ok && !deep {
					c.Direct("GetImplicitUsersForResourceByDomain lists a row that Enforce denies", fmt.Sprintf("%s domain=%s row=%v", what(), d, row))
				}
			}
			for _, u := range names {
				if isRole[u] || len(rules) == 0 {
					continue
				}
				if ok, _ := e.Enforce(u, d, "data1", "read"); ok && !have[u+"\x01"+d+"\x01data1\x01read"] {
					c.Direct("Enforce allows a name that is no role in the domain, but GetImplicitUsersForResourceByDomain does not list it", fmt.Sprintf("%s domain=%s user=%s rows=%v", what(), d, u, rows))
				}
			}
			c.Count("iusersres_bydomain_checks", 1)
		}
	}
	if after := stateOf(); after != stateBefore {
		c.Direct("a listing API (a query) changed the listed rules", fmt.Sprintf("%s\nbefore: %s\nafter:  %s", what(), stateBefore, after))
	}
	// and the decisions asked first are still the decisions now
	for _, d := range dlist {
		for _, u := range names {
			for _, perm := range perms {
				tail := perm
				if domains {
					tail = append(append([]string(nil), d...), perm...)
				}
				req := append([]string{u}, tail...)
				vs := make([]V, len(req))
				for i, x := range req {
					vs[i] = VS(x)
				}
				s.Do(c, EOp{Kind: "enf", Req: vs})
			}
		}
	}
	c.Evals++
	if listed > 0 && len(rules) > 0 {
		c.Nontrivial(what())
	}
	if c.Evals%977 == 1 {
		c.Sample(what())
	}
}

func runC16(c *Ctx) {
	c.Exhaustive = true
	c16PatternDomains(c)
	c16PatternNames(c)
	nodes, maxRules, maxDomLinks := 3, 2, 3
	if c.Thorough() {
		nodes, maxRules, maxDomLinks = 4, 2, 4
	}
	c.Rule = fmt.Sprintf("role graphs over %d names incl. self-loops and cycles (plain model; quick tier: every subset of the 9 directed links; thorough tier: every fifth of the 65 536 subsets of the 16 links, the residue chosen by the seed) and all domain graphs of <= %d links over 3 names x 2 domains; every eighth plain graph and every sixteenth domain graph with all policies of <= %d rules over subjects (names + a name outside the graph) x 2 permissions, the others with two or three of them; three set-up variants of the enforcer; direct getters (roles, users, permissions, domains) against a reference computed from the listed rules; queries must leave the state unchanged; plus chains of 9..13 names around the depth limit, complete trees and layered DAGs of fan-out 2..3 and depth 2..3, and seeded random graphs of 5..8 names: GetImplicitRolesForUser, GetImplicitUsersForRole, GetImplicitPermissionsForUser, GetImplicitUsersForPermission, GetImplicitUsersForResource for every name, domain, permission and resource are compared with the Lean model, the role listing with g() (spec) and the permission listing with enforce() (spec); on the implementation: listed roles = names with HasLink, Enforce = some listed permission grants, implicit users = non-role subjects that Enforce allows, resource rows = non-role names that Enforce allows; names whose concatenations coincide (numeric ids, with and without a domain); non-trivial = a case with listed implicit roles and rules; distinct = (graph, policy)", nodes, maxDomLinks, maxRules)
	all := []string{"a", "b", "c", "d"}[:nodes]
	// plain: every subset of the directed links (self-loops included)
	var E [][]string
	for _, u := range all {
		for _, v := range all {
			E = append(E, []string{u, v})
		}
	}
	perms := [][]string{{"data1", "read"}, {"data2", "read"}}
	subjects := append(append([]string(nil), all...), "z")
	var R [][]string
	for _, su := range subjects {
		R = append(R, []string{su, "data1", "read"})
	}
	R = append(R, []string{all[len(all)-1], "data2", "read"})
	policies := subsetsUpTo(len(R), maxRules)
	names := append(append([]string(nil), all...), "z")
	total := 1 << len(E)
	step := 1
	if !c.Thorough() && nodes >= 4 {
		step = 7
	}
	if c.Thorough() {
		step = 5 // 65 536 graphs over 4 names: every fifth, all of them when the seed varies
	}
	for mask := int(c.Seed) % step; mask < total; mask += step {
		var links [][]string
		for i, l := range E {
			if mask&(1<<i) != 0 {
				links = append(links, l)
			}
		}
		pols := policies
		if mask%8 != 0 {
			// every graph with a few policies, every eighth with all of them
			pols = [][]int{policies[mask%len(policies)], policies[(mask*7+3)%len(policies)]}
		}
		for _, pi := range pols {
			c16Case(c, "plain", false, links, pick(R, pi), names, nil, perms)
		}
	}
	// domains
	var ED [][]string
	for _, d := range []string{"d1", "d2"} {
		for _, u := range []string{"a", "b", "c"} {
			for _, v := range []string{"a", "b", "c"} {
				if u != v {
					ED = append(ED, []string{u, v, d})
				}
			}
		}
	}
	var RD [][]string
	for _, su := range []string{"a", "b", "c", "z"} {
		for _, d := range []string{"d1", "d2"} {
			RD = append(RD, []string{su, d, "data1", "read"})
		}
	}
	dpols := subsetsUpTo(len(RD), maxRules)
	for gi, li := range subsetsUpTo(len(ED), maxDomLinks) {
		pols := [][]int{dpols[gi%len(dpols)], dpols[(gi*5+1)%len(dpols)], dpols[(gi*11+2)%len(dpols)]}
		if gi%16 == 0 {
			pols = dpols
		}
		for _, pi := range pols {
			c16Case(c, "domain", true, pick(ED, li), pick(RD, pi), []string{"a", "b", "c", "z"}, []string{"d1", "d2"}, [][]string{{"data1", "read"}})
		}
	}
	// names whose concatenations coincide ("1"+"23" = "12"+"3", with a domain "1"+"2"+"34" = "1"+"23"+"4"):
	// numeric ids are ordinary names; what Enforce remembers about one pair must not answer for another
	for _, links := range [][][]string{{{"1", "23"}}, {{"12", "3"}}, {{"1", "23"}, {"3", "12"}}, {{"2", "3"}, {"1", "2"}}} {
		c16Case(c, "concat-names", false, links, [][]string{{"23", "data1", "read"}, {"3", "data2", "read"}, {"12", "data1", "read"}}, []string{"1", "12", "2", "23", "3"}, nil, perms)
	}
	for _, links := range [][][]string{{{"1", "2", "34"}}, {{"1", "23", "4"}}, {{"1", "2", "34"}, {"12", "3", "4"}}} {
		c16Case(c, "concat-names-domain", true, links, [][]string{{"2", "34", "data1", "read"}, {"23", "4", "data1", "read"}, {"3", "4", "data1", "read"}}, []string{"1", "12", "2", "23", "3"}, []string{"34", "4"}, [][]string{{"data1", "read"}})
	}
	// chains around the depth limit: the listing has no bound, g() has
	for n := 9; n <= 13; n++ {
		var links [][]string
		var ns []string
		for i := 0; i < n; i++ {
			ns = append(ns, fmt.Sprintf("n%d", i))
			if i > 0 {
				links = append(links, []string{fmt.Sprintf("n%d", i-1), fmt.Sprintf("n%d", i)})
			}
		}
		c16Case(c, "chain", false, links, [][]string{{ns[n-1], "data1", "read"}, {ns[n/2], "data2", "read"}}, ns, nil, perms)
	}
	// branching hierarchies: complete trees of fan-out 2 and 3, two and three levels deep, and
	// layered DAGs (every name of a level points to every name of the next)
	for _, fan := range []int{2, 3} {
		for _, depth := range []int{2, 3} {
			for _, layered := range []bool{false, true} {
				levels := [][]string{{"root"}}
				var links, ns [][]string
				_ = ns
				names := []string{"root"}
				for l := 1; l <= depth; l++ {
					var cur []string
					if layered {
						for j := 0; j < fan; j++ {
							cur = append(cur, fmt.Sprintf("l%d_%d", l, j))
						}
						for _, u := range levels[l-1] {
							for _, v := range cur {
								links = append(links, []string{u, v})
							}
						}
					} else {
						for pi, u := range levels[l-1] {
							for j := 0; j < fan; j++ {
								v := fmt.Sprintf("l%d_%d", l, pi*fan+j)
								cur = append(cur, v)
								links = append(links, []string{u, v})
							}
						}
					}
					levels = append(levels, cur)
					names = append(names, cur...)
				}
				leaves := levels[depth]
				rules := [][]string{{leaves[0], "data1", "read"}, {leaves[len(leaves)-1], "data2", "read"}}
				c16Case(c, fmt.Sprintf("tree fan=%d depth=%d layered=%v", fan, depth, layered), false, links, rules, names, nil, perms)
				// the same links listed leaves-first (insertion order must not matter)
				rev := make([][]string, len(links))
				for i, l := range links {
					rev[len(links)-1-i] = l
				}
				c16Case(c, fmt.Sprintf("tree-rev fan=%d depth=%d layered=%v", fan, depth, layered), false, rev, rules, names, nil, perms)
			}
		}
	}
	// seeded random graphs
	nr := 60
	if c.Thorough() {
		nr = 3000
	}
	for i := 0; i < nr; i++ {
		k := 5 + c.Rng.Intn(4)
		var ns []string
		for j := 0; j < k; j++ {
			ns = append(ns, fmt.Sprintf("u%d", j))
		}
		dom := c.Rng.Intn(3) == 0
		var links, rules [][]string
		seen := map[string]bool{}
		for j := c.Rng.Intn(2 * k); j > 0; j-- {
			l := []string{ns[c.Rng.Intn(k)], ns[c.Rng.Intn(k)]}
			if dom {
				l = append(l, []string{"d1", "d2"}[c.Rng.Intn(2)])
			}
			if key := strings.Join(l, ","); !seen[key] {
				seen[key] = true
				links = append(links, l)
			}
		}
		for j := c.Rng.Intn(4); j > 0; j-- {
			r := []string{ns[c.Rng.Intn(k)]}
			if dom {
				r = append(r, []string{"d1", "d2"}[c.Rng.Intn(2)])
			}
			r = append(r, []string{"data1", "data2"}[c.Rng.Intn(2)], "read")
			if key := "p" + strings.Join(r, ","); !seen[key] {
				seen[key] = true
				rules = append(rules, r)
			}
		}
		var doms []string
		if dom {
			doms = []string{"d1", "d2"}
		}
		c16Case(c, "random", dom, links, rules, ns, doms, perms)
	}
}
