package main

import (
	"fmt"
	"sort"
	"strings"

	"github.com/casbin/casbin/v2"
)

// c16Getters: the direct getters of the RBAC and management layers against a reference computed from the
// listed rules alone (sets compared sorted): GetRolesForUser / GetUsersForRole / HasRoleForUser (with and
// without a domain), GetPermissionsForUser, HasPermissionForUser, GetDomainsForUser, GetAllUsersByDomain,
// GetAllRolesByDomain, GetAllSubjects / Objects / Actions / Roles, GetFilteredPolicy / GetFilteredGroupingPolicy,
// GetRolesForUserInDomain / GetUsersForRoleInDomain.  The implicit listings (which
// build on these) are compared with Enforce elsewhere in C16.  Implementation only.
func c16Getters(c *Ctx, e *casbin.Enforcer, domains bool, names []string, doms []string, what func() string) {
	gp, _ := e.GetGroupingPolicy()
	pp, _ := e.GetPolicy()
	set := func(xs []string) string {
		m := map[string]bool{}
		for _, x := range xs {
			m[x] = true
		}
		out := make([]string, 0, len(m))
		for x := range m {
			out = append(out, x)
		}
		sort.Strings(out)
		return strings.Join(out, ",")
	}
	rows := func(rs [][]string) string {
		out := make([]string, len(rs))
		for i, r := range rs {
			out[i] = strings.Join(r, " ")
		}
		sort.Strings(out)
		return strings.Join(out, "|")
	}
	bad := func(api string, got, want interface{}) {
		c.Direct("a getter of the RBAC / management API does not return what the listed rules say", fmt.Sprintf("%s: %s returned %v, the listed rules give %v", what(), api, got, want))
	}
	dlist := [][]string{nil}
	if domains {
		dlist = nil
		for _, d := range doms {
			dlist = append(dlist, []string{d})
		}
	}
	subIdx, objIdx, actIdx := 0, 1, 2
	if domains {
		objIdx, actIdx = 2, 3
	}
	for _, d := range dlist {
		inDom := func(l []string) bool { return !domains || (len(l) > 2 && l[2] == d[0]) }
		pInDom := func(r []string) bool { return !domains || (len(r) > 1 && r[1] == d[0]) }
		for _, u := range names {
			var wantRoles, wantUsers []string
			for _, l := range gp {
				if inDom(l) && l[0] == u {
					wantRoles = append(wantRoles, l[1])
				}
				if inDom(l) && l[1] == u {
					wantUsers = append(wantUsers, l[0])
				}
			}
			if got, err := e.GetRolesForUser(u, d...); err != nil || set(got) != set(wantRoles) {
				bad(fmt.Sprintf("GetRolesForUser(%s, %v)", u, d), got, wantRoles)
			}
			if got, err := e.GetUsersForRole(u, d...); err != nil || set(got) != set(wantUsers) {
				bad(fmt.Sprintf("GetUsersForRole(%s, %v)", u, d), got, wantUsers)
			}
			for _, r := range names {
				want := false
				for _, x := range wantRoles {
					if x == r {
						want = true
					}
				}
				if got, err := e.HasRoleForUser(u, r, d...); err != nil || got != want {
					bad(fmt.Sprintf("HasRoleForUser(%s, %s, %v)", u, r, d), got, want)
				}
			}
			var wantPerms [][]string
			for _, r := range pp {
				if r[subIdx] == u && pInDom(r) {
					wantPerms = append(wantPerms, r)
				}
			}
			if got, err := e.GetPermissionsForUser(u, d...); err != nil || rows(got) != rows(wantPerms) {
				bad(fmt.Sprintf("GetPermissionsForUser(%s, %v)", u, d), got, wantPerms)
			}
			if domains {
				if got := e.GetRolesForUserInDomain(u, d[0]); set(got) != set(wantRoles) {
					bad(fmt.Sprintf("GetRolesForUserInDomain(%s, %s)", u, d[0]), got, wantRoles)
				}
				if got := e.GetUsersForRoleInDomain(u, d[0]); set(got) != set(wantUsers) {
					bad(fmt.Sprintf("GetUsersForRoleInDomain(%s, %s)", u, d[0]), got, wantUsers)
				}
			}
			for _, r := range pp {
				if pInDom(r) {
					want := false
					for _, q := range pp {
						if q[0] == u && strings.Join(q[1:], "\x01") == strings.Join(r[1:], "\x01") {
							want = true
						}
					}
					if got, err := e.HasPermissionForUser(u, r[1:]...); err != nil || got != want {
						bad(fmt.Sprintf("HasPermissionForUser(%s, %v)", u, r[1:]), got, want)
					}
				}
			}
			// filtered getters: by subject
			var wantFP, wantFG [][]string
			for _, r := range pp {
				if r[0] == u {
					wantFP = append(wantFP, r)
				}
			}
			for _, l := range gp {
				if l[1] == u {
					wantFG = append(wantFG, l)
				}
			}
			if got, err := e.GetFilteredPolicy(0, u); err != nil || fmt.Sprint(got) != fmt.Sprint(append([][]string{}, wantFP...)) && !(len(got) == 0 && len(wantFP) == 0) {
				bad(fmt.Sprintf("GetFilteredPolicy(0, %s)", u), got, wantFP)
			}
			if got, err := e.GetFilteredGroupingPolicy(1, u); err != nil || fmt.Sprint(got) != fmt.Sprint(append([][]string{}, wantFG...)) && !(len(got) == 0 && len(wantFG) == 0) {
				bad(fmt.Sprintf("GetFilteredGroupingPolicy(1, %s)", u), got, wantFG)
			}
			if domains {
				var wantDoms []string
				for _, l := range gp {
					if l[0] == u || l[1] == u { // the role manager knows a name in a domain as user or as role
						wantDoms = append(wantDoms, l[2])
					}
				}
				if got, err := e.GetDomainsForUser(u); err != nil || set(got) != set(wantDoms) {
					bad(fmt.Sprintf("GetDomainsForUser(%s)", u), got, wantDoms)
				}
			}
		}
		if domains {
			var wantRolesBy []string
			for _, l := range gp {
				if l[2] == d[0] {
					wantRolesBy = append(wantRolesBy, l[1])
				}
			}
			if got, err := e.GetAllRolesByDomain(d[0]); err != nil || set(got) != set(wantRolesBy) {
				bad(fmt.Sprintf("GetAllRolesByDomain(%s)", d[0]), got, wantRolesBy)
			}
		}
	}
	col := func(rs [][]string, i int) []string {
		var out []string
		for _, r := range rs {
			if i < len(r) {
				out = append(out, r[i])
			}
		}
		return out
	}
	if got, err := e.GetAllSubjects(); err != nil || set(got) != set(col(pp, subIdx)) {
		bad("GetAllSubjects()", got, col(pp, subIdx))
	}
	if got, err := e.GetAllObjects(); err != nil || set(got) != set(col(pp, objIdx)) {
		bad("GetAllObjects()", got, col(pp, objIdx))
	}
	if got, err := e.GetAllActions(); err != nil || set(got) != set(col(pp, actIdx)) {
		bad("GetAllActions()", got, col(pp, actIdx))
	}
	if got, err := e.GetAllRoles(); err != nil || set(got) != set(col(gp, 1)) {
		bad("GetAllRoles()", got, col(gp, 1))
	}
	c.Count("getter_reference_cases", 1)
}
