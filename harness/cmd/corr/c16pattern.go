package main

import (
	"fmt"

	"github.com/casbin/casbin/v2/util"
)

// RBAC with domains and a domain matching function (keyMatch on the domain: links stored in the
// pattern domain "*" hold in every concrete domain).  Implementation only (the listing model has no
// pattern managers): in every domain — those with links of their own, those covered only by the
// pattern, and one nothing was ever said about — the listed implicit roles are exactly the names for
// which g() holds, the implicit users of a role are the names from which g() reaches it, and a request
// is allowed iff a listed permission grants it.
func c16PatternDomains(c *Ctx) {
	names := []string{"a", "b", "c"}
	pool := [][]string{
		{"a", "b", "*"}, {"b", "c", "*"}, {"a", "b", "d1"}, {"b", "c", "d1"}, {"c", "a", "d2"}, {"a", "c", "*"}, {"b", "a", "d2"},
	}
	rules := [][]string{{"c", "d1", "data", "read"}, {"b", "d2", "data", "read"}, {"c", "d3", "data", "read"}}
	// (no policy rule in a pattern domain: the stock matcher compares r.dom == p.dom literally, while the listing
	// matches the domain column with the matching function; models for pattern domains write keyMatch(r.dom, p.dom))
	doms := []string{"d1", "d2", "d3"}
	maxLinks := 3
	if c.Thorough() {
		maxLinks = 4
	}
	for _, idx := range subsetsUpTo(len(pool), maxLinks) {
		if len(idx) == 0 {
			continue
		}
		links := pick(pool, idx)
		for variant := 0; variant < 2; variant++ {
			s := StartCaseQuiet(rbacSpec(true, false), CaseOpts{})
			e := s.E
			// variant 0: the function is registered first; variant 1: after the links (rebuild path)
			if variant == 0 {
				e.AddNamedDomainMatchingFunc("g", "keyMatch", util.KeyMatch)
			}
			_, _ = e.AddGroupingPolicies(cloneRules(links))
			_, _ = e.AddPolicies(cloneRules(rules))
			if variant == 1 {
				e.AddNamedDomainMatchingFunc("g", "keyMatch", util.KeyMatch)
			}
			rm := e.GetRoleManager()
			what := func() string { return fmt.Sprintf("pattern-domains/variant=%d links=%v rules=%v", variant, links, rules) }
			for _, d := range doms {
				for _, u := range names {
					roles, err := e.GetImplicitRolesForUser(u, d)
					if err != nil {
						c.Direct("GetImplicitRolesForUser failed with a domain matching function", what()+" user="+u+" domain="+d)
						continue
					}
					in := map[string]bool{}
					for _, r := range roles {
						in[r] = true
					}
					for _, r := range names {
						ok, _ := rm.HasLink(u, r, d)
						if r != u && ok && !in[r] {
							c.Direct("g() holds for a role that GetImplicitRolesForUser does not list (domain matching function)", fmt.Sprintf("%s user=%s role=%s domain=%s listed=%v", what(), u, r, d, roles))
						}
						if in[r] && (r == u || !ok) {
							c.Direct("GetImplicitRolesForUser lists a name for which g() does not hold (domain matching function)", fmt.Sprintf("%s user=%s role=%s domain=%s", what(), u, r, d))
						}
					}
					users, _ := e.GetImplicitUsersForRole(u, d)
					inU := map[string]bool{}
					for _, x := range users {
						inU[x] = true
					}
					for _, x := range names {
						ok, _ := rm.HasLink(x, u, d)
						if x != u && ok && !inU[x] {
							c.Direct("g(x, role) holds for a name that GetImplicitUsersForRole(role) does not list (domain matching function)", fmt.Sprintf("%s role=%s x=%s domain=%s listed=%v", what(), u, x, d, users))
						}
					}
					// the stock matcher compares r.dom == p.dom literally: a listed permission grants a request of the same domain
					perms, err := e.GetImplicitPermissionsForUser(u, d)
					if err != nil {
						c.Direct("GetImplicitPermissionsForUser failed with a domain matching function", what()+" user="+u+" domain="+d)
						continue
					}
					for _, act := range []string{"read", "write"} {
						dec, _ := e.Enforce(u, d, "data", act)
						grant := false
						for _, p := range perms {
							if len(p) == 4 && p[1] == d && p[2] == "data" && p[3] == act {
								grant = true
							}
						}
						if dec != grant {
							c.Direct("Enforce and GetImplicitPermissionsForUser disagree under a domain matching function: a request is allowed iff a listed permission grants it", fmt.Sprintf("%s request=[%s %s data %s] Enforce=%v listed=%v", what(), u, d, act, dec, perms))
						}
					}
					c.Evals++
				}
			}
			c.Count("pattern_domain_cases", 1)
		}
	}
}

// A role-name matching function (keyMatch on g): names stored in the graph that also match a pattern used in user
// position.  Along random runs of incremental link additions and removals — with the listings asked BEFORE every
// change as well, so that anything they remember is there to go stale — the implicit roles listed for a name are
// exactly the roles for which g() holds, and a request is allowed iff a listed permission grants it.
// Implementation only.
func c16PatternNames(c *Ctx) {
	pool := [][]string{{"user:bob", "staff"}, {"user:*", "everyone"}, {"user:*", "auditors"}, {"everyone", "base"}, {"user:alice", "staff"}, {"staff", "base"}}
	rules := [][]string{{"everyone", "data3", "read"}, {"auditors", "data2", "read"}, {"staff", "data1", "read"}, {"base", "data4", "read"}}
	users := []string{"user:bob", "user:alice", "user:carol"}
	roles := []string{"staff", "everyone", "auditors", "base"}
	n := 60
	if c.Thorough() {
		n = 1500
	}
	for i := 0; i < n; i++ {
		s := StartCaseQuiet(rbacSpec(false, false), CaseOpts{})
		e := s.E
		e.AddNamedMatchingFunc("g", "keyMatch", util.KeyMatch)
		_, _ = e.AddPolicies(cloneRules(rules))
		var hist []string
		check := func() bool {
			rm := e.GetRoleManager()
			for _, u := range users {
				listed, err := e.GetImplicitRolesForUser(u)
				if err != nil {
					continue
				}
				in := map[string]bool{}
				for _, r := range listed {
					in[r] = true
				}
				for _, r := range roles {
					ok, _ := rm.HasLink(u, r)
					if ok != in[r] {
						c.Direct("with a role-name matching function GetImplicitRolesForUser and g() disagree", fmt.Sprintf("%v user=%s role=%s g()=%v listed=%v", hist, u, r, ok, listed))
						return false
					}
				}
				perms, err := e.GetImplicitPermissionsForUser(u)
				if err != nil {
					continue
				}
				for _, o := range []string{"data1", "data2", "data3", "data4"} {
					dec, _ := e.Enforce(u, o, "read")
					grant := false
					for _, p := range perms {
						if len(p) == 3 && p[1] == o && p[2] == "read" {
							grant = true
						}
					}
					if dec != grant {
						c.Direct("with a role-name matching function Enforce and GetImplicitPermissionsForUser disagree", fmt.Sprintf("%v request=[%s %s read] Enforce=%v listed=%v", hist, u, o, dec, perms))
						return false
					}
				}
			}
			return true
		}
		steps := 3 + c.Rng.Intn(8)
		for st := 0; st < steps; st++ {
			if !check() {
				return
			}
			l := pool[c.Rng.Intn(len(pool))]
			if has, _ := e.HasGroupingPolicy(l); has {
				_, _ = e.RemoveGroupingPolicy(append([]string(nil), l...))
				hist = append(hist, fmt.Sprintf("rm%v", l))
			} else {
				_, _ = e.AddGroupingPolicy(append([]string(nil), l...))
				hist = append(hist, fmt.Sprintf("add%v", l))
			}
			c.Evals++
		}
		if !check() {
			return
		}
		c.Count("pattern_name_runs", 1)
	}
}
