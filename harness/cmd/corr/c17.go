package main

import (
	"encoding/csv"
	"fmt"
	"math/rand"
	"os"
	"path/filepath"
	"sort"
	"strings"

	"github.com/casbin/casbin/v2"
	fileadapter "github.com/casbin/casbin/v2/persist/file-adapter"
	"github.com/casbin/casbin/v2/util"
)

func init() { registry["C17"] = runC17 }

// one shipped model/policy pair and the set-up its tests give it
type exPair struct {
	model, policy string
	setup         func(e *casbin.Enforcer)
	// the model uses a domain matching function: link removal there is finding D15 (C05), so the
	// add-then-remove-a-link transformation is left to C05
	domPattern bool
}

func c17Pairs() []exPair {
	km2 := util.KeyMatch2
	return []exPair{
		{model: "basic_model.conf", policy: "basic_policy.csv"},
		{model: "basic_model.conf", policy: "basic_inverse_policy.csv"},
		{model: "basic_with_root_model.conf", policy: "basic_policy.csv"},
		{model: "basic_without_resources_model.conf", policy: "basic_without_resources_policy.csv"},
		{model: "basic_without_users_model.conf", policy: "basic_without_users_policy.csv"},
		{model: "rbac_model.conf", policy: "rbac_policy.csv"},
		{model: "rbac_model.conf", policy: "rbac_with_hierarchy_policy.csv"},
		{model: "rbac_model_matcher_using_in_op.conf", policy: "rbac_policy.csv"},
		{model: "rbac_with_deny_model.conf", policy: "rbac_with_deny_policy.csv"},
		{model: "rbac_with_not_deny_model.conf", policy: "rbac_with_deny_policy.csv"},
		{model: "rbac_with_domains_model.conf", policy: "rbac_with_domains_policy.csv"},
		{model: "rbac_with_domains_model.conf", policy: "rbac_with_domains_policy2.csv"},
		{model: "rbac_with_domains_model.conf", policy: "rbac_with_hierarchy_with_domains_policy.csv"},
		{model: "rbac_with_resource_roles_model.conf", policy: "rbac_with_resource_roles_policy.csv"},
		{model: "rbac_with_multiple_policy_model.conf", policy: "rbac_with_multiple_policy_policy.csv"},
		{model: "rbac_with_different_types_of_roles_model.conf", policy: "rbac_with_different_types_of_roles_policy.csv"},
		{model: "multiple_policy_definitions_model.conf", policy: "multiple_policy_definitions_policy.csv"},
		{model: "rbac_with_pattern_model.conf", policy: "rbac_with_pattern_policy.csv",
			setup: func(e *casbin.Enforcer) { e.AddNamedMatchingFunc("g2", "KeyMatch2", km2) }},
		{model: "rbac_with_all_pattern_model.conf", policy: "rbac_with_all_pattern_policy.csv", domPattern: true,
			setup: func(e *casbin.Enforcer) {
				e.AddNamedMatchingFunc("g", "keyMatch2", km2)
				e.AddNamedDomainMatchingFunc("g", "keyMatch2", km2)
			}},
		{model: "rbac_with_domain_pattern_model.conf", policy: "rbac_with_domain_pattern_policy.csv", domPattern: true,
			setup: func(e *casbin.Enforcer) { e.AddNamedDomainMatchingFunc("g", "keyMatch2", km2) }},
		{model: "keymatch_with_rbac_in_domain.conf", policy: "keymatch_with_rbac_in_domain.csv", domPattern: true,
			setup: func(e *casbin.Enforcer) { e.AddNamedDomainMatchingFunc("g", "KeyMatch", util.KeyMatch) }},
		{model: "keymatch_model.conf", policy: "keymatch_policy.csv"},
		{model: "keymatch2_model.conf", policy: "keymatch2_policy.csv"},
		{model: "glob_model.conf", policy: "glob_policy.csv"},
		{model: "ipmatch_model.conf", policy: "ipmatch_policy.csv"},
		{model: "eval_operator_model.conf", policy: "eval_operator_policy.csv"},
		{model: "abac_rule_model.conf", policy: "abac_rule_policy.csv"},
		{model: "object_conditions_model.conf", policy: "object_conditions_policy.csv"},
		{model: "priority_model.conf", policy: "priority_policy.csv"},
		{model: "priority_model_explicit.conf", policy: "priority_policy_explicit.csv"},
		{model: "subject_priority_model.conf", policy: "subject_priority_policy.csv"},
	}
}

type c17Line struct {
	ptype string
	rule  []string
}

func c17Lines(e *casbin.Enforcer) []c17Line {
	var out []c17Line
	m := e.GetModel()
	for _, sec := range []string{"p", "g"} {
		var types []string
		for t := range m[sec] {
			types = append(types, t)
		}
		sort.Strings(types)
		for _, t := range types {
			for _, r := range m[sec][t].Policy {
				out = append(out, c17Line{t, append([]string(nil), r...)})
			}
		}
	}
	return out
}

func c17Decisions(e *casbin.Enforcer, reqs [][]interface{}) []int8 {
	out := make([]int8, len(reqs))
	for i, r := range reqs {
		ok, err := func() (ok bool, err error) {
			defer func() {
				if x := recover(); x != nil {
					err = fmt.Errorf("panic: %v", x)
				}
			}()
			return e.Enforce(r...)
		}()
		switch {
		case err != nil:
			out[i] = -1
		case ok:
			out[i] = 1
		}
	}
	return out
}

// textual check of the property's "matcher has no negation": no '!' at all (this also rules out
// '!='), no literal false, no eval(), and role tests only as operands of && / || (preceded by the
// start, '(' or an && / || operator)
func c17Positive(matcher string) bool {
	if strings.Contains(matcher, "!") || strings.Contains(matcher, "false") || strings.Contains(matcher, "eval(") {
		return false
	}
	for i := 0; i+1 < len(matcher); i++ {
		if matcher[i] != 'g' {
			continue
		}
		j := i + 1
		for j < len(matcher) && matcher[j] >= '0' && matcher[j] <= '9' {
			j++
		}
		if j >= len(matcher) || matcher[j] != '(' {
			continue
		}
		if i > 0 && (matcher[i-1] == '_' || matcher[i-1] == '.' || (matcher[i-1] >= 'a' && matcher[i-1] <= 'z') || (matcher[i-1] >= 'A' && matcher[i-1] <= 'Z')) {
			continue // part of a longer identifier
		}
		k := i - 1
		for k >= 0 && (matcher[k] == ' ' || matcher[k] == '(') {
			k--
		}
		if k >= 0 && !(k >= 1 && (matcher[k-1:k+1] == "&&" || matcher[k-1:k+1] == "||")) {
			return false
		}
	}
	return true
}

func c17Examples(c *Ctx) {
	rng := c.Rng
	nTrans, nReq := 25, 60
	if c.Thorough() {
		nTrans, nReq = 1500, 300
	}
	dir, err := os.MkdirTemp("", "c17")
	if err != nil {
		panic(err)
	}
	defer os.RemoveAll(dir)
	for _, pr := range c17Pairs() {
		mpath := filepath.Join("/repo/examples", pr.model)
		build := func(policyPath string) *casbin.Enforcer {
			e, err := casbin.NewEnforcer(mpath, policyPath)
			if err != nil {
				return nil
			}
			if pr.setup != nil {
				pr.setup(e)
				_ = e.BuildRoleLinks()
			}
			return e
		}
		base := build(filepath.Join("/repo/examples", pr.policy))
		if base == nil {
			c.Count("pair_skipped="+pr.model, 1)
			continue
		}
		c.Count("pairs", 1)
		name := pr.model + "+" + pr.policy
		m := base.GetModel()
		eff := m["e"]["e"].Value
		matcher := m["m"]["m"].Value
		nonPriority := !strings.Contains(strings.ToLower(eff), "priority")
		allowOverride := eff == "some(where (p_eft == allow))"
		denyOverride := eff == "!some(where (p_eft == deny))"
		positive := c17Positive(matcher)
		lines := c17Lines(base)
		// the values occurring in the policy
		valSet := map[string]bool{"nobody": true}
		for _, l := range lines {
			for _, f := range l.rule {
				valSet[f] = true
			}
		}
		var vals []string
		for v := range valSet {
			vals = append(vals, v)
		}
		sort.Strings(vals)
		arity := len(m["r"]["r"].Tokens)
		var reqs [][]interface{}
		var pl []c17Line
		for _, l := range lines {
			if l.ptype == "p" {
				pl = append(pl, l)
			}
		}
		for i := 0; i < nReq; i++ {
			req := make([]interface{}, arity)
			if len(pl) > 0 && rng.Intn(10) < 7 {
				r := pl[rng.Intn(len(pl))].rule
				for j := range req {
					if j < len(r) {
						req[j] = r[j]
					} else {
						req[j] = vals[rng.Intn(len(vals))]
					}
				}
				for k := rng.Intn(3); k > 0; k-- {
					req[rng.Intn(arity)] = vals[rng.Intn(len(vals))]
				}
			} else {
				for j := range req {
					req[j] = vals[rng.Intn(len(vals))]
				}
			}
			reqs = append(reqs, req)
		}
		before := c17Decisions(base, reqs)
		nErrFree := 0
		for _, d := range before {
			if d >= 0 {
				nErrFree++
			}
		}
		c.Count("requests_error_free", nErrFree)
		c.Count("requests_error", len(before)-nErrFree)
		sameOrFail := func(what string, after []int8, detail string) {
			for i := range before {
				if before[i] >= 0 && after[i] >= 0 && before[i] != after[i] {
					c.Direct(what, fmt.Sprintf("%s request=%v before=%d after=%d %s", name, reqs[i], before[i], after[i], detail))
					return
				}
			}
		}
		randRule := func(ptype string) []string {
			n := len(m[ptype[:1]][ptype].Tokens)
			r := make([]string, n)
			var same []c17Line
			for _, l := range lines {
				if l.ptype == ptype {
					same = append(same, l)
				}
			}
			if len(same) > 0 {
				copy(r, same[rng.Intn(len(same))].rule)
			}
			for j := range r {
				if r[j] == "" || rng.Intn(2) == 0 {
					r[j] = vals[rng.Intn(len(vals))]
				}
			}
			return r
		}
		var ptypes, gtypes []string
		for t := range m["p"] {
			ptypes = append(ptypes, t)
		}
		for t := range m["g"] {
			gtypes = append(gtypes, t)
		}
		sort.Strings(ptypes)
		sort.Strings(gtypes)
		for t := 0; t < nTrans; t++ {
			c.Evals++
			kind := rng.Intn(8)
			switch kind {
			case 0: // reload the same rules from a file listing them in another order
				if !nonPriority {
					continue
				}
				perm := rng.Perm(len(lines))
				path := filepath.Join(dir, "perm.csv")
				f, _ := os.Create(path)
				w := csv.NewWriter(f)
				for _, i := range perm {
					_ = w.Write(append([]string{lines[i].ptype}, lines[i].rule...))
				}
				w.Flush()
				f.Close()
				e2 := build(path)
				if e2 == nil {
					c.Direct("the same rules listed in another order do not load", name)
					continue
				}
				sameOrFail("reloading the same rules in another order changed an error-free decision", c17Decisions(e2, reqs), fmt.Sprintf("order=%v", perm))
				c.Count("t=reload-permuted", 1)
				c.Nontrivial(fmt.Sprintf("%s perm %v", name, perm))
			case 1: // move a rule to the end through the API (remove + add)
				if !nonPriority || len(lines) == 0 {
					continue
				}
				l := lines[rng.Intn(len(lines))]
				if l.ptype[:1] == "g" && pr.domPattern {
					continue
				}
				var ok1, ok2 bool
				if l.ptype[:1] == "p" {
					ok1, _ = base.RemoveNamedPolicy(l.ptype, l.rule)
					ok2, _ = base.AddNamedPolicy(l.ptype, l.rule)
				} else {
					ok1, _ = base.RemoveNamedGroupingPolicy(l.ptype, l.rule)
					ok2, _ = base.AddNamedGroupingPolicy(l.ptype, l.rule)
				}
				if !ok1 || !ok2 {
					c.Direct("removing and re-adding a listed rule was refused", fmt.Sprintf("%s %v", name, l))
				}
				sameOrFail("moving a rule to the end of the list changed an error-free decision", c17Decisions(base, reqs), fmt.Sprintf("rule=%v", l))
				c.Count("t=move-to-end", 1)
			case 2: // add a rule that is already listed: refused, nothing changes
				if len(lines) == 0 {
					continue
				}
				l := lines[rng.Intn(len(lines))]
				var ok bool
				if l.ptype[:1] == "p" {
					ok, _ = base.AddNamedPolicy(l.ptype, l.rule)
				} else {
					ok, _ = base.AddNamedGroupingPolicy(l.ptype, l.rule)
				}
				if ok {
					c.Direct("adding a rule that is already listed reported a change", fmt.Sprintf("%s %v", name, l))
				}
				sameOrFail("adding an already listed rule changed an error-free decision", c17Decisions(base, reqs), fmt.Sprintf("rule=%v", l))
				c.Count("t=add-duplicate", 1)
			case 3: // add a fresh rule or link, look, remove it again
				sec := "p"
				if len(gtypes) > 0 && rng.Intn(2) == 0 && !pr.domPattern {
					sec = "g"
				}
				var pt string
				if sec == "p" {
					pt = ptypes[rng.Intn(len(ptypes))]
				} else {
					pt = gtypes[rng.Intn(len(gtypes))]
				}
				if len(m[sec][pt].ParamsTokens) > 0 {
					continue // conditional role definitions need link functions
				}
				r := randRule(pt)
				var ok bool
				if sec == "p" {
					ok, _ = base.AddNamedPolicy(pt, r)
				} else {
					ok, _ = base.AddNamedGroupingPolicy(pt, r)
				}
				if !ok {
					continue // was listed
				}
				mid := c17Decisions(base, reqs)
				empty := len(m["p"]["p"].Policy) == 1 && sec == "p" && pt == "p" // finding D24: the policy was empty before
				for i := range before {
					if before[i] < 0 || mid[i] < 0 {
						continue
					}
					if denyOverride && sec == "p" && before[i] == 0 && mid[i] == 1 {
						c.Direct("adding a rule granted a request under deny-override", fmt.Sprintf("%s added %s %v request=%v", name, pt, r, reqs[i]))
						break
					}
					if empty {
						continue
					}
					if allowOverride && (sec == "p" || positive) && before[i] == 1 && mid[i] == 0 {
						c.Direct("adding a rule or role link turned an allowed request into a denied one (allow-override, matcher without negation)", fmt.Sprintf("%s added %s %v request=%v", name, pt, r, reqs[i]))
						break
					}
					if denyOverride && sec == "p" && before[i] == 0 && mid[i] == 1 {
						c.Direct("adding a rule granted a request under deny-override", fmt.Sprintf("%s added %s %v request=%v", name, pt, r, reqs[i]))
						break
					}
				}
				if sec == "p" {
					ok, _ = base.RemoveNamedPolicy(pt, r)
				} else {
					ok, _ = base.RemoveNamedGroupingPolicy(pt, r)
				}
				if !ok {
					c.Direct("removing the rule just added was refused", fmt.Sprintf("%s %s %v", name, pt, r))
				}
				sameOrFail("adding a fresh rule or link and removing it again changed an error-free decision", c17Decisions(base, reqs), fmt.Sprintf("%s %v", pt, r))
				c.Count("t=add-remove-fresh-"+sec, 1)
				changed := false
				for i := range before {
					if before[i] != mid[i] {
						changed = true
					}
				}
				if changed {
					c.Nontrivial(fmt.Sprintf("%s add %s %v", name, pt, r))
				}
			case 4: // remove a listed rule or link, look, add it back
				if len(lines) == 0 {
					continue
				}
				l := lines[rng.Intn(len(lines))]
				if l.ptype[:1] == "g" && pr.domPattern {
					continue
				}
				if len(m[l.ptype[:1]][l.ptype].ParamsTokens) > 0 {
					continue
				}
				if l.ptype[:1] == "p" {
					_, _ = base.RemoveNamedPolicy(l.ptype, l.rule)
				} else {
					_, _ = base.RemoveNamedGroupingPolicy(l.ptype, l.rule)
				}
				mid := c17Decisions(base, reqs)
				empty := len(m["p"]["p"].Policy) == 0 // finding D24: the empty policy answers by the pseudo-rule
				for i := range before {
					if before[i] < 0 || mid[i] < 0 || empty {
						continue
					}
					if allowOverride && (l.ptype[:1] == "p" || positive) && before[i] == 0 && mid[i] == 1 {
						c.Direct("removing a rule or role link granted a request (allow-override, matcher without negation)", fmt.Sprintf("%s removed %v request=%v", name, l, reqs[i]))
						break
					}
				}
				// put it back where it was: rebuild the whole list in the original order
				if l.ptype[:1] == "p" {
					_, _ = base.AddNamedPolicy(l.ptype, l.rule)
				} else {
					_, _ = base.AddNamedGroupingPolicy(l.ptype, l.rule)
				}
				if nonPriority {
					sameOrFail("removing a rule and adding it back changed an error-free decision", c17Decisions(base, reqs), fmt.Sprintf("%v", l))
				} else {
					// priority effects depend on the order: restore the original order exactly
					base = build(filepath.Join("/repo/examples", pr.policy))
				}
				c.Count("t=remove-readd", 1)
			case 6: // remove every role link of one subject, then add them back: the same rules again
				if pr.domPattern || len(gtypes) == 0 {
					continue
				}
				var gl []c17Line
				for _, l := range lines {
					if l.ptype[:1] == "g" && len(m["g"][l.ptype].ParamsTokens) == 0 {
						gl = append(gl, l)
					}
				}
				if len(gl) == 0 {
					continue
				}
				pick := gl[rng.Intn(len(gl))]
				var mine []c17Line
				for _, l := range gl {
					if l.ptype == pick.ptype && l.rule[0] == pick.rule[0] {
						mine = append(mine, l)
					}
				}
				for _, l := range mine {
					_, _ = base.RemoveNamedGroupingPolicy(l.ptype, l.rule)
				}
				for _, l := range mine {
					_, _ = base.AddNamedGroupingPolicy(l.ptype, l.rule)
				}
				if nonPriority {
					sameOrFail("removing all role links of a subject and adding them back changed an error-free decision", c17Decisions(base, reqs), fmt.Sprintf("subject=%s links=%v", pick.rule[0], mine))
				} else {
					base = build(filepath.Join("/repo/examples", pr.policy))
				}
				c.Count("t=relink-subject", 1)
			case 7: // deny-override from an empty policy: the first rule, whatever it is, never grants
				if !denyOverride {
					continue
				}
				e2, err := casbin.NewEnforcer(mpath)
				if err != nil {
					continue
				}
				if pr.setup != nil {
					pr.setup(e2)
				}
				for _, l := range lines {
					if l.ptype[:1] == "g" {
						_, _ = e2.AddNamedGroupingPolicy(l.ptype, l.rule)
					}
				}
				d0 := c17Decisions(e2, reqs)
				r := randRule("p")
				_, _ = e2.AddNamedPolicy("p", r)
				d1 := c17Decisions(e2, reqs)
				for i := range d0 {
					if d0[i] == 0 && d1[i] == 1 {
						c.Direct("adding a rule granted a request under deny-override", fmt.Sprintf("%s: empty policy, added p %v request=%v", name, r, reqs[i]))
						break
					}
				}
				c.Count("t=first-rule-deny-override", 1)
			case 5: // the same rules given in another order through the API to a fresh enforcer
				if !nonPriority {
					continue
				}
				e2, err := casbin.NewEnforcer(mpath)
				if err != nil {
					continue
				}
				if pr.setup != nil {
					pr.setup(e2)
				}
				perm := rng.Perm(len(lines))
				for _, i := range perm {
					l := lines[i]
					if l.ptype[:1] == "p" {
						_, _ = e2.AddNamedPolicy(l.ptype, l.rule)
					} else {
						_, _ = e2.AddNamedGroupingPolicy(l.ptype, l.rule)
					}
				}
				sameOrFail("the same rules added in another order give a different error-free decision", c17Decisions(e2, reqs), fmt.Sprintf("order=%v", perm))
				c.Count("t=api-permuted", 1)
			}
		}
		c.Sample(fmt.Sprintf("%s: %d rules, %d requests (%d error-free), allow-override=%v positive=%v", name, len(lines), len(reqs), nErrFree, allowOverride, positive))
	}
}

// generated positive matchers over the modelled fragment, through the protocol (model = implementation)
func randPositiveExpr(rng *rand.Rand, depth int, gdom bool) *Ex {
	if depth <= 0 || rng.Intn(4) == 0 {
		switch k := rng.Intn(10); {
		case k < 3:
			i := rng.Intn(3)
			return Eq(RTok(i), PTok(i))
		case k < 6:
			if gdom {
				return G3("g", RTok(0), PTok(0), LitS([]string{"d1", "d2"}[rng.Intn(2)]))
			}
			return G2("g", RTok(0), PTok(0))
		case k < 7:
			return Call2("keyMatch", RTok(1), PTok(1))
		case k < 8:
			return Bin([]string{"lt", "le", "gt", "ge"}[rng.Intn(4)], RTok(1), PTok(1))
		case k < 9:
			return Bin("ne", RTok(2), PTok(2)) // a negation of something that is not a role test
		default:
			return Not(Eq(RTok(2), LitS("write")))
		}
	}
	if rng.Intn(2) == 0 {
		return Bin("and", randPositiveExpr(rng, depth-1, gdom), randPositiveExpr(rng, depth-1, gdom))
	}
	return Bin("or", randPositiveExpr(rng, depth-1, gdom), randPositiveExpr(rng, depth-1, gdom))
}

func c17Generated(c *Ctx) {
	rng := c.Rng
	n := 60
	if c.Thorough() {
		n = 3000
	}
	plainNames := []string{"alice", "bob", "carol", "admin", "root", "staff"}
	// every fourth case: names whose concatenations coincide ("a"+"bc" = "ab"+"c"): what Enforce remembers about
	// one pair of names must not answer for another, in whatever order the requests come
	concatNames := []string{"a", "ab", "abc", "bc", "c", "b"}
	objs := []string{"data1", "data2", "/data/*"}
	acts := []string{"read", "write"}
	for i := 0; i < n; i++ {
		names := plainNames
		if i%4 == 3 {
			names = concatNames
		}
		gdom := rng.Intn(4) == 0
		positive := rng.Intn(5) != 0
		var mx *Ex
		if positive {
			mx = randPositiveExpr(rng, 1+rng.Intn(3), gdom)
		} else {
			// a negated role test somewhere: monotonicity is not claimed, only model = implementation
			mx = Bin("and", Not(G2("g", RTok(0), LitS("root"))), randPositiveExpr(rng, 1+rng.Intn(2), false))
			gdom = false
		}
		eff := effAllow
		denyOv := rng.Intn(4) == 0
		ms := NewMSpec().AddR("r", "sub", "obj", "act")
		if denyOv {
			eff = effDeny
			ms.AddP("p", "sub", "obj", "act", "eft")
		} else {
			ms.AddP("p", "sub", "obj", "act")
		}
		if gdom {
			ms.AddG("g", 3)
		} else {
			ms.AddG("g", 2)
		}
		ms.AddE("e", eff).AddM("m", "r", "p", mx)
		s := StartCase(c, ms, CaseOpts{OraUniverse: append(append([]string(nil), objs...), "/data/x", "")})
		if s == nil {
			continue
		}
		s.Do(c, EOp{Kind: "mpos", Args: []string{proto17Bool(positive)}})
		mkRule := func() []string {
			r := []string{names[rng.Intn(len(names))], objs[rng.Intn(len(objs))], acts[rng.Intn(2)]}
			if denyOv {
				// a third of the rules carry an effect that is neither allow nor deny (indeterminate)
				r = append(r, []string{"allow", "deny", "none"}[rng.Intn(3)])
			}
			// now and then a rule one field short (the management API accepts it): every request that reaches
			// it is answered with an error, and an error is not a decision that later changes may flip
			if i%5 == 4 && rng.Intn(4) == 0 {
				r = r[:len(r)-1]
			}
			return r
		}
		mkLink := func() []string {
			l := []string{names[rng.Intn(len(names))], names[rng.Intn(len(names))]}
			if gdom {
				l = append(l, []string{"d1", "d2"}[rng.Intn(2)])
			}
			return l
		}
		var reqs [][]V
		for k := 0; k < 10; k++ {
			reqs = append(reqs, []V{VS(names[rng.Intn(len(names))]), VS([]string{"data1", "data2", "/data/x"}[rng.Intn(3)]), VS(acts[rng.Intn(2)])})
		}
		look := func() []string {
			out := make([]string, len(reqs))
			for k, q := range reqs {
				out[k] = s.Do(c, EOp{Kind: "enf", Req: q})
			}
			return out
		}
		// a start state, then a run of additions and removals
		for k := rng.Intn(4); k > 0; k-- {
			s.Do(c, EOp{Kind: "add", Sec: "p", PType: "p", Rule: mkRule()})
		}
		for k := rng.Intn(4); k > 0; k-- {
			s.Do(c, EOp{Kind: "add", Sec: "g", PType: "g", Rule: mkLink()})
		}
		// churn in the middle of a chain: x -> u -> r, drop and restore u -> r
		if !gdom && rng.Intn(2) == 0 {
			x, u, r := names[rng.Intn(3)], names[3], names[4]
			for _, l := range [][]string{{x, u}, {u, r}} {
				s.Do(c, EOp{Kind: "add", Sec: "g", PType: "g", Rule: l})
			}
			s.Do(c, EOp{Kind: "add", Sec: "p", PType: "p", Rule: append([]string{r, "data1", "read"}, map[bool][]string{true: {"allow"}, false: {}}[denyOv]...)})
			a := look()
			s.Do(c, EOp{Kind: "rm", Sec: "g", PType: "g", Rule: []string{u, r}})
			s.Do(c, EOp{Kind: "add", Sec: "g", PType: "g", Rule: []string{u, r}})
			b := look()
			for k := range a {
				if a[k] != "err" && b[k] != "err" && a[k] != b[k] {
					c.Direct("removing a role link and adding it back changed an error-free decision", fmt.Sprintf("matcher=%s chain %s->%s->%s request=%v before=%s after=%s", mx.Text("r", "p", ms.R["r"], ms.P["p"]), x, u, r, reqs[k], a[k], b[k]))
				}
			}
		}
		prev := look()
		for step := 0; step < 6; step++ {
			add := rng.Intn(3) != 0
			sec := []string{"p", "g"}[rng.Intn(2)]
			var rule []string
			if add {
				if sec == "p" {
					rule = mkRule()
				} else {
					rule = mkLink()
				}
			} else {
				pol := s.E.GetModel()[sec][sec].Policy
				if len(pol) == 0 {
					continue
				}
				rule = append([]string(nil), pol[rng.Intn(len(pol))]...)
			}
			nBefore := len(s.E.GetModel()["p"]["p"].Policy)
			kind := "add"
			if !add {
				kind = "rm"
			}
			if res := s.Do(c, EOp{Kind: kind, Sec: sec, PType: sec, Rule: rule}); res != "true" {
				continue
			}
			nAfter := len(s.E.GetModel()["p"]["p"].Policy)
			cur := look()
			d24 := nBefore == 0 || nAfter == 0
			for k := range reqs {
				if prev[k] == "err" || cur[k] == "err" {
					continue
				}
				if denyOv && add && sec == "p" && prev[k] == "false" && cur[k] == "true" {
					c.Direct("adding a rule granted a request under deny-override", fmt.Sprintf("matcher=%s %s %s %v request=%v before=%s after=%s", mx.Text("r", "p", ms.R["r"], ms.P["p"]), kind, sec, rule, reqText(reqs[k]), prev[k], cur[k]))
				}
				if d24 {
					continue
				}
				what := fmt.Sprintf("matcher=%s effect=%s %s %s %v request=%v before=%s after=%s", mx.Text("r", "p", ms.R["r"], ms.P["p"]), eff, kind, sec, rule, reqs[k], prev[k], cur[k])
				switch {
				case !denyOv && add && (sec == "p" || positive) && prev[k] == "true" && cur[k] == "false":
					c.Direct("adding a rule or role link turned an allowed request into a denied one (allow-override, matcher without negation of a role test)", what)
				case !denyOv && !add && (sec == "p" || positive) && prev[k] == "false" && cur[k] == "true":
					c.Direct("removing a rule or role link granted a request (allow-override, matcher without negation of a role test)", what)
				case denyOv && add && sec == "p" && prev[k] == "false" && cur[k] == "true":
					c.Direct("adding a rule granted a request under deny-override", what)
				}
			}
			c.Count("generated_steps", 1)
			prev = cur
		}
		c.Evals++
		if i%37 == 0 {
			c.Sample("generated: " + mx.Text("r", "p", ms.R["r"], ms.P["p"]))
		}
	}
}

func proto17Bool(b bool) string {
	if b {
		return "true"
	}
	return "false"
}

// a domain matching function with a user who has several roles in a pattern domain: the managers of
// concrete domains are derived from the pattern domains, in whatever order the rules arrive
// c17ConcatNames: names whose concatenations coincide, every set of <= 2 of four links, the requests asked in
// one order, then (after an unrelated link was added, which starts a new memo) in the reverse order: every
// decision is compared with the model and the two passes with each other
func c17ConcatNames(c *Ctx) {
	ms := rbacSpec(false, false)
	cand := [][]string{{"a", "bc"}, {"ab", "c"}, {"a", "b"}, {"b", "c"}}
	rules := [][]string{{"bc", "data1", "read"}, {"c", "data2", "read"}, {"b", "data1", "write"}}
	var reqs [][]V
	for _, u := range []string{"a", "ab", "b", "bc", "c"} {
		for _, oa := range [][2]string{{"data1", "read"}, {"data2", "read"}, {"data1", "write"}} {
			reqs = append(reqs, []V{VS(u), VS(oa[0]), VS(oa[1])})
		}
	}
	for _, idx := range subsetsUpTo(len(cand), 2) {
		s := StartCase(c, ms, CaseOpts{})
		if s == nil {
			continue
		}
		s.Do(c, EOp{Kind: "adds", Sec: "p", PType: "p", Ex: true, Rules: rules})
		if links := pick(cand, idx); len(links) > 0 {
			s.Do(c, EOp{Kind: "adds", Sec: "g", PType: "g", Ex: true, Rules: links})
		}
		fwd := make([]string, len(reqs))
		for k, q := range reqs {
			fwd[k] = s.Do(c, EOp{Kind: "enf", Req: q})
		}
		s.Do(c, EOp{Kind: "add", Sec: "g", PType: "g", Rule: []string{"x", "y"}})
		for k := len(reqs) - 1; k >= 0; k-- {
			if back := s.Do(c, EOp{Kind: "enf", Req: reqs[k]}); back != fwd[k] {
				c.Direct("adding an unrelated role link (and asking the requests in another order) changed a decision", fmt.Sprintf("links=%v request=%v first=%s then=%s", pick(cand, idx), reqs[k], fwd[k], back))
			}
		}
		c.Evals++
		c.Count("concat_name_cases", 1)
	}
}

func c17DomainPatternOrders(c *Ctx) {
	mpath := "/repo/examples/rbac_with_domain_pattern_model.conf"
	rules := [][]string{
		{"p", "reader", "domain1", "data1", "read"}, {"p", "writer", "domain1", "data1", "write"}, {"p", "reader", "domain2", "data2", "read"},
		{"g", "alice", "reader", "*"}, {"g", "alice", "writer", "*"}, {"g", "bob", "reader", "domain1"}, {"g", "bob", "writer", "domain2"},
	}
	var reqs [][]interface{}
	for _, u := range []string{"alice", "bob"} {
		for _, d := range []string{"domain1", "domain2", "domain3"} {
			for _, oa := range [][2]string{{"data1", "read"}, {"data1", "write"}, {"data2", "read"}} {
				reqs = append(reqs, []interface{}{u, d, oa[0], oa[1]})
			}
		}
	}
	n := 40
	if c.Thorough() {
		n = 2000
	}
	var ref []int8
	var refOrder []int
	for i := 0; i < n; i++ {
		perm := c.Rng.Perm(len(rules))
		if i == 0 {
			for j := range perm {
				perm[j] = j
			}
		}
		e, err := casbin.NewEnforcer(mpath)
		if err != nil {
			return
		}
		e.AddNamedDomainMatchingFunc("g", "keyMatch2", util.KeyMatch2)
		viaAPI := i%2 == 1
		if viaAPI {
			for _, j := range perm {
				r := rules[j]
				if r[0] == "p" {
					_, _ = e.AddPolicy(r[1:])
				} else {
					_, _ = e.AddGroupingPolicy(r[1:])
				}
			}
		} else {
			var sb strings.Builder
			for _, j := range perm {
				sb.WriteString(strings.Join(rules[j], ", ") + "\n")
			}
			path := scratchFile() + ".c17dom"
			_ = os.WriteFile(path, []byte(sb.String()), 0o644)
			e.SetAdapter(fileadapter.NewAdapter(path))
			if err := e.LoadPolicy(); err != nil {
				continue
			}
		}
		d := c17Decisions(e, reqs)
		c.Evals++
		c.Count("domain_pattern_orders", 1)
		if ref == nil {
			ref, refOrder = d, perm
			continue
		}
		for k := range d {
			if d[k] >= 0 && ref[k] >= 0 && d[k] != ref[k] {
				c.Direct("with a domain matching function the decision depends on the order in which the same rules were loaded or added", fmt.Sprintf("request=%v order %v (api=%v) decides %d, order %v decides %d", reqs[k], perm, viaAPI, d[k], refOrder, ref[k]))
				return
			}
		}
		c.Nontrivial(fmt.Sprintf("dompat %v %v", perm, viaAPI))
		// adding a rule and removing it again leaves every decision unchanged: a link of a subject that has no
		// other link, in a pattern domain, in a concrete domain with rules of its own and in one without (for
		// such a subject the removal reaches no link another listed rule stands for, cf. finding D15)
		reqsC := append([][]interface{}(nil), reqs...)
		for _, dm := range []string{"domain1", "domain2", "domain3"} {
			for _, oa := range [][2]string{{"data1", "read"}, {"data1", "write"}, {"data2", "read"}} {
				reqsC = append(reqsC, []interface{}{"carol", dm, oa[0], oa[1]})
			}
		}
		// every other round on an enforcer whose pattern domain holds no link of its own, so that the link added
		// and removed is the pattern domain's only (and last) one
		if i%2 == 0 {
			e2, err := casbin.NewEnforcer(mpath)
			if err != nil {
				return
			}
			e2.AddNamedDomainMatchingFunc("g", "keyMatch2", util.KeyMatch2)
			for _, j := range perm {
				r := rules[j]
				if r[len(r)-1] == "*" {
					continue
				}
				if r[0] == "p" {
					_, _ = e2.AddPolicy(r[1:])
				} else {
					_, _ = e2.AddGroupingPolicy(r[1:])
				}
			}
			e = e2
		}
		before := c17Decisions(e, reqsC)
		for _, l := range [][]string{{"carol", "reader", "*"}, {"carol", "writer", "domain2"}, {"carol", "reader", "domain3"}} {
			if ok, _ := e.AddGroupingPolicy(l); !ok {
				continue
			}
			during := c17Decisions(e, reqsC)
			_, _ = e.RemoveGroupingPolicy(l)
			after := c17Decisions(e, reqsC)
			for k := range after {
				if before[k] >= 0 && after[k] >= 0 && before[k] != after[k] {
					c.Direct("adding a role link and removing it again changed a decision (domain matching function)", fmt.Sprintf("rules in order %v (api=%v), link %v added and removed: request=%v before=%d with the link=%d after=%d", perm, viaAPI, l, reqsC[k], before[k], during[k], after[k]))
					return
				}
			}
			c.Count("domain_pattern_add_remove_checks", 1)
		}
	}
}

func runC17(c *Ctx) {
	c.Rule = "metamorphic relations on the real enforcer for 31 shipped examples/ model+policy pairs (regex/glob/ip/keyMatch mixtures, pattern role managers, eval, ABAC; set up as their tests do) x seeded random transformations (reload from a file listing the same rules in another order, the same rules added in another order through the API, move a rule to the end, add a listed rule, add and remove a fresh rule or link, remove and re-add a listed rule or link, remove all role links of a subject and add them back) x requests drawn from the values occurring in the policy: every error-free decision must be unchanged (non-priority effects), no allowed request denied after an addition / no denied request granted after a removal (allow-override, matcher without negation), no grant after an addition under deny-override; a domain-pattern model whose user has several roles in a pattern domain, the same 7 rules loaded / added in seeded random orders; a pattern role manager whose names cover each other (/book/*, /book/:id, /:any/*; each linked to its own group): every order of two or three of the links, added or loaded, must give the same decisions (pattern texts as requests included) and the third link must take nothing away; plus generated models with random positive matchers (and a negated role test for contrast) over g, keyMatch, comparisons: every call and decision compared with the Lean model, the same relations checked along random add/remove runs; non-trivial = a transformation that permuted rules or changed some decision; distinct = (pair, transformation)"
	c17Examples(c)
	c17DomainPatternOrders(c)
	c17MutualPatterns(c)
	c17NameAndDomainPatterns(c)
	c17ConcatNames(c)
	c17Generated(c)
}

// c17MutualPatterns: a pattern role manager whose names cover each other ("/book/*" matches the text
// "/book/:id" under KeyMatch2 and the other way round; "/:any/*" covers both), each linked to a group of its
// own: the decisions — also for requests naming a pattern text itself — must not depend on the order in which
// the links arrive (through the API or from a file), and adding a link must not take a permission away.
func c17MutualPatterns(c *Ctx) {
	mpath := "/repo/examples/rbac_with_pattern_model.conf"
	pol := [][]string{{"alice", "star_group", "GET"}, {"bob", "id_group", "GET"}, {"carol", "any_group", "GET"}}
	links := [][]string{{"/book/*", "star_group"}, {"/book/:id", "id_group"}, {"/:any/*", "any_group"}}
	objs := []string{"/book/*", "/book/:id", "/:any/*", "/book/1", "/pen/1", "star_group", "id_group", "any_group"}
	subs := []string{"alice", "bob", "carol"}
	dec := func(e *casbin.Enforcer) string {
		var sb strings.Builder
		for _, s := range subs {
			for _, o := range objs {
				ok, err := e.Enforce(s, o, "GET")
				switch {
				case err != nil:
					sb.WriteByte('E')
				case ok:
					sb.WriteByte('1')
				default:
					sb.WriteByte('0')
				}
			}
		}
		return sb.String()
	}
	build := func(order []int, viaFile bool) *casbin.Enforcer {
		e, err := casbin.NewEnforcer(mpath)
		if err != nil {
			panic(err)
		}
		e.AddNamedMatchingFunc("g2", "KeyMatch2", util.KeyMatch2)
		if viaFile {
			var sb strings.Builder
			for _, p := range pol {
				sb.WriteString("p, " + strings.Join(p, ", ") + "\n")
			}
			for _, j := range order {
				sb.WriteString("g2, " + strings.Join(links[j], ", ") + "\n")
			}
			path := scratchFile()
			if err := os.WriteFile(path, []byte(sb.String()), 0o644); err != nil {
				panic(err)
			}
			e.SetAdapter(fileadapter.NewAdapter(path))
			if err := e.LoadPolicy(); err != nil {
				panic(err)
			}
			return e
		}
		_, _ = e.AddPolicies(cloneRules(pol))
		for _, j := range order {
			_, _ = e.AddNamedGroupingPolicy("g2", append([]string(nil), links[j]...))
		}
		return e
	}
	orders := [][]int{{0, 1, 2}, {0, 2, 1}, {1, 0, 2}, {1, 2, 0}, {2, 0, 1}, {2, 1, 0}, {0, 1}, {1, 0}, {0, 2}, {2, 0}, {1, 2}, {2, 1}}
	ref := map[string]string{}
	for _, viaFile := range []bool{false, true} {
		for _, order := range orders {
			key := fmt.Sprint(len(order) == 3, order[0]+order[1]) // the set of links
			if len(order) == 3 {
				key = "all"
			}
			got := dec(build(order, viaFile))
			c.Evals++
			c.Count("mutual_pattern_orders", 1)
			if want, seen := ref[key]; !seen {
				ref[key] = got
			} else if got != want {
				c.Direct("decisions over a pattern role manager depend on the order in which the links arrive", fmt.Sprintf("links %v in order %v (from a file: %v)\ndecisions %s\nthe same links in another order gave %s\n(subjects %v x objects %v)", links, order, viaFile, got, want, subs, objs))
			}
		}
	}
	// monotone: every permission held with two of the links is still held with all three
	for _, order := range orders {
		if len(order) != 2 {
			continue
		}
		two, all := ref[fmt.Sprint(false, order[0]+order[1])], ref["all"]
		for i := range two {
			if two[i] == '1' && all[i] != '1' {
				c.Direct("adding a role link took a permission away (pattern role manager)", fmt.Sprintf("links %v: with %v decisions %s, with all three %s (subjects %v x objects %v)", links, order, two, all, subs, objs))
				break
			}
		}
	}
	c.Nontrivial("mutual-patterns")
}
