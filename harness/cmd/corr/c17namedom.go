package main

import (
	"fmt"

	"github.com/casbin/casbin/v2"
	"github.com/casbin/casbin/v2/util"
)

const c17NameDomText = `
[request_definition]
r = sub, dom, obj, act
[policy_definition]
p = sub, dom, obj, act
[role_definition]
g = _, _, _
[policy_effect]
e = some(where (p.eft == allow))
[matchers]
m = r.sub == p.sub && g(r.obj, p.obj, r.dom) && r.dom == p.dom && r.act == p.act
`

// Role names matched by keyMatch2 AND domains matched by keyMatch on one role definition (resources grouped by
// pattern, per domain and in the pattern domain "*").  Allow-override, no negation.  Along random runs of link
// additions and removals: (1) adding a link and removing it again restores every decision, (2) adding a link
// never revokes and removing one never grants, (3) the decisions are those of a fresh enforcer given the listed
// rules (in listed order and reversed).  The pool never holds the same (name, role) pair in a pattern domain and in
// a concrete domain it covers (that is finding D15).  Implementation only.
func c17NameAndDomainPatterns(c *Ctx) {
	pool := [][]string{
		{"/book/1", "shelf", "*"}, {"/book/:id", "book_group", "*"}, {"/pen/1", "pen_group", "domain1"}, {"/pen/:id", "pens", "domain2"},
		{"shelf", "furniture", "domain1"}, {"book_group", "library", "*"}, {"/book/2", "rare", "domain2"}, {"pen_group", "stationery", "domain1"},
	}
	policies := [][]string{
		{"alice", "domain1", "book_group", "read"}, {"alice", "domain2", "book_group", "read"}, {"alice", "domain1", "pen_group", "read"},
		{"bob", "domain2", "pens", "read"}, {"bob", "domain1", "library", "read"}, {"bob", "domain2", "shelf", "read"}, {"alice", "domain1", "furniture", "read"},
	}
	var reqs [][]interface{}
	for _, u := range []string{"alice", "bob"} {
		for _, d := range []string{"domain1", "domain2", "domain3"} {
			for _, o := range []string{"/book/1", "/book/2", "/pen/1", "/pen/7", "shelf", "book_group"} {
				reqs = append(reqs, []interface{}{u, d, o, "read"})
			}
		}
	}
	build := func(links [][]string) *casbin.Enforcer {
		e, err := casbin.NewEnforcer(mustModel(c17NameDomText))
		if err != nil {
			return nil
		}
		e.AddNamedMatchingFunc("g", "keyMatch2", util.KeyMatch2)
		e.AddNamedDomainMatchingFunc("g", "keyMatch", util.KeyMatch)
		_, _ = e.AddPolicies(cloneRules(policies))
		for _, l := range links {
			_, _ = e.AddGroupingPolicy(append([]string(nil), l...))
		}
		return e
	}
	n := 400
	if c.Thorough() {
		n = 2500
	}
	for i := 0; i < n; i++ {
		e := build(nil)
		if e == nil {
			return
		}
		var hist []string
		steps := 3 + c.Rng.Intn(10)
		for s := 0; s < steps; s++ {
			l := pool[c.Rng.Intn(len(pool))]
			before := c17Decisions(e, reqs)
			listedBefore, _ := e.GetGroupingPolicy()
			has, _ := e.HasGroupingPolicy(l)
			if has {
				_, _ = e.RemoveGroupingPolicy(append([]string(nil), l...))
				hist = append(hist, fmt.Sprintf("rm%v", l))
				after := c17Decisions(e, reqs)
				for k := range after {
					if before[k] == 0 && after[k] == 1 {
						c.Direct("removing a role link granted a request (allow-override, no negation; name and domain matching functions)", fmt.Sprintf("%v request=%v", hist, reqs[k]))
						return
					}
				}
			} else {
				_, _ = e.AddGroupingPolicy(append([]string(nil), l...))
				hist = append(hist, fmt.Sprintf("add%v", l))
				during := c17Decisions(e, reqs)
				for k := range during {
					if before[k] == 1 && during[k] == 0 {
						c.Direct("adding a role link revoked a request (allow-override, no negation; name and domain matching functions)", fmt.Sprintf("%v request=%v", hist, reqs[k]))
						return
					}
				}
				if c.Rng.Intn(2) == 0 {
					// round trip
					_, _ = e.RemoveGroupingPolicy(append([]string(nil), l...))
					hist = append(hist, fmt.Sprintf("rm%v", l))
					after := c17Decisions(e, reqs)
					for k := range after {
						if before[k] >= 0 && after[k] >= 0 && before[k] != after[k] {
							c.Direct("adding a role link and removing it again changed a decision (name and domain matching functions)", fmt.Sprintf("%v (listed before: %v) request=%v before=%d with the link=%d after=%d", hist, listedBefore, reqs[k], before[k], during[k], after[k]))
							return
						}
					}
					c.Count("name_domain_pattern_round_trips", 1)
				}
			}
			c.Evals++
		}
		listed, _ := e.GetGroupingPolicy()
		live := c17Decisions(e, reqs)
		rev := make([][]string, len(listed))
		for j := range listed {
			rev[len(listed)-1-j] = listed[j]
		}
		for _, order := range [][][]string{listed, rev} {
			f := build(order)
			fresh := c17Decisions(f, reqs)
			for k := range live {
				if live[k] >= 0 && fresh[k] >= 0 && live[k] != fresh[k] {
					c.Direct("after additions and removals of role links the decision differs from a fresh enforcer given the listed rules (name and domain matching functions)", fmt.Sprintf("%v listed=%v fresh order=%v request=%v live=%d fresh=%d", hist, listed, order, reqs[k], live[k], fresh[k]))
					return
				}
			}
		}
		c.Count("name_domain_pattern_runs", 1)
		c.Nontrivial(fmt.Sprintf("namedom %v", hist))
	}
}
