package main

import (
	"fmt"
	"os"
	"strings"

	"github.com/casbin/casbin/v2"
	fileadapter "github.com/casbin/casbin/v2/persist/file-adapter"
)

func init() { registry["C18"] = runC18 }

func runC18(c *Ctx) {
	maxLines, depth := 2, 2
	if c.Thorough() {
		maxLines, depth = 3, 3
	}
	c18UnfilteredTypes(c)
	c.Exhaustive = true
	c.Rule = fmt.Sprintf("all policy files of <= %d lines over a 10-line universe (p and g rules, padded fields, a comment, a blank, a quoted field, a rule of the wrong arity which makes every load that keeps it fail), plus all files of <= 2 lines over a 6-line universe of what surrounds the fields (and a # inside a value) (blanks and a tab after the last field, a line of blanks only, an indented comment) x all call sequences (quick tier: single calls on every file, sequences of two on every fourth; thorough tier: single calls on the 3-line files, sequences of two on the shorter files and of three on every sixth of those; the top depth is %d) over {LoadFilteredPolicy, LoadIncrementalFilteredPolicy with 10 filters (per type, empty = wildcard, nil, longer than the rule, blank-padded values) and a value of the wrong type, LoadPolicy, SavePolicy, AddPolicy} on the real FilteredAdapter with real temp files: result, IsFiltered, listed rules, links, decisions and the file bytes after every call are compared with the Lean model; the same loads through SyncedEnforcer and through a DistributedEnforcer with a dispatcher must give what the plain enforcer gives (all sequences of <= 3 distinct loads out of 6); on the implementation: a filtered load lists exactly the full load's rules whose leading fields equal the filter's non-empty values, decisions equal those of a fresh enforcer given the subset, SavePolicy while filtered is refused and leaves the file bytes unchanged, SavePolicy never succeeds while the enforcer may hold a partial view (a filtered load, completed or failed, since the last successful full load); non-trivial = a sequence with a filtered load that kept some and dropped some rules; distinct = (file, sequence)", maxLines, depth)
	lineUniverse := []string{"p, alice, data1, read", "p, bob, data2, write", "p,alice ,  data2,write", "g, alice, admin", "g, bob, admin",
		"p, admin, data1, read", "# comment", "", "p, \"alice\", data3, read", "p, carol, data1"}
	filters := []struct {
		f   *fileadapter.Filter
		nil bool
	}{
		{nil, true},
		{&fileadapter.Filter{}, false},
		{&fileadapter.Filter{P: []string{"alice"}}, false},
		{&fileadapter.Filter{P: []string{"", "data1"}}, false},
		{&fileadapter.Filter{P: []string{" alice ", "", "read"}}, false},
		{&fileadapter.Filter{P: []string{"bob"}, G: []string{"bob"}}, false},
		{&fileadapter.Filter{G: []string{"", "admin"}}, false},
		{&fileadapter.Filter{P: []string{"alice", "", "", ""}}, false},
		{&fileadapter.Filter{P: []string{"nobody"}, G: []string{"nobody"}}, false},
		// only the last value is set: a line one field short must be skipped, not indexed past its end
		{&fileadapter.Filter{P: []string{"", "", "read"}, G: []string{"", "admin"}}, false},
	}
	c18Wrappers(c)
	var alpha []EOp
	for _, f := range filters {
		alpha = append(alpha, EOp{Kind: "loadf", Filter: f.f, NilFilter: f.nil}, EOp{Kind: "loadif", Filter: f.f, NilFilter: f.nil})
	}
	alpha = append(alpha, EOp{Kind: "loadf", BadFilter: true}, EOp{Kind: "loadif", BadFilter: true})
	alpha = append(alpha, EOp{Kind: "load"}, EOp{Kind: "savefa"}, EOp{Kind: "add", Sec: "p", PType: "p", Rule: []string{"zed", "data9", "read"}})
	probes := []EOp{{Kind: "obs", Args: []string{"pol", "p", "p"}}, {Kind: "obs", Args: []string{"pol", "g", "g"}}, {Kind: "obs", Args: []string{"fatext"}},
		{Kind: "haslink", PType: "g", Args: []string{"alice", "admin"}}, {Kind: "enf", Req: []V{VS("alice"), VS("data1"), VS("read")}}, {Kind: "enf", Req: []V{VS("bob"), VS("data1"), VS("read")}}}
	ms := rbacSpec(false, false)
	var files [][]int
	for _, idx := range seqsUpTo(len(lineUniverse), maxLines) {
		if len(idx) > 0 {
			files = append(files, idx)
		}
	}
	if !c.Thorough() {
		// quick: files of up to 3 lines are many; keep every file of <= 2 lines and every third of the 3-line ones
		var keep [][]int
		for i, f := range files {
			if len(f) <= 2 || i%3 == 0 {
				keep = append(keep, f)
			}
		}
		files = keep
	}
	// a second, small universe for what surrounds the fields of a line: blanks and a tab after the last field,
	// a line of blanks only, an indented comment (both loaders must read the same rules from the same file)
	edgeBase := len(lineUniverse)
	lineUniverse = append(lineUniverse, "p, alice, data1, read  \t", "  \t ", "   # an indented comment", "g, alice, admin \t ", "p, bob, data1, read", "p, alice, data#1, read")
	for a := edgeBase; a < len(lineUniverse); a++ {
		files = append(files, []int{a})
		for b := edgeBase; b < len(lineUniverse); b++ {
			if a != b {
				files = append(files, []int{a, b})
			}
		}
	}
	for fi, idx := range files {
		text := strings.Join(pick2(lineUniverse, idx), "\n")
		if fi%2 == 0 {
			text += "\n"
		}
		quotedFile := strings.Contains(text, "\"")
		cfg := &HistCfg{Name: "fa", MS: ms, Opts: CaseOpts{FAText: &text}, Depth: depth, Alphabet: alpha, Probes: probes, SampleEvery: 20011}
		if len(idx) == maxLines && maxLines >= 3 {
			cfg.Depth = 1
		}
		if c.Thorough() && len(idx) < maxLines && fi%6 != 0 {
			cfg.Depth = 2 // thorough: sequences of three calls on every sixth file (each history works on real temp files)
		}
		if !c.Thorough() && fi%4 != 0 {
			cfg.Depth = 1 // quick: sequences of two calls on every fourth file only
		}
		var before []byte
		var histObs []string
		cfg.AfterStep = func(c *Ctx, s *Sess, hist []EOp, obs string) {
			last := hist[len(hist)-1]
			histObs = append(histObs[:len(hist)-1], obs)
			if len(hist) == 1 {
				before = []byte(text) // every history starts from a fresh copy of the file
			}
			if last.Kind == "savefa" && strings.HasPrefix(obs, "err") {
				now, _ := os.ReadFile(s.FAPath)
				if before != nil && string(now) != string(before) {
					c.Direct("a refused SavePolicy changed the policy file", fmt.Sprintf("file=%q %s", text, histText(hist)))
				}
			}
			if last.Kind == "savefa" && strings.HasSuffix(obs, "F=1") && strings.HasPrefix(obs, "ok") {
				c.Direct("SavePolicy succeeded while the policy is filtered", fmt.Sprintf("file=%q %s", text, histText(hist)))
			}
			// the enforcer may hold a partial view from the first filtered load (completed or not)
			// until a full load succeeds; no save may go through in between
			partial := true // NewFilteredAdapter: nothing loaded yet
			for i, h := range hist {
				if i == len(hist)-1 {
					break
				}
				o := histObs[i]
				switch {
				case h.Kind == "load" && strings.HasPrefix(o, "ok"), (h.Kind == "loadf" || h.Kind == "loadif") && h.NilFilter && strings.HasPrefix(o, "ok"):
					partial = false
				case (h.Kind == "loadf" || h.Kind == "loadif") && !h.NilFilter:
					partial = true
				}
			}
			if last.Kind == "savefa" && strings.HasPrefix(obs, "ok") && partial {
				c.Direct("SavePolicy went through although no full load has succeeded since the last filtered load: a partial view overwrote the policy file", fmt.Sprintf("file=%q %s", text, histText(hist)))
			}
			before, _ = os.ReadFile(s.FAPath)
			if last.Kind == "loadf" && strings.HasPrefix(obs, "ok") && !last.NilFilter && !quotedFile {
				// reference: full load of the same bytes by a fresh enforcer, then field-wise selection
				full, err := casbin.NewEnforcer(ms.Build(), fileadapter.NewAdapter(s.FAPath))
				if err != nil {
					return
				}
				sel := func(rules [][]string, flt []string) [][]string {
					var out [][]string
					for _, r := range rules {
						ok := len(flt) <= len(r)
						for i, v := range flt {
							if ok && strings.TrimSpace(v) != "" && (i >= len(r) || strings.TrimSpace(v) != strings.TrimSpace(r[i])) {
								ok = false
							}
						}
						if ok {
							out = append(out, r)
						}
					}
					return out
				}
				fp, _ := full.GetPolicy()
				fg, _ := full.GetGroupingPolicy()
				wantP, wantG := sel(fp, last.Filter.P), sel(fg, last.Filter.G)
				gotP, _ := s.E.GetPolicy()
				gotG, _ := s.E.GetGroupingPolicy()
				longer := len(last.Filter.P) > 3 || len(last.Filter.G) > 2 // finding D20: a filter longer than the rule skips it
				if !longer && (fmt.Sprint(wantP) != fmt.Sprint(gotP) || fmt.Sprint(wantG) != fmt.Sprint(gotG)) {
					c.Direct("a filtered load does not list exactly the stored rules whose leading fields equal the filter's values", fmt.Sprintf("file=%q %s\nwant p=%v g=%v\ngot  p=%v g=%v", text, histText(hist), wantP, wantG, gotP, gotG))
				}
				// decisions over the loaded subset = a fresh enforcer given exactly that subset
				sub, _ := casbin.NewEnforcer(ms.Build())
				_, _ = sub.AddPoliciesEx(cloneRules(gotP))
				_, _ = sub.AddGroupingPoliciesEx(cloneRules(gotG))
				if a, b := decisionsOf(s.E), decisionsOf(sub); a != b {
					c.Direct("decisions over the loaded subset differ from those of an enforcer given that subset", fmt.Sprintf("file=%q %s", text, histText(hist)))
				}
				c.Count("filtered_exact_checks", 1)
				if len(gotP)+len(gotG) > 0 && len(gotP)+len(gotG) < len(fp)+len(fg) {
					c.Nontrivial(text + "|" + histText(hist))
				}
			}
		}
		enumerate(c, cfg)
	}
}

// nopDispatcher records nothing and changes nothing: a DistributedEnforcer with a dispatcher routes its
// management calls (incl. Enforcer.ClearPolicy) to it instead of changing its own model
type nopDispatcher struct{ calls []string }

func (d *nopDispatcher) AddPolicies(sec string, ptype string, rules [][]string) error {
	d.calls = append(d.calls, "AddPolicies")
	return nil
}
func (d *nopDispatcher) RemovePolicies(sec string, ptype string, rules [][]string) error {
	d.calls = append(d.calls, "RemovePolicies")
	return nil
}
func (d *nopDispatcher) RemoveFilteredPolicy(sec string, ptype string, fieldIndex int, fieldValues ...string) error {
	d.calls = append(d.calls, "RemoveFilteredPolicy")
	return nil
}
func (d *nopDispatcher) ClearPolicy() error { d.calls = append(d.calls, "ClearPolicy"); return nil }
func (d *nopDispatcher) UpdatePolicy(sec string, ptype string, oldRule, newRule []string) error {
	d.calls = append(d.calls, "UpdatePolicy")
	return nil
}
func (d *nopDispatcher) UpdatePolicies(sec string, ptype string, oldrules, newRules [][]string) error {
	d.calls = append(d.calls, "UpdatePolicies")
	return nil
}
func (d *nopDispatcher) UpdateFilteredPolicies(sec string, ptype string, oldRules [][]string, newRules [][]string) error {
	d.calls = append(d.calls, "UpdateFilteredPolicies")
	return nil
}

// c18Wrappers: the synchronised and the distributed enforcer (with a dispatcher) must load exactly what the
// plain enforcer loads, call by call (implementation only)
func c18Wrappers(c *Ctx) {
	text := "p, alice, data1, read\np, bob, data2, write\np, admin, data1, read\ng, alice, admin\ng, bob, admin\n"
	fA := &fileadapter.Filter{P: []string{"alice"}, G: []string{"alice"}}
	fB := &fileadapter.Filter{P: []string{"bob"}, G: []string{"bob"}}
	fC := &fileadapter.Filter{P: []string{"", "data1"}}
	type step struct {
		name string
		run  func(load func() error, loadf, loadif func(interface{}) error) error
	}
	steps := []step{
		{"load", func(l func() error, f, i func(interface{}) error) error { return l() }},
		{"loadf A", func(l func() error, f, i func(interface{}) error) error { return f(fA) }},
		{"loadif B", func(l func() error, f, i func(interface{}) error) error { return i(fB) }},
		{"loadf B", func(l func() error, f, i func(interface{}) error) error { return f(fB) }},
		{"loadif C", func(l func() error, f, i func(interface{}) error) error { return i(fC) }},
		{"loadf nil", func(l func() error, f, i func(interface{}) error) error { return f(nil) }},
	}
	ms := rbacSpec(false, false)
	dir, err := os.MkdirTemp("", "c18w")
	if err != nil {
		panic(err)
	}
	defer os.RemoveAll(dir)
	for _, seq := range seqsUpTo(len(steps), 3) {
		if len(seq) == 0 {
			continue
		}
		mk := func(name string) string {
			p := dir + "/" + name + ".csv"
			_ = os.WriteFile(p, []byte(text), 0o644)
			return p
		}
		plain, _ := casbin.NewEnforcer(ms.Build(), fileadapter.NewFilteredAdapter(mk("plain")))
		synced, _ := casbin.NewSyncedEnforcer(ms.Build(), fileadapter.NewFilteredAdapter(mk("synced")))
		dist, _ := casbin.NewDistributedEnforcer(ms.Build(), fileadapter.NewFilteredAdapter(mk("dist")))
		disp := &nopDispatcher{}
		dist.SetDispatcher(disp)
		state := func(e *casbin.Enforcer) string {
			p, _ := e.GetPolicy()
			g, _ := e.GetGroupingPolicy()
			ok, _ := e.Enforce("alice", "data1", "read")
			return fmt.Sprintf("p=%v g=%v filtered=%v alice-data1-read=%v", p, g, e.IsFiltered(), ok)
		}
		var names []string
		for _, i := range seq {
			st := steps[i]
			names = append(names, st.name)
			e0 := st.run(plain.LoadPolicy, plain.LoadFilteredPolicy, plain.LoadIncrementalFilteredPolicy)
			e1 := st.run(synced.LoadPolicy, synced.LoadFilteredPolicy, synced.LoadIncrementalFilteredPolicy)
			e2 := st.run(dist.LoadPolicy, dist.LoadFilteredPolicy, dist.LoadIncrementalFilteredPolicy)
			ref := state(plain)
			if got := state(synced.Enforcer); got != ref || (e0 == nil) != (e1 == nil) {
				c.Direct("SyncedEnforcer loads something else than the plain enforcer for the same (filtered / incremental / full) loads", fmt.Sprintf("%v\nplain:  %s err=%v\nsynced: %s err=%v", names, ref, e0, got, e1))
			}
			if got := state(dist.SyncedEnforcer.Enforcer); got != ref || (e0 == nil) != (e2 == nil) {
				c.Direct("a DistributedEnforcer with a dispatcher loads something else than the plain enforcer for the same loads", fmt.Sprintf("%v\nplain:       %s err=%v\ndistributed: %s err=%v", names, ref, e0, got, e2))
			}
			if len(disp.calls) > 0 {
				c.Direct("a filtered load broadcast a ClearPolicy through the dispatcher", fmt.Sprintf("%v dispatcher calls=%v", names, disp.calls))
				disp.calls = nil
			}
		}
		c.Evals++
		c.Count("wrapper_sequences", 1)
	}
}

func pick2(xs []string, idx []int) []string {
	out := make([]string, len(idx))
	for i, j := range idx {
		out[i] = xs[j]
	}
	return out
}
