package main

import (
	"fmt"
	"os"

	"github.com/casbin/casbin/v2"
	fileadapter "github.com/casbin/casbin/v2/persist/file-adapter"
)

// Policy types the Filter struct has no field for (a second policy definition p2, a role definition beyond g5 is not
// expressible): a filter says nothing about them, so a filtered or incremental load lists every stored rule of such a
// type, exactly as the full load does, while p and g are narrowed as asked.  Implementation only.
func c18UnfilteredTypes(c *Ctx) {
	const text = "[request_definition]\nr = sub, obj, act\nr2 = sub, obj\n[policy_definition]\np = sub, obj, act\np2 = sub, obj\n[role_definition]\ng = _, _\n[policy_effect]\ne = some(where (p.eft == allow))\ne2 = some(where (p.eft == allow))\n[matchers]\nm = g(r.sub, p.sub) && r.obj == p.obj && r.act == p.act\nm2 = r2.sub == p2.sub && r2.obj == p2.obj\n"
	file := "p, alice, data1, read\np2, alice, data9\np, bob, data2, write\np2, bob, data8\ng, alice, admin\np, admin, data2, read\np2, carol, data7\ng, bob, admin\n"
	path := scratchFile() + ".c18types"
	_ = os.WriteFile(path, []byte(file), 0o644)
	full, err := casbin.NewEnforcer(mustModel(text), fileadapter.NewAdapter(path))
	if err != nil {
		c.Direct("a model with two policy definitions could not be loaded", err.Error())
		return
	}
	wantP2, _ := full.GetNamedPolicy("p2")
	filters := []*fileadapter.Filter{{P: []string{"alice"}}, {G: []string{"alice"}}, {P: []string{"", "data2"}, G: []string{"", "admin"}}, {P: []string{"nobody"}}}
	for fi, f := range filters {
		for _, incremental := range []bool{false, true} {
			e, err := casbin.NewEnforcer(mustModel(text))
			if err != nil {
				return
			}
			e.SetAdapter(fileadapter.NewFilteredAdapter(path))
			if incremental {
				err = e.LoadIncrementalFilteredPolicy(f)
			} else {
				err = e.LoadFilteredPolicy(f)
			}
			c.Evals++
			c.Count("unfiltered_type_loads", 1)
			what := fmt.Sprintf("filter #%d (P=%v G=%v) incremental=%v over a file with p, p2 and g lines", fi, f.P, f.G, incremental)
			if err != nil {
				c.Direct("a filtered load over a file with a second policy type failed", what+": "+err.Error())
				continue
			}
			gotP2, _ := e.GetNamedPolicy("p2")
			if fmt.Sprint(gotP2) != fmt.Sprint(wantP2) {
				c.Direct("a filtered load dropped (or changed) rules of a policy type the filter says nothing about", fmt.Sprintf("%s\nstored p2: %v\nlisted p2: %v", what, wantP2, gotP2))
			}
			ctx := casbin.NewEnforceContext("2")
			ctx.EType = "e2"
			for _, r := range wantP2 {
				okF, _ := full.Enforce(ctx, r[0], r[1])
				okE, _ := e.Enforce(ctx, r[0], r[1])
				if okF != okE {
					c.Direct("after a filtered load a request on a policy type the filter says nothing about is decided differently from the full load", fmt.Sprintf("%s request=%v full=%v filtered=%v", what, r, okF, okE))
				}
			}
		}
	}
	c.Nontrivial("c18-unfiltered-types")
}
