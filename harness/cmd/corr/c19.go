package main

import (
	"fmt"
	"sort"
	"strings"
	"verif/harness/internal/proto"

	"github.com/casbin/casbin/v2"

	defaultrolemanager "github.com/casbin/casbin/v2/rbac/default-role-manager"
)

func init() { registry["C19"] = runC19 }

func runC19(c *Ctx) {
	depth := 2
	if c.Thorough() {
		depth = 4
	}
	c.Exhaustive = true
	c.Rule = fmt.Sprintf("all operation logs of <= %d *Self calls (Add/Remove/RemoveFiltered/Update/UpdatePolicies/Clear on p and g, with repeated and overlapping batches) applied to three real DistributedEnforcer replicas with different persist predicates (always / never / nil), each with its own recording adapter: affected values, adapter logs, listed rules, links and decisions vs the Lean model; on the implementation: after every log each of its operations is applied twice in a row to each replica (the second application must change nothing and report nothing affected), the affected list of every add / remove / filtered-remove call equals the difference of the listings before and after it, replicas agree on affected values, rules, links and decisions, only the always-replica touches its adapter, every log is run 3 times per replica for determinism, the third time with a dispatcher attached (which must receive nothing); updates of a rule to itself must leave the replica's memory (index included) unchanged; the second run is on a replica whose role manager was installed by SetRoleManager; a replica loaded under subject priority (rules re-ordered by the load) must find every rule by value; grouping rules with a column beyond the definition in the alphabet; on a domain model with a domain matching function a replica that joins from the persisting replica's storage must decide like the replicas that applied the log; 16 replicas applying one log with two pattern domains that both cover a concrete domain created last must agree (and the concrete domain inherits from both); plus seeded random logs to length 30; non-trivial = a log with an affected and an unaffected call; distinct = log", depth)
	P := [][]string{{"alice", "data1", "read"}, {"admin", "data2", "write"}, {"bob", "data1", "read"}}
	G := [][]string{{"alice", "admin"}, {"bob", "admin"}}
	mkAlpha := func(per string) []EOp {
		return []EOp{
			{Kind: "dist-add", Persist: per, Sec: "p", PType: "p", Rules: [][]string{P[0], P[1]}},
			{Kind: "dist-add", Persist: per, Sec: "p", PType: "p", Rules: [][]string{P[1], P[2], P[1]}},
			{Kind: "dist-rm", Persist: per, Sec: "p", PType: "p", Rules: [][]string{P[0], P[2]}},
			{Kind: "dist-rm", Persist: per, Sec: "p", PType: "p", Rules: [][]string{P[1], P[1]}},
			{Kind: "dist-rmf", Persist: per, Sec: "p", PType: "p", FI: 1, Vals: []string{"data1"}},
			{Kind: "dist-upd", Persist: per, Sec: "p", PType: "p", Rule: P[0], New: []string{"alice", "data1", "write"}},
			{Kind: "dist-upds", Persist: per, Sec: "p", PType: "p", Rules: [][]string{P[1], P[2]}, News: [][]string{{"admin", "data2", "read"}, {"bob", "data2", "read"}}},
			// an unchanged pair first: the pairing of old and new rules must not shift
			{Kind: "dist-upds", Persist: per, Sec: "p", PType: "p", Rules: [][]string{P[0], P[1]}, News: [][]string{P[0], {"admin", "data1", "read"}}},
			{Kind: "dist-add", Persist: per, Sec: "g", PType: "g", Rules: G},
			{Kind: "dist-add", Persist: per, Sec: "g", PType: "g", Rules: [][]string{G[0]}},
			{Kind: "dist-rm", Persist: per, Sec: "g", PType: "g", Rules: [][]string{G[0]}},
			{Kind: "dist-rmf", Persist: per, Sec: "g", PType: "g", FI: 1, Vals: []string{"admin"}},
			{Kind: "dist-upd", Persist: per, Sec: "g", PType: "g", Rule: G[1], New: []string{"bob", "alice"}},
			{Kind: "dist-clear", Persist: per},
			// filters that name every field of the definition but leave one empty: the empty value is a wildcard, the
			// filter selects every rule that carries the others (two p rules, two g rules)
			{Kind: "dist-rmf", Persist: per, Sec: "p", PType: "p", FI: 0, Vals: []string{"", "data1", "read"}},
			{Kind: "dist-rmf", Persist: per, Sec: "g", PType: "g", FI: 0, Vals: []string{"", "admin"}},
			// grouping rules with a column beyond the role definition (legal: the link uses the first two): what is
			// reported as affected, and what the next replica is handed, is the rule as given
			{Kind: "dist-add", Persist: per, Sec: "g", PType: "g", Rules: [][]string{{"bob", "admin", "until-2027"}}},
			{Kind: "dist-rm", Persist: per, Sec: "g", PType: "g", Rules: [][]string{{"bob", "admin", "until-2027"}}},
			{Kind: "dist-upds", Persist: per, Sec: "g", PType: "g", Rules: [][]string{{"bob", "admin", "until-2027"}}, News: [][]string{{"bob", "alice", "until-2028"}}},
			// updates of a rule to itself: nothing may change, not even the index the next calls rely on
			{Kind: "dist-upd", Persist: per, Sec: "p", PType: "p", Rule: P[1], New: P[1]},
			{Kind: "dist-upd", Persist: per, Sec: "g", PType: "g", Rule: G[0], New: G[0]},
		}
	}
	c19UpdateFiltered(c)
	identity := func(o EOp) bool { return o.Kind == "dist-upd" && strings.Join(o.Rule, ",") == strings.Join(o.New, ",") }
	probes := []EOp{{Kind: "obs", Args: []string{"pol", "p", "p"}}, {Kind: "obs", Args: []string{"pol", "g", "g"}}, {Kind: "obs", Args: []string{"adapter"}}, {Kind: "obs", Args: []string{"log"}},
		{Kind: "haslink", PType: "g", Args: []string{"alice", "admin"}}, {Kind: "haslink", PType: "g", Args: []string{"bob", "alice"}},
		{Kind: "enf", Req: []V{VS("alice"), VS("data2"), VS("write")}}, {Kind: "enf", Req: []V{VS("bob"), VS("data1"), VS("read")}}}
	ms := rbacSpec(false, false)
	pers := []string{"1", "0", "n"}
	alphaIdx := mkAlpha("1")
	runLog := func(idx []int) {
		var finals, affs [3]string
		for ri, per := range pers {
			alpha := mkAlpha(per)
			s := StartCase(c, ms, CaseOpts{Adapter: true, Dist: true})
			var affLog []string
			affected, unaffected := false, false
			for _, i := range idx {
				var listedBefore [][]string
				if ast := s.E.GetModel()[alpha[i].Sec][alpha[i].PType]; ast != nil {
					listedBefore = cloneRules(ast.Policy)
				}
				obs := s.Do(c, alpha[i])
				affLog = append(affLog, obs)
				// "report as affected exactly the rules they added or removed": the reported list against the
				// difference of the listings before and after the call
				if k := alpha[i].Kind; (k == "dist-add" || k == "dist-rm" || k == "dist-rmf") && strings.HasSuffix(obs, " E 0") {
					listedAfter := s.E.GetModel()[alpha[i].Sec][alpha[i].PType].Policy
					from, to := listedAfter, listedBefore // rules gained
					if k != "dist-add" {
						from, to = listedBefore, listedAfter // rules lost
					}
					had := map[string]bool{}
					for _, r := range to {
						had[strings.Join(r, "\x00")] = true
					}
					var diff [][]string
					for _, r := range from {
						if !had[strings.Join(r, "\x00")] {
							diff = append(diff, r)
						}
					}
					want := fmt.Sprintf("A %s E 0", proto.EncRules(diff))
					if sortedAff(obs) != sortedAff(want) {
						c.Direct("a Self operation reports as affected something else than the rules it added or removed", fmt.Sprintf("persist=%s op=%s\nreported: %s\nlisting changed by: %s\nlisted before: %v\nlisted after:  %v", per, alpha[i].Line(), obs, want, listedBefore, listedAfter))
					}
					c.Count("affected_vs_listing_checks", 1)
				}
				if strings.Contains(obs, "A -") || strings.HasPrefix(obs, "false") {
					unaffected = true
				} else {
					affected = true
				}
				for _, p := range probes {
					s.Do(c, p)
				}
			}
			finals[ri] = memoryOf(s)
			affs[ri] = strings.Join(affLog, ";")
			if per != "1" && len(s.A.Log) > 1 {
				c.Direct("a replica whose persist predicate is false or nil touched its adapter", fmt.Sprintf("persist=%s log=%s adapter log=%v", per, histText(pickOps(alpha, idx)), s.A.Log))
			}
			// idempotence: the same log again, call by call: nothing may be affected, nothing may change
			for _, i := range idx {
				if alpha[i].Kind == "dist-clear" {
					continue
				}
				before := memoryOf(s)
				_ = s.Exec(alpha[i])
				mid := memoryOf(s)
				again := s.Exec(alpha[i])
				if after := memoryOf(s); after != mid {
					c.Direct("applying the same Self operation a second time changed the replica", fmt.Sprintf("persist=%s op=%s\nafter the first application:  %s\nafter the second application: %s", per, alpha[i].Line(), mid, after))
				}
				if identity(alpha[i]) {
					if after := memoryOf(s); after != before {
						c.Direct("an update of a rule to itself changed the replica", fmt.Sprintf("persist=%s op=%s\nbefore: %s\nafter:  %s", per, alpha[i].Line(), before, after))
					}
				} else if !(strings.HasPrefix(again, "A - ") || strings.HasPrefix(again, "false")) {
					c.Direct("applying the same Self operation a second time reports affected rules", fmt.Sprintf("persist=%s op=%s second result=%s", per, alpha[i].Line(), again))
				}
				c.Count("idempotence_checks", 1)
			}
			if ri == 0 && affected && unaffected {
				c.Nontrivial(histText(pickOps(alpha, idx)))
			}
			// determinism: the same log on a fresh replica, three times
			for rep := 0; rep < 2; rep++ {
				s2 := StartCaseQuiet(ms, CaseOpts{})
				d2 := newDist(ms)
				s2.D, s2.E, s2.A = d2.D, d2.E, d2.A
				// the second fresh replica has a dispatcher attached (as every replica of a real cluster has):
				// *Self calls apply locally all the same and hand nothing back to it
				// the first fresh replica was given its role manager by SetRoleManager (on the empty policy, no
				// rebuild after it): the links the log adds must still be the links Enforce reads
				if rep == 0 {
					s2.E.SetRoleManager(defaultrolemanager.NewRoleManagerImpl(10))
				}
				var disp *nopDispatcher
				if rep == 1 {
					disp = &nopDispatcher{}
					s2.D.SetDispatcher(disp)
				}
				var aff2 []string
				for _, i := range idx {
					aff2 = append(aff2, s2.Exec(alpha[i]))
				}
				if memoryOf(s2) != finals[ri] || strings.Join(aff2, ";") != affs[ri] {
					c.Direct("the same operation log gives different results on a fresh replica", fmt.Sprintf("persist=%s log=%s", per, histText(pickOps(alpha, idx))))
				}
				if disp != nil && len(disp.calls) > 0 {
					c.Direct("a Self operation handed work back to the dispatcher", fmt.Sprintf("persist=%s log=%s dispatcher calls=%v", per, histText(pickOps(alpha, idx)), disp.calls))
				}
			}
		}
		if finals[0] != finals[1] || finals[1] != finals[2] || affs[0] != affs[1] || affs[1] != affs[2] {
			c.Direct("replicas that applied the same operation log differ", fmt.Sprintf("log=%s\nalways: %s | %s\nnever:  %s | %s\nnil:    %s | %s", histText(pickOps(alphaIdx, idx)), affs[0], finals[0], affs[1], finals[1], affs[2], finals[2]))
		}
		c.Evals++
		if c.Evals%211 == 1 {
			c.Sample(histText(pickOps(alphaIdx, idx)))
		}
	}
	seq := make([]int, 0, depth)
	var rec func()
	rec = func() {
		if len(seq) > 0 {
			runLog(seq)
		}
		if len(seq) == depth {
			return
		}
		for i := range alphaIdx {
			seq = append(seq, i)
			rec()
			seq = seq[:len(seq)-1]
		}
	}
	if !c.Thorough() {
		depth = 2
	}
	rec()
	n := 60
	if c.Thorough() {
		n = 3000
	}
	for i := 0; i < n; i++ {
		L := 3 + c.Rng.Intn(28)
		idx := make([]int, L)
		for k := range idx {
			idx[k] = c.Rng.Intn(len(alphaIdx))
		}
		runLog(idx)
		c.Count("random_logs", 1)
	}
	c19SubjectPriorityReplica(c)
	c19JoinedReplica(c)
	c19OverlappingPatternDomains(c)
}

func pickOps(alpha []EOp, idx []int) []EOp {
	out := make([]EOp, len(idx))
	for i, j := range idx {
		out[i] = alpha[j]
	}
	return out
}

// c19SubjectPriorityReplica: a replica whose policy was loaded under subject priority (the load re-orders the
// rules): the Self operations must still find every rule by value.  Implementation only.
func c19SubjectPriorityReplica(c *Ctx) {
	msS := NewMSpec().AddR("r", "sub", "obj", "act").AddP("p", "sub", "obj", "act", "eft").AddG("g", 2).
		AddE("e", "subjectPriority(p_eft) || deny").AddM("m", "r", "p", And(G2("g", RTok(0), PTok(0)), Eq(RTok(1), PTok(1)), Eq(RTok(2), PTok(2))))
	PS := [][]string{{"root", "data1", "read", "deny"}, {"admin", "data1", "read", "deny"}, {"alice", "data1", "read", "allow"}, {"admin", "data2", "write", "allow"}}
	has := func(pol [][]string, r []string) bool {
		for _, x := range pol {
			if strings.Join(x, ",") == strings.Join(r, ",") {
				return true
			}
		}
		return false
	}
	for target := range PS {
		for _, kind := range []string{"remove", "update"} {
			d := newDist(msS)
			for _, r := range PS {
				d.A.Lines = append(d.A.Lines, memLine("p", r...))
			}
			d.A.Lines = append(d.A.Lines, memLine("g", "admin", "root"), memLine("g", "alice", "admin"))
			if err := d.D.LoadPolicy(); err != nil {
				panic(err)
			}
			old := PS[target]
			what := fmt.Sprintf("replica loaded under subject priority (stored order %v): %s of %v", PS, kind, old)
			var want [][]string
			switch kind {
			case "remove":
				aff, err := d.D.RemovePoliciesSelf(nil, "p", "p", [][]string{old})
				if err != nil || len(aff) != 1 || strings.Join(aff[0], ",") != strings.Join(old, ",") {
					c.Direct("RemovePoliciesSelf does not report exactly the rule it was given (which was listed)", fmt.Sprintf("%s: affected=%v err=%v", what, aff, err))
				}
				for _, r := range PS {
					if strings.Join(r, ",") != strings.Join(old, ",") {
						want = append(want, r)
					}
				}
				again, _ := d.D.RemovePoliciesSelf(nil, "p", "p", [][]string{old})
				if len(again) != 0 {
					c.Direct("applying the same Self operation a second time reports affected rules", fmt.Sprintf("%s: second result=%v", what, again))
				}
			case "update":
				nw := []string{old[0], old[1], "list", old[3]}
				ok, err := d.D.UpdatePolicySelf(nil, "p", "p", old, nw)
				if err != nil || !ok {
					c.Direct("UpdatePolicySelf of a listed rule reports no change", fmt.Sprintf("%s: %v %v", what, ok, err))
				}
				for _, r := range PS {
					if strings.Join(r, ",") != strings.Join(old, ",") {
						want = append(want, r)
					}
				}
				want = append(want, nw)
			}
			pol, _ := d.E.GetPolicy()
			bad := len(pol) != len(want)
			for _, r := range want {
				if !has(pol, r) {
					bad = true
				}
			}
			if bad {
				c.Direct("a Self operation changed other rules than the ones it was given", fmt.Sprintf("%s: listed afterwards %v, expected (as a set) %v", what, pol, want))
			}
			c.Evals++
			c.Count("subject_priority_replica_cases", 1)
		}
	}
}

// c19JoinedReplica: a domain model with a domain matching function; two replicas apply the same log (one
// persists), a third joins afterwards from the persisting replica's storage: all three hold the same rules and
// must make the same decisions.  The log only removes links of subjects that have no other link, so the
// over-deletion of finding D15 is not in play.  Implementation only.
func c19JoinedReplica(c *Ctx) {
	ms := rbacSpec(true, false)
	type step struct {
		kind  string
		sec   string
		rules [][]string
	}
	logs := [][]step{
		{{"add", "p", [][]string{{"admin", "tenant1", "data1", "read"}, {"admin", "tenant2", "data1", "read"}}}, {"add", "g", [][]string{{"bob", "admin", "tenant1"}}},
			{"add", "g", [][]string{{"alice", "admin", "*"}}}, {"rm", "g", [][]string{{"alice", "admin", "*"}}}},
		{{"add", "p", [][]string{{"admin", "tenant1", "data1", "read"}}}, {"add", "g", [][]string{{"bob", "admin", "tenant1"}, {"carol", "admin", "tenant2"}}},
			{"add", "g", [][]string{{"alice", "admin", "*"}, {"dave", "admin", "*"}}}, {"rm", "g", [][]string{{"dave", "admin", "*"}}}, {"rm", "g", [][]string{{"alice", "admin", "*"}}}},
		{{"add", "g", [][]string{{"alice", "admin", "*"}}}, {"add", "p", [][]string{{"admin", "tenant1", "data1", "read"}}}, {"add", "g", [][]string{{"bob", "admin", "tenant1"}}},
			{"rm", "g", [][]string{{"alice", "admin", "*"}}}, {"add", "g", [][]string{{"erin", "admin", "*"}}}},
	}
	dec := func(e *casbin.Enforcer) string {
		var sb strings.Builder
		for _, u := range []string{"alice", "bob", "carol", "dave", "erin"} {
			for _, d := range []string{"tenant1", "tenant2", "tenant3"} {
				ok, err := e.Enforce(u, d, "data1", "read")
				switch {
				case err != nil:
					sb.WriteByte('E')
				case ok:
					sb.WriteByte('1')
				default:
					sb.WriteByte('0')
				}
			}
		}
		return sb.String()
	}
	for li, log := range logs {
		var reps [2]*Sess
		for ri := range reps {
			d := newDist(ms)
			d.E.AddNamedDomainMatchingFunc("g", "keyMatch", matchFns["keyMatch"])
			reps[ri] = d
		}
		for _, st := range log {
			for ri, d := range reps {
				persist := func() bool { return ri == 0 }
				var err error
				if st.kind == "add" {
					_, err = d.D.AddPoliciesSelf(persist, st.sec, st.sec, cloneRules(st.rules))
				} else {
					_, err = d.D.RemovePoliciesSelf(persist, st.sec, st.sec, cloneRules(st.rules))
				}
				if err != nil {
					c.Direct("a Self operation of the joined-replica log failed", fmt.Sprintf("log #%d step %v: %v", li, st, err))
				}
			}
		}
		joined, err := casbin.NewEnforcer(ms.Build(), reps[0].A)
		if err != nil {
			panic(err)
		}
		joined.AddNamedDomainMatchingFunc("g", "keyMatch", matchFns["keyMatch"])
		_ = joined.BuildRoleLinks()
		a, b, j := dec(reps[0].E), dec(reps[1].E), dec(joined)
		c.Evals++
		c.Count("joined_replica_logs", 1)
		if a != b || a != j {
			gp, _ := reps[0].E.GetGroupingPolicy()
			c.Direct("a replica that joins from the persisting replica's storage decides differently from the replicas that applied the log", fmt.Sprintf("domain matching function keyMatch; log #%d %v\nlisted g=%v\npersisting replica %s\nmemory replica     %s\njoined replica     %s", li, log, gp, a, b, j))
		}
	}
}

// c19OverlappingPatternDomains: two pattern domains that both cover one concrete domain ("*" and
// "tenant*"), grouping rules in both, and only then the first grouping rule of the concrete domain: the new
// domain inherits from every pattern domain that covers it, on every replica alike (the order in which a
// replica's internal maps are walked must not show).  16 replicas apply the same log.
func c19OverlappingPatternDomains(c *Ctx) {
	ms := rbacSpec(true, false)
	logs := [][][][]string{
		{{{"p", "admin", "tenant1", "data1", "read"}}, {{"g", "bob", "admin", "*"}}, {{"g", "alice", "admin", "tenant*"}}, {{"g", "carol", "admin", "tenant1"}}},
		{{{"p", "admin", "tenant1", "data1", "read"}}, {{"g", "alice", "admin", "tenant*"}, {"g", "bob", "admin", "*"}, {"g", "dave", "admin", "t*"}}, {{"g", "carol", "other", "tenant1"}}},
	}
	users := []string{"alice", "bob", "carol", "dave"}
	for li, log := range logs {
		want := ""
		for ri := 0; ri < 16; ri++ {
			d := newDist(ms)
			d.E.AddNamedDomainMatchingFunc("g", "keyMatch", matchFns["keyMatch"])
			for _, batch := range log {
				sec := batch[0][0]
				var rules [][]string
				for _, r := range batch {
					rules = append(rules, append([]string(nil), r[1:]...))
				}
				if _, err := d.D.AddPoliciesSelf(func() bool { return false }, sec, sec, rules); err != nil {
					c.Direct("a Self operation of the overlapping-pattern-domain log failed", fmt.Sprintf("log #%d batch %v: %v", li, batch, err))
				}
			}
			var sb strings.Builder
			for _, u := range users {
				ok, err := d.E.Enforce(u, "tenant1", "data1", "read")
				fmt.Fprintf(&sb, "%s=%v/%v ", u, ok, err != nil)
			}
			got := sb.String()
			c.Evals++
			c.Count("overlapping_pattern_domain_replicas", 1)
			if ri == 0 {
				want = got
				// every user linked to admin in a domain that covers tenant1 is allowed there
				for _, batch := range log {
					for _, r := range batch {
						if r[0] == "g" && r[2] == "admin" && !strings.Contains(got, r[1]+"=true/false") {
							c.Direct("a concrete domain did not inherit the links of a pattern domain that covers it", fmt.Sprintf("log #%d: %v\ndecisions on tenant1: %s", li, log, got))
						}
					}
				}
			} else if got != want {
				c.Direct("replicas that applied the same operation log decide differently", fmt.Sprintf("log #%d: %v\nreplica 0:  %s\nreplica %d: %s", li, log, want, ri, got))
				break
			}
		}
	}
}

// sortedAff: the rules of an "A r1 | r2 E n" observation in sorted order (a removal may report in listing order)
func sortedAff(obs string) string {
	body := strings.TrimSuffix(strings.TrimPrefix(obs, "A "), " E 0")
	parts := strings.Split(body, " | ")
	sort.Strings(parts)
	return strings.Join(parts, " | ")
}
