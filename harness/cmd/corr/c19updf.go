package main

import (
	"fmt"
	"sort"
	"strings"
)

// UpdateFilteredPoliciesSelf on a persisting replica (it needs the adapter to learn the old rules): all logs of
// depth <= 2 (quick) / 3 (thorough) over additions and filtered updates on p and g — filters by subject, by role,
// filters that select nothing, an empty replacement, grouping rules with a column beyond the role definition — vs
// the Lean model (result, rules, links, decisions, adapter contents and log), and on the implementation: the
// replica's memory and its storage list the same rules after every call (a replica joining from that storage
// would otherwise decide differently).
func c19UpdateFiltered(c *Ctx) {
	P := [][]string{{"alice", "data1", "read"}, {"admin", "data2", "write"}, {"bob", "data1", "read"}}
	alpha := []EOp{
		{Kind: "dist-add", Persist: "1", Sec: "p", PType: "p", Rules: [][]string{P[0], P[1]}},
		{Kind: "dist-add", Persist: "1", Sec: "p", PType: "p", Rules: [][]string{P[2]}},
		{Kind: "dist-add", Persist: "1", Sec: "g", PType: "g", Rules: [][]string{{"alice", "admin"}, {"bob", "admin"}}},
		{Kind: "dist-add", Persist: "1", Sec: "g", PType: "g", Rules: [][]string{{"bob", "admin", "until-2027"}}},
		{Kind: "dist-updf", Persist: "1", Sec: "p", PType: "p", FI: 0, Vals: []string{"alice"}, News: [][]string{{"alice", "data2", "write"}}},
		{Kind: "dist-updf", Persist: "1", Sec: "p", PType: "p", FI: 1, Vals: []string{"data1"}, News: [][]string{{"carol", "data1", "read"}, P[0]}},
		{Kind: "dist-updf", Persist: "1", Sec: "p", PType: "p", FI: 0, Vals: []string{"nobody"}, News: [][]string{{"dave", "data1", "read"}}},
		{Kind: "dist-updf", Persist: "1", Sec: "p", PType: "p", FI: 0, Vals: []string{"bob"}, News: nil},
		{Kind: "dist-updf", Persist: "1", Sec: "g", PType: "g", FI: 1, Vals: []string{"admin"}, News: [][]string{{"alice", "staff"}}},
		{Kind: "dist-updf", Persist: "1", Sec: "g", PType: "g", FI: 0, Vals: []string{"bob"}, News: [][]string{{"bob", "staff", "until-2028"}}},
		{Kind: "dist-updf", Persist: "1", Sec: "g", PType: "g", FI: 0, Vals: []string{"bob", "admin"}, News: [][]string{{"bob", "alice"}}},
	}
	probes := []EOp{{Kind: "obs", Args: []string{"pol", "p", "p"}}, {Kind: "obs", Args: []string{"pol", "g", "g"}}, {Kind: "obs", Args: []string{"adapter"}}, {Kind: "obs", Args: []string{"log"}},
		{Kind: "haslink", PType: "g", Args: []string{"alice", "admin"}}, {Kind: "haslink", PType: "g", Args: []string{"bob", "admin"}}, {Kind: "haslink", PType: "g", Args: []string{"bob", "staff"}},
		{Kind: "enf", Req: []V{VS("alice"), VS("data2"), VS("write")}}, {Kind: "enf", Req: []V{VS("bob"), VS("data2"), VS("write")}}, {Kind: "enf", Req: []V{VS("carol"), VS("data1"), VS("read")}}}
	canon := func(rs [][]string) string {
		xs := make([]string, len(rs))
		for i, r := range rs {
			xs[i] = strings.Join(r, "\x00")
		}
		sort.Strings(xs)
		return strings.Join(xs, "\x01")
	}
	cfg := &HistCfg{Name: "updatefiltered-self", MS: rbacSpec(false, false), Opts: CaseOpts{Adapter: true, Dist: true}, Depth: 2,
		Alphabet: alpha, Probes: probes,
		AfterStep: func(c *Ctx, s *Sess, hist []EOp, obs string) {
			if strings.HasSuffix(obs, "E 1") {
				return
			}
			for _, sec := range []string{"p", "g"} {
				var stored [][]string
				for _, l := range s.A.Lines {
					if l.PType == sec {
						stored = append(stored, l.Rule)
					}
				}
				if listed := s.E.GetModel()[sec][sec].Policy; canon(listed) != canon(stored) {
					c.Direct("after Self operations on a persisting replica its memory and its storage list different rules", fmt.Sprintf("log=%s\nlisted %s: %v\nstored %s: %v", histText(hist), sec, listed, sec, stored))
				}
			}
			c.Count("updatefiltered_self_memory_vs_storage", 1)
		}}
	if c.Thorough() {
		cfg.Depth = 3
	}
	enumerate(c, cfg)
	n := 30
	if c.Thorough() {
		n = 1000
	}
	randomHistories(c, cfg, n, 3, 12)
}
