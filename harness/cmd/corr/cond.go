package main

import (
	"context"
	"fmt"
	"os"
	"os/exec"
	"strings"
	"time"

	"github.com/casbin/casbin/v2"
	fileadapter "github.com/casbin/casbin/v2/persist/file-adapter"
)

// Conditional role managers (role definitions with link-condition parameters, g = _, _, (_, _)) are
// not part of the Lean model. These families check on the implementation only what the properties
// say of every role manager: the maintained graph decides like one rebuilt from the listed rules
// (C04, C05), and cycles do not hang or crash Enforce (C03).  Since D14 was repaired every grouping call
// (single, batch, filtered, update, BuildRoleLinks) is in the alphabet.  No link condition function is
// registered, so every link passes and a plain RBAC enforcer over the same rules (cut to two fields) is a
// second oracle that shares no role-manager code with the one under test.

const condModelText = `
[request_definition]
r = sub, obj, act
[policy_definition]
p = sub, obj, act
[role_definition]
g = _, _, (_, _)
[policy_effect]
e = some(where (p.eft == allow))
[matchers]
m = g(r.sub, p.sub) && r.obj == p.obj && r.act == p.act
`

type condOp struct {
	name string
	run  func(e *casbin.Enforcer)
}

func condAlphabet() []condOp {
	g := func(u, r string) []string { return []string{u, r, "_", "_"} }
	return []condOp{
		{"adds g alice->admin", func(e *casbin.Enforcer) { _, _ = e.AddGroupingPolicies([][]string{g("alice", "admin")}) }},
		{"adds g bob->admin, admin->root", func(e *casbin.Enforcer) {
			_, _ = e.AddGroupingPolicies([][]string{g("bob", "admin"), g("admin", "root")})
		}},
		{"add g dave->admin", func(e *casbin.Enforcer) { _, _ = e.AddGroupingPolicy(g("dave", "admin")) }},
		{"rm g alice->admin", func(e *casbin.Enforcer) { _, _ = e.RemoveGroupingPolicy(g("alice", "admin")) }},
		{"rms g bob->admin, admin->root", func(e *casbin.Enforcer) {
			_, _ = e.RemoveGroupingPolicies([][]string{g("bob", "admin"), g("admin", "root")})
		}},
		{"rmf g *->admin", func(e *casbin.Enforcer) { _, _ = e.RemoveFilteredGroupingPolicy(1, "admin") }},
		{"upd g admin->root => admin->carol", func(e *casbin.Enforcer) {
			_, _ = e.UpdateGroupingPolicy(g("admin", "root"), g("admin", "carol"))
		}},
		{"adds g carol->root", func(e *casbin.Enforcer) { _, _ = e.AddGroupingPolicies([][]string{g("carol", "root")}) }},
		{"adds p admin, root", func(e *casbin.Enforcer) {
			_, _ = e.AddPolicies([][]string{{"admin", "data1", "read"}, {"root", "data2", "read"}})
		}},
		{"rms p admin", func(e *casbin.Enforcer) { _, _ = e.RemovePolicies([][]string{{"admin", "data1", "read"}}) }},
		{"clear", func(e *casbin.Enforcer) { e.ClearPolicy() }},
		{"buildlinks", func(e *casbin.Enforcer) { _ = e.BuildRoleLinks() }},
	}
}

func condDecisions(e *casbin.Enforcer) string {
	var sb strings.Builder
	for _, u := range []string{"alice", "bob", "dave", "admin", "root"} {
		for _, o := range []string{"data1", "data2"} {
			ok, err := e.Enforce(u, o, "read")
			switch {
			case err != nil:
				sb.WriteByte('E')
			case ok:
				sb.WriteByte('1')
			default:
				sb.WriteByte('0')
			}
		}
	}
	return sb.String()
}

// condFamily: all sequences of depth <= d; after every call the live enforcer must decide like a
// fresh one given the listed rules
func condFamily(c *Ctx, depth int, what string) {
	alpha := condAlphabet()
	seq := make([]int, 0, depth)
	var rec func()
	run := func() {
		e, err := casbin.NewEnforcer(mustModel(condModelText))
		if err != nil {
			panic(err)
		}
		var names []string
		_ = condDecisions(e) // decisions are asked before the first change too (memoised answers)
		for _, i := range seq {
			alpha[i].run(e)
			names = append(names, alpha[i].name)
			live := condDecisions(e)
			fresh, _ := casbin.NewEnforcer(mustModel(condModelText))
			pp, _ := e.GetPolicy()
			gp, _ := e.GetGroupingPolicy()
			if len(pp) > 0 {
				_, _ = fresh.AddPolicies(cloneRules(pp))
			}
			if len(gp) > 0 {
				_, _ = fresh.AddGroupingPolicies(cloneRules(gp))
			}
			plain, _ := casbin.NewEnforcer(mustModel(strings.Replace(condModelText, "g = _, _, (_, _)", "g = _, _", 1)))
			if len(pp) > 0 {
				_, _ = plain.AddPolicies(cloneRules(pp))
			}
			for _, r := range gp {
				_, _ = plain.AddGroupingPolicy(r[0], r[1])
			}
			if want := condDecisions(plain); want != live {
				c.Direct(what, fmt.Sprintf("conditional role definition (no condition registered: every link passes): %s\nlisted p=%v g=%v\nlive decisions            %s\nplain RBAC, same rules    %s", strings.Join(names, " ; "), pp, gp, live, want))
				return
			}
			if want := condDecisions(fresh); want != live {
				c.Direct(what, fmt.Sprintf("conditional role definition: %s\nlisted p=%v g=%v\nlive decisions  %s\nfresh enforcer  %s", strings.Join(names, " ; "), pp, gp, live, want))
				return
			}
		}
		c.Evals++
		c.Count("conditional_role_histories", 1)
	}
	rec = func() {
		if len(seq) > 0 {
			run()
		}
		if len(seq) == depth {
			return
		}
		for i := range alpha {
			seq = append(seq, i)
			rec()
			seq = seq[:len(seq)-1]
		}
	}
	rec()
}

// condCycleChild runs in a child process (a stack overflow is fatal): Enforce over conditional role
// graphs with cycles must return.
func condCycleChild() int {
	g := func(u, r string) []string { return []string{u, r, "_", "_"} }
	graphs := [][][]string{
		{g("a", "b"), g("b", "a")},
		{g("a", "a")},
		{g("a", "b"), g("b", "c"), g("c", "a"), g("c", "admin")},
		{g("a", "b"), g("b", "c"), g("c", "b")},
	}
	for gi, links := range graphs {
		e, err := casbin.NewEnforcer(mustModel(condModelText))
		if err != nil {
			fmt.Println("model error", err)
			return 1
		}
		_, _ = e.AddPolicies([][]string{{"admin", "data1", "read"}, {"nobody", "data2", "read"}})
		_, _ = e.AddGroupingPolicies(links)
		done := make(chan string, 1)
		go func() {
			var sb strings.Builder
			for _, u := range []string{"a", "b", "c", "zed"} {
				for _, o := range []string{"data1", "data2"} {
					ok, err := e.Enforce(u, o, "read")
					fmt.Fprintf(&sb, "%v/%v ", ok, err != nil)
				}
			}
			done <- sb.String()
		}()
		select {
		case <-done:
		case <-time.After(3 * time.Second):
			fmt.Printf("HANG graph %d %v\n", gi, links)
			return 3
		}
	}
	fmt.Println("OK")
	return 0
}

// condCycles runs condCycleChild in a child process and reports a hang or a crash.
func condCycles(c *Ctx) {
	ctx, cancel := context.WithTimeout(context.Background(), 30*time.Second)
	defer cancel()
	cmd := exec.CommandContext(ctx, os.Args[0], "child:condcycles", "quick", "0", os.TempDir())
	cmd.Env = append(os.Environ(), "GOMEMLIMIT=512MiB")
	out, err := cmd.CombinedOutput()
	c.Evals++
	c.Count("conditional_cycle_child_runs", 1)
	if err != nil || !strings.Contains(string(out), "OK") {
		tail := string(out)
		if len(tail) > 600 {
			tail = tail[:600]
		}
		c.Direct("Enforce over a conditional role graph with a cycle hangs or crashes the process", fmt.Sprintf("child exit: %v\n%s", err, tail))
	}
}

// condRejectedReload (C11): a model whose role definitions are all conditional; the store is replaced by a text
// whose j-th grouping line lacks its condition parameters (accepted as a rule, refused when its link is
// built): LoadPolicy reports the error and rules, links and decisions are what they were.  Implementation only.
func condRejectedReload(c *Ctx) {
	good := "p, admin, data1, read\np, root, data2, read\ng, alice, admin, _, _\ng, admin, root, _, _\ng, bob, admin, _, _\n"
	for j := 1; j <= 3; j++ {
		lines := []string{"p, admin, data2, read", "g, carol, admin, _, _", "g, dave, root, _, _", "g, erin, admin, _, _"}
		lines[j] = "g, zed, admin" // the j-th grouping line has no parameters
		bad := strings.Join(lines, "\n") + "\n"
		path := scratchFile() + ".cond11"
		if err := os.WriteFile(path, []byte(good), 0o644); err != nil {
			panic(err)
		}
		e, err := casbin.NewEnforcer(mustModel(condModelText), fileadapter.NewAdapter(path))
		if err != nil {
			panic(err)
		}
		state := func() string {
			pp, _ := e.GetPolicy()
			gp, _ := e.GetGroupingPolicy()
			var sb strings.Builder
			fmt.Fprintf(&sb, "p=%v g=%v links=", pp, gp)
			crm := e.GetModel()["g"]["g"].CondRM
			for _, u := range []string{"alice", "bob", "carol", "dave", "erin", "zed", "admin"} {
				for _, r := range []string{"admin", "root"} {
					ok, _ := crm.HasLink(u, r)
					if ok {
						sb.WriteByte('1')
					} else {
						sb.WriteByte('0')
					}
				}
			}
			return sb.String() + " dec=" + condDecisions(e)
		}
		before := state()
		if err := os.WriteFile(path, []byte(bad), 0o644); err != nil {
			panic(err)
		}
		err = e.LoadPolicy()
		after := state()
		c.Evals++
		c.Count("conditional_rejected_reloads", 1)
		if err == nil {
			c.Direct("a grouping line without its condition parameters was loaded without an error", fmt.Sprintf("text=%q", bad))
			continue
		}
		c.Nontrivial(fmt.Sprintf("cond-rejected-reload|%d", j))
		if before != after {
			c.Direct("a rejected load changed the in-memory state (conditional role definition)", fmt.Sprintf("grouping line #%d of the new text lacks its parameters\nbefore: %s\nafter:  %s", j, before, after))
		}
	}
}
