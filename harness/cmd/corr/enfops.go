package main

import (
	"fmt"
	"os"
	"path/filepath"
	"sort"
	"strings"
	"time"

	"github.com/casbin/casbin/v2"
	"github.com/casbin/casbin/v2/model"
	fileadapter "github.com/casbin/casbin/v2/persist/file-adapter"
	stringadapter "github.com/casbin/casbin/v2/persist/string-adapter"
	"github.com/casbin/casbin/v2/rbac"
	defaultrolemanager "github.com/casbin/casbin/v2/rbac/default-role-manager"
	"github.com/casbin/casbin/v2/util"

	"verif/harness/internal/mem"
	"verif/harness/internal/proto"
)

// MSpec describes a model the way both sides need it: casbin text pieces and protocol header.
type MSpec struct {
	RTypes []string
	R      map[string][]string
	PTypes []string
	P      map[string][]string
	GTypes []string
	GCount map[string]int
	GKind  map[string]string // plain | domain
	ETypes []string
	E      map[string]string // effect text in model syntax (p.eft)
	MTypes []string
	M      map[string]*Ex
	// which r/p type each matcher talks about (for printing)
	MR, MP map[string]string
}

func NewMSpec() *MSpec {
	return &MSpec{R: map[string][]string{}, P: map[string][]string{}, GCount: map[string]int{}, GKind: map[string]string{},
		E: map[string]string{}, M: map[string]*Ex{}, MR: map[string]string{}, MP: map[string]string{}}
}

func (ms *MSpec) AddR(t string, toks ...string) *MSpec { ms.RTypes = append(ms.RTypes, t); ms.R[t] = toks; return ms }
func (ms *MSpec) AddP(t string, toks ...string) *MSpec { ms.PTypes = append(ms.PTypes, t); ms.P[t] = toks; return ms }
func (ms *MSpec) AddG(t string, count int) *MSpec {
	ms.GTypes = append(ms.GTypes, t)
	ms.GCount[t] = count
	if count > 2 {
		ms.GKind[t] = "domain"
	} else {
		ms.GKind[t] = "plain"
	}
	return ms
}
func (ms *MSpec) AddE(t, text string) *MSpec { ms.ETypes = append(ms.ETypes, t); ms.E[t] = text; return ms }
func (ms *MSpec) AddM(t, rt, pt string, m *Ex) *MSpec {
	ms.MTypes = append(ms.MTypes, t)
	ms.M[t] = m
	ms.MR[t] = rt
	ms.MP[t] = pt
	return ms
}

func (ms *MSpec) MatcherText(t string) string {
	return ms.M[t].Text(ms.MR[t], ms.MP[t], ms.R[ms.MR[t]], ms.P[ms.MP[t]])
}

// Build makes the casbin model through AddDef (the path NewModelFromString ends in).
func (ms *MSpec) Build() model.Model {
	m := model.NewModel()
	for _, t := range ms.RTypes {
		m.AddDef("r", t, strings.Join(ms.R[t], ", "))
	}
	for _, t := range ms.PTypes {
		m.AddDef("p", t, strings.Join(ms.P[t], ", "))
	}
	for _, t := range ms.GTypes {
		m.AddDef("g", t, strings.TrimSuffix(strings.Repeat("_, ", ms.GCount[t]), ", "))
	}
	for _, t := range ms.ETypes {
		m.AddDef("e", t, ms.E[t])
	}
	for _, t := range ms.MTypes {
		m.AddDef("m", t, ms.MatcherText(t))
	}
	return m
}

// Header prints the protocol definition lines (after `case enforcer`).
func (ms *MSpec) Header(m model.Model) []string {
	var out []string
	for _, t := range ms.RTypes {
		out = append(out, fmt.Sprintf("def r %s %d", t, len(ms.R[t])))
	}
	for _, t := range ms.PTypes {
		out = append(out, fmt.Sprintf("def p %s %s", t, strings.Join(ms.P[t], " ")))
	}
	for _, t := range ms.GTypes {
		out = append(out, fmt.Sprintf("def g %s %d %s", t, ms.GCount[t], ms.GKind[t]))
	}
	for _, t := range ms.ETypes {
		// what casbin stored after EscapeAssertion / RemoveComments
		out = append(out, fmt.Sprintf("def e %s %s", t, proto.Enc(m["e"][t].Value)))
	}
	for _, t := range ms.MTypes {
		out = append(out, fmt.Sprintf("def m %s %s", t, ms.M[t].Prefix()))
	}
	return out
}

// V is a request value.
type V struct {
	Kind string // s n o b
	S    string
	N    int
	B    bool
	O    map[string]Atom
}

func VS(s string) V { return V{Kind: "s", S: s} }
func VN(n int) V    { return V{Kind: "n", N: n} }

func (v V) Go() interface{} {
	switch v.Kind {
	case "s":
		return v.S
	case "n":
		return float64(v.N)
	case "b":
		return v.B
	default:
		m := map[string]interface{}{}
		for k, a := range v.O {
			if a.Num {
				m[k] = float64(a.N)
			} else {
				m[k] = a.S
			}
		}
		return m
	}
}

func (v V) Tok() string {
	switch v.Kind {
	case "s":
		return "s:" + proto.Enc(v.S)
	case "n":
		return fmt.Sprintf("n:%d", v.N)
	case "b":
		if v.B {
			return "b:1"
		}
		return "b:0"
	default:
		keys := make([]string, 0, len(v.O))
		for k := range v.O {
			keys = append(keys, k)
		}
		sort.Strings(keys)
		parts := make([]string, len(keys))
		for i, k := range keys {
			a := v.O[k]
			if a.Num {
				parts[i] = fmt.Sprintf("%s=n:%d", proto.Enc(k), a.N)
			} else {
				parts[i] = fmt.Sprintf("%s=s:%s", proto.Enc(k), proto.Enc(a.S))
			}
		}
		return "o:" + strings.Join(parts, ",")
	}
}

// EOp is one enforcer-level operation.
type EOp struct {
	Kind   string
	Sec    string
	PType  string
	Ex     bool
	Rule   []string
	New    []string
	Rules  [][]string
	News   [][]string
	FI     int
	Vals   []string
	Ctx    *casbin.EnforceContext
	Req    []V
	Flag   string
	On     bool
	K      int
	What   string
	Args   []string
	Custom string
	Text   string
	Filter *fileadapter.Filter
	// Listed (rms): pass the live listing (GetPolicy / GetGroupingPolicy) instead of a copy of Rules
	Listed bool
	// NoBuild (setrm): install the role manager only, without the BuildRoleLinks that normally follows. Only
	// used while no grouping rule is listed, where both leave the same (empty) graph, so the model line is the same
	NoBuild bool
	// NilFilter: pass an untyped nil filter
	NilFilter bool
	// BadFilter: pass a value that is not a *Filter
	BadFilter bool
	// Persist: the shouldPersist predicate of a Self call: "n" (nil), "0", "1"
	Persist string
}

func persistFn(p string) func() bool {
	switch p {
	case "0":
		return func() bool { return false }
	case "1":
		return func() bool { return true }
	}
	return nil
}

func errBit(err error) int {
	if err != nil {
		return 1
	}
	return 0
}

func filterTok(f *fileadapter.Filter, isNil bool) string {
	if isNil || f == nil {
		return "nil"
	}
	var parts []string
	add := func(name string, vs []string) {
		if vs == nil {
			return
		}
		enc := make([]string, len(vs))
		for i, v := range vs {
			enc[i] = proto.Enc(v)
		}
		parts = append(parts, name+"="+strings.Join(enc, ","))
	}
	add("p", f.P)
	add("g", f.G)
	add("g1", f.G1)
	add("g2", f.G2)
	add("g3", f.G3)
	add("g4", f.G4)
	add("g5", f.G5)
	if len(parts) == 0 {
		return "-"
	}
	return strings.Join(parts, " ")
}

func (o EOp) Line() string {
	sp := o.Sec + " " + o.PType
	switch o.Kind {
	case "enf", "enfx", "enfm":
		var parts []string
		parts = append(parts, o.Kind)
		if o.Kind == "enfm" {
			parts = append(parts, o.Custom)
		}
		if o.Ctx != nil {
			parts = append(parts, "ctx", proto.Enc(o.Ctx.RType), proto.Enc(o.Ctx.PType), proto.Enc(o.Ctx.EType), proto.Enc(o.Ctx.MType))
		}
		for _, v := range o.Req {
			parts = append(parts, v.Tok())
		}
		return strings.Join(parts, " ")
	case "add", "rm":
		return o.Kind + " " + sp + " " + proto.EncRule(o.Rule)
	case "adds":
		ex := "0"
		if o.Ex {
			ex = "1"
		}
		return "adds " + sp + " " + ex + " " + proto.EncRules(o.Rules)
	case "rms":
		return "rms " + sp + " " + proto.EncRules(o.Rules)
	case "upd":
		return "upd " + sp + " " + proto.EncRule(o.Rule) + " | " + proto.EncRule(o.New)
	case "upds":
		return "upds " + sp + " " + proto.EncRules(o.Rules) + " || " + proto.EncRules(o.News)
	case "rmf":
		return fmt.Sprintf("rmf %s %d %s", sp, o.FI, proto.EncRule(o.Vals))
	case "updf":
		return fmt.Sprintf("updf %s %d %s || %s", sp, o.FI, proto.EncRule(o.Vals), proto.EncRules(o.News))
	case "clear", "load", "save", "buildlinks", "setmodel":
		return o.Kind
	case "addmf", "adddmf":
		return o.Kind + " " + o.PType + " " + o.What
	case "loadtext":
		return "loadtext " + o.What + " " + proto.Enc(o.Text)
	case "loadf", "loadif":
		if o.BadFilter {
			return o.Kind + " bad"
		}
		return o.Kind + " " + filterTok(o.Filter, o.NilFilter)
	case "savefa":
		return "savefa"
	case "dist-add", "dist-rm":
		return o.Kind + " " + o.Persist + " " + sp + " " + proto.EncRules(o.Rules)
	case "dist-rmf":
		return fmt.Sprintf("dist-rmf %s %s %d %s", o.Persist, sp, o.FI, proto.EncRule(o.Vals))
	case "dist-clear":
		return "dist-clear " + o.Persist
	case "dist-updf":
		return strings.TrimRight(fmt.Sprintf("dist-updf %s %s %d %s", o.Persist, sp, o.FI, proto.EncRule(o.Vals)), " ") + " || " + proto.EncRules(o.News)
	case "dist-upd":
		return "dist-upd " + o.Persist + " " + sp + " " + proto.EncRule(o.Rule) + " | " + proto.EncRule(o.New)
	case "dist-upds":
		return "dist-upds " + o.Persist + " " + sp + " " + proto.EncRules(o.Rules) + " || " + proto.EncRules(o.News)
	case "setrm":
		return "setrm " + o.PType
	case "set":
		b := "0"
		if o.On {
			b = "1"
		}
		return "set " + o.Flag + " " + b
	case "arm":
		return fmt.Sprintf("arm %s %d", o.What, o.K)
	case "obs":
		return "obs " + strings.Join(o.Args, " ")
	case "haslink", "roles", "users", "iroles":
		return o.Kind + " " + o.PType + " " + proto.EncRule(o.Args)
	case "iusersrole", "igrant", "iusers", "iusersres":
		return o.Kind + " " + proto.EncRule(o.Args)
	case "mpos":
		return "mpos"
	case "rbac":
		return strings.TrimRight("rbac "+o.What+" "+proto.EncRule(o.Args), " ") + " || " + proto.EncRules(o.Rules)
	case "iperms":
		return "iperms " + o.What + " " + o.PType + " " + proto.EncRule(o.Args)
	}
	panic("bad op " + o.Kind)
}

// Sess is a live enforcer under test with its recording adapter and watcher.
type Sess struct {
	D       *casbin.DistributedEnforcer
	FA      *fileadapter.FilteredAdapter
	FAPath  string
	MS      *MSpec
	E       *casbin.Enforcer
	A       *mem.Adapter
	W       *mem.Watcher
	Customs map[string]string
	handed  []*handedRules
}

var listingGetter int

// liveListing returns what one of the listing getters hands out (not a copy made by the harness)
func (s *Sess) liveListing(p bool, ptype string) [][]string {
	listingGetter++
	var live [][]string
	switch listingGetter % 3 {
	case 0:
		if p {
			live, _ = s.E.GetNamedPolicy(ptype)
		} else {
			live, _ = s.E.GetNamedGroupingPolicy(ptype)
		}
	case 1:
		if p {
			live, _ = s.E.GetFilteredNamedPolicy(ptype, 0)
		} else {
			live, _ = s.E.GetFilteredNamedGroupingPolicy(ptype, 0)
		}
	default:
		if p {
			live, _ = s.E.GetFilteredNamedPolicy(ptype, 0, "")
		} else {
			live, _ = s.E.GetFilteredNamedGroupingPolicy(ptype, 0, "")
		}
	}
	return live
}

func mres(ok bool, err error) string {
	if err != nil {
		return "err:" + proto.Bool(ok)
	}
	return proto.Bool(ok)
}

func okErr(err error) string {
	if err != nil {
		return "err"
	}
	return "ok"
}

func encSet(xs []string) string {
	if len(xs) == 0 {
		return "-"
	}
	enc := make([]string, len(xs))
	for i, x := range xs {
		enc[i] = proto.Enc(x)
	}
	sort.Strings(enc)
	// role managers may report a name twice through different paths: sets are compared
	out := enc[:0]
	for i, x := range enc {
		if i == 0 || x != enc[i-1] {
			out = append(out, x)
		}
	}
	return strings.Join(out, " ")
}

func encSortedDup(xs []string) string {
	if len(xs) == 0 {
		return "-"
	}
	enc := make([]string, len(xs))
	for i, x := range xs {
		enc[i] = proto.Enc(x)
	}
	sort.Strings(enc)
	return strings.Join(enc, " ")
}

func encLog(xs []string) string {
	if len(xs) == 0 {
		return "-"
	}
	enc := make([]string, len(xs))
	for i, x := range xs {
		enc[i] = proto.Enc(x)
	}
	return strings.Join(enc, " ")
}

func reqGo(ctx *casbin.EnforceContext, req []V) []interface{} {
	var out []interface{}
	if ctx != nil {
		out = append(out, *ctx)
	}
	for _, v := range req {
		out = append(out, v.Go())
	}
	return out
}

// Exec runs the operation on the real enforcer.  Every rule list handed to the library is a copy of the
// operation's own (pristine) list; after every call all copies handed out so far in this session are compared with
// their originals: the library must not edit a slice it was given — not during the call (the notification and
// the caller would see the edit) and not later.
func (s *Sess) Exec(o EOp) string {
	obs := s.execInner(o)
	for _, h := range s.handed {
		if !h.reported && !sameRules(h.clone, h.orig) {
			h.reported = true
			if len(argMutations) < 5 {
				argMutations = append(argMutations, fmt.Sprintf("%s: %v, found after %s: %v", h.op, h.orig, o.Line(), h.clone))
			}
		}
	}
	return obs
}

type handedRules struct {
	op          string
	orig, clone [][]string
	reported    bool
}

// argMutations collects (process-wide) the cases in which the library edited a slice its caller passed in
var argMutations []string

func sameRules(a, b [][]string) bool {
	if len(a) != len(b) {
		return false
	}
	for i := range a {
		if len(a[i]) != len(b[i]) {
			return false
		}
		for k := range a[i] {
			if a[i][k] != b[i][k] {
				return false
			}
		}
	}
	return true
}

func (s *Sess) hand(o EOp, rs [][]string) [][]string {
	cl := cloneRules(rs)
	if len(s.handed) < 400 {
		s.handed = append(s.handed, &handedRules{op: "handed in by " + o.Line(), orig: cloneRules(rs), clone: cl})
	}
	return cl
}

// keepReturned remembers a rule list the library returned (the affected rules of a Self operation, which a
// dispatcher forwards to the other replicas): it belongs to the caller from then on and is compared with its
// pristine copy after every later call, like the lists handed in.
func (s *Sess) keepReturned(o EOp, rs [][]string) {
	if len(rs) == 0 || len(s.handed) >= 400 {
		return
	}
	s.handed = append(s.handed, &handedRules{op: "the result of " + o.Line(), orig: cloneRules(rs), clone: rs})
}

func (s *Sess) hand1(o EOp, r []string) []string {
	return s.hand(o, [][]string{r})[0]
}

// execInner runs one op on the real enforcer; panics escaping the API are observed as "panic".
func (s *Sess) execInner(o EOp) (obs string) {
	defer func() {
		if r := recover(); r != nil {
			obs = "panic"
		}
	}()
	e := s.E
	p := o.Sec == "p"
	switch o.Kind {
	case "enf":
		ok, err := e.Enforce(reqGo(o.Ctx, o.Req)...)
		if err != nil {
			if ok {
				return "err-but-true"
			}
			return "err"
		}
		return proto.Bool(ok)
	case "enfx":
		ok, explain, err := e.EnforceEx(reqGo(o.Ctx, o.Req)...)
		if err != nil {
			if ok {
				return "err-but-true"
			}
			return "err"
		}
		idx := -1
		if len(explain) > 0 {
			pt := "p"
			if o.Ctx != nil {
				pt = o.Ctx.PType
			}
			for i, r := range e.GetModel()["p"][pt].Policy {
				if strings.Join(r, "\x01") == strings.Join(explain, "\x01") {
					idx = i
					break
				}
			}
			if idx < 0 {
				return "explain-not-in-policy"
			}
		}
		return fmt.Sprintf("%v %d", ok, idx)
	case "enfm":
		ok, err := e.EnforceWithMatcher(s.Customs[o.Custom], reqGo(o.Ctx, o.Req)...)
		if err != nil {
			return "err"
		}
		return proto.Bool(ok)
	case "add":
		if p {
			// AddNamedPolicy copies a rule given as one []string (its callers refill one buffer per rule): the
			// buffer is overwritten right after the call, the listed rule must not follow
			buf := append([]string(nil), o.Rule...)
			res := mres(e.AddNamedPolicy(o.PType, buf))
			for i := range buf {
				buf[i] = "\x00overwritten-by-the-caller"
			}
			return res
		}
		return mres(e.AddNamedGroupingPolicy(o.PType, s.hand1(o, o.Rule)))
	case "adds":
		switch {
		case p && !o.Ex:
			return mres(e.AddNamedPolicies(o.PType, s.hand(o, o.Rules)))
		case p && o.Ex:
			return mres(e.AddNamedPoliciesEx(o.PType, s.hand(o, o.Rules)))
		case !p && !o.Ex:
			return mres(e.AddNamedGroupingPolicies(o.PType, s.hand(o, o.Rules)))
		default:
			return mres(e.AddNamedGroupingPoliciesEx(o.PType, s.hand(o, o.Rules)))
		}
	case "rm":
		if p {
			return mres(e.RemoveNamedPolicy(o.PType, s.hand1(o, o.Rule)))
		}
		return mres(e.RemoveNamedGroupingPolicy(o.PType, s.hand1(o, o.Rule)))
	case "rms":
		if o.Listed {
			// the listing handed straight back (o.Rules holds what was listed); the getter rotates: the plain listing,
			// the filtered listing with no values, the filtered listing with one empty value
			if p {
				return mres(e.RemoveNamedPolicies(o.PType, s.liveListing(true, o.PType)))
			}
			return mres(e.RemoveNamedGroupingPolicies(o.PType, s.liveListing(false, o.PType)))
		}
		if p {
			return mres(e.RemoveNamedPolicies(o.PType, s.hand(o, o.Rules)))
		}
		return mres(e.RemoveNamedGroupingPolicies(o.PType, s.hand(o, o.Rules)))
	case "upd":
		if p {
			return mres(e.UpdateNamedPolicy(o.PType, s.hand1(o, o.Rule), s.hand1(o, o.New)))
		}
		return mres(e.UpdateNamedGroupingPolicy(o.PType, s.hand1(o, o.Rule), s.hand1(o, o.New)))
	case "upds":
		if o.Listed {
			// the old rules are the listing itself, handed straight back
			if p {
				return mres(e.UpdateNamedPolicies(o.PType, s.liveListing(true, o.PType), s.hand(o, o.News)))
			}
			return mres(e.UpdateNamedGroupingPolicies(o.PType, s.liveListing(false, o.PType), s.hand(o, o.News)))
		}
		if p {
			return mres(e.UpdateNamedPolicies(o.PType, s.hand(o, o.Rules), s.hand(o, o.News)))
		}
		return mres(e.UpdateNamedGroupingPolicies(o.PType, s.hand(o, o.Rules), s.hand(o, o.News)))
	case "rmf":
		if p {
			return mres(e.RemoveFilteredNamedPolicy(o.PType, o.FI, o.Vals...))
		}
		return mres(e.RemoveFilteredNamedGroupingPolicy(o.PType, o.FI, o.Vals...))
	case "updf":
		if p {
			return mres(e.UpdateFilteredNamedPolicies(o.PType, s.hand(o, o.News), o.FI, o.Vals...))
		}
		panic("updf on g is not in the public API")
	case "rbac":
		return s.execRbac(o)
	case "clear":
		e.ClearPolicy()
		return "ok"
	case "load":
		return okErr(e.LoadPolicy())
	case "save":
		return okErr(e.SavePolicy())
	case "buildlinks":
		return okErr(e.BuildRoleLinks())
	case "addmf":
		return proto.Bool(e.AddNamedMatchingFunc(o.PType, o.What, matchFns[o.What]))
	case "adddmf":
		return proto.Bool(e.AddNamedDomainMatchingFunc(o.PType, o.What, matchFns[o.What]))
	case "setrm":
		if s.MS.GCount[o.PType] > 2 {
			e.SetNamedRoleManager(o.PType, defaultrolemanager.NewRoleManager(10))
		} else {
			e.SetNamedRoleManager(o.PType, defaultrolemanager.NewRoleManagerImpl(10))
		}
		if o.NoBuild {
			if gp, _ := e.GetNamedGroupingPolicy(o.PType); len(gp) > 0 {
				panic("setrm NoBuild with listed grouping rules")
			}
			return "ok"
		}
		return okErr(e.BuildRoleLinks())
	case "setmodel":
		e.SetModel(s.MS.Build())
		return "#"
	case "loadtext":
		if o.What == "file" {
			path := scratchFile()
			if err := os.WriteFile(path, []byte(o.Text), 0o644); err != nil {
				panic(err)
			}
			e.SetAdapter(fileadapter.NewAdapter(path))
		} else {
			e.SetAdapter(stringadapter.NewAdapter(o.Text))
		}
		return okErr(e.LoadPolicy())
	case "loadf", "loadif":
		var filter interface{}
		if !o.NilFilter && o.Filter != nil {
			filter = o.Filter
		}
		if o.BadFilter {
			filter = []string{"alice"}
		}
		var err error
		if o.Kind == "loadf" {
			err = e.LoadFilteredPolicy(filter)
		} else {
			err = e.LoadIncrementalFilteredPolicy(filter)
		}
		f := 0
		if s.FA.IsFiltered() {
			f = 1
		}
		return fmt.Sprintf("%s F=%d", okErr(err), f)
	case "dist-add":
		aff, err := s.D.AddPoliciesSelf(persistFn(o.Persist), o.Sec, o.PType, s.hand(o, o.Rules))
		s.keepReturned(o, aff)
		return fmt.Sprintf("A %s E %d", proto.EncRules(aff), errBit(err))
	case "dist-rm":
		aff, err := s.D.RemovePoliciesSelf(persistFn(o.Persist), o.Sec, o.PType, s.hand(o, o.Rules))
		s.keepReturned(o, aff)
		return fmt.Sprintf("A %s E %d", proto.EncRules(aff), errBit(err))
	case "dist-rmf":
		aff, err := s.D.RemoveFilteredPolicySelf(persistFn(o.Persist), o.Sec, o.PType, o.FI, o.Vals...)
		s.keepReturned(o, aff)
		return fmt.Sprintf("A %s E %d", proto.EncRules(aff), errBit(err))
	case "dist-clear":
		err := s.D.ClearPolicySelf(persistFn(o.Persist))
		return fmt.Sprintf("E %d", errBit(err))
	case "dist-upd":
		ok, err := s.D.UpdatePolicySelf(persistFn(o.Persist), o.Sec, o.PType, s.hand1(o, o.Rule), s.hand1(o, o.New))
		return fmt.Sprintf("%v E %d", ok, errBit(err))
	case "dist-upds":
		ok, err := s.D.UpdatePoliciesSelf(persistFn(o.Persist), o.Sec, o.PType, s.hand(o, o.Rules), s.hand(o, o.News))
		return fmt.Sprintf("%v E %d", ok, errBit(err))
	case "dist-updf":
		ok, err := s.D.UpdateFilteredPoliciesSelf(persistFn(o.Persist), o.Sec, o.PType, s.hand(o, o.News), o.FI, o.Vals...)
		return fmt.Sprintf("%v E %d", ok, errBit(err))
	case "savefa":
		err := e.SavePolicy()
		f := 0
		if s.FA.IsFiltered() {
			f = 1
		}
		return fmt.Sprintf("%s F=%d", okErr(err), f)
	case "set":
		switch o.Flag {
		case "autosave":
			e.EnableAutoSave(o.On)
		case "autobuild":
			e.EnableAutoBuildRoleLinks(o.On)
		case "autonotify":
			e.EnableAutoNotifyWatcher(o.On)
		case "enabled":
			e.EnableEnforce(o.On)
		}
		return "#"
	case "arm":
		switch o.What {
		case "adapter":
			s.A.Arm(o.K)
		case "load":
			s.A.LoadFailAfter = o.K
		}
		return "#"
	case "obs":
		switch o.Args[0] {
		case "pol":
			ast, ok := e.GetModel()[o.Args[1]][o.Args[2]]
			if !ok {
				return "err"
			}
			return proto.EncRules(ast.Policy)
		case "adapter":
			if s.A == nil {
				return "none"
			}
			if len(s.A.Lines) == 0 {
				return "-"
			}
			parts := make([]string, len(s.A.Lines))
			for i, l := range s.A.Lines {
				parts[i] = proto.EncRule(append([]string{l.PType}, l.Rule...))
			}
			return strings.Join(parts, " | ")
		case "log":
			if s.A == nil {
				return "none"
			}
			return encLog(s.A.Log)
		case "notif":
			if s.W == nil {
				return "-"
			}
			return encLog(s.W.Log)
		case "fatext":
			b, _ := os.ReadFile(s.FAPath)
			return "t:" + proto.Enc(string(b))
		}
	case "haslink":
		rm := e.GetNamedRoleManager(o.PType)
		if rm == nil {
			return "err"
		}
		ok, err := rm.HasLink(o.Args[0], o.Args[1], o.Args[2:]...)
		if err != nil {
			return "err"
		}
		return proto.Bool(ok)
	case "roles":
		rm := e.GetNamedRoleManager(o.PType)
		if rm == nil {
			return "err"
		}
		rs, err := rm.GetRoles(o.Args[0], o.Args[1:]...)
		if err != nil {
			return "err"
		}
		return encSet(rs)
	case "mpos":
		// what the generator built: the matcher has / has not a negated role test
		return o.Args[0]
	case "iroles":
		rs, err := e.GetNamedImplicitRolesForUser(o.PType, o.Args[0], o.Args[1:]...)
		if err != nil {
			return "err"
		}
		return encSet(rs)
	case "iusersrole":
		rs, err := e.GetImplicitUsersForRole(o.Args[0], o.Args[1:]...)
		if err != nil {
			return "err"
		}
		return encSortedDup(rs)
	case "iperms":
		ps, err := e.GetNamedImplicitPermissionsForUser(o.What, o.PType, o.Args[0], o.Args[1:]...)
		if err != nil {
			return "err"
		}
		return "L " + proto.EncRules(ps)
	case "igrant":
		// does a permission listed for the user grant the request?
		tail := o.Args[1:]
		var dom []string
		if s.MS.GCount["g"] > 2 {
			dom = tail[:1]
		}
		ps, err := e.GetImplicitPermissionsForUser(o.Args[0], dom...)
		if err != nil {
			return "err"
		}
		granted := false
		for _, perm := range ps {
			if len(perm) > 0 && strings.Join(perm[1:], "\x01") == strings.Join(tail, "\x01") && len(perm[1:]) == len(tail) {
				granted = true
			}
		}
		return proto.Bool(granted)
	case "iusersres":
		rows, err := e.GetImplicitUsersForResource(o.Args[0])
		if err != nil {
			return "err"
		}
		if len(rows) == 0 {
			return "L -"
		}
		enc := make([]string, len(rows))
		for i, r := range rows {
			enc[i] = proto.EncRule(r)
		}
		sort.Strings(enc)
		return "L " + strings.Join(enc, " | ")
	case "iusers":
		us, err := e.GetImplicitUsersForPermission(o.Args...)
		if err != nil {
			return "err"
		}
		return "L " + encSet(us)
	case "users":
		rm := e.GetNamedRoleManager(o.PType)
		if rm == nil {
			return "err"
		}
		rs, err := rm.GetUsers(o.Args[0], o.Args[1:]...)
		if err != nil {
			return "err"
		}
		return encSet(rs)
	}
	panic("bad op " + o.Kind)
}

// the matching functions a case may register by name
var matchFns = map[string]rbac.MatchingFunc{
	"keyMatch":  util.KeyMatch,
	"keyMatch2": util.KeyMatch2,
	"regexMatch": func(a, b string) bool {
		defer func() { _ = recover() }()
		return util.RegexMatch(a, b)
	},
}

var scratchDir string

// scratchFile is a per-process temp file (outside /verif and /repo), removed by cleanupScratch.
func scratchFile() string {
	if scratchDir == "" {
		d, err := os.MkdirTemp("", "corr-scratch")
		if err != nil {
			panic(err)
		}
		scratchDir = d
	}
	return filepath.Join(scratchDir, "policy.csv")
}

func cleanupScratch() {
	if scratchDir != "" {
		os.RemoveAll(scratchDir)
	}
}

// ExecGuarded runs an op under a watchdog: a call that does not return within the limit is observed as "hang".
func (s *Sess) ExecGuarded(o EOp, limit time.Duration) string {
	ch := make(chan string, 1)
	go func() { ch <- s.Exec(o) }()
	select {
	case r := <-ch:
		return r
	case <-time.After(limit):
		return "hang"
	}
}
