package main

import (
	"fmt"
	"strconv"
	"strings"

	"verif/harness/internal/proto"
)

// Ex is a matcher expression AST (the Go twin of Lean's Casbin.Expr).
type Ex struct {
	Op   string // lit blit r p bad attr and or not eq ne lt le gt ge in call2 call3 g2 g3 eval
	S    string // string literal / function or role-definition name / attribute name
	N    int    // number literal
	Num  bool   // lit is a number
	B    bool
	I    int // token index
	Args []*Ex
	Lits []Atom
}

type Atom struct {
	S   string
	N   int
	Num bool
}

func LitS(s string) *Ex          { return &Ex{Op: "lit", S: s} }
func LitN(n int) *Ex             { return &Ex{Op: "lit", N: n, Num: true} }
func RTok(i int) *Ex             { return &Ex{Op: "r", I: i} }
func PTok(i int) *Ex             { return &Ex{Op: "p", I: i} }
func Attr(i int, f string) *Ex   { return &Ex{Op: "attr", I: i, S: f} }
func Bin(op string, a, b *Ex) *Ex { return &Ex{Op: op, Args: []*Ex{a, b}} }
func And(xs ...*Ex) *Ex {
	e := xs[0]
	for _, x := range xs[1:] {
		e = Bin("and", e, x)
	}
	return e
}
func Or(a, b *Ex) *Ex  { return Bin("or", a, b) }
func Eq(a, b *Ex) *Ex  { return Bin("eq", a, b) }
func Not(a *Ex) *Ex    { return &Ex{Op: "not", Args: []*Ex{a}} }
func Eval(a *Ex) *Ex   { return &Ex{Op: "eval", Args: []*Ex{a}} }
func G2(gt string, a, b *Ex) *Ex {
	return &Ex{Op: "g2", S: gt, Args: []*Ex{a, b}}
}
func G3(gt string, a, b, c *Ex) *Ex {
	return &Ex{Op: "g3", S: gt, Args: []*Ex{a, b, c}}
}
func Call2(fn string, a, b *Ex) *Ex {
	return &Ex{Op: "call2", S: fn, Args: []*Ex{a, b}}
}
func In(a *Ex, lits ...Atom) *Ex { return &Ex{Op: "in", Args: []*Ex{a}, Lits: lits} }

var binText = map[string]string{"and": "&&", "or": "||", "eq": "==", "ne": "!=", "lt": "<", "le": "<=", "gt": ">", "ge": ">="}

func quote(s string) string {
	// govaluate string literals: single or double quotes with backslash escapes
	return "\"" + strings.NewReplacer("\\", "\\\\", "\"", "\\\"").Replace(s) + "\""
}

// Text prints the casbin matcher text, fully parenthesised.  rn/pn are the request and policy type
// names ("r", "p2", …), rt/pt their token names.
func (e *Ex) Text(rn, pn string, rt, pt []string) string {
	sub := func(i int) string { return e.Args[i].Text(rn, pn, rt, pt) }
	switch e.Op {
	case "lit":
		if e.Num {
			return strconv.Itoa(e.N)
		}
		return quote(e.S)
	case "blit":
		if e.B {
			return "true"
		}
		return "false"
	case "r":
		return rn + "." + rt[e.I]
	case "p":
		return pn + "." + pt[e.I]
	case "bad":
		return pn + ".nosuchtoken"
	case "attr":
		return rn + "." + rt[e.I] + "." + e.S
	case "not":
		return "!(" + sub(0) + ")"
	case "eval":
		return "eval(" + sub(0) + ")"
	case "in":
		parts := make([]string, len(e.Lits))
		for i, l := range e.Lits {
			if l.Num {
				parts[i] = strconv.Itoa(l.N)
			} else {
				parts[i] = quote(l.S)
			}
		}
		return "(" + sub(0) + " in (" + strings.Join(parts, ", ") + "))"
	case "call2", "g2":
		return e.S + "(" + sub(0) + ", " + sub(1) + ")"
	case "call3", "g3":
		return e.S + "(" + sub(0) + ", " + sub(1) + ", " + sub(2) + ")"
	default:
		return "(" + sub(0) + " " + binText[e.Op] + " " + sub(1) + ")"
	}
}

// Prefix prints the protocol form parsed by Driver/Enforcer.lean: parseExpr.
func (e *Ex) Prefix() string {
	var sb strings.Builder
	var rec func(x *Ex)
	rec = func(x *Ex) {
		switch x.Op {
		case "lit":
			if x.Num {
				fmt.Fprintf(&sb, "lit n %d ", x.N)
			} else {
				fmt.Fprintf(&sb, "lit s %s ", proto.Enc(x.S))
			}
		case "blit":
			b := 0
			if x.B {
				b = 1
			}
			fmt.Fprintf(&sb, "blit %d ", b)
		case "r", "p":
			fmt.Fprintf(&sb, "%s %d ", x.Op, x.I)
		case "bad":
			sb.WriteString("bad ")
		case "attr":
			fmt.Fprintf(&sb, "attr %d %s ", x.I, proto.Enc(x.S))
		case "in":
			sb.WriteString("in ")
			rec(x.Args[0])
			fmt.Fprintf(&sb, "%d ", len(x.Lits))
			for _, l := range x.Lits {
				if l.Num {
					fmt.Fprintf(&sb, "n %d ", l.N)
				} else {
					fmt.Fprintf(&sb, "s %s ", proto.Enc(l.S))
				}
			}
		case "call2", "call3", "g2", "g3":
			fmt.Fprintf(&sb, "%s %s ", x.Op, x.S)
			for _, a := range x.Args {
				rec(a)
			}
		default:
			sb.WriteString(x.Op + " ")
			for _, a := range x.Args {
				rec(a)
			}
		}
	}
	rec(e)
	return strings.TrimSpace(sb.String())
}

// Calls collects the built-in / custom function names the expression uses.
func (e *Ex) Calls(out map[string]bool) {
	if e.Op == "call2" || e.Op == "call3" {
		out[e.S] = true
	}
	for _, a := range e.Args {
		a.Calls(out)
	}
}
