package main

import (
	"syscall"
	"errors"
	"fmt"
	"os"
	"os/exec"
	"strings"
	"sync"
	"sync/atomic"
	"time"

	"github.com/casbin/casbin/v2"
	"github.com/casbin/casbin/v2/model"
	"github.com/casbin/casbin/v2/persist"
	fileadapter "github.com/casbin/casbin/v2/persist/file-adapter"
	stringadapter "github.com/casbin/casbin/v2/persist/string-adapter"
	"github.com/casbin/casbin/v2/util"

	"verif/harness/internal/mem"
)

// Witnesses of the listed findings (findings/known.jsonl).  `corr finding:<id>` runs one on the real
// code: exit 3 = the witness still fails (the defect is present), exit 0 = it holds.
var witnesses = map[string]func() (fails bool, detail string){}

func runFinding(id string) int {
	// a witness of a (repaired) resource blow-up must not take the machine with it when the defect is back
	_ = syscall.Setrlimit(syscall.RLIMIT_AS, &syscall.Rlimit{Cur: 6 << 30, Max: 6 << 30})
	w, ok := witnesses[id]
	if !ok {
		fmt.Println("unknown finding", id)
		return 2
	}
	fails, detail := guarded(w)
	fmt.Println(detail)
	if fails {
		return 3
	}
	return 0
}

// guarded runs a witness with a watchdog and a recover: a panic or a hang counts as failing.
func guarded(f func() (bool, string)) (fails bool, detail string) {
	type res struct {
		fails  bool
		detail string
	}
	ch := make(chan res, 1)
	go func() {
		defer func() {
			if r := recover(); r != nil {
				ch <- res{true, fmt.Sprint("panic: ", r)}
			}
		}()
		a, b := f()
		ch <- res{a, b}
	}()
	select {
	case r := <-ch:
		return r.fails, r.detail
	case <-time.After(5 * time.Second):
		return true, "hang: no result within 5s"
	}
}

const rbacText = `[request_definition]
r = sub, obj, act
[policy_definition]
p = sub, obj, act
[role_definition]
g = _, _
[policy_effect]
e = some(where (p.eft == allow))
[matchers]
m = g(r.sub, p.sub) && r.obj == p.obj && r.act == p.act
`

func mustModel(text string) model.Model {
	m, err := model.NewModelFromString(text)
	if err != nil {
		panic(err)
	}
	return m
}

func init() {
	// D1: a matcher line padded past the config reader's 4096-byte buffer was truncated silently
	witnesses["D1-config-long-line"] = func() (bool, string) {
		text := strings.Replace(rbacText, "&& r.act == p.act", strings.Repeat(" ", 4100)+"&& r.act == p.act", 1)
		m, err := model.NewModelFromString(text)
		if err != nil {
			return false, "long line rejected with an error: " + err.Error()
		}
		v := m["m"]["m"].Value
		return !strings.HasSuffix(v, "r_act == p_act"), fmt.Sprintf("matcher loaded with %d bytes, suffix kept=%v", len(v), strings.HasSuffix(v, "r_act == p_act"))
	}
	// D2: an empty first CSV token panicked in LoadPolicyArray
	witnesses["D2-load-empty-key"] = func() (bool, string) {
		m := mustModel(rbacText)
		err := persist.LoadPolicyLine(",alice,data1,read", m)
		_ = stringadapter.NewAdapter(",alice,data1,read\np, bob, data2, write").LoadPolicy(m)
		return err == nil, fmt.Sprint("LoadPolicyLine(\",alice,data1,read\") = ", err)
	}
	// D3: subject-priority ordering hung on a role cycle reachable from a root
	witnesses["D3-subject-priority-cycle"] = func() (bool, string) {
		text := strings.Replace(strings.Replace(rbacText, "some(where (p.eft == allow))", "subjectPriority(p_eft) || deny", 1), "p = sub, obj, act", "p = sub, obj, act, eft", 1)
		a := mem.New()
		a.Lines = []mem.Line{{"p", []string{"a", "d", "read", "allow"}}, {"g", []string{"a", "b"}}, {"g", []string{"b", "a"}}, {"g", []string{"b", "root"}}}
		e, err := casbin.NewEnforcer(mustModel(text), a)
		if err != nil {
			return false, "load returned an error: " + err.Error()
		}
		_, err = e.Enforce("a", "d", "read")
		return false, fmt.Sprint("load and enforce returned, err=", err)
	}
	// D3b: the level-order walk queued a subject once per path: 2^n queue entries on a chain of n diamonds
	witnesses["D3b-subject-priority-diamonds"] = func() (bool, string) {
		e, err := casbin.NewEnforcer(mustModel(subjectPriorityText()), diamondChain(40))
		if err != nil {
			return true, "load returned an error: " + err.Error()
		}
		ok, err := e.Enforce("n40", "d", "read")
		return !ok || err != nil, fmt.Sprintf("load of a chain of 40 diamonds (acyclic, 121 subjects) returned; Enforce(n40, d, read) = %v, %v (n40 is the most specific subject: its allow rule decides)", ok, err)
	}
	// D4: the role-link rollback of applyModifiedModel never ran
	witnesses["D4-load-rollback"] = func() (bool, string) {
		a := mem.New()
		a.Lines = []mem.Line{{"p", []string{"admin", "d", "read"}}, {"g", []string{"alice", "admin"}}}
		e, err := casbin.NewEnforcer(mustModel(rbacText), a)
		if err != nil {
			return true, err.Error()
		}
		frm := &failingRM{RoleManager: e.GetRoleManager(), failAt: 1}
		e.SetRoleManager(frm)
		a.Lines = append(a.Lines, mem.Line{"g", []string{"bob", "admin"}}, mem.Line{"g", []string{"carol", "admin"}})
		frm.n = 0
		err = e.LoadPolicy()
		if err == nil {
			return true, "LoadPolicy did not report the role manager's error"
		}
		frm.failAt = 0
		alice, _ := e.GetRoleManager().HasLink("alice", "admin")
		bob, _ := e.GetRoleManager().HasLink("bob", "admin")
		gp, _ := e.GetGroupingPolicy()
		return !alice || bob || len(gp) != 1, fmt.Sprintf("after failed load: alice-admin=%v bob-admin=%v grouping=%v", alice, bob, gp)
	}
	// D5: AddNamedMatchingFunc kept memoised g() answers
	witnesses["D5-matchingfunc-stale"] = func() (bool, string) {
		e, _ := casbin.NewEnforcer(mustModel(rbacText))
		e.AddGroupingPolicy("/book/*", "book_admin")
		e.AddPolicy("book_admin", "d", "read")
		before, _ := e.Enforce("/book/1", "d", "read")
		e.AddNamedMatchingFunc("g", "keyMatch", util.KeyMatch)
		after, _ := e.Enforce("/book/1", "d", "read")
		return before || !after, fmt.Sprintf("before=%v after=%v (fresh enforcer: true)", before, after)
	}
	// D6a: priority insertion only worked once the field index had been cached by a load
	witnesses["D6-priority-never-loaded"] = func() (bool, string) {
		text := strings.Replace(strings.Replace(rbacText, "some(where (p.eft == allow))", "priority(p.eft) || deny", 1), "p = sub, obj, act", "p = priority, sub, obj, act, eft", 1)
		e, _ := casbin.NewEnforcer(mustModel(text))
		e.AddPolicy("10", "alice", "d", "read", "deny")
		e.AddPolicy("1", "alice", "d", "read", "allow")
		ok, _ := e.Enforce("alice", "d", "read")
		p, _ := e.GetPolicy()
		return !ok, fmt.Sprintf("decision=%v policy=%v", ok, p)
	}
	// D6b: GetFieldIndex wrote the shared plain map on the read path
	witnesses["D6-fieldindex-lazy-write"] = func() (bool, string) {
		m := mustModel(rbacText)
		before := len(m["p"]["p"].FieldIndexMap)
		m.GetFieldIndex("p", "sub")
		m.GetFieldIndex("p", "obj")
		m.GetFieldIndex("p", "act")
		m.GetFieldIndex("p", "nope")
		after := len(m["p"]["p"].FieldIndexMap)
		return before != after, fmt.Sprintf("FieldIndexMap size before lookups=%d after=%d", before, after)
	}
	// D7: SyncedCachedEnforcer.ClearPolicy kept cached decisions
	witnesses["D7-syncedcached-clear"] = func() (bool, string) {
		e, _ := casbin.NewSyncedCachedEnforcer(mustModel(rbacText))
		e.AddPolicy("alice", "d", "read")
		a, _ := e.Enforce("alice", "d", "read")
		e.ClearPolicy()
		b, _ := e.Enforce("alice", "d", "read")
		return !a || b, fmt.Sprintf("before clear=%v after clear=%v", a, b)
	}
	// D9a: cache key not injective with "$$"
	witnesses["D9-cachekey-collision"] = func() (bool, string) {
		e, _ := casbin.NewCachedEnforcer(mustModel(rbacText))
		e.AddPolicy("a$$b", "c", "read")
		a, _ := e.Enforce("a$$b", "c", "read")
		b, _ := e.Enforce("a", "b$$c", "read")
		k1, _ := casbin.GetCacheKey("a$$b", "c", "read")
		k2, _ := casbin.GetCacheKey("a", "b$$c", "read")
		return !a || b || k1 == k2, fmt.Sprintf("(a$$b,c,read)=%v (a,b$$c,read)=%v keysEqual=%v", a, b, k1 == k2)
	}
	// D9b: RemovePolicy([]string{...}) skipped the invalidation; RemovePolicies sized by the first rule
	witnesses["D9-cached-remove-slice"] = func() (bool, string) {
		e, _ := casbin.NewCachedEnforcer(mustModel(rbacText))
		e.AddPolicy("alice", "d", "read")
		a, _ := e.Enforce("alice", "d", "read")
		e.RemovePolicy([]string{"alice", "d", "read"})
		b, _ := e.Enforce("alice", "d", "read")
		_, err := e.RemovePolicies([][]string{{"x"}, {"alice", "d", "read"}})
		return !a || b, fmt.Sprintf("before=%v after RemovePolicy([]string)=%v; mixed-length RemovePolicies err=%v", a, b, err)
	}
	// D25: invalidations were skipped while the cache was disabled
	witnesses["D25-cache-disabled-invalidation"] = func() (bool, string) {
		e, _ := casbin.NewCachedEnforcer(mustModel(rbacText))
		e.AddPolicy("alice", "d", "read")
		a, _ := e.Enforce("alice", "d", "read")
		e.EnableCache(false)
		e.RemovePolicy("alice", "d", "read")
		e.EnableCache(true)
		b, _ := e.Enforce("alice", "d", "read")
		return !a || b, fmt.Sprintf("cached=%v after disable;RemovePolicy;enable=%v", a, b)
	}
	// D26: BuildRoleLinks did not invalidate the memoised g() results
	witnesses["D26-buildrolelinks-stale"] = func() (bool, string) {
		a := mem.New()
		a.Lines = []mem.Line{{"p", []string{"admin", "d", "read"}}, {"g", []string{"alice", "admin"}}}
		e, _ := casbin.NewEnforcer(mustModel(rbacText), a)
		e.EnableAutoSave(false)
		e.EnableAutoBuildRoleLinks(false)
		e.RemoveGroupingPolicy("alice", "admin") // memory only
		_ = e.LoadPolicy()                       // rules are back, links are not rebuilt
		e.AddGroupingPolicy("bob", "admin")      // binds the role manager again
		before, _ := e.Enforce("alice", "d", "read")
		_ = e.BuildRoleLinks()
		after, _ := e.Enforce("alice", "d", "read")
		return !after, fmt.Sprintf("before BuildRoleLinks=%v after=%v (fresh enforcer: true)", before, after)
	}
	// D28: a self-referential eval() rule overflowed the stack (fatal, not recoverable)
	witnesses["D28-eval-self-reference"] = func() (bool, string) {
		if os.Getenv("VERIF_D28_CHILD") == "1" {
			text := strings.Replace(strings.Replace(rbacText, "p = sub, obj, act", "p = sub_rule, obj, act", 1), "g(r.sub, p.sub)", "eval(p.sub_rule)", 1)
			e, _ := casbin.NewEnforcer(mustModel(text))
			e.AddPolicy("eval(p.sub_rule)", "d", "read")
			ok, err := e.Enforce("alice", "d", "read")
			if err != nil && !ok {
				return false, "error reported: " + err.Error()
			}
			return true, fmt.Sprintf("decision=%v err=%v", ok, err)
		}
		// run in a child process: the defect is a fatal stack overflow
		cmd := exec.Command(os.Args[0], "finding:D28-eval-self-reference", "quick", "0", os.TempDir())
		cmd.Env = append(os.Environ(), "VERIF_D28_CHILD=1", "GOMEMLIMIT=512MiB")
		out, err := cmd.CombinedOutput()
		tail := string(out)
		if len(tail) > 200 {
			tail = tail[:200]
		}
		if err != nil {
			return true, "child process died or reported failure: " + tail
		}
		return false, strings.TrimSpace(tail)
	}
	// D29: a failed full load ended the filtered state, so the partial view could be saved over the file
	witnesses["D29-failed-load-unfilters"] = func() (bool, string) {
		dir, _ := os.MkdirTemp("", "d29")
		defer os.RemoveAll(dir)
		path := dir + "/p.csv"
		_ = os.WriteFile(path, []byte("p, alice, d, read\np, bob, d, read\n"), 0o644)
		a := fileadapter.NewFilteredAdapter(path)
		e, _ := casbin.NewEnforcer(mustModel(rbacText), a)
		_ = e.LoadFilteredPolicy(&fileadapter.Filter{P: []string{"alice"}})
		_ = os.WriteFile(path, []byte("p, alice, d, read\np, bob, d, read\np, broken\n"), 0o644)
		lerr := e.LoadPolicy()
		serr := e.SavePolicy()
		after, _ := os.ReadFile(path)
		return lerr != nil && serr == nil, fmt.Sprintf("LoadPolicy err=%v; SavePolicy err=%v; file now %q", lerr, serr, string(after))
	}
	// D31: a failed filtered load (memory already cleared / partly refilled) left the flag as it was
	witnesses["D31-failed-filtered-load-unguarded"] = func() (bool, string) {
		dir, _ := os.MkdirTemp("", "d31")
		defer os.RemoveAll(dir)
		path := dir + "/p.csv"
		full := "p, alice, d, read\np, bob, d, read\n"
		_ = os.WriteFile(path, []byte(full), 0o644)
		a := fileadapter.NewFilteredAdapter(path)
		e, _ := casbin.NewEnforcer(mustModel(rbacText), a)
		_ = e.LoadPolicy()                              // a successful full load: not filtered
		lerr := e.LoadFilteredPolicy([]string{"alice"}) // not a *Filter: refused, but memory is already cleared
		serr := e.SavePolicy()
		after, _ := os.ReadFile(path)
		return lerr != nil && serr == nil && string(after) != full, fmt.Sprintf("LoadFilteredPolicy err=%v; SavePolicy err=%v; file now %q (was %q)", lerr, serr, string(after), full)
	}
	// D32: GetImplicitUsersForResource expands a role by its direct users only
	witnesses["D32-implicit-users-for-resource-one-level"] = func() (bool, string) {
		e, _ := casbin.NewEnforcer(mustModel(rbacText))
		e.AddGroupingPolicy("alice", "team")
		e.AddGroupingPolicy("team", "admin")
		e.AddPolicy("admin", "d", "read")
		got, _ := e.GetImplicitUsersForResource("d")
		ok, _ := e.Enforce("alice", "d", "read")
		listed := false
		roleListed := false
		for _, r := range got {
			if r[0] == "alice" {
				listed = true
			}
			if r[0] == "team" || r[0] == "admin" {
				roleListed = true
			}
		}
		return ok && (!listed || roleListed), fmt.Sprintf("g alice->team->admin, p admin d read: Enforce(alice,d,read)=%v GetImplicitUsersForResource(d)=%v", ok, got)
	}
	// D33: a failed LoadModel left the enforcer without a model
	witnesses["D33-failed-loadmodel-drops-model"] = func() (bool, string) {
		e, _ := casbin.NewSyncedEnforcer(mustModel(rbacText)) // built from a model object: no model path
		_, _ = e.AddPolicy("alice", "d", "read")
		lerr := e.LoadModel()
		res := func() (out string) {
			defer func() {
				if r := recover(); r != nil {
					out = fmt.Sprintf("panic: %v", r)
				}
			}()
			s, err := e.GetAllNamedSubjects("p")
			return fmt.Sprintf("%v %v", s, err)
		}()
		return lerr != nil && strings.HasPrefix(res, "panic"), fmt.Sprintf("LoadModel err=%v; then GetAllNamedSubjects(p): %s", lerr, res)
	}
	// D34: a panic in the first phase of SyncedEnforcer.LoadPolicy leaked the read lock
	witnesses["D34-synced-loadpolicy-leaks-rlock"] = func() (bool, string) {
		e, _ := casbin.NewSyncedEnforcer(mustModel(rbacText), &panickingAdapter{})
		func() {
			defer func() { _ = recover() }()
			_ = e.LoadPolicy()
		}()
		free := e.GetLock().TryLock()
		if free {
			e.GetLock().Unlock()
		}
		return !free, fmt.Sprintf("after a LoadPolicy whose adapter panicked (recovered by the caller): write lock available=%v", free)
	}
	// D36: concurrent StopAutoLoadPolicy calls: all see the loader running, the 1-slot channel takes two
	// sends (one received, one buffered), the third caller blocks forever
	witnesses["D36-stopautoload-blocks-forever"] = func() (bool, string) {
		a := mem.New()
		e, _ := casbin.NewSyncedEnforcer(mustModel(rbacText), a)
		entered, release := make(chan struct{}, 1), make(chan struct{})
		var once sync.Once
		a.OnLoad = func() { once.Do(func() { entered <- struct{}{}; <-release }) }
		e.StartAutoLoadPolicy(time.Millisecond)
		select {
		case <-entered: // the loader goroutine is inside LoadPolicy
		case <-time.After(2 * time.Second):
			return false, "the auto-loader never reached the adapter"
		}
		var returned int32
		for i := 0; i < 3; i++ {
			go func() { e.StopAutoLoadPolicy(); atomic.AddInt32(&returned, 1) }()
		}
		time.Sleep(100 * time.Millisecond)
		close(release)
		time.Sleep(700 * time.Millisecond)
		n := atomic.LoadInt32(&returned)
		return n < 3, fmt.Sprintf("three concurrent StopAutoLoadPolicy calls while the loader is busy: %d returned within 0.8 s", n)
	}
	// D35: FilteredAdapter.filtered was a plain bool written inside LoadPolicy, which SyncedEnforcer.LoadPolicy
	// calls under the read lock: two concurrent reloads race on it. Not observable without the race detector:
	// the regression is watched by the C12 stress stage (filtered-adapter world); this witness only checks
	// that the flag still works.
	witnesses["D35-filtered-flag-plain-write-under-rlock"] = func() (bool, string) {
		dir, _ := os.MkdirTemp("", "d35")
		defer os.RemoveAll(dir)
		path := dir + "/p.csv"
		_ = os.WriteFile(path, []byte("p, alice, d, read\n"), 0o644)
		fa := fileadapter.NewFilteredAdapter(path)
		e, _ := casbin.NewSyncedEnforcer(mustModel(rbacText), fa)
		was := fa.IsFiltered()
		_ = e.LoadPolicy()
		now := fa.IsFiltered()
		return !(was && !now), fmt.Sprintf("IsFiltered before the first full load=%v after=%v (race itself: C12 stress stage)", was, now)
	}
	// D37: LoadFilteredPolicy on an adapter without filtering support emptied the model before refusing
	witnesses["D37-unsupported-filtered-load-empties-model"] = func() (bool, string) {
		dir, _ := os.MkdirTemp("", "d37")
		defer os.RemoveAll(dir)
		path := dir + "/p.csv"
		full := "p, alice, d, read\np, bob, d, read\n"
		_ = os.WriteFile(path, []byte(full), 0o644)
		e, _ := casbin.NewEnforcer(mustModel(rbacText), fileadapter.NewAdapter(path)) // the plain file adapter
		lerr := e.LoadFilteredPolicy(&fileadapter.Filter{P: []string{"alice"}})
		pol, _ := e.GetPolicy()
		serr := e.SavePolicy()
		after, _ := os.ReadFile(path)
		return lerr != nil && (len(pol) != 2 || strings.TrimSpace(string(after)) != strings.TrimSpace(full)), fmt.Sprintf("LoadFilteredPolicy err=%v; listed afterwards=%v; SavePolicy err=%v; file now %q", lerr, pol, serr, string(after))
	}
	// D30: a rule whose priority does not parse was a barrier for the priority insertion
	witnesses["D30-unparsable-priority-barrier"] = func() (bool, string) {
		text := strings.Replace(strings.Replace(rbacText, "some(where (p.eft == allow))", "priority(p.eft) || deny", 1), "p = sub, obj, act", "p = priority, sub, obj, act, eft", 1)
		e, _ := casbin.NewEnforcer(mustModel(text))
		e.AddPolicy("5", "alice", "d", "read", "deny")
		e.AddPolicy("oops", "bob", "d", "read", "allow")
		e.AddPolicy("1", "alice", "d", "read", "allow")
		ok, _ := e.Enforce("alice", "d", "read")
		p, _ := e.GetPolicy()
		return !ok, fmt.Sprintf("policy=%v decision=%v (priority 1 = allow must decide)", p, ok)
	}
	// D8: ClearPolicy kept role links
	witnesses["D8-clearpolicy-links"] = func() (bool, string) {
		e, _ := casbin.NewEnforcer(mustModel(rbacText))
		e.AddGroupingPolicy("alice", "admin")
		e.ClearPolicy()
		e.AddPolicy("admin", "d", "read")
		ok, _ := e.Enforce("alice", "d", "read")
		has, _ := e.GetRoleManager().HasLink("alice", "admin")
		return ok || has, fmt.Sprintf("after ClearPolicy: alice allowed via admin=%v HasLink=%v", ok, has)
	}
	witnesses["D8-clearpolicyself-links"] = func() (bool, string) {
		e, _ := casbin.NewDistributedEnforcer(mustModel(rbacText))
		e.AddPoliciesSelf(nil, "g", "g", [][]string{{"alice", "admin"}})
		e.AddPoliciesSelf(nil, "p", "p", [][]string{{"admin", "d", "read"}})
		a, _ := e.Enforce("alice", "d", "read")
		e.ClearPolicySelf(nil)
		e.AddPoliciesSelf(nil, "p", "p", [][]string{{"admin", "d", "read"}})
		b, _ := e.Enforce("alice", "d", "read")
		return !a || b, fmt.Sprintf("before=%v after ClearPolicySelf+re-add p=%v", a, b)
	}
}

// failingRM fails at the failAt-th AddLink (1-based) after n was reset.
type failingRM struct {
	RoleManager rbacRM
	failAt      int
	n           int
}

var errRM = errors.New("injected role manager failure")

// panickingAdapter panics in LoadPolicy once armed (after construction).
type panickingAdapter struct{ armed bool }

func (a *panickingAdapter) LoadPolicy(m model.Model) error {
	if a.armed {
		panic("adapter failure")
	}
	a.armed = true
	return nil
}
func (a *panickingAdapter) SavePolicy(m model.Model) error                             { return nil }
func (a *panickingAdapter) AddPolicy(sec string, ptype string, rule []string) error    { return nil }
func (a *panickingAdapter) RemovePolicy(sec string, ptype string, rule []string) error { return nil }
func (a *panickingAdapter) RemoveFilteredPolicy(sec string, ptype string, fieldIndex int, fieldValues ...string) error {
	return nil
}

func subjectPriorityText() string {
	return strings.Replace(strings.Replace(rbacText, "some(where (p.eft == allow))", "subjectPriority(p_eft) || deny", 1), "p = sub, obj, act", "p = sub, obj, act, eft", 1)
}

// diamondChain: n_i -> {a_i, b_i} -> n_{i+1} for i < n (children point at parents: g child parent), n0 the
// root; deny at the root, allow at the most specific subject n_n
func diamondChain(n int) *mem.Adapter {
	a := mem.New()
	for i := 0; i < n; i++ {
		a.Lines = append(a.Lines,
			mem.Line{"g", []string{fmt.Sprintf("a%d", i), fmt.Sprintf("n%d", i)}},
			mem.Line{"g", []string{fmt.Sprintf("b%d", i), fmt.Sprintf("n%d", i)}},
			mem.Line{"g", []string{fmt.Sprintf("n%d", i+1), fmt.Sprintf("a%d", i)}},
			mem.Line{"g", []string{fmt.Sprintf("n%d", i+1), fmt.Sprintf("b%d", i)}})
	}
	a.Lines = append(a.Lines, mem.Line{"p", []string{"n0", "d", "read", "deny"}}, mem.Line{"p", []string{fmt.Sprintf("n%d", n), "d", "read", "allow"}})
	return a
}
