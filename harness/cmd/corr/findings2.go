package main

import (
	"fmt"
	"os"
	"runtime"
	"strings"
	"sync/atomic"

	"github.com/casbin/casbin/v2"
	fileadapter "github.com/casbin/casbin/v2/persist/file-adapter"
	stringadapter "github.com/casbin/casbin/v2/persist/string-adapter"
	"github.com/casbin/casbin/v2/util"

	"verif/harness/internal/mem"
)

// Witnesses of the genuine defects that are recorded rather than repaired (status "finding").
func init() {
	// D10: the g() memo key "\0"+arg collides when arguments contain NUL
	witnesses["D10-gmemo-nul"] = func() (bool, string) {
		e, _ := casbin.NewEnforcer(mustModel(rbacText))
		e.AddGroupingPolicy("a\x00b", "c")
		e.AddPolicy("c", "d", "read")
		e.AddPolicy("b\x00c", "d2", "read")
		first, _ := e.Enforce("a\x00b", "d", "read")
		second, _ := e.Enforce("a", "d2", "read")
		f, _ := casbin.NewEnforcer(mustModel(rbacText))
		f.AddGroupingPolicy("a\x00b", "c")
		f.AddPolicy("c", "d", "read")
		f.AddPolicy("b\x00c", "d2", "read")
		fresh, _ := f.Enforce("a", "d2", "read")
		return second != fresh, fmt.Sprintf("Enforce(a\\0b,d,read)=%v then Enforce(a,d2,read)=%v, fresh enforcer=%v", first, second, fresh)
	}
	// D11: PolicyMap key strings.Join(rule, ",") confuses ["a,b","c"] with ["a","b,c"]
	witnesses["D11-comma-key"] = func() (bool, string) {
		e, _ := casbin.NewEnforcer(mustModel(rbacText))
		e.AddPolicy("a,b", "c", "read")
		has, _ := e.HasPolicy("a", "b,c", "read")
		added, _ := e.AddPolicy("a", "b,c", "read")
		return has || !added, fmt.Sprintf("after AddPolicy([a,b c read]): HasPolicy([a b,c read])=%v AddPolicy([a b,c read])=%v", has, added)
	}
	// D12: UpdatePolicy to a listed rule lists it twice
	witnesses["D12-update-duplicates"] = func() (bool, string) {
		e, _ := casbin.NewEnforcer(mustModel(rbacText))
		e.AddPolicy("a", "d", "read")
		e.AddPolicy("b", "d", "read")
		ok, _ := e.UpdatePolicy([]string{"a", "d", "read"}, []string{"b", "d", "read"})
		p, _ := e.GetPolicy()
		return ok && len(p) == 2 && strings.Join(p[0], ",") == strings.Join(p[1], ","), fmt.Sprintf("UpdatePolicy(a->b)=%v policy=%v", ok, p)
	}
	// D12b: UpdateFilteredPolicies whose filter selects nothing adds the new rules and reports false
	witnesses["D12-updatefiltered-adds-reports-false"] = func() (bool, string) {
		a := mem.New()
		e, _ := casbin.NewEnforcer(mustModel(rbacText), a)
		ok, _ := e.UpdateFilteredPolicies([][]string{{"x", "d", "read"}}, 0, "nobody")
		p, _ := e.GetPolicy()
		return !ok && len(p) == 1, fmt.Sprintf("UpdateFilteredPolicies(filter matches nothing)=%v policy=%v", ok, p)
	}
	// D13: arity is never checked for grouping rules
	witnesses["D13-g-arity-unchecked"] = func() (bool, string) {
		e, _ := casbin.NewEnforcer(mustModel(rbacText))
		e.AddGroupingPolicy("alice", "admin", "x")
		e.AddGroupingPolicy("alice", "admin")
		e.RemoveGroupingPolicy("alice", "admin", "x")
		has, _ := e.GetRoleManager().HasLink("alice", "admin")
		gp, _ := e.GetGroupingPolicy()
		ok2, err2 := e.AddGroupingPolicy("bob")
		gp2, _ := e.GetGroupingPolicy()
		return !has || (ok2 && err2 != nil), fmt.Sprintf("listed=%v HasLink(alice,admin)=%v; AddGroupingPolicy(bob)=(%v,%v) listed=%v", gp, has, ok2, err2, gp2)
	}
	// D14 (fixed): every grouping call reaches a conditional role manager, not only the batch add
	witnesses["D14-conditional-single-add"] = func() (bool, string) {
		text := strings.Replace(rbacText, "g = _, _", "g = _, _, (_, _)", 1)
		single, _ := casbin.NewEnforcer(mustModel(text))
		single.AddGroupingPolicy("alice", "admin", "a", "b")
		batch, _ := casbin.NewEnforcer(mustModel(text))
		batch.AddGroupingPolicies([][]string{{"alice", "admin", "a", "b"}})
		s1, _ := single.GetModel()["g"]["g"].CondRM.HasLink("alice", "admin")
		b1, _ := batch.GetModel()["g"]["g"].CondRM.HasLink("alice", "admin")
		batch.RemoveGroupingPolicy("alice", "admin", "a", "b")
		b2, _ := batch.GetModel()["g"]["g"].CondRM.HasLink("alice", "admin")
		single.RemoveGroupingPolicies([][]string{{"alice", "admin", "a", "b"}})
		s2, _ := single.GetModel()["g"]["g"].CondRM.HasLink("alice", "admin")
		// BuildRoleLinks rebuilds the conditional links from the listed rules
		rebuilt, _ := casbin.NewEnforcer(mustModel(text))
		rebuilt.EnableAutoBuildRoleLinks(false)
		rebuilt.AddGroupingPolicy("bob", "admin", "a", "b")
		_ = rebuilt.BuildRoleLinks()
		r1, _ := rebuilt.GetModel()["g"]["g"].CondRM.HasLink("bob", "admin")
		return !s1 || !b1 || b2 || s2 || !r1, fmt.Sprintf("HasLink(alice,admin) after single add=%v, after batch add=%v; after single removal=%v, after batch removal=%v; HasLink(bob,admin) after auto-build off + BuildRoleLinks=%v", s1, b1, b2, s2, r1)
	}
	// D38: Clear() of a conditional role manager (LoadPolicy, ClearPolicy + re-add, BuildRoleLinks) drops the
	// registered link condition functions: every conditional link becomes unconditional
	witnesses["D38-reload-drops-link-conditions"] = func() (bool, string) {
		text := strings.Replace(rbacText, "g = _, _", "g = _, _, (_, _)", 1)
		a := mem.New()
		a.Lines = []mem.Line{{"p", []string{"admin", "data1", "read"}}, {"g", []string{"alice", "admin", "off", "x"}}}
		e, err := casbin.NewEnforcer(mustModel(text), a)
		if err != nil {
			return false, err.Error()
		}
		cond := func(args ...string) (bool, error) { return len(args) > 0 && args[0] == "on", nil }
		e.AddNamedLinkConditionFunc("g", "alice", "admin", cond)
		before, _ := e.Enforce("alice", "data1", "read")
		_ = e.LoadPolicy()
		after, _ := e.Enforce("alice", "data1", "read")
		fresh, _ := casbin.NewEnforcer(mustModel(text), a)
		fresh.AddNamedLinkConditionFunc("g", "alice", "admin", cond)
		want, _ := fresh.Enforce("alice", "data1", "read")
		return after != want, fmt.Sprintf("link alice->admin with a registered condition that fails: Enforce(alice,data1,read) before LoadPolicy=%v, after LoadPolicy=%v, fresh enforcer with the same rules and the same registered function=%v", before, after, want)
	}
	// D39: replacing a domain matching function keeps the links copied into concrete domains under the previous one
	witnesses["D39-domain-matching-func-replaced"] = func() (bool, string) {
		build := func(fns ...func(string, string) bool) *casbin.Enforcer {
			m := mustModel(strings.Replace(strings.Replace(strings.Replace(rbacText, "r = sub, obj, act", "r = sub, dom, obj, act", 1), "p = sub, obj, act", "p = sub, dom, obj, act", 1), "g = _, _", "g = _, _, _", 1))
			m["m"]["m"].Value = "g(r_sub, p_sub, r_dom) && r_dom == p_dom && r_obj == p_obj && r_act == p_act"
			e, _ := casbin.NewEnforcer(m)
			e.AddGroupingPolicy("alice", "admin", "tenant*")
			e.AddGroupingPolicy("bob", "admin", "tenant2")
			e.AddPolicy("admin", "tenant2", "data2", "read")
			for _, fn := range fns {
				e.AddNamedDomainMatchingFunc("g", "fn", fn)
			}
			return e
		}
		live := build(util.KeyMatch, util.KeyMatch2)
		fresh := build(util.KeyMatch2)
		got, _ := live.Enforce("alice", "tenant2", "data2", "read")
		want, _ := fresh.Enforce("alice", "tenant2", "data2", "read")
		return got != want, fmt.Sprintf("g alice admin tenant*; g bob admin tenant2; keyMatch registered, then replaced by keyMatch2 (under which tenant* matches nothing): Enforce(alice,tenant2,data2,read) live=%v, fresh enforcer with keyMatch2 only=%v", got, want)
	}
	// D40: the RBAC calls composed of several auto-saved management calls are not atomic under an adapter fault
	witnesses["D40-composite-rbac-calls-partial"] = func() (bool, string) {
		a := mem.New()
		a.Lines = []mem.Line{{PType: "p", Rule: []string{"alice", "data2", "read"}}, {PType: "p", Rule: []string{"admin", "data1", "read"}}, {PType: "g", Rule: []string{"alice", "admin"}}}
		e, err := casbin.NewEnforcer(mustModel(rbacText), a)
		if err != nil {
			return false, err.Error()
		}
		gBefore, _ := e.GetGroupingPolicy()
		decBefore, _ := e.Enforce("alice", "data1", "read")
		a.Arm(2) // DeleteUser = RemoveFilteredGroupingPolicy, then RemoveFilteredPolicy: the second adapter call fails
		_, err = e.DeleteUser("alice")
		gAfter, _ := e.GetGroupingPolicy()
		decAfter, _ := e.Enforce("alice", "data1", "read")
		return err != nil && (fmt.Sprint(gBefore) != fmt.Sprint(gAfter) || decBefore != decAfter),
			fmt.Sprintf("DeleteUser(alice) with its second adapter call failing returned %v; grouping rules before=%v after=%v; Enforce(alice,data1,read) before=%v after=%v", err, gBefore, gAfter, decBefore, decAfter)
	}
	// D43: with a regular-expression built-in registered as the role manager's matching function, a grouping
	// line whose role name is not a valid expression makes LoadPolicy panic (AddLink -> Match -> RegexMatch
	// panics; Enforce recovers from the same panic, loading does not)
	witnesses["D43-load-panics-on-bad-pattern-role"] = func() (shows bool, detail string) {
		e, err := casbin.NewEnforcer(mustModel(rbacText))
		if err != nil {
			return false, err.Error()
		}
		e.AddNamedMatchingFunc("g", "keyMatch2", util.KeyMatch2)
		e.SetAdapter(stringadapter.NewAdapter("p, book_admin, data1, read\ng, alice, /book/(\n"))
		defer func() {
			if r := recover(); r != nil {
				shows, detail = true, fmt.Sprintf("LoadPolicy of the line \"g, alice, /book/(\" with keyMatch2 as matching function panicked: %v", r)
			}
		}()
		err = e.LoadPolicy()
		return false, fmt.Sprintf("LoadPolicy returned %v", err)
	}
	// D44 (fixed): *EnforceContext satisfied CacheableParam through EnforceContext's value receiver and yields the key of the
	// value form, but enforce() only recognises the value form as a context: the cached enforcers serve the decision
	// cached for Enforce(ctx, ...) to Enforce(&ctx, ...), for which the embedded enforcer reports an arity error
	witnesses["D44-pointer-context-shares-cache-key"] = func() (bool, string) {
		mk := func() *casbin.CachedEnforcer {
			e, err := casbin.NewCachedEnforcer(mustModel(rbacText))
			if err != nil {
				panic(err)
			}
			_, _ = e.AddPolicy("alice", "data1", "read")
			return e
		}
		e := mk()
		ctx := casbin.NewEnforceContext("")
		ok1, err1 := e.Enforce(ctx, "alice", "data1", "read")
		ok2, err2 := e.Enforce(&ctx, "alice", "data1", "read")
		okU, errU := e.Enforcer.Enforce(&ctx, "alice", "data1", "read")
		return ok1 && err1 == nil && (ok2 != okU || (err2 == nil) != (errU == nil)),
			fmt.Sprintf("Enforce(ctx, alice, data1, read) = %v, %v; then Enforce(&ctx, ...) on the cached enforcer = %v, %v while the embedded enforcer answers %v, %v", ok1, err1, ok2, err2, okU, errU)
	}
	// D41 (fixed): with JSON requests enabled enforce() wrote the parsed maps into the caller's request slice
	// (a data race between concurrent BatchEnforce callers sharing a batch: the stress stage's JSON world)
	witnesses["D41-json-request-written-into-callers-slice"] = func() (bool, string) {
		text := strings.Replace(rbacText, "g(r.sub, p.sub)", "g(r.sub.Name, p.sub)", 1)
		e, err := casbin.NewSyncedEnforcer(mustModel(text))
		if err != nil {
			return false, err.Error()
		}
		e.EnableAcceptJsonRequest(true)
		_, _ = e.AddPolicy("alice", "data1", "read")
		batch := [][]interface{}{{`{"Name": "alice"}`, "data1", "read"}}
		res, err := e.BatchEnforce(batch)
		_, still := batch[0][0].(string)
		return !still, fmt.Sprintf("BatchEnforce(batch) = %v, %v; the caller's batch[0][0] afterwards is a %T", res, err, batch[0][0])
	}
	// D42 (fixed): GetPolicy handed out the stored list, which the batch removal compacts while ranging over it
	witnesses["D42-listing-handed-back-to-batch-removal"] = func() (bool, string) {
		e, err := casbin.NewEnforcer(mustModel(rbacText))
		if err != nil {
			return false, err.Error()
		}
		_, _ = e.AddGroupingPolicies([][]string{{"a", "r1"}, {"b", "r2"}, {"c", "r3"}})
		_, _ = e.AddPolicies([][]string{{"r1", "d1", "read"}, {"r2", "d2", "read"}})
		gp, _ := e.GetGroupingPolicy()
		ok, err := e.RemoveGroupingPolicies(gp)
		left, _ := e.GetGroupingPolicy()
		a, _ := e.Enforce("a", "d1", "read")
		b, _ := e.Enforce("b", "d2", "read")
		return !ok || err != nil || len(left) != 0 || a || b, fmt.Sprintf("RemoveGroupingPolicies(GetGroupingPolicy()) on [a r1] [b r2] [c r3] = %v, %v; listed afterwards %v; Enforce(a,d1,read)=%v Enforce(b,d2,read)=%v", ok, err, left, a, b)
	}
	// D20: the filtered file adapter splits lines at raw commas and skips rules shorter than the filter
	witnesses["D20-filter-quoted-fields"] = func() (bool, string) {
		dir, _ := os.MkdirTemp("", "d20")
		defer os.RemoveAll(dir)
		path := dir + "/p.csv"
		_ = os.WriteFile(path, []byte("p, \"alice\", d, read\np, bob, d, read\n"), 0o644)
		a := fileadapter.NewFilteredAdapter(path)
		e, err := casbin.NewEnforcer(mustModel(rbacText), a)
		if err != nil {
			return false, err.Error()
		}
		_ = e.LoadPolicy()
		full, _ := e.GetPolicy()
		_ = e.LoadFilteredPolicy(&fileadapter.Filter{P: []string{"alice"}})
		filtered, _ := e.GetPolicy()
		return len(filtered) != 1, fmt.Sprintf("full load=%v; filtered by sub=alice=%v", full, filtered)
	}
	// D15: with a domain matching function, deleting a link in one domain removes the link another listed rule stands for
	witnesses["D15-domain-pattern-delete"] = func() (bool, string) {
		m := mustModel(strings.Replace(strings.Replace(strings.Replace(rbacText, "r = sub, obj, act", "r = sub, dom, obj, act", 1), "p = sub, obj, act", "p = sub, dom, obj, act", 1), "g = _, _", "g = _, _, _", 1))
		m["m"]["m"].Value = "g(r_sub, p_sub, r_dom) && r_dom == p_dom && r_obj == p_obj && r_act == p_act"
		e, _ := casbin.NewEnforcer(m)
		e.AddNamedDomainMatchingFunc("g", "keyMatch", util.KeyMatch)
		e.AddGroupingPolicy("alice", "admin", "d1")
		e.AddGroupingPolicy("alice", "admin", "*")
		e.RemoveGroupingPolicy("alice", "admin", "*")
		has, _ := e.GetRoleManager().HasLink("alice", "admin", "d1")
		gp, _ := e.GetGroupingPolicy()
		return !has, fmt.Sprintf("listed=%v HasLink(alice,admin,d1)=%v", gp, has)
	}
	// D16: UpdatePolicy that changes the priority leaves the rule in its slot
	witnesses["D16-update-priority-keeps-slot"] = func() (bool, string) {
		text := strings.Replace(strings.Replace(rbacText, "some(where (p.eft == allow))", "priority(p.eft) || deny", 1), "p = sub, obj, act", "p = priority, sub, obj, act, eft", 1)
		e, _ := casbin.NewEnforcer(mustModel(text))
		e.AddPolicy("1", "alice", "d", "read", "allow")
		e.AddPolicy("5", "alice", "d", "read", "deny")
		e.UpdatePolicy([]string{"1", "alice", "d", "read", "allow"}, []string{"9", "alice", "d", "read", "allow"})
		ok, _ := e.Enforce("alice", "d", "read")
		p, _ := e.GetPolicy()
		return ok, fmt.Sprintf("policy=%v decision=%v (smallest priority value is 5 = deny)", p, ok)
	}
	// D17: the file adapter saves fields unquoted
	witnesses["D17-csv-unquoted-save"] = func() (bool, string) {
		dir, _ := os.MkdirTemp("", "d17")
		defer os.RemoveAll(dir)
		path := dir + "/p.csv"
		_ = os.WriteFile(path, []byte("p, \"a,b\", d, read\n"), 0o644)
		e, err := casbin.NewEnforcer(mustModel(rbacText), fileadapter.NewAdapter(path))
		if err != nil {
			return false, "load failed: " + err.Error()
		}
		before, _ := e.GetPolicy()
		_ = e.SavePolicy()
		lerr := e.LoadPolicy()
		after, _ := e.GetPolicy()
		return lerr != nil || fmt.Sprint(before) != fmt.Sprint(after), fmt.Sprintf("loaded=%v; after SavePolicy+LoadPolicy: err=%v policy=%v", before, lerr, after)
	}
	// D18: UpdatePolicies persists before it discovers a missing old rule
	witnesses["D18-updatepolicies-persists-before-check"] = func() (bool, string) {
		a := mem.New()
		e, _ := casbin.NewEnforcer(mustModel(rbacText), a)
		e.AddPolicy("alice", "d", "read")
		ok, _ := e.UpdatePolicies([][]string{{"alice", "d", "read"}, {"nobody", "d", "read"}}, [][]string{{"bob", "d", "read"}, {"carol", "d", "read"}})
		p, _ := e.GetPolicy()
		return !ok && fmt.Sprint(a.RulesOf("p")) != fmt.Sprint(p), fmt.Sprintf("UpdatePolicies=%v memory=%v adapter=%v", ok, p, a.RulesOf("p"))
	}
	// D21: matcher that does not mention p: EnforceEx explains with Policy[0] whatever it says
	witnesses["D21-else-branch-explains-policy0"] = func() (bool, string) {
		m := mustModel(strings.Replace(strings.Replace(rbacText, "g(r.sub, p.sub) && r.obj == p.obj && r.act == p.act", "r.sub == \"root\"", 1), "p = sub, obj, act", "p = sub, obj, act, eft", 1))
		e, _ := casbin.NewEnforcer(m)
		e.AddPolicy("bob", "d", "read", "deny")
		ok, explain, _ := e.EnforceEx("root", "x", "y")
		return ok && len(explain) > 0, fmt.Sprintf("decision=%v explained by %v", ok, explain)
	}
	// D24: empty policy: the matcher is evaluated against an all-empty allow pseudo-rule
	witnesses["D24-empty-policy-shortcut"] = func() (bool, string) {
		e, _ := casbin.NewEnforcer(mustModel(rbacText))
		empty, _ := e.Enforce("", "", "")
		e.AddPolicy("alice", "d", "read")
		after, _ := e.Enforce("", "", "")
		return empty && !after, fmt.Sprintf("Enforce(\"\",\"\",\"\") with no rule=%v, after adding an unrelated rule=%v", empty, after)
	}
	// D27: role definitions with four places: only the first domain is used, two rules share one link
	witnesses["D27-four-place-role-definition"] = func() (bool, string) {
		m := mustModel(strings.Replace(rbacText, "g = _, _", "g = _, _, _, _", 1))
		e, _ := casbin.NewEnforcer(m)
		e.AddGroupingPolicy("a", "b", "d", "x")
		e.AddGroupingPolicy("a", "b", "d", "y")
		e.RemoveGroupingPolicy("a", "b", "d", "x")
		has, _ := e.GetRoleManager().HasLink("a", "b", "d")
		gp, _ := e.GetGroupingPolicy()
		return !has, fmt.Sprintf("listed=%v HasLink(a,b,d)=%v", gp, has)
	}
	// D22: subject priority on a role DAG depends on Go's map iteration order
	witnesses["D22-subject-priority-dag-nondeterministic"] = func() (bool, string) {
		text := strings.Replace(strings.Replace(rbacText, "some(where (p.eft == allow))", "subjectPriority(p_eft) || deny", 1), "p = sub, obj, act", "p = sub, obj, act, eft", 1)
		orders := map[string]int{}
		for i := 0; i < 60; i++ {
			a := mem.New()
			a.Lines = []mem.Line{
				// x has the parents R1 (a root) and m (child of the root R2): depth 1 from R1, depth 2 from R2
				{"p", []string{"m", "d", "read", "allow"}}, {"p", []string{"x", "d", "read", "deny"}},
				{"g", []string{"x", "R1"}}, {"g", []string{"m", "R2"}}, {"g", []string{"x", "m"}},
			}
			e, err := casbin.NewEnforcer(mustModel(text), a)
			if err != nil {
				return false, err.Error()
			}
			p, _ := e.GetPolicy()
			orders[fmt.Sprint(p)]++
		}
		return len(orders) > 1, fmt.Sprintf("distinct loaded orders over 60 loads of the same store: %v", orders)
	}
	// D19: SyncedEnforcer.LoadPolicy (two phases) loses a completed, persisted AddPolicy
	witnesses["D19-synced-loadpolicy-lost-update"] = func() (bool, string) {
		a := mem.New()
		a.Lines = []mem.Line{{"p", []string{"alice", "d", "read"}}}
		e, err := casbin.NewSyncedEnforcer(mustModel(rbacText), a)
		if err != nil {
			return false, err.Error()
		}
		done := make(chan struct{})
		a.AfterLoad = func() {
			go func() { e.AddPolicy("bob", "d", "read"); close(done) }()
			for i := 0; i < 1000000 && e.GetLock().TryRLock(); i++ {
				e.GetLock().RUnlock()
				runtime.Gosched()
			}
		}
		_ = e.LoadPolicy()
		<-done
		has, _ := e.HasPolicy("bob", "d", "read")
		inStore := false
		for _, l := range a.Lines {
			if l.PType == "p" && l.Rule[0] == "bob" {
				inStore = true
			}
		}
		return inStore && !has, fmt.Sprintf("after LoadPolicy || AddPolicy(bob): persisted=%v listed in memory=%v", inStore, has)
	}
	// D23: pattern role manager: concurrent readers share and destroy each other's temporary roles
	witnesses["D23-pattern-temp-role-race"] = func() (bool, string) {
		e, _ := casbin.NewSyncedEnforcer(mustModel(rbacText))
		var n int32
		var armed int32
		aPaused, bPaused := make(chan struct{}), make(chan struct{})
		chA, chB := make(chan struct{}), make(chan struct{})
		mf := func(x, y string) bool {
			if atomic.LoadInt32(&armed) == 1 && x == "/book/1" && y == "book_admin" {
				switch atomic.AddInt32(&n, 1) {
				case 2:
					close(aPaused)
					<-chA
				case 4:
					close(bPaused)
					<-chB
				}
			}
			return util.KeyMatch(x, y)
		}
		e.AddNamedMatchingFunc("g", "keyMatch", mf)
		e.AddGroupingPolicy("/book/*", "book_admin")
		e.AddPolicy("book_admin", "d", "read")
		atomic.StoreInt32(&armed, 1)
		resA, resB := make(chan bool, 1), make(chan bool, 1)
		go func() { ok, _ := e.Enforce("/book/1", "d", "read"); resA <- ok }()
		<-aPaused
		go func() { ok, _ := e.Enforce("/book/1", "d", "read"); resB <- ok }()
		<-bPaused
		close(chA)
		a := <-resA
		close(chB)
		b := <-resB
		atomic.StoreInt32(&armed, 0)
		later, _ := e.Enforce("/book/1", "d", "read")
		return !(a && b && later), fmt.Sprintf("reader A=%v reader B=%v later sequential Enforce=%v (a fresh enforcer answers true)", a, b, later)
	}
}
