package main

import (
	"fmt"
	"strings"
)

// HistCfg describes an exhaustive enumeration of operation histories on one model.
type HistCfg struct {
	Name     string
	MS       *MSpec
	Opts     CaseOpts
	Setup    []EOp // applied (and recorded) after init, before the history
	Alphabet []EOp
	Depth    int
	// Probes are executed and recorded after every step of the history
	Probes []EOp
	// AfterStep, if set, runs after each step (direct property checks on the implementation)
	AfterStep func(c *Ctx, s *Sess, hist []EOp, obs string)
	// AfterCase runs at the end of each history
	AfterCase func(c *Ctx, s *Sess, hist []EOp)
	// Nontrivial decides whether the finished history counts (default: some op changed something and some op was refused)
	SampleEvery int
	// Quiet: run on the implementation only (nothing is recorded for the Lean driver): for configurations the
	// enforcer model does not cover; the direct checks of AfterStep / AfterCase are then the whole check
	Quiet bool
}

func histText(hist []EOp) string {
	parts := make([]string, len(hist))
	for i, o := range hist {
		parts[i] = o.Line()
	}
	return strings.Join(parts, " ; ")
}

// runHistory replays one history from a fresh enforcer, recording every line.
func runHistory(c *Ctx, cfg *HistCfg, hist []EOp) {
	var s *Sess
	do := func(o EOp) string { return s.Do(c, o) }
	if cfg.Quiet {
		s = StartCaseQuiet(cfg.MS, cfg.Opts)
		do = func(o EOp) string { return s.Exec(o) }
	} else {
		s = StartCase(c, cfg.MS, cfg.Opts)
	}
	if s == nil {
		return
	}
	for _, o := range cfg.Setup {
		do(o)
	}
	changed, refused := false, false
	for i, o := range hist {
		obs := do(o)
		if obs == "true" || obs == "ok" {
			changed = true
		}
		if obs == "false" || strings.HasPrefix(obs, "err") {
			refused = true
		}
		c.Count("op="+o.Kind, 1)
		c.Count("res="+obs, 1)
		for _, p := range cfg.Probes {
			do(p)
		}
		if cfg.AfterStep != nil {
			cfg.AfterStep(c, s, hist[:i+1], obs)
		}
	}
	if cfg.AfterCase != nil {
		cfg.AfterCase(c, s, hist)
	}
	c.Evals++
	if changed && refused {
		c.Nontrivial(cfg.Name + "|" + histText(hist))
	}
	every := cfg.SampleEvery
	if every == 0 {
		every = 3001
	}
	if c.Evals%every == 1 {
		c.Sample(cfg.Name + ": " + histText(hist))
	}
}

// enumerate runs every history of length 1..Depth over the alphabet.
func enumerate(c *Ctx, cfg *HistCfg) {
	seq := make([]EOp, 0, cfg.Depth)
	var rec func()
	rec = func() {
		if len(seq) > 0 {
			runHistory(c, cfg, seq)
		}
		if len(seq) == cfg.Depth {
			return
		}
		for _, o := range cfg.Alphabet {
			seq = append(seq, o)
			rec()
			seq = seq[:len(seq)-1]
		}
	}
	rec()
	c.Count("histories_"+cfg.Name, 0)
	_ = fmt.Sprint
}

// randomHistories runs n random histories of length lo..hi over the alphabet.
func randomHistories(c *Ctx, cfg *HistCfg, n, lo, hi int) {
	for i := 0; i < n; i++ {
		L := lo + c.Rng.Intn(hi-lo+1)
		hist := make([]EOp, L)
		for j := range hist {
			hist[j] = cfg.Alphabet[c.Rng.Intn(len(cfg.Alphabet))]
		}
		runHistory(c, cfg, hist)
		c.Count("random_histories", 1)
	}
}
