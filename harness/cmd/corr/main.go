// corr drives the real casbin (the working tree of /repo, via the module replace) with the
// inputs / histories / fault schedules of one property and writes, for every operation, the
// protocol line and the canonical observation of what the implementation did.  The same lines
// are replayed on the Lean model by the casbin-model driver; bin/check diffs the streams.
//
//	corr <property> <tier> <seed> <outdir>
//
// Files written to <outdir>: cases.txt ("<op>\t<impl observation>" per line) and meta.json
// (measured input distribution, samples, and property violations the harness itself observed
// on the implementation, each with a replay text).
package main

import (
	"encoding/json"
	"fmt"
	"hash/fnv"
	"math/rand"
	"os"
	"path/filepath"
	"sort"
	"strconv"
	"strings"
	"sync"
	"unicode/utf8"

	"verif/harness/internal/proto"
)

// Direct is a violation of the property observed directly on the implementation.
type Direct struct {
	What   string `json:"what"`
	Replay string `json:"replay"`
}

type Ctx struct {
	Prop string
	Tier string
	Seed int64
	Out  string
	W    *proto.Writer
	Rng  *rand.Rand

	mu         sync.Mutex
	Stats      map[string]int
	Directs    []Direct
	Samples    []string
	distinct   map[uint64]struct{}
	Evals      int
	Exhaustive bool
	Rule       string
	Notes      []string
}

func (c *Ctx) Thorough() bool { return c.Tier == "thorough" }

func (c *Ctx) Count(key string, n int) {
	c.mu.Lock()
	c.Stats[key] += n
	c.mu.Unlock()
}

// Nontrivial records one distinct non-trivial case (by its canonical text).
func (c *Ctx) Nontrivial(canon string) {
	h := fnv.New64a()
	h.Write([]byte(canon))
	c.mu.Lock()
	c.distinct[h.Sum64()] = struct{}{}
	c.mu.Unlock()
}

func (c *Ctx) Sample(s string) {
	c.mu.Lock()
	if len(c.Samples) < 12 {
		c.Samples = append(c.Samples, s)
	}
	c.mu.Unlock()
}

func (c *Ctx) Direct(what, replay string) {
	c.mu.Lock()
	if len(c.Directs) < 50 {
		c.Directs = append(c.Directs, Direct{what, replay})
	}
	c.Stats["direct_violations"]++
	c.mu.Unlock()
}

var registry = map[string]func(*Ctx){}

func main() {
	if len(os.Args) != 5 {
		fmt.Fprintln(os.Stderr, "usage: corr <property> <tier> <seed> <outdir>")
		os.Exit(2)
	}
	seed, err := strconv.ParseInt(os.Args[3], 10, 64)
	if err != nil {
		fmt.Fprintln(os.Stderr, "bad seed")
		os.Exit(2)
	}
	c := &Ctx{Prop: os.Args[1], Tier: os.Args[2], Seed: seed, Out: os.Args[4],
		Stats: map[string]int{}, distinct: map[uint64]struct{}{}}
	c.Rng = rand.New(rand.NewSource(seed))
	if c.Prop == "child:condcycles" {
		os.Exit(condCycleChild())
	}
	if c.Prop == "child:subjectdag" {
		os.Exit(subjectDagChild())
	}
	if strings.HasPrefix(c.Prop, "finding:") {
		os.Exit(runFinding(strings.TrimPrefix(c.Prop, "finding:")))
	}
	fn, ok := registry[c.Prop]
	if !ok {
		fmt.Fprintln(os.Stderr, "unknown property", c.Prop)
		os.Exit(2)
	}
	if err := os.MkdirAll(c.Out, 0o755); err != nil {
		panic(err)
	}
	c.W, err = proto.NewWriter(filepath.Join(c.Out, "cases.txt"))
	if err != nil {
		panic(err)
	}
	fn(c)
	if len(argMutations) > 0 {
		c.Direct("the library edited a rule list that belongs to its caller (one handed in, or one it had returned)", strings.Join(argMutations, "\n"))
	}
	cleanupScratch()
	if err := c.W.Close(); err != nil {
		panic(err)
	}
	keys := make([]string, 0, len(c.Stats))
	for k := range c.Stats {
		keys = append(keys, k)
	}
	sort.Strings(keys)
	meta := map[string]interface{}{
		"property":            c.Prop,
		"tier":                c.Tier,
		"seed":                c.Seed,
		"lines":               c.W.Lines,
		"evaluations":         c.Evals,
		"distinct_nontrivial": len(c.distinct),
		"distribution":        c.Stats,
		"samples":             c.Samples,
		"directs":             c.Directs,
		"exhaustive":          c.Exhaustive,
		"rule":                c.Rule,
		"notes":               c.Notes,
	}
	b, _ := json.MarshalIndent(meta, "", " ")
	if err := os.WriteFile(filepath.Join(c.Out, "meta.json"), b, 0o644); err != nil {
		panic(err)
	}
}

func validUTF8(s string) bool { return utf8.ValidString(s) }
