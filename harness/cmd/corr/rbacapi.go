package main

import (
	"fmt"

	"github.com/casbin/casbin/v2"
	"github.com/casbin/casbin/v2/util"

	"verif/harness/internal/proto"
)

// The convenience layer of rbac_api.go / rbac_api_with_domains.go against its Lean model
// (Model/RbacApi.lean: each call as a short program over management calls).  One line per call:
// result / listed grouping rules / listed policy rules; the specification column carries, for the
// removing calls covered by the exactness theorems of Properties/C05Rbac.lean, the listings the
// documentation promises (the old listing filtered).  Adapter faults are armed inside the
// histories so that the composite calls (DeleteUser, DeleteRole, DeleteAllUsersByDomain,
// DeleteDomains) stop half-way: the model must predict exactly what they leave behind (finding D40
// is about that state; links = listed rules and adapter = listed rules must hold in it all the same).

func (s *Sess) execRbac(o EOp) string {
	e := s.E
	a := o.Args
	var res string
	switch o.What {
	case "addRoleForUser":
		res = mres(e.AddRoleForUser(a[0], a[1], a[2:]...))
	case "addRoleForUserInDomain":
		res = mres(e.AddRoleForUserInDomain(a[0], a[1], a[2]))
	case "addRolesForUser":
		var roles []string
		for _, r := range o.Rules {
			roles = append(roles, r[0])
		}
		res = mres(e.AddRolesForUser(a[0], roles, a[1:]...))
	case "deleteRoleForUser":
		res = mres(e.DeleteRoleForUser(a[0], a[1], a[2:]...))
	case "deleteRoleForUserInDomain":
		res = mres(e.DeleteRoleForUserInDomain(a[0], a[1], a[2]))
	case "deleteRolesForUser":
		res = mres(e.DeleteRolesForUser(a[0], a[1:]...))
	case "deleteUser":
		res = mres(e.DeleteUser(a[0]))
	case "deleteRole":
		res = mres(e.DeleteRole(a[0]))
	case "deletePermission":
		res = mres(e.DeletePermission(a...))
	case "addPermissionForUser":
		res = mres(e.AddPermissionForUser(a[0], a[1:]...))
	case "addPermissionsForUser":
		res = mres(e.AddPermissionsForUser(a[0], cloneRules(o.Rules)...))
	case "deletePermissionForUser":
		res = mres(e.DeletePermissionForUser(a[0], a[1:]...))
	case "deletePermissionsForUser":
		res = mres(e.DeletePermissionsForUser(a[0]))
	case "deleteRolesForUserInDomain":
		res = mres(e.DeleteRolesForUserInDomain(a[0], a[1]))
	case "deleteAllUsersByDomain":
		res = mres(e.DeleteAllUsersByDomain(a[0]))
	case "deleteDomains":
		res = mres(e.DeleteDomains(a...))
	default:
		panic("bad rbac call " + o.What)
	}
	m := e.GetModel()
	return res + " / " + proto.EncRules(m["g"]["g"].Policy) + " / " + proto.EncRules(m["p"]["p"].Policy)
}

func rb(what string, args ...string) EOp { return EOp{Kind: "rbac", What: what, Args: args} }

func rbacApiFamily(c *Ctx, tag string) {
	depth := 3
	names := []string{"a", "b", "c"}
	var enfProbes []EOp
	for _, u := range names {
		enfProbes = append(enfProbes, EOp{Kind: "enf", Req: []V{VS(u), VS("data"), VS("read")}})
	}
	alpha := []EOp{
		rb("addRoleForUser", "a", "b"), rb("addRoleForUser", "b", "c"),
		{Kind: "rbac", What: "addRolesForUser", Args: []string{"a"}, Rules: [][]string{{"b"}, {"c"}}},
		rb("deleteRoleForUser", "a", "b"), rb("deleteRolesForUser", "a"),
		rb("deleteUser", "a"), rb("deleteUser", "c"), rb("deleteRole", "b"),
		rb("addPermissionForUser", "b", "data", "read"),
		{Kind: "rbac", What: "addPermissionsForUser", Args: []string{"c"}, Rules: [][]string{{"data", "read"}, {"data", "write"}}},
		rb("deletePermissionForUser", "b", "data", "read"), rb("deletePermissionsForUser", "c"),
		rb("deletePermission", "data", "read"),
		{Kind: "arm", What: "adapter", K: 1}, {Kind: "arm", What: "adapter", K: 2},
	}
	probes := append(linkProbes("g", names, nil), EOp{Kind: "obs", Args: []string{"pol", "p", "p"}})
	probes = append(probes, enfProbes...)
	setup := []EOp{
		{Kind: "add", Sec: "g", PType: "g", Rule: []string{"a", "c"}}, {Kind: "add", Sec: "g", PType: "g", Rule: []string{"c", "b"}},
		{Kind: "add", Sec: "p", PType: "p", Rule: []string{"a", "data", "read"}}, {Kind: "add", Sec: "p", PType: "p", Rule: []string{"b", "data", "write"}},
	}
	cfg := &HistCfg{Name: tag + "rbac-api", MS: rbacSpec(false, false), Opts: CaseOpts{Adapter: true}, Depth: depth,
		Alphabet: alpha, Probes: probes, Setup: setup}
	if !c.Thorough() {
		cfg.Depth = 2
	}
	enumerate(c, cfg)
	// the empty start state as well (removals that find nothing, additions first)
	cfg0 := &HistCfg{Name: tag + "rbac-api-empty", MS: rbacSpec(false, false), Opts: CaseOpts{Adapter: true}, Depth: 2, Alphabet: alpha, Probes: probes}
	enumerate(c, cfg0)

	// with domains
	namesD := []string{"a", "b"}
	var enfD []EOp
	for _, u := range namesD {
		for _, d := range []string{"d1", "d2"} {
			enfD = append(enfD, EOp{Kind: "enf", Req: []V{VS(u), VS(d), VS("data"), VS("read")}})
		}
	}
	alphaD := []EOp{
		rb("addRoleForUser", "a", "b", "d1"), rb("addRoleForUserInDomain", "a", "b", "d2"),
		{Kind: "rbac", What: "addRolesForUser", Args: []string{"b", "d1"}, Rules: [][]string{{"a"}, {"c"}}},
		rb("deleteRoleForUserInDomain", "a", "b", "d1"), rb("deleteRoleForUser", "a", "b", "d2"),
		rb("deleteRolesForUser", "a", "d1"), rb("deleteRolesForUser", "a"), rb("deleteRolesForUser", "a", "d1", "d2"),
		rb("deleteRolesForUserInDomain", "a", "d1"), rb("deleteRolesForUserInDomain", "b", "d1"),
		rb("deleteAllUsersByDomain", "d1"), rb("deleteDomains", "d1", "d2"), rb("deleteDomains"), rb("deleteDomains", "d2"),
		rb("deleteUser", "a"), rb("deleteRole", "b"),
		rb("addPermissionForUser", "b", "d1", "data", "read"), rb("addPermissionForUser", "a", "d2", "data", "read"),
		rb("deletePermission", "d1", "data"), rb("deletePermissionsForUser", "b"),
		{Kind: "arm", What: "adapter", K: 1}, {Kind: "arm", What: "adapter", K: 2},
	}
	probesD := append(linkProbes("g", namesD, []string{"d1", "d2"}), EOp{Kind: "obs", Args: []string{"pol", "p", "p"}})
	probesD = append(probesD, enfD...)
	setupD := []EOp{
		{Kind: "add", Sec: "g", PType: "g", Rule: []string{"a", "b", "d1"}}, {Kind: "add", Sec: "g", PType: "g", Rule: []string{"a", "c", "d2"}},
		{Kind: "add", Sec: "p", PType: "p", Rule: []string{"b", "d1", "data", "read"}}, {Kind: "add", Sec: "p", PType: "p", Rule: []string{"a", "d2", "data", "read"}},
	}
	cfgD := &HistCfg{Name: tag + "rbac-api-domains", MS: rbacSpec(true, false), Opts: CaseOpts{Adapter: true}, Depth: 2,
		Alphabet: alphaD, Probes: probesD, Setup: setupD}
	if c.Thorough() {
		cfgD.Depth = 3
	}
	enumerate(c, cfgD)
	n := 40
	if c.Thorough() {
		n = 1500
	}
	randomHistories(c, &HistCfg{Name: tag + "rbac-api-random", MS: rbacSpec(false, false), Opts: CaseOpts{Adapter: true}, Alphabet: alpha, Probes: probes, Setup: setup}, n, 4, 25)
	randomHistories(c, &HistCfg{Name: tag + "rbac-api-domains-random", MS: rbacSpec(true, false), Opts: CaseOpts{Adapter: true}, Alphabet: alphaD, Probes: probesD, Setup: setupD}, n, 4, 25)
	c.Count("rbac_api_alphabet", len(alpha)+len(alphaD))
	if tag == "" {
		rbacApiPatternDomains(c)
	}
	_ = fmt.Sprint
}

// The convenience layer on a domain model WITH a domain matching function (links in the pattern domain "*" hold in
// every domain): after every call the live role graph answers like an enforcer built afresh from the listed rules
// (HasLink over names x names x domains).  The pool never holds the same (user, role) pair in "*" and in a concrete
// domain (that is finding D15).  Implementation only.
func rbacApiPatternDomains(c *Ctx) {
	names := []string{"alice", "bob", "admin", "editor", "staff"}
	doms := []string{"d1", "d2", "d3"}
	build := func(rules [][]string) *casbin.Enforcer {
		e, err := casbin.NewEnforcer(rbacSpec(true, false).Build())
		if err != nil {
			panic(err)
		}
		e.AddNamedDomainMatchingFunc("g", "keyMatch", util.KeyMatch)
		for _, r := range rules {
			_, _ = e.AddGroupingPolicy(append([]string(nil), r...))
		}
		return e
	}
	type call struct {
		name string
		run  func(e *casbin.Enforcer)
	}
	calls := []call{
		{"AddRoleForUser(alice, admin, *)", func(e *casbin.Enforcer) { _, _ = e.AddRoleForUser("alice", "admin", "*") }},
		{"AddRoleForUserInDomain(alice, editor, d1)", func(e *casbin.Enforcer) { _, _ = e.AddRoleForUserInDomain("alice", "editor", "d1") }},
		{"AddRoleForUserInDomain(bob, staff, d2)", func(e *casbin.Enforcer) { _, _ = e.AddRoleForUserInDomain("bob", "staff", "d2") }},
		{"AddRoleForUser(editor, staff, *)", func(e *casbin.Enforcer) { _, _ = e.AddRoleForUser("editor", "staff", "*") }},
		{"AddRolesForUser(bob, [editor], d1)", func(e *casbin.Enforcer) { _, _ = e.AddRolesForUser("bob", []string{"editor"}, "d1") }},
		{"DeleteRolesForUser(alice, d1)", func(e *casbin.Enforcer) { _, _ = e.DeleteRolesForUser("alice", "d1") }},
		{"DeleteRolesForUser(bob, d2)", func(e *casbin.Enforcer) { _, _ = e.DeleteRolesForUser("bob", "d2") }},
		{"DeleteRoleForUserInDomain(alice, editor, d1)", func(e *casbin.Enforcer) { _, _ = e.DeleteRoleForUserInDomain("alice", "editor", "d1") }},
		{"DeleteRoleForUser(alice, admin, *)", func(e *casbin.Enforcer) { _, _ = e.DeleteRoleForUser("alice", "admin", "*") }},
		{"DeleteRolesForUserInDomain(bob, d1)", func(e *casbin.Enforcer) { _, _ = e.DeleteRolesForUserInDomain("bob", "d1") }},
		{"DeleteAllUsersByDomain(d2)", func(e *casbin.Enforcer) { _, _ = e.DeleteAllUsersByDomain("d2") }},
		{"DeleteUser(bob)", func(e *casbin.Enforcer) { _, _ = e.DeleteUser("bob") }},
	}
	n := 150
	if c.Thorough() {
		n = 4000
	}
	for i := 0; i < n; i++ {
		e := build(nil)
		var hist []string
		steps := 2 + c.Rng.Intn(7)
		for s := 0; s < steps; s++ {
			cl := calls[c.Rng.Intn(len(calls))]
			cl.run(e)
			hist = append(hist, cl.name)
			listed, _ := e.GetGroupingPolicy()
			f := build(listed)
			for _, d := range doms {
				for _, u := range names {
					for _, r := range names {
						live, _ := e.GetRoleManager().HasLink(u, r, d)
						fresh, _ := f.GetRoleManager().HasLink(u, r, d)
						if live != fresh {
							c.Direct("after a convenience call under a domain matching function the role graph does not mirror the listed grouping rules", fmt.Sprintf("%v listed=%v HasLink(%s, %s, %s) live=%v rebuilt-from-listed=%v", hist, listed, u, r, d, live, fresh))
							return
						}
					}
				}
			}
			c.Evals++
		}
		c.Count("rbac_api_pattern_domain_runs", 1)
	}
}
