package main

import (
	"github.com/casbin/casbin/v2/log"
	"github.com/casbin/casbin/v2/rbac"
)

type rbacRM = rbac.RoleManager

func (f *failingRM) Clear() error { return f.RoleManager.Clear() }
func (f *failingRM) AddLink(name1 string, name2 string, domain ...string) error {
	f.n++
	if f.failAt != 0 && f.n == f.failAt {
		return errRM
	}
	return f.RoleManager.AddLink(name1, name2, domain...)
}
func (f *failingRM) BuildRelationship(name1 string, name2 string, domain ...string) error {
	return f.RoleManager.BuildRelationship(name1, name2, domain...)
}
func (f *failingRM) DeleteLink(name1 string, name2 string, domain ...string) error {
	f.n++
	if f.failAt != 0 && f.n == f.failAt {
		return errRM
	}
	return f.RoleManager.DeleteLink(name1, name2, domain...)
}
func (f *failingRM) HasLink(name1 string, name2 string, domain ...string) (bool, error) {
	return f.RoleManager.HasLink(name1, name2, domain...)
}
func (f *failingRM) GetRoles(name string, domain ...string) ([]string, error) {
	return f.RoleManager.GetRoles(name, domain...)
}
func (f *failingRM) GetUsers(name string, domain ...string) ([]string, error) {
	return f.RoleManager.GetUsers(name, domain...)
}
func (f *failingRM) GetDomains(name string) ([]string, error) { return f.RoleManager.GetDomains(name) }
func (f *failingRM) GetAllDomains() ([]string, error)        { return f.RoleManager.GetAllDomains() }
func (f *failingRM) PrintRoles() error                        { return f.RoleManager.PrintRoles() }
func (f *failingRM) SetLogger(logger log.Logger)              { f.RoleManager.SetLogger(logger) }
func (f *failingRM) Match(str string, pattern string) bool    { return f.RoleManager.Match(str, pattern) }
func (f *failingRM) AddMatchingFunc(name string, fn rbac.MatchingFunc) {
	f.RoleManager.AddMatchingFunc(name, fn)
}
func (f *failingRM) AddDomainMatchingFunc(name string, fn rbac.MatchingFunc) {
	f.RoleManager.AddDomainMatchingFunc(name, fn)
}
