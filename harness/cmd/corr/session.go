package main

import (
	"fmt"
	"os"

	"github.com/casbin/casbin/v2"
	"github.com/casbin/casbin/v2/model"
	fileadapter "github.com/casbin/casbin/v2/persist/file-adapter"
	"github.com/casbin/govaluate"

	"verif/harness/internal/mem"
	"verif/harness/internal/proto"
)

// CaseOpts configures one enforcer case.
type CaseOpts struct {
	Adapter bool
	ALines  []mem.Line
	// LateAdapter: NewEnforcer(model) then SetAdapter (only with an empty store)
	LateAdapter bool
	Watcher string // "", plain, ex, upd, exupd
	// OraUniverse: string values over which oracle tables of the used built-ins are tabulated
	OraUniverse []string
	Dist        bool           // build a DistributedEnforcer (the session drives its embedded enforcer)
	FAText      *string        // use a filtered file adapter over a file with this content
	MatchFns    []string       // matching functions that may be registered: tabulated over OraUniverse
	EvalTab     map[string]*Ex // rule text -> AST, for eval()
	Customs     map[string]*Ex // custom matcher id -> AST (printed against r/p)
	CustomFns   map[string]govaluate.ExpressionFunction
}

var builtinFns = func() map[string]govaluate.ExpressionFunction {
	fm := model.LoadFunctionMap()
	return fm.GetFunctions()
}()

// oraLine tabulates one call of a built-in (or custom) function on the real code.
func oraLine(name string, fn govaluate.ExpressionFunction, args ...string) (line string) {
	iargs := make([]interface{}, len(args))
	toks := make([]string, len(args))
	for i, a := range args {
		iargs[i] = a
		toks[i] = "s:" + proto.Enc(a)
	}
	res := "err"
	func() {
		defer func() {
			if r := recover(); r != nil {
				res = "err"
			}
		}()
		v, err := fn(iargs...)
		if err != nil {
			return
		}
		switch x := v.(type) {
		case bool:
			if x {
				res = "b:1"
			} else {
				res = "b:0"
			}
		case string:
			res = "s:" + proto.Enc(x)
		case float64:
			res = fmt.Sprintf("n:%d", int(x))
		}
	}()
	out := "ora " + name
	for _, t := range toks {
		out += " " + t
	}
	return out + " = " + res
}

// StartCase writes the header of an enforcer case, builds the real enforcer the same way and
// returns the session.  The `init` line carries the outcome of construction.
func StartCase(c *Ctx, ms *MSpec, o CaseOpts) *Sess {
	m := ms.Build()
	c.W.Op("case enforcer", "#")
	for _, l := range ms.Header(m) {
		c.W.Op(l, "#")
	}
	s := &Sess{Customs: map[string]string{}, MS: ms}
	for _, name := range o.MatchFns {
		fn := matchFns[name]
		for _, a := range o.OraUniverse {
			for _, b := range o.OraUniverse {
				res := "b:0"
				if fn(a, b) {
					res = "b:1"
				}
				c.W.Op("ora "+name+" s:"+proto.Enc(a)+" s:"+proto.Enc(b)+" = "+res, "#")
			}
		}
	}
	for text, ast := range o.EvalTab {
		c.W.Op("evaltab "+proto.Enc(text)+" "+ast.Prefix(), "#")
	}
	for id, ast := range o.Customs {
		c.W.Op("mdef "+id+" "+ast.Prefix(), "#")
		s.Customs[id] = ast.Text("r", "p", ms.R["r"], ms.P["p"])
	}
	// oracle tables for every function the matchers (and eval tables, custom matchers) call
	used := map[string]bool{}
	for _, t := range ms.MTypes {
		ms.M[t].Calls(used)
	}
	for _, ast := range o.EvalTab {
		ast.Calls(used)
	}
	for _, ast := range o.Customs {
		ast.Calls(used)
	}
	for name := range used {
		fn, ok := o.CustomFns[name]
		if !ok {
			fn, ok = builtinFns[name]
		}
		if !ok {
			continue
		}
		for _, a := range o.OraUniverse {
			for _, b := range o.OraUniverse {
				c.W.Op(oraLine(name, fn, a, b), "#")
			}
		}
	}
	var e *casbin.Enforcer
	var err error
	if o.FAText != nil {
		c.W.Op("adapter fa "+proto.Enc(*o.FAText), "#")
		s.FAPath = scratchFile() + ".fa"
		if werr := os.WriteFile(s.FAPath, []byte(*o.FAText), 0o644); werr != nil {
			panic(werr)
		}
		s.FA = fileadapter.NewFilteredAdapter(s.FAPath)
		e, err = casbin.NewEnforcer(m, s.FA)
	} else if o.Adapter {
		c.W.Op("adapter mem", "#")
		s.A = mem.New()
		for _, l := range o.ALines {
			s.A.Lines = append(s.A.Lines, mem.Line{PType: l.PType, Rule: append([]string(nil), l.Rule...)})
			c.W.Op("aline "+l.PType+" "+proto.EncRule(l.Rule), "#")
		}
		if o.Dist {
			s.D, err = casbin.NewDistributedEnforcer(m, s.A)
			if err == nil {
				e = s.D.SyncedEnforcer.Enforcer
			}
		} else if o.LateAdapter && len(o.ALines) == 0 {
			// built from the model alone, the (empty) store attached afterwards: nothing was ever loaded.  The
			// state is the one an initial load of the empty store leaves, so the model's header is the same
			e, err = casbin.NewEnforcer(m)
			if err == nil {
				e.SetAdapter(s.A)
			}
		} else {
			e, err = casbin.NewEnforcer(m, s.A)
		}
	} else {
		e, err = casbin.NewEnforcer(m)
	}
	if o.Watcher != "" {
		c.W.Op("watcher "+o.Watcher, "#")
	}
	if err != nil {
		c.W.Op("init", "err")
		return nil
	}
	for name, fn := range o.CustomFns {
		e.AddFunction(name, fn)
	}
	if o.Watcher != "" {
		s.W = &mem.Watcher{}
		switch o.Watcher {
		case "plain":
			_ = e.SetWatcher(mem.Plain{Watcher: s.W})
		case "ex":
			_ = e.SetWatcher(mem.Ex{Watcher: s.W})
		case "upd":
			_ = e.SetWatcher(mem.Upd{Watcher: s.W})
		case "exupd":
			_ = e.SetWatcher(mem.ExUpd{Watcher: s.W})
		}
	}
	s.E = e
	c.W.Op("init", "ok")
	return s
}

// Do executes the op on the real enforcer and records line and observation.
func (s *Sess) Do(c *Ctx, o EOp) string {
	obs := s.Exec(o)
	c.W.Op(o.Line(), obs)
	return obs
}

// StartCaseQuiet builds a session without recording anything (implementation-only checks).
func StartCaseQuiet(ms *MSpec, o CaseOpts) *Sess {
	s := &Sess{Customs: map[string]string{}, MS: ms}
	s.A = mem.New()
	s.A.Lines = append(s.A.Lines, o.ALines...)
	e, err := casbin.NewEnforcer(ms.Build(), s.A)
	if err != nil {
		panic(err)
	}
	s.E = e
	return s
}

func memLine(pt string, fields ...string) mem.Line { return mem.Line{PType: pt, Rule: fields} }

// newDist builds a quiet distributed session.
func newDist(ms *MSpec) *Sess {
	s := &Sess{Customs: map[string]string{}, MS: ms}
	s.A = mem.New()
	d, err := casbin.NewDistributedEnforcer(ms.Build(), s.A)
	if err != nil {
		panic(err)
	}
	s.D = d
	s.E = d.SyncedEnforcer.Enforcer
	return s
}
