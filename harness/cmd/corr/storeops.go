package main

import (
	"fmt"
	"sort"
	"strings"

	"github.com/casbin/casbin/v2"

	"verif/harness/internal/proto"
)

// SOp is one store-level management operation (protocol of Driver/Store.lean).
type SOp struct {
	Kind  string // add adds rm rms upd upds rmf has getf
	Ex    bool
	Rule  []string
	Rules [][]string
	News  [][]string
	New   []string
	FI    int
	Vals  []string
	// Listed (rms): pass the live listing (GetPolicy) instead of a copy of Rules
	Listed bool
}

func (o SOp) Line() string {
	switch o.Kind {
	case "add", "rm", "has":
		return o.Kind + " " + proto.EncRule(o.Rule)
	case "adds":
		ex := "0"
		if o.Ex {
			ex = "1"
		}
		return "adds " + ex + " " + proto.EncRules(o.Rules)
	case "rms":
		return "rms " + proto.EncRules(o.Rules)
	case "upd":
		return "upd " + proto.EncRule(o.Rule) + " | " + proto.EncRule(o.New)
	case "upds":
		return "upds " + proto.EncRules(o.Rules) + " || " + proto.EncRules(o.News)
	case "rmf", "getf":
		return fmt.Sprintf("%s %d %s", o.Kind, o.FI, proto.EncRule(o.Vals))
	}
	panic("bad op " + o.Kind)
}

func cloneRules(rs [][]string) [][]string {
	out := make([][]string, len(rs))
	for i, r := range rs {
		out[i] = append([]string(nil), r...)
	}
	return out
}

func storeState(e *casbin.Enforcer, sec, ptype string) string {
	ast := e.GetModel()[sec][ptype]
	keys := make([]string, 0, len(ast.PolicyMap))
	for k := range ast.PolicyMap {
		keys = append(keys, k)
	}
	enc := make([]string, len(keys))
	for i, k := range keys {
		enc[i] = fmt.Sprintf("%s=%d", proto.Enc(k), ast.PolicyMap[k])
	}
	sort.Slice(enc, func(i, j int) bool {
		return enc[i][:strings.LastIndex(enc[i], "=")] < enc[j][:strings.LastIndex(enc[j], "=")]
	})
	idx := "-"
	if len(enc) > 0 {
		idx = strings.Join(enc, " ")
	}
	return "P " + proto.EncRules(ast.Policy) + " X " + idx
}

// execStore applies the op through the Enforcer's public API and returns the observation.
func execStore(e *casbin.Enforcer, sec, ptype string, o SOp) (obs string) {
	mut := true
	defer checkStoreHanded(o.Line())
	defer func() {
		if r := recover(); r != nil {
			obs = "panic"
			if mut {
				obs += " " + storeState(e, sec, ptype)
			}
		}
	}()
	var ok bool
	var err error
	p := sec == "p"
	switch o.Kind {
	case "add":
		if p {
			buf := append([]string(nil), o.Rule...)
			ok, err = e.AddNamedPolicy(ptype, buf)
			for i := range buf { // the caller refills its buffer: AddNamedPolicy has copied the rule
				buf[i] = "\x00overwritten-by-the-caller"
			}
		} else {
			ok, err = e.AddNamedGroupingPolicy(ptype, storeHand(o, [][]string{o.Rule})[0])
		}
	case "adds":
		switch {
		case p && !o.Ex:
			ok, err = e.AddNamedPolicies(ptype, storeHand(o, o.Rules))
		case p && o.Ex:
			ok, err = e.AddNamedPoliciesEx(ptype, storeHand(o, o.Rules))
		case !p && !o.Ex:
			ok, err = e.AddNamedGroupingPolicies(ptype, storeHand(o, o.Rules))
		default:
			ok, err = e.AddNamedGroupingPoliciesEx(ptype, storeHand(o, o.Rules))
		}
	case "rm":
		if p {
			ok, err = e.RemoveNamedPolicy(ptype, storeHand(o, [][]string{o.Rule})[0])
		} else {
			ok, err = e.RemoveNamedGroupingPolicy(ptype, storeHand(o, [][]string{o.Rule})[0])
		}
	case "rms":
		if o.Listed {
			// the listing handed straight back: RemovePolicies(GetPolicy()) — o.Rules holds what was listed
			if p {
				live, _ := e.GetNamedPolicy(ptype)
				ok, err = e.RemoveNamedPolicies(ptype, live)
			} else {
				live, _ := e.GetNamedGroupingPolicy(ptype)
				ok, err = e.RemoveNamedGroupingPolicies(ptype, live)
			}
		} else if p {
			ok, err = e.RemoveNamedPolicies(ptype, storeHand(o, o.Rules))
		} else {
			ok, err = e.RemoveNamedGroupingPolicies(ptype, storeHand(o, o.Rules))
		}
	case "upd":
		if p {
			ok, err = e.UpdateNamedPolicy(ptype, storeHand(o, [][]string{o.Rule})[0], storeHand(o, [][]string{o.New})[0])
		} else {
			ok, err = e.UpdateNamedGroupingPolicy(ptype, storeHand(o, [][]string{o.Rule})[0], storeHand(o, [][]string{o.New})[0])
		}
	case "upds":
		if p {
			ok, err = e.UpdateNamedPolicies(ptype, storeHand(o, o.Rules), storeHand(o, o.News))
		} else {
			ok, err = e.UpdateNamedGroupingPolicies(ptype, storeHand(o, o.Rules), storeHand(o, o.News))
		}
	case "rmf":
		if p {
			ok, err = e.RemoveFilteredNamedPolicy(ptype, o.FI, o.Vals...)
		} else {
			ok, err = e.RemoveFilteredNamedGroupingPolicy(ptype, o.FI, o.Vals...)
		}
	case "has":
		mut = false
		if p {
			ok, err = e.HasNamedPolicy(ptype, storeHand(o, [][]string{o.Rule})[0])
		} else {
			ok, err = e.HasNamedGroupingPolicy(ptype, storeHand(o, [][]string{o.Rule})[0])
		}
		if err != nil {
			return "err"
		}
		return proto.Bool(ok)
	case "getf":
		mut = false
		var rs [][]string
		if p {
			rs, err = e.GetFilteredNamedPolicy(ptype, o.FI, o.Vals...)
		} else {
			rs, err = e.GetFilteredNamedGroupingPolicy(ptype, o.FI, o.Vals...)
		}
		if err != nil {
			return "err"
		}
		return proto.EncRules(rs)
	default:
		panic("bad op")
	}
	res := proto.Bool(ok)
	if err != nil {
		res = "err"
	}
	return res + " " + storeState(e, sec, ptype)
}

// storeHanded: the rule lists handed to the library by execStore (copies of the operation's pristine lists); after
// every call all of them are compared with their originals (see Sess.Exec)
var storeHanded []*handedRules

func storeHand(o SOp, rs [][]string) [][]string {
	cl := cloneRules(rs)
	if len(storeHanded) >= 300 {
		storeHanded = storeHanded[150:]
	}
	storeHanded = append(storeHanded, &handedRules{op: o.Line(), orig: cloneRules(rs), clone: cl})
	return cl
}

func checkStoreHanded(after string) {
	for _, h := range storeHanded {
		if !h.reported && !sameRules(h.clone, h.orig) {
			h.reported = true
			if len(argMutations) < 5 {
				argMutations = append(argMutations, fmt.Sprintf("handed in by %s: %v, found after %s: %v", h.op, h.orig, after, h.clone))
			}
		}
	}
}
