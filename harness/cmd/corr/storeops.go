package main

import (
	"fmt"
	"sort"
	"strings"

	"github.com/casbin/casbin/v2"

	"verif/harness/internal/proto"
)

// SOp is one store-level management operation (protocol of Driver/Store.lean).
type SOp struct {
	Kind  string // add adds rm rms upd upds rmf has getf
	Ex    bool
	Rule  []string
	Rules [][]string
	News  [][]string
	New   []string
	FI    int
	Vals  []string
}

func (o SOp) Line() string {
	switch o.Kind {
	case "add", "rm", "has":
		return o.Kind + " " + proto.EncRule(o.Rule)
	case "adds":
		ex := "0"
		if o.Ex {
			ex = "1"
		}
		return "adds " + ex + " " + proto.EncRules(o.Rules)
	case "rms":
		return "rms " + proto.EncRules(o.Rules)
	case "upd":
		return "upd " + proto.EncRule(o.Rule) + " | " + proto.EncRule(o.New)
	case "upds":
		return "upds " + proto.EncRules(o.Rules) + " || " + proto.EncRules(o.News)
	case "rmf", "getf":
		return fmt.Sprintf("%s %d %s", o.Kind, o.FI, proto.EncRule(o.Vals))
	}
	panic("bad op " + o.Kind)
}

func cloneRules(rs [][]string) [][]string {
	out := make([][]string, len(rs))
	for i, r := range rs {
		out[i] = append([]string(nil), r...)
	}
	return out
}

func storeState(e *casbin.Enforcer, sec, ptype string) string {
	ast := e.GetModel()[sec][ptype]
	keys := make([]string, 0, len(ast.PolicyMap))
	for k := range ast.PolicyMap {
		keys = append(keys, k)
	}
	enc := make([]string, len(keys))
	for i, k := range keys {
		enc[i] = fmt.Sprintf("%s=%d", proto.Enc(k), ast.PolicyMap[k])
	}
	sort.Slice(enc, func(i, j int) bool {
		return enc[i][:strings.LastIndex(enc[i], "=")] < enc[j][:strings.LastIndex(enc[j], "=")]
	})
	idx := "-"
	if len(enc) > 0 {
		idx = strings.Join(enc, " ")
	}
	return "P " + proto.EncRules(ast.Policy) + " X " + idx
}

// execStore applies the op through the Enforcer's public API and returns the observation.
func execStore(e *casbin.Enforcer, sec, ptype string, o SOp) (obs string) {
	mut := true
	defer func() {
		if r := recover(); r != nil {
			obs = "panic"
			if mut {
				obs += " " + storeState(e, sec, ptype)
			}
		}
	}()
	var ok bool
	var err error
	p := sec == "p"
	switch o.Kind {
	case "add":
		if p {
			ok, err = e.AddNamedPolicy(ptype, append([]string(nil), o.Rule...))
		} else {
			ok, err = e.AddNamedGroupingPolicy(ptype, append([]string(nil), o.Rule...))
		}
	case "adds":
		switch {
		case p && !o.Ex:
			ok, err = e.AddNamedPolicies(ptype, cloneRules(o.Rules))
		case p && o.Ex:
			ok, err = e.AddNamedPoliciesEx(ptype, cloneRules(o.Rules))
		case !p && !o.Ex:
			ok, err = e.AddNamedGroupingPolicies(ptype, cloneRules(o.Rules))
		default:
			ok, err = e.AddNamedGroupingPoliciesEx(ptype, cloneRules(o.Rules))
		}
	case "rm":
		if p {
			ok, err = e.RemoveNamedPolicy(ptype, append([]string(nil), o.Rule...))
		} else {
			ok, err = e.RemoveNamedGroupingPolicy(ptype, append([]string(nil), o.Rule...))
		}
	case "rms":
		if p {
			ok, err = e.RemoveNamedPolicies(ptype, cloneRules(o.Rules))
		} else {
			ok, err = e.RemoveNamedGroupingPolicies(ptype, cloneRules(o.Rules))
		}
	case "upd":
		if p {
			ok, err = e.UpdateNamedPolicy(ptype, append([]string(nil), o.Rule...), append([]string(nil), o.New...))
		} else {
			ok, err = e.UpdateNamedGroupingPolicy(ptype, append([]string(nil), o.Rule...), append([]string(nil), o.New...))
		}
	case "upds":
		if p {
			ok, err = e.UpdateNamedPolicies(ptype, cloneRules(o.Rules), cloneRules(o.News))
		} else {
			ok, err = e.UpdateNamedGroupingPolicies(ptype, cloneRules(o.Rules), cloneRules(o.News))
		}
	case "rmf":
		if p {
			ok, err = e.RemoveFilteredNamedPolicy(ptype, o.FI, o.Vals...)
		} else {
			ok, err = e.RemoveFilteredNamedGroupingPolicy(ptype, o.FI, o.Vals...)
		}
	case "has":
		mut = false
		if p {
			ok, err = e.HasNamedPolicy(ptype, append([]string(nil), o.Rule...))
		} else {
			ok, err = e.HasNamedGroupingPolicy(ptype, append([]string(nil), o.Rule...))
		}
		if err != nil {
			return "err"
		}
		return proto.Bool(ok)
	case "getf":
		mut = false
		var rs [][]string
		if p {
			rs, err = e.GetFilteredNamedPolicy(ptype, o.FI, o.Vals...)
		} else {
			rs, err = e.GetFilteredNamedGroupingPolicy(ptype, o.FI, o.Vals...)
		}
		if err != nil {
			return "err"
		}
		return proto.EncRules(rs)
	default:
		panic("bad op")
	}
	res := proto.Bool(ok)
	if err != nil {
		res = "err"
	}
	return res + " " + storeState(e, sec, ptype)
}
