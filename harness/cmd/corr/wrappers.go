package main

import (
	"fmt"
	"math/rand"
	"reflect"
	"sort"
	"strings"

	"github.com/casbin/casbin/v2"
	"github.com/casbin/casbin/v2/model"

	"verif/harness/internal/mem"
	"verif/harness/internal/syncapi"
)

// wrapperTransparency: every exported method of *SyncedEnforcer that the plain Enforcer has too (read from the
// source with go/ast, so new wrappers are picked up) is called with the same synthesised arguments on a
// synchronised enforcer and on a plain enforcer in the same state; results, listed rules of every definition,
// the store, the notifications a WatcherEx+UpdatableWatcher received, role links and decisions must agree.  A
// wrapper that forwards to a sibling method, drops or swaps an argument, or announces what the plain call
// does not, shows here.  Implementation only.

type wrapSide struct {
	e  *casbin.Enforcer
	se *casbin.SyncedEnforcer
	a  *mem.Adapter
	w  *mem.Watcher
}

func wrapState(sd *wrapSide, sw *SyncWorld) string {
	var sb strings.Builder
	m := sd.e.GetModel()
	for _, sec := range []string{"p", "g"} {
		var pts []string
		for pt := range m[sec] {
			pts = append(pts, pt)
		}
		sort.Strings(pts)
		for _, pt := range pts {
			fmt.Fprintf(&sb, "%s=%v ", pt, m[sec][pt].Policy)
		}
	}
	fmt.Fprintf(&sb, "store=%v notif=%v dec=", sd.a.Lines, sd.w.Log)
	for _, u := range append(append([]string(nil), sw.W.Users...), sw.W.Roles...) {
		for _, o := range sw.W.Objs {
			for _, act := range sw.W.Acts {
				var ok bool
				var err error
				if sw.W.HasDomains {
					ok, err = sd.e.Enforce(u, sw.W.Domains[0], o, act)
				} else {
					ok, err = sd.e.Enforce(u, o, act)
				}
				switch {
				case err != nil:
					sb.WriteByte('E')
				case ok:
					sb.WriteByte('1')
				default:
					sb.WriteByte('0')
				}
			}
		}
	}
	return sb.String()
}

func newWrapSide(sw *SyncWorld, synced bool) *wrapSide {
	m, err := model.NewModelFromString(sw.ModelText)
	if err != nil {
		panic(err)
	}
	sd := &wrapSide{a: mem.New(), w: &mem.Watcher{}}
	for _, line := range strings.Split(sw.Policy, "\n") {
		f := strings.Split(line, ",")
		if len(f) < 2 {
			continue
		}
		for i := range f {
			f[i] = strings.TrimSpace(f[i])
		}
		sd.a.Lines = append(sd.a.Lines, mem.Line{PType: f[0], Rule: f[1:]})
	}
	if synced {
		se, err := casbin.NewSyncedEnforcer(m, sd.a)
		if err != nil {
			panic(err)
		}
		sd.se, sd.e = se, se.Enforcer
		if sw.Setup != nil {
			sw.Setup(se)
		}
		_ = se.SetWatcher(mem.ExUpd{Watcher: sd.w})
	} else {
		e, err := casbin.NewEnforcer(m, sd.a)
		if err != nil {
			panic(err)
		}
		sd.e = e
		if sw.Setup != nil {
			// the set-up functions are written for the wrapper: give them one around this enforcer's twin state
			tmp := &casbin.SyncedEnforcer{Enforcer: e}
			sw.Setup(tmp)
		}
		_ = e.SetWatcher(mem.ExUpd{Watcher: sd.w})
	}
	sd.w.Log = nil
	sd.a.Log = nil
	return sd
}

func wrapperTransparency(c *Ctx, rounds int, keep func(name string) bool) {
	methods, err := syncapi.Methods("/repo")
	if err != nil {
		panic(err)
	}
	skip := map[string]bool{"GetLock": true, "StartAutoLoadPolicy": true, "StopAutoLoadPolicy": true, "IsAutoLoadingRunning": true,
		"SetWatcher": true, "LoadModel": true}
	plainType := reflect.TypeOf(&casbin.Enforcer{})
	for _, sw := range SyncWorlds() {
		for _, m := range methods {
			if skip[m.Name] || (keep != nil && !keep(m.Name)) {
				continue
			}
			if _, ok := plainType.MethodByName(m.Name); !ok {
				continue
			}
			for r := 0; r < rounds; r++ {
				seed := c.Rng.Int63()
				plain, synced := newWrapSide(sw, false), newWrapSide(sw, true)
				// a few identical management calls first, so that removals and updates meet listed rules
				pre := rand.New(rand.NewSource(seed ^ 0x5bd1e995))
				for k := 0; k < r%3; k++ {
					rule := sw.W.Rule(pre, "p")
					_, _ = plain.e.AddPolicy(rule)
					_, _ = synced.e.AddPolicy(append([]string(nil), rule...))
				}
				plain.w.Log, synced.w.Log = nil, nil
				w := sw.W
				w.Watcher = mem.Plain{Watcher: &mem.Watcher{}}
				outP := syncapi.CallOn(plain.e, m, w.Args(m, rand.New(rand.NewSource(seed))))
				outS := syncapi.CallOn(synced.se, m, w.Args(m, rand.New(rand.NewSource(seed))))
				c.Evals++
				c.Count("wrapper_transparency_calls", 1)
				what := fmt.Sprintf("model=%s method=%s args=%s", sw.Name, m.Name, showArgs(w.Args(m, rand.New(rand.NewSource(seed)))))
				if fmt.Sprint(outP) != fmt.Sprint(outS) {
					c.Direct("a SyncedEnforcer method returns something else than the Enforcer method it wraps", fmt.Sprintf("%s\nplain:  %v\nsynced: %v", what, outP, outS))
					continue
				}
				if strings.HasPrefix(m.Name, "Self") {
					// a replayed change came from a peer: announcing it again would echo it round the cluster
					if len(plain.w.Log) != 0 || len(synced.w.Log) != 0 {
						c.Direct("a Self* call notified the watcher", fmt.Sprintf("%s\nplain announced %v, synced announced %v", what, plain.w.Log, synced.w.Log))
					}
					c.Count("self_calls_silent_checks", 1)
				}
				if sp, ss := wrapState(plain, sw), wrapState(synced, sw); sp != ss {
					c.Direct("a SyncedEnforcer method leaves another state (rules, store, notifications, decisions) than the Enforcer method it wraps", fmt.Sprintf("%s\nplain:  %s\nsynced: %s", what, sp, ss))
				}
			}
		}
	}
}
