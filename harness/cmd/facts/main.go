// facts re-reads /repo with go/ast and prints lean/CasbinVerif/Generated/Facts.lean:
// the locking skeleton of every SyncedEnforcer method (lock operations on e.m and calls into the
// embedded enforcer, in source order; a deferred unlock is listed last), the exported Enforcer
// methods that have no synchronised wrapper, and the shape facts the Lean side relies on
// (bodies are straight-line: no lock operation inside a branch, loop or closure).
package main

import (
	"fmt"
	"go/ast"
	"go/parser"
	"go/token"
	"os"
	"path/filepath"
	"sort"
	"strings"
)

type ev struct {
	kind string // acqR acqW rel call wrapperCall spawn
	name string
}

type wrapper struct {
	name     string
	file     string
	line     int
	body     []ev
	deferred []ev
	// lock operations found in a nested statement (branch, loop, closure): the straight-line
	// reading of the body would be wrong
	nestedLockOps int
	// unlocks that are plain statements rather than deferred calls: a panic between lock and
	// unlock would leave the lock held
	explicitUnlocks int
}

func main() {
	root := "/repo"
	if len(os.Args) > 1 {
		root = os.Args[1]
	}
	fset := token.NewFileSet()
	files, _ := filepath.Glob(filepath.Join(root, "*.go"))
	sort.Strings(files)
	var parsed []*ast.File
	var names []string
	for _, f := range files {
		if strings.HasSuffix(f, "_test.go") {
			continue
		}
		af, err := parser.ParseFile(fset, f, nil, 0)
		if err != nil {
			fmt.Fprintln(os.Stderr, "parse error:", err)
			os.Exit(1)
		}
		parsed = append(parsed, af)
		names = append(names, filepath.Base(f))
	}
	recvOf := func(fd *ast.FuncDecl) string {
		if fd.Recv == nil || len(fd.Recv.List) == 0 {
			return ""
		}
		t := fd.Recv.List[0].Type
		if st, ok := t.(*ast.StarExpr); ok {
			t = st.X
		}
		if id, ok := t.(*ast.Ident); ok {
			return id.Name
		}
		return ""
	}
	synced := map[string]bool{}
	enforcerExported := map[string]bool{}
	for _, af := range parsed {
		for _, d := range af.Decls {
			fd, ok := d.(*ast.FuncDecl)
			if !ok {
				continue
			}
			switch recvOf(fd) {
			case "SyncedEnforcer":
				synced[fd.Name.Name] = true
			case "Enforcer":
				if fd.Name.IsExported() {
					enforcerExported[fd.Name.Name] = true
				}
			}
		}
	}
	var wrappers []*wrapper
	for fi, af := range parsed {
		for _, d := range af.Decls {
			fd, ok := d.(*ast.FuncDecl)
			if !ok || recvOf(fd) != "SyncedEnforcer" || fd.Body == nil {
				continue
			}
			recv := ""
			if len(fd.Recv.List[0].Names) > 0 {
				recv = fd.Recv.List[0].Names[0].Name
			}
			w := &wrapper{name: fd.Name.Name, file: names[fi], line: fset.Position(fd.Pos()).Line}
			// classify a call expression
			classify := func(call *ast.CallExpr) (ev, bool) {
				sel, ok := call.Fun.(*ast.SelectorExpr)
				if !ok {
					return ev{}, false
				}
				// e.m.Lock() etc.
				if inner, ok := sel.X.(*ast.SelectorExpr); ok {
					if id, ok := inner.X.(*ast.Ident); ok && id.Name == recv {
						if inner.Sel.Name == "m" {
							switch sel.Sel.Name {
							case "Lock":
								return ev{"acqW", ""}, true
							case "RLock":
								return ev{"acqR", ""}, true
							case "Unlock", "RUnlock":
								return ev{"rel", ""}, true
							}
						}
						if inner.Sel.Name == "Enforcer" {
							return ev{"call", sel.Sel.Name}, true
						}
					}
				}
				if id, ok := sel.X.(*ast.Ident); ok && id.Name == recv {
					if synced[sel.Sel.Name] {
						return ev{"wrapperCall", sel.Sel.Name}, true
					}
					return ev{"call", sel.Sel.Name}, true
				}
				return ev{}, false
			}
			// a scope is a function body: the wrapper's own, or a function literal that is called on
			// the spot (`x := func() { … }()`), whose deferred calls run when that literal returns
			var walkStmts func(stmts []ast.Stmt, nested bool, deferred *[]ev)
			var walkExpr func(n ast.Node, nested bool, inGo bool)
			walkExpr = func(n ast.Node, nested bool, inGo bool) {
				ast.Inspect(n, func(x ast.Node) bool {
					switch t := x.(type) {
					case *ast.FuncLit:
						// a closure that is not called here: anything inside runs some other time
						walkExpr(t.Body, true, inGo)
						return false
					case *ast.CallExpr:
						// arguments first (evaluation order), then the call itself
						for _, a := range t.Args {
							walkExpr(a, nested, inGo)
						}
						if lit, ok := t.Fun.(*ast.FuncLit); ok && !inGo {
							var d []ev
							walkStmts(lit.Body.List, nested, &d)
							w.body = append(w.body, d...)
							return false
						}
						if e, ok := classify(t); ok {
							isLock := e.kind == "acqR" || e.kind == "acqW" || e.kind == "rel"
							switch {
							case inGo && (e.kind == "wrapperCall" || e.kind == "call"):
								w.body = append(w.body, ev{"spawn", e.name})
							case (nested || inGo) && isLock:
								w.nestedLockOps++
							default:
								if e.kind == "rel" {
									w.explicitUnlocks++
								}
								w.body = append(w.body, e)
							}
						}
						if sel, ok := t.Fun.(*ast.SelectorExpr); ok {
							walkExpr(sel.X, nested, inGo)
						} else {
							walkExpr(t.Fun, nested, inGo)
						}
						return false
					}
					return true
				})
			}
			walkStmts = func(stmts []ast.Stmt, nested bool, deferred *[]ev) {
				for _, st := range stmts {
					switch t := st.(type) {
					case *ast.DeferStmt:
						if e, ok := classify(t.Call); ok && !nested {
							*deferred = append([]ev{e}, *deferred...)
						} else if ok {
							w.nestedLockOps++
						} else {
							walkExpr(t.Call, true, false)
						}
					case *ast.GoStmt:
						walkExpr(t.Call, true, true)
					case *ast.IfStmt:
						if t.Init != nil {
							walkStmts([]ast.Stmt{t.Init}, nested, deferred)
						}
						walkExpr(t.Cond, nested, false)
						// calls into the enforcer inside a branch are kept (they are accesses made
						// while whatever is held is held); lock operations there are not straight-line
						walkStmts(t.Body.List, true, deferred)
						if t.Else != nil {
							walkStmts([]ast.Stmt{t.Else}, true, deferred)
						}
					case *ast.BlockStmt:
						walkStmts(t.List, nested, deferred)
					case *ast.ForStmt:
						walkStmts(t.Body.List, true, deferred)
					case *ast.RangeStmt:
						walkExpr(t.X, nested, false)
						walkStmts(t.Body.List, true, deferred)
					case *ast.SwitchStmt, *ast.TypeSwitchStmt, *ast.SelectStmt:
						walkExpr(t, true, false)
					default:
						walkExpr(st, nested, false)
					}
				}
			}
			walkStmts(fd.Body.List, false, &w.deferred)
			w.body = append(w.body, w.deferred...)
			wrappers = append(wrappers, w)
		}
	}
	sort.Slice(wrappers, func(i, j int) bool { return wrappers[i].name < wrappers[j].name })
	var unwrapped []string
	for n := range enforcerExported {
		if !synced[n] {
			unwrapped = append(unwrapped, n)
		}
	}
	sort.Strings(unwrapped)

	fmt.Println("import CasbinVerif.Model.Sync")
	fmt.Println("/- GENERATED by harness/cmd/facts from /repo on every run; do not edit. -/")
	fmt.Println("namespace Casbin.Facts")
	fmt.Println("open Casbin.Sync")
	fmt.Println()
	fmt.Println("/-- every method of *SyncedEnforcer: lock operations and calls into the embedded enforcer, in order -/")
	fmt.Println("def lockTable : List Wrapper := [")
	for i, w := range wrappers {
		var parts []string
		for _, e := range w.body {
			switch e.kind {
			case "acqR":
				parts = append(parts, ".acq .R")
			case "acqW":
				parts = append(parts, ".acq .W")
			case "rel":
				parts = append(parts, ".rel")
			case "call":
				parts = append(parts, fmt.Sprintf(".call %q", e.name))
			case "wrapperCall":
				parts = append(parts, fmt.Sprintf(".wrapperCall %q", e.name))
			case "spawn":
				parts = append(parts, fmt.Sprintf(".spawn %q", e.name))
			}
		}
		sep := ","
		if i == len(wrappers)-1 {
			sep = ""
		}
		fmt.Printf("  { name := %q, body := [%s] }%s  -- %s\n", w.name, strings.Join(parts, ", "), sep, w.file)
	}
	fmt.Println("]")
	fmt.Println()
	nested := 0
	for _, w := range wrappers {
		nested += w.nestedLockOps
	}
	fmt.Println("/-- lock operations found inside a branch, loop, closure or goroutine (the straight-line reading needs 0) -/")
	fmt.Printf("def nestedLockOps : Nat := %d\n", nested)
	fmt.Println()
	var explicit []string
	for _, w := range wrappers {
		if w.explicitUnlocks > 0 {
			explicit = append(explicit, fmt.Sprintf("%q", w.name))
		}
	}
	fmt.Println("/-- wrappers that unlock by a plain statement instead of a deferred call (a panic in between leaks the lock) -/")
	fmt.Printf("def explicitUnlocks : List String := [%s]\n", strings.Join(explicit, ", "))
	fmt.Println()
	fmt.Println("/-- exported *Enforcer methods that *SyncedEnforcer does not wrap (promoted unsynchronised) -/")
	fmt.Println("def unwrapped : List String := [")
	for i, n := range unwrapped {
		sep := ","
		if i == len(unwrapped)-1 {
			sep = ""
		}
		fmt.Printf("  %q%s\n", n, sep)
	}
	fmt.Println("]")
	fmt.Println()
	fmt.Println("end Casbin.Facts")
}
