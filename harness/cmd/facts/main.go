// facts re-reads /repo with go/ast and prints lean/CasbinVerif/Generated/Facts.lean:
// the locking skeleton of every SyncedEnforcer method (lock operations on e.m and calls into the
// embedded enforcer, in source order; a deferred unlock is listed last), the exported Enforcer
// methods that have no synchronised wrapper, and the shape facts the Lean side relies on
// (bodies are straight-line: no lock operation inside a branch, loop or closure).
package main

import (
	"fmt"
	"go/ast"
	"go/parser"
	"go/token"
	"os"
	"path/filepath"
	"sort"
	"strconv"
	"strings"
)

type ev struct {
	kind string // acqR acqW rel call wrapperCall spawn
	name string
}

type wrapper struct {
	name     string
	file     string
	line     int
	body     []ev
	deferred []ev
	// lock operations found in a nested statement (branch, loop, closure): the straight-line
	// reading of the body would be wrong
	nestedLockOps int
	// unlocks that are plain statements rather than deferred calls: a panic between lock and
	// unlock would leave the lock held
	explicitUnlocks int
}

func main() {
	root := "/repo"
	if len(os.Args) > 1 {
		root = os.Args[1]
	}
	fset := token.NewFileSet()
	files, _ := filepath.Glob(filepath.Join(root, "*.go"))
	sort.Strings(files)
	var parsed []*ast.File
	var names []string
	for _, f := range files {
		if strings.HasSuffix(f, "_test.go") {
			continue
		}
		af, err := parser.ParseFile(fset, f, nil, 0)
		if err != nil {
			fmt.Fprintln(os.Stderr, "parse error:", err)
			os.Exit(1)
		}
		parsed = append(parsed, af)
		names = append(names, filepath.Base(f))
	}
	recvOf := func(fd *ast.FuncDecl) string {
		if fd.Recv == nil || len(fd.Recv.List) == 0 {
			return ""
		}
		t := fd.Recv.List[0].Type
		if st, ok := t.(*ast.StarExpr); ok {
			t = st.X
		}
		if id, ok := t.(*ast.Ident); ok {
			return id.Name
		}
		return ""
	}
	synced := map[string]bool{}
	enforcerExported := map[string]bool{}
	for _, af := range parsed {
		for _, d := range af.Decls {
			fd, ok := d.(*ast.FuncDecl)
			if !ok {
				continue
			}
			switch recvOf(fd) {
			case "SyncedEnforcer":
				synced[fd.Name.Name] = true
			case "Enforcer":
				if fd.Name.IsExported() {
					enforcerExported[fd.Name.Name] = true
				}
			}
		}
	}
	var wrappers []*wrapper
	for fi, af := range parsed {
		for _, d := range af.Decls {
			fd, ok := d.(*ast.FuncDecl)
			if !ok || recvOf(fd) != "SyncedEnforcer" || fd.Body == nil {
				continue
			}
			recv := ""
			if len(fd.Recv.List[0].Names) > 0 {
				recv = fd.Recv.List[0].Names[0].Name
			}
			w := &wrapper{name: fd.Name.Name, file: names[fi], line: fset.Position(fd.Pos()).Line}
			// classify a call expression
			classify := func(call *ast.CallExpr) (ev, bool) {
				sel, ok := call.Fun.(*ast.SelectorExpr)
				if !ok {
					return ev{}, false
				}
				// e.m.Lock() etc.
				if inner, ok := sel.X.(*ast.SelectorExpr); ok {
					if id, ok := inner.X.(*ast.Ident); ok && id.Name == recv {
						if inner.Sel.Name == "m" {
							switch sel.Sel.Name {
							case "Lock":
								return ev{"acqW", ""}, true
							case "RLock":
								return ev{"acqR", ""}, true
							case "Unlock", "RUnlock":
								return ev{"rel", ""}, true
							}
						}
						if inner.Sel.Name == "Enforcer" {
							return ev{"call", sel.Sel.Name}, true
						}
					}
				}
				if id, ok := sel.X.(*ast.Ident); ok && id.Name == recv {
					if synced[sel.Sel.Name] {
						return ev{"wrapperCall", sel.Sel.Name}, true
					}
					return ev{"call", sel.Sel.Name}, true
				}
				return ev{}, false
			}
			// a scope is a function body: the wrapper's own, or a function literal that is called on
			// the spot (`x := func() { … }()`), whose deferred calls run when that literal returns
			var walkStmts func(stmts []ast.Stmt, nested bool, deferred *[]ev)
			var walkExpr func(n ast.Node, nested bool, inGo bool)
			walkExpr = func(n ast.Node, nested bool, inGo bool) {
				ast.Inspect(n, func(x ast.Node) bool {
					switch t := x.(type) {
					case *ast.FuncLit:
						// a closure that is not called here: anything inside runs some other time
						walkExpr(t.Body, true, inGo)
						return false
					case *ast.CallExpr:
						// arguments first (evaluation order), then the call itself
						for _, a := range t.Args {
							walkExpr(a, nested, inGo)
						}
						if lit, ok := t.Fun.(*ast.FuncLit); ok && !inGo {
							var d []ev
							walkStmts(lit.Body.List, nested, &d)
							w.body = append(w.body, d...)
							return false
						}
						if e, ok := classify(t); ok {
							isLock := e.kind == "acqR" || e.kind == "acqW" || e.kind == "rel"
							switch {
							case inGo && (e.kind == "wrapperCall" || e.kind == "call"):
								w.body = append(w.body, ev{"spawn", e.name})
							case (nested || inGo) && isLock:
								w.nestedLockOps++
							default:
								if e.kind == "rel" {
									w.explicitUnlocks++
								}
								w.body = append(w.body, e)
							}
						}
						if sel, ok := t.Fun.(*ast.SelectorExpr); ok {
							walkExpr(sel.X, nested, inGo)
						} else {
							walkExpr(t.Fun, nested, inGo)
						}
						return false
					}
					return true
				})
			}
			walkStmts = func(stmts []ast.Stmt, nested bool, deferred *[]ev) {
				for _, st := range stmts {
					switch t := st.(type) {
					case *ast.DeferStmt:
						if e, ok := classify(t.Call); ok && !nested {
							*deferred = append([]ev{e}, *deferred...)
						} else if ok {
							w.nestedLockOps++
						} else {
							walkExpr(t.Call, true, false)
						}
					case *ast.GoStmt:
						walkExpr(t.Call, true, true)
					case *ast.IfStmt:
						if t.Init != nil {
							walkStmts([]ast.Stmt{t.Init}, nested, deferred)
						}
						walkExpr(t.Cond, nested, false)
						// calls into the enforcer inside a branch are kept (they are accesses made
						// while whatever is held is held); lock operations there are not straight-line
						walkStmts(t.Body.List, true, deferred)
						if t.Else != nil {
							walkStmts([]ast.Stmt{t.Else}, true, deferred)
						}
					case *ast.BlockStmt:
						walkStmts(t.List, nested, deferred)
					case *ast.ForStmt:
						walkStmts(t.Body.List, true, deferred)
					case *ast.RangeStmt:
						walkExpr(t.X, nested, false)
						walkStmts(t.Body.List, true, deferred)
					case *ast.SwitchStmt, *ast.TypeSwitchStmt, *ast.SelectStmt:
						walkExpr(t, true, false)
					default:
						walkExpr(st, nested, false)
					}
				}
			}
			walkStmts(fd.Body.List, false, &w.deferred)
			w.body = append(w.body, w.deferred...)
			wrappers = append(wrappers, w)
		}
	}
	sort.Slice(wrappers, func(i, j int) bool { return wrappers[i].name < wrappers[j].name })
	var unwrapped []string
	for n := range enforcerExported {
		if !synced[n] {
			unwrapped = append(unwrapped, n)
		}
	}
	sort.Strings(unwrapped)

	fmt.Println("import CasbinVerif.Model.Sync")
	fmt.Println("/- GENERATED by harness/cmd/facts from /repo on every run; do not edit. -/")
	fmt.Println("namespace Casbin.Facts")
	fmt.Println("open Casbin.Sync")
	fmt.Println()
	fmt.Println("/-- every method of *SyncedEnforcer: lock operations and calls into the embedded enforcer, in order -/")
	fmt.Println("def lockTable : List Wrapper := [")
	for i, w := range wrappers {
		var parts []string
		for _, e := range w.body {
			switch e.kind {
			case "acqR":
				parts = append(parts, ".acq .R")
			case "acqW":
				parts = append(parts, ".acq .W")
			case "rel":
				parts = append(parts, ".rel")
			case "call":
				parts = append(parts, fmt.Sprintf(".call %q", e.name))
			case "wrapperCall":
				parts = append(parts, fmt.Sprintf(".wrapperCall %q", e.name))
			case "spawn":
				parts = append(parts, fmt.Sprintf(".spawn %q", e.name))
			}
		}
		sep := ","
		if i == len(wrappers)-1 {
			sep = ""
		}
		fmt.Printf("  { name := %q, body := [%s] }%s  -- %s\n", w.name, strings.Join(parts, ", "), sep, w.file)
	}
	fmt.Println("]")
	fmt.Println()
	nested := 0
	for _, w := range wrappers {
		nested += w.nestedLockOps
	}
	fmt.Println("/-- lock operations found inside a branch, loop, closure or goroutine (the straight-line reading needs 0) -/")
	fmt.Printf("def nestedLockOps : Nat := %d\n", nested)
	fmt.Println()
	var explicit []string
	for _, w := range wrappers {
		if w.explicitUnlocks > 0 {
			explicit = append(explicit, fmt.Sprintf("%q", w.name))
		}
	}
	fmt.Println("/-- wrappers that unlock by a plain statement instead of a deferred call (a panic in between leaks the lock) -/")
	fmt.Printf("def explicitUnlocks : List String := [%s]\n", strings.Join(explicit, ", "))
	fmt.Println()
	fmt.Println("/-- exported *Enforcer methods that *SyncedEnforcer does not wrap (promoted unsynchronised) -/")
	fmt.Println("def unwrapped : List String := [")
	for i, n := range unwrapped {
		sep := ","
		if i == len(unwrapped)-1 {
			sep = ""
		}
		fmt.Printf("  %q%s\n", n, sep)
	}
	fmt.Println("]")
	fmt.Println()
	// ---- call skeletons of the management API (internal_api.go), the load/save paths
	// (enforcer.go) and the Self calls (enforcer_distributed.go): the calls on the adapter, the
	// model, the role links, the watcher and the dispatcher, and the persist / notify guards, in
	// source order
	fmt.Println("/-- per function: (guard, persist | notify) | (adapter, M) | (model, M) | (links, M) | (watcher, M) | (dispatcher, M) | (self, M), in source order -/")
	fmt.Println("def apiCalls : List (String × List (String × String)) := [")
	type sk struct {
		name  string
		calls []string
	}
	collect := func(files map[string]bool) []sk {
		var sks []sk
		for fi, af := range parsed {
			if !files[names[fi]] {
				continue
			}
			for _, d := range af.Decls {
				fd, ok := d.(*ast.FuncDecl)
				if !ok || fd.Body == nil || fd.Recv == nil {
					continue
				}
				rt := recvOf(fd)
				if rt != "Enforcer" && rt != "DistributedEnforcer" {
					continue
				}
				recv := ""
				if len(fd.Recv.List[0].Names) > 0 {
					recv = fd.Recv.List[0].Names[0].Name
				}
				var calls []string
				var mentions func(e ast.Expr, field string) bool
				mentions = func(e ast.Expr, field string) bool {
					found := false
					ast.Inspect(e, func(x ast.Node) bool {
						if sel, ok := x.(*ast.SelectorExpr); ok {
							if id, ok := sel.X.(*ast.Ident); ok && id.Name == recv && sel.Sel.Name == field {
								found = true
							}
						}
						return !found
					})
					return found
				}
				// local variables bound to the watcher / adapter by a type assertion (`if w, ok := e.watcher.(X); ok`)
				alias := map[string]string{}
				ast.Inspect(fd.Body, func(x ast.Node) bool {
					if as, ok := x.(*ast.AssignStmt); ok && len(as.Lhs) >= 1 && len(as.Rhs) == 1 {
						if _, isAssert := as.Rhs[0].(*ast.TypeAssertExpr); !isAssert {
							return true
						}
						for _, f := range []string{"watcher", "adapter", "dispatcher"} {
							if mentions(as.Rhs[0], f) {
								if id, ok := as.Lhs[0].(*ast.Ident); ok {
									alias[id.Name] = f
								}
							}
						}
					}
					return true
				})
				var visit func(n ast.Node)
				visit = func(n ast.Node) {
					ast.Inspect(n, func(x ast.Node) bool {
						call, ok := x.(*ast.CallExpr)
						if !ok {
							return true
						}
						for _, a := range call.Args {
							visit(a)
						}
						if sel, ok := call.Fun.(*ast.SelectorExpr); ok {
							visit(sel.X)
							m := sel.Sel.Name
							switch {
							case mentions(sel.X, "adapter"):
								calls = append(calls, "adapter:"+m)
							case mentions(sel.X, "watcher"):
								calls = append(calls, "watcher:"+m)
							case mentions(sel.X, "dispatcher"):
								calls = append(calls, "dispatcher:"+m)
							case mentions(sel.X, "model"):
								calls = append(calls, "model:"+m)
							default:
								if id, ok := sel.X.(*ast.Ident); ok {
									if f, ok := alias[id.Name]; ok {
										calls = append(calls, f+":"+m)
									} else if id.Name == recv {
										switch {
										case m == "shouldPersist":
											calls = append(calls, "guard:persist")
										case m == "shouldNotify":
											calls = append(calls, "guard:notify")
										case strings.HasPrefix(m, "BuildIncremental") || m == "BuildRoleLinks" || m == "rebuildRoleLinks" || m == "rebuildConditionalRoleLinks":
											calls = append(calls, "links:"+m)
										default:
											calls = append(calls, "self:"+m)
										}
									}
								} else if inner, ok := sel.X.(*ast.SelectorExpr); ok {
									// d.Enforcer.X / e.Enforcer.X
									if id, ok := inner.X.(*ast.Ident); ok && id.Name == recv {
										calls = append(calls, "self:"+m)
									}
								}
							}
						}
						return false
					})
				}
				visit(fd.Body)
				if len(calls) > 0 {
					sks = append(sks, sk{rt + "." + fd.Name.Name, calls})
				}
			}
		}
		sort.Slice(sks, func(i, j int) bool { return sks[i].name < sks[j].name })
		return sks
	}
	emitSks := func(sks []sk) {
		for i, k := range sks {
			q := make([]string, len(k.calls))
			for j, c := range k.calls {
				kv := strings.SplitN(c, ":", 2)
				q[j] = fmt.Sprintf("(%q, %q)", kv[0], kv[1])
			}
			sep := ","
			if i == len(sks)-1 {
				sep = ""
			}
			fmt.Printf("  (%q, [%s])%s\n", k.name, strings.Join(q, ", "), sep)
		}
		fmt.Println("]")
		fmt.Println()
	}
	emitSks(collect(map[string]bool{"internal_api.go": true, "enforcer.go": true, "enforcer_distributed.go": true}))
	// ---- the convenience layer (rbac_api.go, rbac_api_with_domains.go): the same skeletons; (self, M) is a
	// call of an exported management function on the receiver
	fmt.Println("/-- per function of rbac_api.go / rbac_api_with_domains.go: the calls it makes, in source order (same vocabulary as apiCalls) -/")
	fmt.Println("def rbacCalls : List (String × List (String × String)) := [")
	emitSks(collect(map[string]bool{"rbac_api.go": true, "rbac_api_with_domains.go": true}))
	// ---- writers of the role graph (C04): for the methods of Enforcer and DistributedEnforcer (all
	// non-test files of the package), the calls that change what a memoised g() would answer — a
	// mutating method of a role manager called on any value, an assignment into rmMap / condRmMap —
	// together with the dropping of the compiled matchers (a call of invalidateMatcherMap or an
	// assignment to matcherMap) and the calls on the receiver.  Listed: every writer, and the callers of
	// unexported writers that do not drop the compiled matchers themselves.
	rmMut := map[string]bool{"AddLink": true, "DeleteLink": true, "Clear": true, "AddMatchingFunc": true, "AddDomainMatchingFunc": true,
		"BuildRoleLinks": true, "BuildIncrementalRoleLinks": true, "BuildConditionalRoleLinks": true, "BuildIncrementalConditionalRoleLinks": true}
	unambiguous := map[string]bool{"AddLink": true, "DeleteLink": true, "AddMatchingFunc": true, "AddDomainMatchingFunc": true}
	var gks []sk
	var others []string
	for fi, af := range parsed {
		for _, d := range af.Decls {
			fd, ok := d.(*ast.FuncDecl)
			if !ok || fd.Body == nil {
				continue
			}
			rt := recvOf(fd)
			recv := ""
			if fd.Recv != nil && len(fd.Recv.List[0].Names) > 0 {
				recv = fd.Recv.List[0].Names[0].Name
			}
			isRecv := func(e ast.Expr) bool {
				id, ok := e.(*ast.Ident)
				return ok && recv != "" && id.Name == recv
			}
			var calls []string
			ast.Inspect(fd.Body, func(x ast.Node) bool {
				switch n := x.(type) {
				case *ast.AssignStmt:
					for _, l := range n.Lhs {
						target := l
						if ix, ok := l.(*ast.IndexExpr); ok {
							target = ix.X
						}
						if sel, ok := target.(*ast.SelectorExpr); ok {
							switch sel.Sel.Name {
							case "rmMap", "condRmMap":
								calls = append(calls, "assign:"+sel.Sel.Name)
							case "matcherMap":
								calls = append(calls, "inval:matcherMap")
							}
						}
					}
				case *ast.CallExpr:
					sel, ok := n.Fun.(*ast.SelectorExpr)
					if !ok {
						return true
					}
					m := sel.Sel.Name
					onRecv := isRecv(sel.X)
					if inner, ok := sel.X.(*ast.SelectorExpr); ok && isRecv(inner.X) && (inner.Sel.Name == "Enforcer" || inner.Sel.Name == "SyncedEnforcer") {
						onRecv = true
					}
					switch {
					case onRecv && m == "invalidateMatcherMap":
						calls = append(calls, "inval:call")
					case onRecv:
						calls = append(calls, "self:"+m)
					case rmMut[m]:
						calls = append(calls, "rm:"+m)
					}
				}
				return true
			})
			if rt == "Enforcer" || rt == "DistributedEnforcer" {
				if ast.IsExported(fd.Name.Name) {
					calls = append([]string{"exported:"}, calls...)
				}
				calls = append([]string{"name:" + fd.Name.Name}, calls...)
				gks = append(gks, sk{rt + "." + fd.Name.Name, calls})
				continue
			}
			// any other function of the package: it must not write the role graph at all ("Clear" is also a
			// method of the decision caches, so only the unambiguous names count here)
			for _, c := range calls {
				if strings.HasPrefix(c, "assign:") || (strings.HasPrefix(c, "rm:") && unambiguous[strings.TrimPrefix(c, "rm:")]) {
					others = append(others, names[fi]+":"+rt+"."+fd.Name.Name+":"+c)
				}
			}
		}
	}
	has := func(k sk, prefix string) bool {
		for _, c := range k.calls {
			if strings.HasPrefix(c, prefix) {
				return true
			}
		}
		return false
	}
	keep := map[string]bool{}
	for _, k := range gks {
		if has(k, "rm:") || has(k, "assign:") {
			keep[k.name] = true
		}
	}
	for changed := true; changed; {
		changed = false
		for _, w := range gks {
			if !keep[w.name] || has(w, "inval:") || has(w, "exported:") {
				continue
			}
			m := w.name[strings.Index(w.name, ".")+1:]
			for _, k := range gks {
				if !keep[k.name] && has(k, "self:"+m) {
					keep[k.name] = true
					changed = true
				}
			}
		}
	}
	var kept []sk
	for _, k := range gks {
		if keep[k.name] {
			kept = append(kept, k)
		}
	}
	sort.Slice(kept, func(i, j int) bool { return kept[i].name < kept[j].name })
	fmt.Println("/-- per method of Enforcer / DistributedEnforcer that writes the role graph (and the callers of unexported writers): (name, M) its own method name, (exported, _), (rm, M) a mutating role-manager method, (assign, rmMap | condRmMap), (inval, _) the compiled matchers are dropped, (self, M) a call on the receiver, in source order -/")
	fmt.Println("def graphCalls : List (String × List (String × String)) := [")
	for i, k := range kept {
		q := make([]string, len(k.calls))
		for j, c := range k.calls {
			kv := strings.SplitN(c, ":", 2)
			q[j] = fmt.Sprintf("(%q, %q)", kv[0], kv[1])
		}
		sep := ","
		if i == len(kept)-1 {
			sep = ""
		}
		fmt.Printf("  (%q, [%s])%s\n", k.name, strings.Join(q, ", "), sep)
	}
	fmt.Println("]")
	fmt.Println()
	fmt.Println("/-- functions other than methods of Enforcer / DistributedEnforcer that write the role graph (file:function:call) -/")
	fmt.Printf("def otherGraphWriters : List String := [")
	for i, o := range others {
		if i > 0 {
			fmt.Printf(", ")
		}
		fmt.Printf("%q", o)
	}
	fmt.Println("]")
	fmt.Println()
	// ---- the decision caches (C14): per method of CachedEnforcer / SyncedCachedEnforcer, in source order: calls
	// on the cache itself, calls on the receiver (helpers), calls on the embedded enforcer
	fmt.Println("/-- per method of CachedEnforcer / SyncedCachedEnforcer: (cache, Clear | Delete | Get | Set), (self, M) a call on the receiver, (under, M) a call on the embedded enforcer, in source order -/")
	fmt.Println("def cacheCalls : List (String × List (String × String)) := [")
	var cks []sk
	for _, af := range parsed {
		for _, d := range af.Decls {
			fd, ok := d.(*ast.FuncDecl)
			if !ok || fd.Body == nil || fd.Recv == nil {
				continue
			}
			rt := recvOf(fd)
			if rt != "CachedEnforcer" && rt != "SyncedCachedEnforcer" {
				continue
			}
			recv := ""
			if len(fd.Recv.List[0].Names) > 0 {
				recv = fd.Recv.List[0].Names[0].Name
			}
			var calls []string
			ast.Inspect(fd.Body, func(x ast.Node) bool {
				call, ok := x.(*ast.CallExpr)
				if !ok {
					return true
				}
				sel, ok := call.Fun.(*ast.SelectorExpr)
				if !ok {
					return true
				}
				m := sel.Sel.Name
				switch base := sel.X.(type) {
				case *ast.Ident:
					if base.Name == recv {
						calls = append(calls, "self:"+m)
					}
				case *ast.SelectorExpr:
					if id, ok := base.X.(*ast.Ident); ok && id.Name == recv {
						switch base.Sel.Name {
						case "cache":
							calls = append(calls, "cache:"+m)
						case "Enforcer", "SyncedEnforcer":
							calls = append(calls, "under:"+m)
						}
					}
				}
				return true
			})
			cks = append(cks, sk{rt + "." + fd.Name.Name, calls})
		}
	}
	sort.Slice(cks, func(i, j int) bool { return cks[i].name < cks[j].name })
	for i, k := range cks {
		q := make([]string, len(k.calls))
		for j, c := range k.calls {
			kv := strings.SplitN(c, ":", 2)
			q[j] = fmt.Sprintf("(%q, %q)", kv[0], kv[1])
		}
		sep := ","
		if i == len(cks)-1 {
			sep = ""
		}
		fmt.Printf("  (%q, [%s])%s\n", k.name, strings.Join(q, ", "), sep)
	}
	fmt.Println("]")
	fmt.Println()
	// ---- the filtered file adapter (C18): per method of FilteredAdapter (persist/file-adapter), in source order:
	// the values given to setFiltered, reads of the flag, calls on the receiver and on the embedded full adapter;
	// and every function of the package that writes the flag by other means
	fmt.Println("/-- per method of FilteredAdapter: (flag, true | false | ?) a setFiltered call with that argument, (self, M), (under, M) a call on the embedded Adapter, in source order -/")
	fmt.Println("def filteredCalls : List (String × List (String × String)) := [")
	faFiles, _ := filepath.Glob(filepath.Join(root, "persist", "file-adapter", "*.go"))
	sort.Strings(faFiles)
	var fks []sk
	var flagWriters []string
	for _, f := range faFiles {
		if strings.HasSuffix(f, "_test.go") {
			continue
		}
		af, err := parser.ParseFile(fset, f, nil, 0)
		if err != nil {
			fmt.Fprintln(os.Stderr, "parse error:", err)
			os.Exit(1)
		}
		for _, d := range af.Decls {
			fd, ok := d.(*ast.FuncDecl)
			if !ok || fd.Body == nil {
				continue
			}
			rt := recvOf(fd)
			recv := ""
			if fd.Recv != nil && len(fd.Recv.List[0].Names) > 0 {
				recv = fd.Recv.List[0].Names[0].Name
			}
			var calls []string
			writes := false
			ast.Inspect(fd.Body, func(x ast.Node) bool {
				switch n := x.(type) {
				case *ast.AssignStmt:
					for _, l := range n.Lhs {
						if sel, ok := l.(*ast.SelectorExpr); ok && sel.Sel.Name == "filtered" {
							writes = true
						}
					}
				case *ast.CallExpr:
					sel, ok := n.Fun.(*ast.SelectorExpr)
					if !ok {
						return true
					}
					m := sel.Sel.Name
					// atomic.StoreInt32(&x.filtered, …) and friends
					if id, ok := sel.X.(*ast.Ident); ok && id.Name == "atomic" && (strings.HasPrefix(m, "Store") || strings.HasPrefix(m, "Swap") || strings.HasPrefix(m, "CompareAndSwap") || strings.HasPrefix(m, "Add")) {
						for _, a := range n.Args {
							if u, ok := a.(*ast.UnaryExpr); ok {
								if s2, ok := u.X.(*ast.SelectorExpr); ok && s2.Sel.Name == "filtered" {
									writes = true
								}
							}
						}
					}
					switch base := sel.X.(type) {
					case *ast.Ident:
						if recv != "" && base.Name == recv || (fd.Recv == nil && m == "setFiltered") {
							if m == "setFiltered" {
								arg := "?"
								if len(n.Args) == 1 {
									if id, ok := n.Args[0].(*ast.Ident); ok && (id.Name == "true" || id.Name == "false") {
										arg = id.Name
									}
								}
								calls = append(calls, "flag:"+arg)
							} else {
								calls = append(calls, "self:"+m)
							}
						}
					case *ast.SelectorExpr:
						if id, ok := base.X.(*ast.Ident); ok && recv != "" && id.Name == recv && base.Sel.Name == "Adapter" {
							calls = append(calls, "under:"+m)
						}
					}
				}
				return true
			})
			name := fd.Name.Name
			if rt != "" {
				name = rt + "." + name
			}
			if writes {
				flagWriters = append(flagWriters, name)
			}
			if rt == "FilteredAdapter" || name == "NewFilteredAdapter" {
				fks = append(fks, sk{name, calls})
			}
		}
	}
	sort.Slice(fks, func(i, j int) bool { return fks[i].name < fks[j].name })
	for i, k := range fks {
		q := make([]string, len(k.calls))
		for j, c := range k.calls {
			kv := strings.SplitN(c, ":", 2)
			q[j] = fmt.Sprintf("(%q, %q)", kv[0], kv[1])
		}
		sep := ","
		if i == len(fks)-1 {
			sep = ""
		}
		fmt.Printf("  (%q, [%s])%s\n", k.name, strings.Join(q, ", "), sep)
	}
	fmt.Println("]")
	fmt.Println()
	sort.Strings(flagWriters)
	fmt.Println("/-- the functions of persist/file-adapter that write the `filtered` field (by assignment or an atomic store) -/")
	fmt.Printf("def filteredFlagWriters : List String := [")
	for i, w := range flagWriters {
		if i > 0 {
			fmt.Printf(", ")
		}
		fmt.Printf("%q", w)
	}
	fmt.Println("]")
	fmt.Println()
	// ---- the rule key (C06): every strings.Join in package model whose first argument is not a local error list —
	// these build the keys of PolicyMap — with its separator resolved (a literal, or the value of a package constant)
	mdFiles, _ := filepath.Glob(filepath.Join(root, "model", "*.go"))
	sort.Strings(mdFiles)
	consts := map[string]string{}
	type joinUse struct{ fn, sep string }
	var joins []joinUse
	var mdParsed []*ast.File
	for _, f := range mdFiles {
		if strings.HasSuffix(f, "_test.go") {
			continue
		}
		af, err := parser.ParseFile(fset, f, nil, 0)
		if err != nil {
			fmt.Fprintln(os.Stderr, "parse error:", err)
			os.Exit(1)
		}
		mdParsed = append(mdParsed, af)
		for _, d := range af.Decls {
			gd, ok := d.(*ast.GenDecl)
			if !ok || gd.Tok != token.CONST {
				continue
			}
			for _, sp := range gd.Specs {
				vs, ok := sp.(*ast.ValueSpec)
				if !ok {
					continue
				}
				for i, n := range vs.Names {
					if i < len(vs.Values) {
						if bl, ok := vs.Values[i].(*ast.BasicLit); ok && bl.Kind == token.STRING {
							if v, err := strconv.Unquote(bl.Value); err == nil {
								consts[n.Name] = v
							}
						}
					}
				}
			}
		}
	}
	for _, af := range mdParsed {
		for _, d := range af.Decls {
			fd, ok := d.(*ast.FuncDecl)
			if !ok || fd.Body == nil {
				continue
			}
			ast.Inspect(fd.Body, func(x ast.Node) bool {
				call, ok := x.(*ast.CallExpr)
				if !ok || len(call.Args) != 2 {
					return true
				}
				sel, ok := call.Fun.(*ast.SelectorExpr)
				if !ok || sel.Sel.Name != "Join" {
					return true
				}
				if id, ok := sel.X.(*ast.Ident); !ok || id.Name != "strings" {
					return true
				}
				if id, ok := call.Args[0].(*ast.Ident); ok && id.Name == "ms" {
					return true // the list of missing section names in an error message
				}
				sep := "?"
				switch a := call.Args[1].(type) {
				case *ast.BasicLit:
					if v, err := strconv.Unquote(a.Value); err == nil {
						sep = v
					}
				case *ast.Ident:
					if v, ok := consts[a.Name]; ok {
						sep = v
					} else {
						sep = "?" + a.Name
					}
				}
				joins = append(joins, joinUse{fd.Name.Name, sep})
				return true
			})
		}
	}
	fmt.Println("/-- every place in package model that joins a rule into its PolicyMap key: (function, separator) -/")
	fmt.Println("def ruleKeyJoins : List (String × String) := [")
	for i, j := range joins {
		sep := ","
		if i == len(joins)-1 {
			sep = ""
		}
		fmt.Printf("  (%q, %q)%s\n", j.fn, j.sep, sep)
	}
	fmt.Println("]")
	fmt.Println()
	fmt.Println("end Casbin.Facts")
}
