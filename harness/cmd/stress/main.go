// stress drives the real SyncedEnforcer from many goroutines; it is built with -race by bin/check.
// It is the search half of C12 (and supports C13): race reports, runtime crashes, escaped panics
// and a stall of all goroutines (deadlock) are what it looks for.  It proves nothing.
//
// usage: stress <tier> <seed> <outdir>      writes <outdir>/stress.json; race reports go to
// <outdir>/race.* (GORACE log_path is set by the caller).
package main

import (
	"encoding/json"
	"fmt"
	"math/rand"
	"os"
	"path/filepath"
	"runtime"
	"strconv"
	"strings"
	"sync"
	"sync/atomic"
	"time"

	"github.com/casbin/casbin/v2"
	fileadapter "github.com/casbin/casbin/v2/persist/file-adapter"
	"github.com/casbin/casbin/v2/util"

	"verif/harness/internal/mem"
	"verif/harness/internal/syncapi"
)

type world struct {
	name, modelText, policy string
	setup                   func(e *casbin.SyncedEnforcer)
	w                       syncapi.World
	// filteredAdapter: use the filtered file adapter (its flag is written inside LoadPolicy)
	filteredAdapter bool
	// freshPatterns: every enforcer gets key-match patterns never seen before in this process (the
	// compiled-pattern cache of the key-match built-ins is process-wide and filled on first use)
	freshPatterns bool
	// batches: per enforcer, the one request batch all its BatchEnforce callers share (JSON world)
	batches sync.Map
}

const twoTypesModel = `
[request_definition]
r = sub, obj, act
[policy_definition]
p = sub, obj, act
p2 = sub, act
[role_definition]
g = _, _
g2 = _, _
[policy_effect]
e = some(where (p.eft == allow))
[matchers]
m = g(r.sub, p.sub) && g2(r.obj, p.obj) && r.act == p.act
`

const keyMatch4Model = `
[request_definition]
r = sub, obj, act
[policy_definition]
p = sub, obj, act
[role_definition]
g = _, _
[policy_effect]
e = some(where (p.eft == allow))
[matchers]
m = r.sub == p.sub && keyMatch4(r.obj, p.obj) && r.act == p.act
`

const jsonModel = `
[request_definition]
r = sub, obj, act
[policy_definition]
p = sub, obj, act
[role_definition]
g = _, _
[policy_effect]
e = some(where (p.eft == allow))
[matchers]
m = g(r.sub.Name, p.sub) && r.obj == p.obj && r.act == p.act
`

const twoTypesPolicy = `p, alice, data1, read
p, admin, data_group, write
p2, bob, write
g, alice, admin
g, bob, admin
g2, data1, data_group
g2, data2, data_group
`

func readExample(name string) string {
	b, err := os.ReadFile(filepath.Join("/repo/examples", name))
	if err != nil {
		panic(err)
	}
	return string(b)
}

func worlds() []*world {
	base := syncapi.World{Users: []string{"alice", "bob", "carol"}, Roles: []string{"admin", "data1_admin", "data2_admin"},
		Domains: []string{"domain1", "domain2"}, Objs: []string{"data1", "data2"}, Acts: []string{"read", "write"},
		PTypes: []string{"p"}, GTypes: []string{"g"}, Arity: map[string]int{"p": 3, "g": 2}}
	rbac := base
	rbac.Matcher = "g(r.sub, p.sub) && r.obj == p.obj && r.act == p.act"
	dom := base
	dom.HasDomains = true
	dom.Arity = map[string]int{"p": 4, "g": 3}
	dom.Matcher = "g(r.sub, p.sub, r.dom) && r.dom == p.dom && r.obj == p.obj && r.act == p.act"
	two := base
	two.PTypes = []string{"p", "p2"}
	two.GTypes = []string{"g", "g2"}
	two.Arity = map[string]int{"p": 3, "p2": 2, "g": 2, "g2": 2}
	two.Matcher = "g(r.sub, p.sub) && g2(r.obj, p.obj) && r.act == p.act"
	pat := base
	pat.Objs = []string{"/book/1", "/pen/2", "book_group"}
	pat.Roles = []string{"book_admin", "pen_admin", "/book/:id"}
	pat.Matcher = "g(r.sub, p.sub) && g2(r.obj, p.obj) && regexMatch(r.act, p.act)"
	pat.GTypes = []string{"g", "g2"}
	pat.Arity = map[string]int{"p": 3, "g": 2, "g2": 2}
	km4 := base
	km4.Objs = []string{"/res/1/x/1", "/res/2/x/3", "/res/7/x/7"}
	km4.Matcher = "r.sub == p.sub && keyMatch4(r.obj, p.obj) && r.act == p.act"
	// requests whose subject is JSON text (EnableAcceptJsonRequest): every BatchEnforce passes the same batch
	js := base
	js.Matcher = "g(r.sub.Name, p.sub) && r.obj == p.obj && r.act == p.act"
	js.SubjectOf = func(user string) interface{} { return fmt.Sprintf("{\"Name\": %q}", user) }
	return []*world{
		{name: "json-requests", modelText: jsonModel, policy: readExample("rbac_with_hierarchy_policy.csv"), w: js,
			setup: func(e *casbin.SyncedEnforcer) { e.EnableAcceptJsonRequest(true) }},
		{name: "rbac-filtered-adapter", modelText: readExample("rbac_model.conf"), policy: readExample("rbac_with_hierarchy_policy.csv"), w: rbac, filteredAdapter: true},
		{name: "keymatch4-fresh-patterns", modelText: keyMatch4Model, policy: "", w: km4, freshPatterns: true},
		{name: "rbac", modelText: readExample("rbac_model.conf"), policy: readExample("rbac_with_hierarchy_policy.csv"), w: rbac},
		{name: "rbac-domains", modelText: readExample("rbac_with_domains_model.conf"), policy: readExample("rbac_with_domains_policy.csv"), w: dom},
		{name: "two-policy-types", modelText: twoTypesModel, policy: twoTypesPolicy, w: two},
		{name: "rbac-pattern", modelText: readExample("rbac_with_pattern_model.conf"), policy: readExample("rbac_with_pattern_policy.csv"), w: pat,
			setup: func(e *casbin.SyncedEnforcer) {
				e.AddNamedMatchingFunc("g2", "KeyMatch2", util.KeyMatch2)
				_ = e.BuildRoleLinks()
			}},
	}
}

var fileSeq int64

func (sw *world) fresh(dir string) *casbin.SyncedEnforcer {
	// built from files, as applications do: LoadModel and SavePolicy have something to work on
	mpath := filepath.Join(dir, sw.name+".conf")
	if _, err := os.Stat(mpath); err != nil {
		if err := os.WriteFile(mpath, []byte(sw.modelText), 0o644); err != nil {
			panic(err)
		}
	}
	seq := atomic.AddInt64(&fileSeq, 1)
	path := filepath.Join(dir, fmt.Sprintf("%s-%d.csv", sw.name, seq%64))
	policy := sw.policy
	if sw.freshPatterns {
		var sb strings.Builder
		for i, u := range sw.w.Users {
			if i == len(sw.w.Users)-1 {
				// one user's first rule carries a pattern that does not compile: Enforce for that user reports an
				// error every time; the calls of everybody else (and later calls of this user) must keep returning
				fmt.Fprintf(&sb, "p, %s, /res/{id}/(/%d, read\n", u, seq)
			}
			for k := 0; k < 4; k++ {
				fmt.Fprintf(&sb, "p, %s, /res/{id}/x%d_%d_%d/{id}, read\n", u, seq, i, k)
			}
			fmt.Fprintf(&sb, "p, %s, /res/{id}/x/{id}, read\n", u)
		}
		policy = sb.String()
	}
	if err := os.WriteFile(path, []byte(policy), 0o644); err != nil {
		panic(err)
	}
	var e *casbin.SyncedEnforcer
	var err error
	if sw.filteredAdapter {
		e, err = casbin.NewSyncedEnforcer(mpath, fileadapter.NewFilteredAdapter(path))
		if err == nil {
			err = e.LoadPolicy() // the filtered adapter starts "filtered": nothing is loaded at construction
		}
	} else {
		e, err = casbin.NewSyncedEnforcer(mpath, fileadapter.NewAdapter(path))
	}
	if err != nil {
		panic(err)
	}
	if sw.setup != nil {
		sw.setup(e)
	}
	if sw.w.SubjectOf != nil {
		// a batch of JSON-text requests never parsed before: the first callers all meet the strings
		sw.batches.Store(e, [][]interface{}{{sw.w.SubjectOf("alice"), "data1", "read"}, {sw.w.SubjectOf("bob"), "data2", "write"}, {sw.w.SubjectOf("carol"), "data1", "read"}})
	}
	return e
}

type report struct {
	Tier       string   `json:"tier"`
	Seed       int64    `json:"seed"`
	Calls      int64    `json:"calls"`
	Pairs      int64    `json:"first_call_pairs"`
	Rounds     int64    `json:"mixed_rounds"`
	Panics     []string `json:"panics"`
	Deadlock   string   `json:"deadlock"`
	Goroutines int      `json:"goroutines"`
	WallS      float64  `json:"wall_s"`
}

func main() {
	tier, seedS, out := os.Args[1], os.Args[2], os.Args[3]
	seed, _ := strconv.ParseInt(seedS, 10, 64)
	budget := 6 * time.Second
	if tier == "thorough" {
		budget = 150 * time.Second
	}
	if s := os.Getenv("STRESS_SECONDS"); s != "" {
		if n, err := strconv.Atoi(s); err == nil {
			budget = time.Duration(n) * time.Second
		}
	}
	runtime.GOMAXPROCS(16)
	methods, err := syncapi.Methods("/repo")
	if err != nil {
		panic(err)
	}
	dir, err := os.MkdirTemp("", "stress")
	if err != nil {
		panic(err)
	}
	defer os.RemoveAll(dir)
	rep := &report{Tier: tier, Seed: seed, Goroutines: 16}
	var progress int64
	var panicsMu sync.Mutex
	notePanic := func(s string) {
		panicsMu.Lock()
		if len(rep.Panics) < 20 {
			rep.Panics = append(rep.Panics, s)
		}
		panicsMu.Unlock()
	}
	flush := func() {
		b, _ := json.MarshalIndent(rep, "", " ")
		_ = os.WriteFile(filepath.Join(out, "stress.json"), b, 0o644)
	}
	// watchdog: all goroutines stalled = deadlock (no wrapper blocks on anything but the lock)
	var current atomic.Value
	current.Store("")
	go func() {
		last := int64(-1)
		stalled := 0
		for {
			time.Sleep(time.Second)
			now := atomic.LoadInt64(&progress)
			if now == last {
				stalled++
			} else {
				stalled = 0
			}
			last = now
			if stalled >= 8 {
				buf := make([]byte, 1<<16)
				n := runtime.Stack(buf, true)
				rep.Deadlock = fmt.Sprintf("no call completed for %d s during: %s\n%s", stalled, current.Load(), firstLines(string(buf[:n]), 60))
				rep.Calls = atomic.LoadInt64(&progress)
				flush()
				os.Exit(3)
			}
		}
	}()
	start := time.Now()
	ws := worlds()
	var readers, all []syncapi.Method
	for _, m := range methods {
		if m.Name == "GetLock" {
			continue
		}
		all = append(all, m)
	}
	// which methods are read-path: those the static table gives R (observed dynamically by corr C12);
	// here simply: names starting with Get/Has/Enforce/BatchEnforce
	for _, m := range all {
		// LoadPolicy's first phase runs under the read lock: it belongs to the read path too
		if strings.HasPrefix(m.Name, "Get") || strings.HasPrefix(m.Name, "Has") || strings.Contains(m.Name, "Enforce") || m.Name == "LoadPolicy" {
			readers = append(readers, m)
		}
	}
	call := func(e *casbin.SyncedEnforcer, sw *world, m syncapi.Method, rng *rand.Rand) {
		w := sw.w
		w.Watcher = mem.Plain{Watcher: &mem.Watcher{}}
		if b, ok := sw.batches.Load(e); ok {
			w.SharedBatch = b.([][]interface{})
		}
		// the results are read (printed) after the call has returned and released the lock: a listing that is a
		// view of the stored lists instead of a copy is then read while writers edit those lists
		outs := syncapi.CallOn(e, m, w.Args(m, rng))
		if len(outs) == 1 && strings.HasPrefix(outs[0], "panic: ") {
			notePanic(fmt.Sprintf("model=%s method=%s: %s", sw.name, m.Name, strings.TrimPrefix(outs[0], "panic: ")))
		}
		atomic.AddInt64(&progress, 1)
	}
	// phase 1: first-time pairs — two read-path methods as the very first calls on a fresh enforcer
	phase1 := budget / 3
	rng := rand.New(rand.NewSource(seed))
	pi := int(seed) % 7
	for time.Since(start) < phase1 {
		for _, sw := range ws {
			a := readers[pi%len(readers)]
			b := readers[(pi/len(readers)+pi*7)%len(readers)]
			if sw.w.SubjectOf != nil && pi%3 == 0 {
				// the shared batch is only interesting to BatchEnforce callers: pair them up
				for _, m := range readers {
					if m.Name == "BatchEnforce" {
						a, b = m, m
					}
				}
			}
			pi++
			e := sw.fresh(dir)
			current.Store(fmt.Sprintf("first-call pair %s || %s on %s", a.Name, b.Name, sw.name))
			var wg sync.WaitGroup
			s1, s2 := rng.Int63(), rng.Int63()
			gate := make(chan struct{})
			wg.Add(2)
			go func() { defer wg.Done(); <-gate; call(e, sw, a, rand.New(rand.NewSource(s1))) }()
			go func() { defer wg.Done(); <-gate; call(e, sw, b, rand.New(rand.NewSource(s2))) }()
			close(gate)
			wg.Wait()
			atomic.AddInt64(&rep.Pairs, 1)
		}
	}
	// phase 2: 16 goroutines, random mixes of every wrapper (70% read path), fresh enforcer per round
	for time.Since(start) < budget {
		for _, sw := range ws {
			if time.Since(start) >= budget {
				break
			}
			e := sw.fresh(dir)
			current.Store("mixed round on " + sw.name)
			var wg sync.WaitGroup
			for g := 0; g < 16; g++ {
				wg.Add(1)
				s := rng.Int63()
				go func(g int) {
					defer wg.Done()
					r := rand.New(rand.NewSource(s))
					for k := 0; k < 40; k++ {
						var m syncapi.Method
						if r.Intn(10) < 7 {
							m = readers[r.Intn(len(readers))]
						} else {
							m = all[r.Intn(len(all))]
						}
						call(e, sw, m, r)
					}
				}(g)
			}
			wg.Wait()
			e.StopAutoLoadPolicy()
			atomic.AddInt64(&rep.Rounds, 1)
		}
	}
	rep.Calls = atomic.LoadInt64(&progress)
	rep.WallS = time.Since(start).Seconds()
	flush()
}

func firstLines(s string, n int) string {
	lines := strings.Split(s, "\n")
	if len(lines) > n {
		lines = lines[:n]
	}
	return strings.Join(lines, "\n")
}
