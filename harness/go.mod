module verif/harness

go 1.23

require (
	github.com/casbin/casbin/v2 v2.0.0
	github.com/casbin/govaluate v1.3.0
)

require github.com/bmatcuk/doublestar/v4 v4.6.1 // indirect

replace github.com/casbin/casbin/v2 => /repo
