// Package mem provides the recording, set-semantics, in-memory adapter (every optional adapter
// interface, fault injection, call log) and the recording watchers used by the harness.
package mem

import (
	"errors"
	"fmt"
	"strings"
	"sync"

	"github.com/casbin/casbin/v2/model"
	"github.com/casbin/casbin/v2/persist"
)

// Line is one stored rule: ptype followed by the fields.
type Line struct {
	PType string
	Rule  []string
}

// Adapter is an ordered set of rules with a call log and single-shot fault injection.
type Adapter struct {
	Lines []Line
	Log   []string
	// Calls counts adapter calls since the last Arm; the FailAt-th call (1-based) fails once.
	Calls  int
	FailAt int
	// LoadFailAfter >= 0: LoadPolicy fails after delivering that many lines (single shot).
	LoadFailAfter int
	// AfterLoad, if set, runs once at the end of LoadPolicy (used to force schedules).
	AfterLoad func()
	// NoUpdateFiltered makes UpdateFilteredPolicies answer "not implemented".
	NoUpdateFiltered bool
	// OnLoad, if set, runs inside every LoadPolicy after the lines have been delivered (it stays
	// set; used by the concurrent-history harness to force overlaps).
	OnLoad func()
	// OnWrite, if set, runs inside every mutating adapter call (AddPolicy, RemovePolicy, …).
	OnWrite func(name string)
	// mu guards the bookkeeping (log, counters) and the line list: LoadPolicy can run under the
	// enforcer's read lock, concurrently with another LoadPolicy
	mu sync.Mutex
}

var ErrInjected = errors.New("injected adapter failure")

func New() *Adapter { return &Adapter{LoadFailAfter: -1} }

func (a *Adapter) Arm(k int) { a.Calls = 0; a.FailAt = k }

func (a *Adapter) call(name string, args ...string) error {
	a.mu.Lock()
	defer a.mu.Unlock()
	if a.OnWrite != nil && name != "LoadPolicy" && name != "SavePolicy" {
		f := a.OnWrite
		a.mu.Unlock()
		f(name)
		a.mu.Lock()
	}
	a.Calls++
	if len(args) == 0 {
		a.Log = append(a.Log, name)
	} else {
		a.Log = append(a.Log, name+"("+strings.Join(args, ";")+")")
	}
	if a.FailAt != 0 && a.Calls == a.FailAt {
		a.FailAt = 0
		// every other injected failure is worded like a real backend's, and happens to contain the words the
		// library uses for "this adapter does not offer the call" ("not implemented"): a failure all the same
		return nextInjected()
	}
	return nil
}

var injected int

// nextInjected rotates through failure texts as real backends word them; some happen to contain or end in
// words the library itself uses for special cases ("not implemented", "... cannot be empty"): failures all the same
func nextInjected() error {
	injected++
	switch injected % 4 {
	case 0:
		return ErrInjectedWordy
	case 2:
		return ErrInjectedEmptyColumn
	}
	return ErrInjected
}

// ErrInjectedEmptyColumn ends like the file adapter's "file path cannot be empty" without being that message.
var ErrInjectedEmptyColumn = errors.New("casbin_rule row 3: column v1 cannot be empty")

// ErrInjectedWordy is a failure whose text contains "not implemented" without being that message.
var ErrInjectedWordy = errors.New("backend: DELETE failed: cascading delete is not implemented for table casbin_rule")

func same(a, b []string) bool {
	if len(a) != len(b) {
		return false
	}
	for i := range a {
		if a[i] != b[i] {
			return false
		}
	}
	return true
}

func (a *Adapter) index(ptype string, rule []string) int {
	for i, l := range a.Lines {
		if l.PType == ptype && same(l.Rule, rule) {
			return i
		}
	}
	return -1
}

// RulesOf lists the stored rules of one policy type, in stored order.
func (a *Adapter) RulesOf(ptype string) [][]string {
	var out [][]string
	for _, l := range a.Lines {
		if l.PType == ptype {
			out = append(out, l.Rule)
		}
	}
	return out
}

func cp(r []string) []string { return append([]string(nil), r...) }

func (a *Adapter) LoadPolicy(m model.Model) error {
	if err := a.call("LoadPolicy"); err != nil {
		return err
	}
	a.mu.Lock()
	lines := append([]Line(nil), a.Lines...)
	a.mu.Unlock()
	for i, l := range lines {
		if a.LoadFailAfter >= 0 && i == a.LoadFailAfter {
			a.LoadFailAfter = -1
			return nextInjected()
		}
		if err := persist.LoadPolicyArray(append([]string{l.PType}, l.Rule...), m); err != nil {
			return err
		}
	}
	if a.OnLoad != nil {
		a.OnLoad()
	}
	if a.LoadFailAfter >= 0 && a.LoadFailAfter >= len(a.Lines) {
		a.LoadFailAfter = -1
		return nextInjected()
	}
	if a.AfterLoad != nil {
		f := a.AfterLoad
		a.AfterLoad = nil
		f()
	}
	return nil
}

func (a *Adapter) SavePolicy(m model.Model) error {
	if err := a.call("SavePolicy"); err != nil {
		return err
	}
	a.Lines = nil
	for _, sec := range []string{"p", "g"} {
		// deterministic order: p, p2, ... as casbin names them
		for i := 1; i < 10; i++ {
			key := sec
			if i > 1 {
				key = fmt.Sprintf("%s%d", sec, i)
			}
			ast, ok := m[sec][key]
			if !ok {
				continue
			}
			for _, r := range ast.Policy {
				a.Lines = append(a.Lines, Line{key, cp(r)})
			}
		}
	}
	return nil
}

func (a *Adapter) AddPolicy(sec, ptype string, rule []string) error {
	if err := a.call("AddPolicy", ptype, strings.Join(rule, ",")); err != nil {
		return err
	}
	if a.index(ptype, rule) < 0 {
		a.Lines = append(a.Lines, Line{ptype, cp(rule)})
	}
	return nil
}

func (a *Adapter) RemovePolicy(sec, ptype string, rule []string) error {
	if err := a.call("RemovePolicy", ptype, strings.Join(rule, ",")); err != nil {
		return err
	}
	if i := a.index(ptype, rule); i >= 0 {
		a.Lines = append(a.Lines[:i:i], a.Lines[i+1:]...)
	}
	return nil
}

func matches(rule []string, fieldIndex int, fieldValues []string) bool {
	for i, v := range fieldValues {
		if v == "" {
			continue
		}
		if fieldIndex+i >= len(rule) || rule[fieldIndex+i] != v {
			return false
		}
	}
	return true
}

func (a *Adapter) RemoveFilteredPolicy(sec, ptype string, fieldIndex int, fieldValues ...string) error {
	if err := a.call("RemoveFilteredPolicy", ptype, fmt.Sprint(fieldIndex), strings.Join(fieldValues, ",")); err != nil {
		return err
	}
	var keep []Line
	for _, l := range a.Lines {
		if l.PType == ptype && matches(l.Rule, fieldIndex, fieldValues) {
			continue
		}
		keep = append(keep, l)
	}
	a.Lines = keep
	return nil
}

func joinRules(rs [][]string) string {
	parts := make([]string, len(rs))
	for i, r := range rs {
		parts[i] = strings.Join(r, ",")
	}
	return strings.Join(parts, "|")
}

func (a *Adapter) AddPolicies(sec, ptype string, rules [][]string) error {
	if err := a.call("AddPolicies", ptype, joinRules(rules)); err != nil {
		return err
	}
	for _, r := range rules {
		if a.index(ptype, r) < 0 {
			a.Lines = append(a.Lines, Line{ptype, cp(r)})
		}
	}
	return nil
}

func (a *Adapter) RemovePolicies(sec, ptype string, rules [][]string) error {
	if err := a.call("RemovePolicies", ptype, joinRules(rules)); err != nil {
		return err
	}
	for _, r := range rules {
		if i := a.index(ptype, r); i >= 0 {
			a.Lines = append(a.Lines[:i:i], a.Lines[i+1:]...)
		}
	}
	return nil
}

func (a *Adapter) UpdatePolicy(sec, ptype string, oldRule, newRule []string) error {
	if err := a.call("UpdatePolicy", ptype, strings.Join(oldRule, ","), strings.Join(newRule, ",")); err != nil {
		return err
	}
	if i := a.index(ptype, oldRule); i >= 0 {
		a.Lines[i] = Line{ptype, cp(newRule)}
	}
	return nil
}

func (a *Adapter) UpdatePolicies(sec, ptype string, oldRules, newRules [][]string) error {
	if err := a.call("UpdatePolicies", ptype, joinRules(oldRules), joinRules(newRules)); err != nil {
		return err
	}
	for k := range oldRules {
		if i := a.index(ptype, oldRules[k]); i >= 0 && k < len(newRules) {
			a.Lines[i] = Line{ptype, cp(newRules[k])}
		}
	}
	return nil
}

func (a *Adapter) UpdateFilteredPolicies(sec, ptype string, newRules [][]string, fieldIndex int, fieldValues ...string) ([][]string, error) {
	if a.NoUpdateFiltered {
		return nil, errors.New("not implemented")
	}
	if err := a.call("UpdateFilteredPolicies", ptype, joinRules(newRules), fmt.Sprint(fieldIndex), strings.Join(fieldValues, ",")); err != nil {
		return nil, err
	}
	var old [][]string
	var keep []Line
	for _, l := range a.Lines {
		if l.PType == ptype && matches(l.Rule, fieldIndex, fieldValues) {
			old = append(old, l.Rule)
			continue
		}
		keep = append(keep, l)
	}
	a.Lines = keep
	for _, r := range newRules {
		if a.index(ptype, r) < 0 {
			a.Lines = append(a.Lines, Line{ptype, cp(r)})
		}
	}
	return old, nil
}

// Basic wraps an Adapter but exposes only the mandatory persist.Adapter interface.
type Basic struct{ A *Adapter }

func (b Basic) LoadPolicy(m model.Model) error { return b.A.LoadPolicy(m) }
func (b Basic) SavePolicy(m model.Model) error { return b.A.SavePolicy(m) }
func (b Basic) AddPolicy(sec, ptype string, rule []string) error {
	return b.A.AddPolicy(sec, ptype, rule)
}
func (b Basic) RemovePolicy(sec, ptype string, rule []string) error {
	return b.A.RemovePolicy(sec, ptype, rule)
}
func (b Basic) RemoveFilteredPolicy(sec, ptype string, fieldIndex int, fieldValues ...string) error {
	return b.A.RemoveFilteredPolicy(sec, ptype, fieldIndex, fieldValues...)
}
