package mem

import (
	"fmt"
	"strings"

	"github.com/casbin/casbin/v2/model"
)

// Watcher records notifications.  Kind selects which optional interfaces the value passed to
// SetWatcher implements (see Wrap).
type Watcher struct {
	Log []string
	// OnNotify runs at every notification (the synchronous bus of C15).
	OnNotify func(entry string)
	// Fail makes every notification report an error (after it has been recorded): the management
	// call then returns (true, err) although the change has been applied
	Fail     bool
	callback func(string)
}

func (w *Watcher) note(entry string) error {
	w.Log = append(w.Log, entry)
	if w.OnNotify != nil {
		w.OnNotify(entry)
	}
	if w.Fail {
		return fmt.Errorf("injected watcher failure")
	}
	return nil
}

func (w *Watcher) SetUpdateCallback(f func(string)) error { w.callback = f; return nil }
func (w *Watcher) Callback() func(string)               { return w.callback }
func (w *Watcher) Update() error                          { return w.note("Update") }
func (w *Watcher) Close()                                 {}

// Plain implements persist.Watcher only.
type Plain struct{ *Watcher }

// Ex implements persist.WatcherEx.
type Ex struct{ *Watcher }

// Upd implements persist.UpdatableWatcher (and Watcher).
type Upd struct{ *Watcher }

// ExUpd implements both.
type ExUpd struct{ *Watcher }

func joinR(rs [][]string) string {
	parts := make([]string, len(rs))
	for i, r := range rs {
		parts[i] = strings.Join(r, ",")
	}
	return strings.Join(parts, "|")
}

func (w *Watcher) exAdd(sec, ptype string, params ...string) error {
	return w.note(fmt.Sprintf("AddPolicy(%s;%s;%s)", sec, ptype, strings.Join(params, ",")))
}
func (w *Watcher) exRemove(sec, ptype string, params ...string) error {
	return w.note(fmt.Sprintf("RemovePolicy(%s;%s;%s)", sec, ptype, strings.Join(params, ",")))
}
func (w *Watcher) exRemoveFiltered(sec, ptype string, fieldIndex int, fieldValues ...string) error {
	return w.note(fmt.Sprintf("RemoveFilteredPolicy(%s;%s;%d;%s)", sec, ptype, fieldIndex, strings.Join(fieldValues, ",")))
}
func (w *Watcher) exSave(m model.Model) error { return w.note("SavePolicy") }
func (w *Watcher) exAdds(sec, ptype string, rules ...[]string) error {
	return w.note(fmt.Sprintf("AddPolicies(%s;%s;%s)", sec, ptype, joinR(rules)))
}
func (w *Watcher) exRemoves(sec, ptype string, rules ...[]string) error {
	return w.note(fmt.Sprintf("RemovePolicies(%s;%s;%s)", sec, ptype, joinR(rules)))
}
func (w *Watcher) updOne(sec, ptype string, oldRule, newRule []string) error {
	return w.note(fmt.Sprintf("UpdatePolicy(%s;%s;%s;%s)", sec, ptype, strings.Join(oldRule, ","), strings.Join(newRule, ",")))
}
func (w *Watcher) updMany(sec, ptype string, oldRules, newRules [][]string) error {
	return w.note(fmt.Sprintf("UpdatePolicies(%s;%s;%s;%s)", sec, ptype, joinR(oldRules), joinR(newRules)))
}

func (w Ex) UpdateForAddPolicy(sec, ptype string, params ...string) error { return w.exAdd(sec, ptype, params...) }
func (w Ex) UpdateForRemovePolicy(sec, ptype string, params ...string) error {
	return w.exRemove(sec, ptype, params...)
}
func (w Ex) UpdateForRemoveFilteredPolicy(sec, ptype string, fieldIndex int, fieldValues ...string) error {
	return w.exRemoveFiltered(sec, ptype, fieldIndex, fieldValues...)
}
func (w Ex) UpdateForSavePolicy(m model.Model) error { return w.exSave(m) }
func (w Ex) UpdateForAddPolicies(sec string, ptype string, rules ...[]string) error {
	return w.exAdds(sec, ptype, rules...)
}
func (w Ex) UpdateForRemovePolicies(sec string, ptype string, rules ...[]string) error {
	return w.exRemoves(sec, ptype, rules...)
}

func (w Upd) UpdateForUpdatePolicy(sec string, ptype string, oldRule, newRule []string) error {
	return w.updOne(sec, ptype, oldRule, newRule)
}
func (w Upd) UpdateForUpdatePolicies(sec string, ptype string, oldRules, newRules [][]string) error {
	return w.updMany(sec, ptype, oldRules, newRules)
}

func (w ExUpd) UpdateForAddPolicy(sec, ptype string, params ...string) error {
	return w.exAdd(sec, ptype, params...)
}
func (w ExUpd) UpdateForRemovePolicy(sec, ptype string, params ...string) error {
	return w.exRemove(sec, ptype, params...)
}
func (w ExUpd) UpdateForRemoveFilteredPolicy(sec, ptype string, fieldIndex int, fieldValues ...string) error {
	return w.exRemoveFiltered(sec, ptype, fieldIndex, fieldValues...)
}
func (w ExUpd) UpdateForSavePolicy(m model.Model) error { return w.exSave(m) }
func (w ExUpd) UpdateForAddPolicies(sec string, ptype string, rules ...[]string) error {
	return w.exAdds(sec, ptype, rules...)
}
func (w ExUpd) UpdateForRemovePolicies(sec string, ptype string, rules ...[]string) error {
	return w.exRemoves(sec, ptype, rules...)
}
func (w ExUpd) UpdateForUpdatePolicy(sec string, ptype string, oldRule, newRule []string) error {
	return w.updOne(sec, ptype, oldRule, newRule)
}
func (w ExUpd) UpdateForUpdatePolicies(sec string, ptype string, oldRules, newRules [][]string) error {
	return w.updMany(sec, ptype, oldRules, newRules)
}
