// Package proto implements the line protocol shared with the Lean driver
// (lean/CasbinVerif/Driver/Proto.lean): percent-encoded tokens, rule lists, the case writer.
package proto

import (
	"bufio"
	"fmt"
	"os"
	"strings"
)

func safe(b byte) bool {
	return (b >= 'a' && b <= 'z') || (b >= 'A' && b <= 'Z') || (b >= '0' && b <= '9') ||
		b == '_' || b == '.' || b == '/' || b == ':' || b == '*' || b == '-'
}

// Enc percent-encodes one string as one token ("~" is the empty string).
func Enc(s string) string {
	if s == "" {
		return "~"
	}
	var sb strings.Builder
	for i := 0; i < len(s); i++ {
		b := s[i]
		if safe(b) {
			sb.WriteByte(b)
		} else {
			fmt.Fprintf(&sb, "%%%02X", b)
		}
	}
	return sb.String()
}

// EncRule encodes the fields of a rule separated by blanks.
func EncRule(r []string) string {
	parts := make([]string, len(r))
	for i, f := range r {
		parts[i] = Enc(f)
	}
	return strings.Join(parts, " ")
}

// EncRules encodes a rule list ("-" is the empty list).
func EncRules(rs [][]string) string {
	if len(rs) == 0 {
		return "-"
	}
	parts := make([]string, len(rs))
	for i, r := range rs {
		parts[i] = EncRule(r)
	}
	return strings.Join(parts, " | ")
}

func Bool(b bool) string {
	if b {
		return "true"
	}
	return "false"
}

// Writer collects the case file: one "<op line>\t<implementation observation>" per line.
type Writer struct {
	f     *os.File
	w     *bufio.Writer
	Lines int
}

func NewWriter(path string) (*Writer, error) {
	f, err := os.Create(path)
	if err != nil {
		return nil, err
	}
	return &Writer{f: f, w: bufio.NewWriterSize(f, 1<<20)}, nil
}

// Op writes one operation and what the implementation did.
func (w *Writer) Op(op string, obs string) {
	w.w.WriteString(op)
	w.w.WriteByte('\t')
	w.w.WriteString(obs)
	w.w.WriteByte('\n')
	w.Lines++
}

func (w *Writer) Close() error {
	if err := w.w.Flush(); err != nil {
		return err
	}
	return w.f.Close()
}
