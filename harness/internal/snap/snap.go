// Package snap takes a canonical deep snapshot of the *plain* memory reachable from a value:
// every field (exported or not), slice, map and pointer target, but nothing inside the
// synchronised containers (sync.Map, sync.Mutex, sync.RWMutex, sync.Once, atomic values, channels).
// Two snapshots taken around a call differ iff the call wrote a plain location to a different
// value — the deterministic half of "read paths do not write" (the race detector is the other).
package snap

import (
	"fmt"
	"reflect"
	"sort"
	"strings"
	"unsafe"
)

type walker struct {
	sb   strings.Builder
	seen map[uintptr]int
	path []string
}

// Snapshot returns the canonical text; Sections returns it split by top-level struct field.
func Snapshot(root interface{}) string {
	w := &walker{seen: map[uintptr]int{}}
	w.walk(reflect.ValueOf(root), 0)
	return w.sb.String()
}

func opaque(t reflect.Type) bool {
	p := t.PkgPath()
	if p == "sync" || p == "sync/atomic" {
		return true
	}
	return false
}

func clean(v reflect.Value) reflect.Value {
	if v.CanInterface() || !v.CanAddr() {
		return v
	}
	return reflect.NewAt(v.Type(), unsafe.Pointer(v.UnsafeAddr())).Elem()
}

func (w *walker) walk(v reflect.Value, depth int) {
	if !v.IsValid() {
		w.sb.WriteString("<invalid>")
		return
	}
	if depth > 60 {
		w.sb.WriteString("<deep>")
		return
	}
	t := v.Type()
	if opaque(t) {
		w.sb.WriteString("<" + t.String() + ">")
		return
	}
	switch v.Kind() {
	case reflect.Ptr:
		if v.IsNil() {
			w.sb.WriteString("nil")
			return
		}
		p := v.Pointer()
		if id, ok := w.seen[p]; ok {
			fmt.Fprintf(&w.sb, "@%d", id)
			return
		}
		w.seen[p] = len(w.seen)
		fmt.Fprintf(&w.sb, "&%d", w.seen[p])
		w.walk(v.Elem(), depth+1)
	case reflect.Interface:
		if v.IsNil() {
			w.sb.WriteString("nil")
			return
		}
		e := v.Elem()
		w.sb.WriteString("(" + e.Type().String() + ")")
		if e.Kind() != reflect.Ptr && e.Kind() != reflect.Map && e.Kind() != reflect.Slice && e.Kind() != reflect.Func && e.Kind() != reflect.Chan {
			// a copy of a non-reference value: not addressable, walk what can be walked
			w.walkUnaddr(e, depth+1)
			return
		}
		w.walk(e, depth+1)
	case reflect.Struct:
		w.sb.WriteString(t.String() + "{")
		for i := 0; i < v.NumField(); i++ {
			f := v.Field(i)
			w.sb.WriteString(t.Field(i).Name + ":")
			if f.CanAddr() {
				w.walk(clean(f), depth+1)
			} else {
				w.walkUnaddr(f, depth+1)
			}
			w.sb.WriteString(";")
		}
		w.sb.WriteString("}")
	case reflect.Map:
		if v.IsNil() {
			w.sb.WriteString("nilmap")
			return
		}
		p := v.Pointer()
		if id, ok := w.seen[p]; ok {
			fmt.Fprintf(&w.sb, "@%d", id)
			return
		}
		w.seen[p] = len(w.seen)
		keys := v.MapKeys()
		type kv struct {
			k string
			v reflect.Value
		}
		var kvs []kv
		for _, k := range keys {
			kw := &walker{seen: map[uintptr]int{}}
			kw.walkUnaddr(k, 0)
			kvs = append(kvs, kv{kw.sb.String(), v.MapIndex(k)})
		}
		sort.Slice(kvs, func(i, j int) bool { return kvs[i].k < kvs[j].k })
		fmt.Fprintf(&w.sb, "map[%d]{", len(kvs))
		for _, e := range kvs {
			w.sb.WriteString(e.k + "=>")
			w.walkUnaddr(e.v, depth+1)
			w.sb.WriteString(",")
		}
		w.sb.WriteString("}")
	case reflect.Slice:
		if v.IsNil() {
			w.sb.WriteString("nilslice")
			return
		}
		fmt.Fprintf(&w.sb, "[%d:", v.Len())
		for i := 0; i < v.Len(); i++ {
			w.walk(clean(v.Index(i)), depth+1)
			w.sb.WriteString(",")
		}
		w.sb.WriteString("]")
	case reflect.Array:
		w.sb.WriteString("[")
		for i := 0; i < v.Len(); i++ {
			e := v.Index(i)
			if e.CanAddr() {
				w.walk(clean(e), depth+1)
			} else {
				w.walkUnaddr(e, depth+1)
			}
			w.sb.WriteString(",")
		}
		w.sb.WriteString("]")
	case reflect.Func:
		if v.IsNil() {
			w.sb.WriteString("nilfunc")
		} else {
			fmt.Fprintf(&w.sb, "func@%x", v.Pointer())
		}
	case reflect.Chan, reflect.UnsafePointer:
		w.sb.WriteString("<" + t.String() + ">")
	case reflect.String:
		fmt.Fprintf(&w.sb, "%q", v.String())
	case reflect.Bool:
		fmt.Fprintf(&w.sb, "%v", v.Bool())
	case reflect.Int, reflect.Int8, reflect.Int16, reflect.Int32, reflect.Int64:
		fmt.Fprintf(&w.sb, "%d", v.Int())
	case reflect.Uint, reflect.Uint8, reflect.Uint16, reflect.Uint32, reflect.Uint64, reflect.Uintptr:
		fmt.Fprintf(&w.sb, "%d", v.Uint())
	case reflect.Float32, reflect.Float64:
		fmt.Fprintf(&w.sb, "%v", v.Float())
	default:
		w.sb.WriteString("<" + v.Kind().String() + ">")
	}
}

// walkUnaddr handles values that are not addressable (map elements, interface contents): they
// are copied into fresh addressable storage first so that unexported fields can be read.
func (w *walker) walkUnaddr(v reflect.Value, depth int) {
	if !v.IsValid() {
		w.sb.WriteString("<invalid>")
		return
	}
	switch v.Kind() {
	case reflect.Ptr, reflect.Map, reflect.Slice, reflect.Func, reflect.Chan, reflect.Interface, reflect.String, reflect.Bool,
		reflect.Int, reflect.Int8, reflect.Int16, reflect.Int32, reflect.Int64,
		reflect.Uint, reflect.Uint8, reflect.Uint16, reflect.Uint32, reflect.Uint64, reflect.Uintptr, reflect.Float32, reflect.Float64:
		if v.CanInterface() {
			w.walk(v, depth)
			return
		}
	}
	if opaque(v.Type()) {
		w.sb.WriteString("<" + v.Type().String() + ">")
		return
	}
	if !v.CanInterface() {
		// read-only flag set (reached through an unexported field of an unaddressable struct):
		// print what reflection lets us see
		switch v.Kind() {
		case reflect.String:
			fmt.Fprintf(&w.sb, "%q", v.String())
		case reflect.Bool:
			fmt.Fprintf(&w.sb, "%v", v.Bool())
		case reflect.Int, reflect.Int8, reflect.Int16, reflect.Int32, reflect.Int64:
			fmt.Fprintf(&w.sb, "%d", v.Int())
		case reflect.Ptr, reflect.Map, reflect.Slice, reflect.Func, reflect.Chan, reflect.UnsafePointer:
			if v.IsNil() {
				w.sb.WriteString("nil")
			} else if v.Kind() == reflect.Ptr {
				// follow the pointer: the target is addressable
				p := v.Pointer()
				if id, ok := w.seen[p]; ok {
					fmt.Fprintf(&w.sb, "@%d", id)
				} else {
					w.seen[p] = len(w.seen)
					fmt.Fprintf(&w.sb, "&%d", w.seen[p])
					w.walk(reflect.NewAt(v.Type().Elem(), unsafe.Pointer(p)).Elem(), depth+1)
				}
			} else {
				fmt.Fprintf(&w.sb, "%s@%x#%d", v.Kind(), v.Pointer(), lenOf(v))
			}
		case reflect.Struct:
			w.sb.WriteString(v.Type().String() + "{")
			for i := 0; i < v.NumField(); i++ {
				w.sb.WriteString(v.Type().Field(i).Name + ":")
				w.walkUnaddr(v.Field(i), depth+1)
				w.sb.WriteString(";")
			}
			w.sb.WriteString("}")
		case reflect.Interface:
			if v.IsNil() {
				w.sb.WriteString("nil")
			} else {
				w.walkUnaddr(v.Elem(), depth+1)
			}
		default:
			w.sb.WriteString("<" + v.Kind().String() + ">")
		}
		return
	}
	c := reflect.New(v.Type()).Elem()
	c.Set(v)
	w.walk(c, depth)
}

func lenOf(v reflect.Value) int {
	switch v.Kind() {
	case reflect.Map, reflect.Slice, reflect.Chan:
		return v.Len()
	}
	return 0
}

// Diff reports the first position where two snapshots differ, with context.
func Diff(a, b string) string {
	n := len(a)
	if len(b) < n {
		n = len(b)
	}
	i := 0
	for i < n && a[i] == b[i] {
		i++
	}
	lo := i - 160
	if lo < 0 {
		lo = 0
	}
	hiA, hiB := i+80, i+80
	if hiA > len(a) {
		hiA = len(a)
	}
	if hiB > len(b) {
		hiB = len(b)
	}
	return fmt.Sprintf("…%s  ⟦before: %s⟧ ⟦after: %s⟧", a[lo:i], a[i:hiA], b[i:hiB])
}
