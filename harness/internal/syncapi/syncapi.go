// Package syncapi calls any method of *casbin.SyncedEnforcer by name with plausible arguments:
// the method set and the parameter names are read from /repo's source with go/ast (so new
// wrappers are picked up without touching the harness), the arguments are synthesised from the
// parameter names and types.
package syncapi

import (
	"fmt"
	"go/ast"
	"go/parser"
	"go/token"
	"math/rand"
	"path/filepath"
	"reflect"
	"sort"
	"strings"
	"time"

	"github.com/casbin/casbin/v2"
	"github.com/casbin/casbin/v2/persist"
	"github.com/casbin/govaluate"
)

type Param struct {
	Name, Type string
}

type Method struct {
	Name   string
	Params []Param
}

// Methods lists every method declared on *SyncedEnforcer in root (sorted by name).
func Methods(root string) ([]Method, error) {
	fset := token.NewFileSet()
	files, _ := filepath.Glob(filepath.Join(root, "*.go"))
	var out []Method
	for _, f := range files {
		if strings.HasSuffix(f, "_test.go") {
			continue
		}
		af, err := parser.ParseFile(fset, f, nil, 0)
		if err != nil {
			return nil, err
		}
		for _, d := range af.Decls {
			fd, ok := d.(*ast.FuncDecl)
			if !ok || fd.Recv == nil || len(fd.Recv.List) == 0 {
				continue
			}
			t := fd.Recv.List[0].Type
			if st, ok := t.(*ast.StarExpr); ok {
				t = st.X
			}
			if id, ok := t.(*ast.Ident); !ok || id.Name != "SyncedEnforcer" || !fd.Name.IsExported() {
				continue
			}
			m := Method{Name: fd.Name.Name}
			for _, fl := range fd.Type.Params.List {
				ts := typeString(fl.Type)
				if len(fl.Names) == 0 {
					m.Params = append(m.Params, Param{"", ts})
				}
				for _, n := range fl.Names {
					m.Params = append(m.Params, Param{n.Name, ts})
				}
			}
			out = append(out, m)
		}
	}
	sort.Slice(out, func(i, j int) bool { return out[i].Name < out[j].Name })
	return out, nil
}

func typeString(e ast.Expr) string {
	switch t := e.(type) {
	case *ast.Ident:
		return t.Name
	case *ast.Ellipsis:
		return "..." + typeString(t.Elt)
	case *ast.ArrayType:
		return "[]" + typeString(t.Elt)
	case *ast.SelectorExpr:
		return typeString(t.X) + "." + t.Sel.Name
	case *ast.InterfaceType:
		return "interface{}"
	case *ast.StarExpr:
		return "*" + typeString(t.X)
	}
	return fmt.Sprintf("%T", e)
}

// World is the value pool arguments are drawn from.
type World struct {
	Users, Roles, Domains, Objs, Acts []string
	HasDomains                       bool
	PTypes, GTypes                   []string
	Arity                            map[string]int // tokens per policy / role definition
	Matcher                          string
	Watcher                          persist.Watcher
	// SharedBatch, when set, is the one request batch every BatchEnforce call of this world passes: callers
	// that share a request value between goroutines (a constant, a cached batch) are ordinary callers
	SharedBatch [][]interface{}
	// SubjectOf turns a user name into the request's subject value (JSON text for the JSON world)
	SubjectOf func(user string) interface{}
}

func pickS(rng *rand.Rand, xs []string) string { return xs[rng.Intn(len(xs))] }

func (w *World) Rule(rng *rand.Rand, ptype string) []string { return w.rule(rng, ptype) }

func (w *World) rule(rng *rand.Rand, ptype string) []string {
	n := w.Arity[ptype]
	if n == 0 {
		n = 3
	}
	var r []string
	if strings.HasPrefix(ptype, "g") {
		r = []string{pickS(rng, w.Users), pickS(rng, w.Roles)}
		if rng.Intn(3) == 0 {
			r[0] = pickS(rng, w.Roles)
		}
		for len(r) < n {
			r = append(r, pickS(rng, w.Domains))
		}
		return r[:n]
	}
	r = []string{pickS(rng, append(append([]string(nil), w.Users...), w.Roles...))}
	if w.HasDomains {
		r = append(r, pickS(rng, w.Domains))
	}
	r = append(r, pickS(rng, w.Objs), pickS(rng, w.Acts))
	for len(r) < n {
		r = append(r, "allow")
	}
	return r[:n]
}

func (w *World) request(rng *rand.Rand) []interface{} {
	req := []interface{}{pickS(rng, w.Users)}
	if w.SubjectOf != nil {
		req[0] = w.SubjectOf(req[0].(string))
	}
	if w.HasDomains {
		req = append(req, pickS(rng, w.Domains))
	}
	return append(req, pickS(rng, w.Objs), pickS(rng, w.Acts))
}

// Args synthesises arguments for m.
func (w *World) Args(m Method, rng *rand.Rand) []reflect.Value {
	grouping := strings.Contains(m.Name, "Grouping") || strings.Contains(m.Name, "Role") && !strings.Contains(m.Name, "Permission")
	sec := "p"
	if grouping {
		sec = "g"
	}
	// methods without a ptype parameter work on the default definitions
	named := false
	for _, p := range m.Params {
		if p.Name == "ptype" {
			named = true
		}
	}
	ptype := "p"
	if grouping {
		ptype = "g"
	}
	if named {
		ptype = pickS(rng, w.PTypes)
		if grouping {
			ptype = pickS(rng, w.GTypes)
		}
	}
	var args []reflect.Value
	add := func(v interface{}) { args = append(args, reflect.ValueOf(v)) }
	for _, p := range m.Params {
		switch p.Type {
		case "string":
			switch p.Name {
			case "ptype":
				add(ptype)
			case "gtype":
				add(pickS(rng, w.GTypes))
			case "sec":
				add(sec)
			case "matcher":
				add(w.Matcher)
			case "role":
				add(pickS(rng, w.Roles))
			case "domain":
				add(pickS(rng, w.Domains))
			case "name":
				if m.Name == "AddFunction" {
					add("stressFn")
				} else if strings.Contains(m.Name, "UsersForRole") {
					add(pickS(rng, w.Roles))
				} else {
					add(pickS(rng, w.Users))
				}
			default: // user …
				add(pickS(rng, w.Users))
			}
		case "...string":
			switch p.Name {
			case "domain":
				if w.HasDomains {
					add(pickS(rng, w.Domains))
				}
			case "permission":
				if w.HasDomains {
					add(pickS(rng, w.Domains))
				}
				add(pickS(rng, w.Objs))
				add(pickS(rng, w.Acts))
			default: // fieldValues
				if strings.HasPrefix(m.Name, "GetFiltered") && rng.Intn(3) == 0 {
					// a filter made of empty values only (or of no value): "list everything"
					if rng.Intn(2) == 0 {
						add("")
						add("")
					}
					break
				}
				if grouping {
					add(pickS(rng, w.Users))
				} else {
					add(pickS(rng, append(append([]string(nil), w.Users...), w.Roles...)))
				}
			}
		case "[]string":
			if p.Name == "roles" {
				add([]string{pickS(rng, w.Roles)})
			} else {
				add(w.rule(rng, ptype))
			}
		case "[][]string":
			add([][]string{w.rule(rng, ptype), w.rule(rng, ptype)})
		case "...[]string":
			add(w.rule(rng, "p")[1:])
		case "...interface{}":
			if p.Name == "rvals" {
				for _, x := range w.request(rng) {
					add(x)
				}
			} else { // params: a rule
				for _, x := range w.rule(rng, ptype) {
					add(x)
				}
			}
		case "[][]interface{}":
			if w.SharedBatch != nil {
				add(w.SharedBatch)
			} else {
				add([][]interface{}{w.request(rng), w.request(rng)})
			}
		case "int":
			add(0)
		case "interface{}":
			args = append(args, reflect.Zero(reflect.TypeOf((*interface{})(nil)).Elem()))
		case "time.Duration":
			add(time.Hour)
		case "persist.Watcher":
			args = append(args, reflect.ValueOf(&w.Watcher).Elem())
		case "govaluate.ExpressionFunction":
			add(govaluate.ExpressionFunction(func(args ...interface{}) (interface{}, error) { return true, nil }))
		default:
			panic("syncapi: no argument rule for parameter type " + p.Type + " of " + m.Name)
		}
	}
	return args
}

// Call invokes m on e; a panic escaping the call is returned as text.
func Call(e *casbin.SyncedEnforcer, m Method, args []reflect.Value) (panicked string) {
	defer func() {
		if r := recover(); r != nil {
			panicked = fmt.Sprint(r)
		}
	}()
	fn := reflect.ValueOf(e).MethodByName(m.Name)
	if !fn.IsValid() {
		return "no such method " + m.Name
	}
	fn.Call(args)
	return ""
}

// CallOn calls method m on any receiver that has it (the synchronised wrapper or the plain enforcer) and
// returns the printed results ("panic: …" as the only element when the call panicked).
func CallOn(recv interface{}, m Method, args []reflect.Value) (outs []string) {
	defer func() {
		if r := recover(); r != nil {
			outs = []string{"panic: " + fmt.Sprint(r)}
		}
	}()
	fn := reflect.ValueOf(recv).MethodByName(m.Name)
	if !fn.IsValid() {
		return []string{"no such method"}
	}
	for _, o := range fn.Call(args) {
		if o.Kind() == reflect.Interface && o.IsNil() {
			outs = append(outs, "<nil>")
			continue
		}
		if err, ok := o.Interface().(error); ok && err != nil {
			outs = append(outs, "error")
			continue
		}
		if o.Kind() == reflect.Ptr || o.Kind() == reflect.Func || o.Kind() == reflect.Map && o.Type().Elem().Kind() == reflect.Ptr {
			outs = append(outs, o.Type().String())
			continue
		}
		// what comes out of a Go map or set has no order: name lists are compared sorted, rule lists too
		// when the method collects them over role links
		switch v := o.Interface().(type) {
		case []string:
			cp := append([]string(nil), v...)
			sort.Strings(cp)
			outs = append(outs, fmt.Sprint(cp))
			continue
		case [][]string:
			if strings.Contains(m.Name, "Implicit") || strings.Contains(m.Name, "Domain") {
				cp := make([]string, len(v))
				for i, r := range v {
					cp[i] = strings.Join(r, ",")
				}
				sort.Strings(cp)
				outs = append(outs, fmt.Sprint(cp))
				continue
			}
		}
		outs = append(outs, fmt.Sprint(o.Interface()))
	}
	return outs
}
