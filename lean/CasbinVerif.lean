import CasbinVerif.Basic
import CasbinVerif.Model.Effector
import CasbinVerif.Spec.Effect
import CasbinVerif.Proofs.Effector
