/-
  Basic vocabulary shared by every model file.  Core Lean only (no Mathlib): everything under
  `Model/` and `Spec/` must link into the `casbin-model` executable.
-/
namespace Casbin

/-- a policy or grouping rule: the list of its fields (`[]string` in Go) -/
abbrev Rule := List String

/-- `effector.Effect` (Go iota order Allow = 0, Indeterminate = 1, Deny = 2) -/
inductive Eft | allow | indeterminate | deny
deriving DecidableEq, Repr, Inhabited

/-- the five effect expressions of `constant/constants.go` -/
inductive EffectKind | allowOverride | denyOverride | allowAndDeny | priority | subjectPriority
deriving DecidableEq, Repr, Inhabited

def EffectKind.ofExpr : String → Option EffectKind
  | "some(where (p_eft == allow))" => some .allowOverride
  | "!some(where (p_eft == deny))" => some .denyOverride
  | "some(where (p_eft == allow)) && !some(where (p_eft == deny))" => some .allowAndDeny
  | "priority(p_eft) || deny" => some .priority
  | "subjectPriority(p_eft) || deny" => some .subjectPriority
  | _ => none

def EffectKind.toExpr : EffectKind → String
  | .allowOverride => "some(where (p_eft == allow))"
  | .denyOverride => "!some(where (p_eft == deny))"
  | .allowAndDeny => "some(where (p_eft == allow)) && !some(where (p_eft == deny))"
  | .priority => "priority(p_eft) || deny"
  | .subjectPriority => "subjectPriority(p_eft) || deny"

/-- one slot of the two parallel Go arrays `matcherResults` / `policyEffects` -/
structure Cell where
  matched : Bool
  eft : Eft
deriving DecidableEq, Repr, Inhabited

/-- Go zero value of a slot that has not been filled yet:
    `matcherResults[i] = 0`, `policyEffects[i] = Allow (= 0)` -/
def Cell.zero : Cell := ⟨false, .allow⟩

/-- `strings.Join(rule, model.DefaultSep)`: the key of `Assertion.PolicyMap` -/
def ruleKey (r : Rule) : String := ",".intercalate r

/-- the field does not contain the key separator -/
def commaFree (f : String) : Bool := !f.toList.contains ','

/-- a rule of the definition's arity whose fields are all comma-free -/
def plainRule (n : Nat) (r : Rule) : Bool := r.length == n && r.all commaFree

end Casbin
