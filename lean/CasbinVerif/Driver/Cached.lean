import CasbinVerif.Driver.Proto
import CasbinVerif.Spec.Cached
/-
  Driver ops for the cached enforcers (C14):
    case cached <synced:0|1>
    cenf <under:t|f|e> params…     params: s:<enc> | c:<enc key> | x
    cinv  cload  cclear  crm params…  crms rules  cadd params…  cadds rules  cenable <b>  cttl <n>  tick <n>
  The spec observation of `cenf` is the set of admissible answers of C14.served_was_given.
-/
namespace Casbin.Driver
open Casbin.Proto Casbin.Cache

structure CachedSt where
  ce : CE := { synced := false }
  evs : List Ev := []        -- history, newest last

def parseParam (t : String) : Option Param :=
  if t == "x" then some .other
  else if t.startsWith "s:" then (decodeTok (t.drop 2).toString).map (fun s => Param.str (ofStr s))
  else if t.startsWith "c:" then (decodeTok (t.drop 2).toString).map (fun s => Param.cacheable (ofStr s))
  else none

def parseParamRules (ts : List String) : Option (List (List Param)) :=
  if ts == ["-"] then some [] else (splitAt "|" ts).mapM (fun r => r.mapM parseParam)

def showServed : Option (Option Bool) → String
  | some (some b) => showBool b
  | some none => "err"
  | none => "#"

/-- the answers `served_was_given` admits for the Enforce that comes next (index = evs.length) -/
def admissible (synced : Bool) (evs : List Ev) (q : List Param) (under : Option Bool) : List String :=
  let i := evs.length
  let now := nowBefore evs i
  let cur := match under with | some b => [showBool b] | none => ["err"]
  let idx := List.range i
  let earlier := idx.filterMap (fun j =>
    match (evs[j]? : Option Ev) with
    | some (Ev.enforce q' (some d)) =>
        if q' == q &&
           ((List.range i).all (fun m => !(j < m) || (match (evs[m]? : Option Ev) with | some ev => !invalidates synced q ev | none => true))) &&
           (ttlBefore evs j == 0 || now ≤ nowBefore evs j + ttlBefore evs j)
        then some (showBool d) else none
    | _ => none)
  (cur ++ earlier).eraseDups

def cachedOp (st : CachedSt) (ts : List String) : Option (CachedSt × String × String × Bool) :=
  let go (ev : Ev) : Option (CachedSt × String × String × Bool) :=
    let (ce', served) := step st.ce ev
    let spec := match ev with
      | .enforce q under => "{" ++ ",".intercalate (admissible st.ce.synced st.evs q under) ++ "}"
      | _ => "-"
    some ({ ce := ce', evs := st.evs ++ [ev] }, showServed served, spec, true)
  match ts with
  | ["case", "cached", s] => some ({ ce := { synced := s == "1" } }, "#", "-", true)
  | "cenf" :: u :: ps => do
      let under ← (match u with | "t" => some (some true) | "f" => some (some false) | "e" => some none | _ => none)
      let q ← ps.mapM parseParam
      go (.enforce q under)
  | "ckey" :: ps => do
      -- GetCacheKey on a parameter list: the key bytes (percent-encoded) or `none`
      let q ← ps.mapM parseParam
      let shown := match cacheKey q with
        | some k => "k:" ++ String.join (k.map (fun b =>
            let c := Char.ofNat b.toNat
            if b.toNat < 128 && Proto.safeChar c then c.toString
            else "%" ++ (Proto.hexDigit (b.toNat / 16)).toString ++ (Proto.hexDigit (b.toNat % 16)).toString))
        | none => "none"
      some (st, shown, "-", true)
  | ["cinv"] => go .invalidate
  | ["cload"] => go .load
  | ["cclear"] => go .clear
  | "crm" :: ps => do let q ← ps.mapM parseParam; go (.remove q)
  | "crms" :: rs => do let rules ← parseParamRules rs; go (.removes rules)
  | "cadd" :: ps => do let q ← ps.mapM parseParam; go (.add q)
  | "cadds" :: rs => do let rules ← parseParamRules rs; go (.adds rules)
  | ["cenable", b] => go (.enable (b == "1"))
  | ["cttl", n] => do let n ← n.toNat?; go (.setTTL n)
  | ["tick", n] => do let n ← n.toNat?; go (.tick n)
  | _ => none

end Casbin.Driver
