import CasbinVerif.Driver.Proto
import CasbinVerif.Model.CondRM
/-
  Driver ops for the conditional role managers (C05): the harness drives
  defaultrolemanager.NewConditionalRoleManager / NewConditionalDomainManager directly, and an
  Enforcer with a conditional role definition through the grouping API, and sends the same
  role-manager level operations here.
    new plain|domain
    addlink u r [d] ; p...      AddLink + Set(Domain)LinkConditionFuncParams (Assertion.addConditionalRoleLink)
    dellink u r [d]
    addcond u r [d]             Add(Domain)LinkConditionFunc with the fixed function `condOn`
    clear
    haslink u r [d]
  spec observation of haslink: reachability over the links that pass, conditions looked up as the
  documentation says (under the request's domain on every hop); `-` when a deeper hop's condition
  matters (the code looks it up under "" there).
-/
namespace Casbin.Driver
open Casbin Casbin.Proto

structure CondSt where
  domain : Bool := false
  crm : CRM := {}
  cdm : CDM := {}

/-- the documented meaning: conditions under the request's domain on every hop -/
def specBfs (c : CRM) (target d : String) : List String → Nat → Bool
  | _, 0 => false
  | fr, n + 1 =>
      if fr.isEmpty then false
      else if fr.contains target then true
      else specBfs c target d (fr.flatMap (CRM.succs condOn c d)) n

def specHasLink (c : CRM) (u r d : String) : Bool :=
  if u == r then true else specBfs c r d [u] (c.maxLevel + 1)

def condOp (st : CondSt) (ts : List String) : Option (CondSt × String × String × Bool) :=
  match ts with
  | ["case", "condrm"] => some ({}, "#", "-", true)
  | ["new", "plain"] => some ({ domain := false }, "ok", "-", true)
  | ["new", "domain"] => some ({ domain := true }, "ok", "-", true)
  | ["clear"] =>
      some ({ st with crm := { maxLevel := st.crm.maxLevel }, cdm := st.cdm.clear }, "ok", "-", true)
  | "addlink" :: rest =>
      match splitAt ";" rest with
      | [link, ps] =>
          match decodeAll link, decodeAll ps with
          | some [u, r], some ps =>
              if st.domain then none
              else some ({ st with crm := (st.crm.addLink u r).setParams (u, r, "") ps }, "ok", "-", true)
          | some [u, r, d], some ps =>
              if !st.domain then none
              else some ({ st with cdm := (st.cdm.addLink u r [d]).setParams (u, r, d) ps }, "ok", "-", true)
          | _, _ => none
      | _ => none
  | "dellink" :: rest =>
      match decodeAll rest with
      | some [u, r] => if st.domain then none else some ({ st with crm := st.crm.deleteLink u r }, "ok", "-", true)
      | some [u, r, d] => if !st.domain then none else some ({ st with cdm := st.cdm.deleteLink u r [d] }, "ok", "-", true)
      | _ => none
  | "addcond" :: rest =>
      match decodeAll rest with
      | some [u, r] => if st.domain then none else some ({ st with crm := st.crm.addCond (u, r, "") }, "ok", "-", true)
      | some [u, r, d] => if !st.domain then none else some ({ st with cdm := st.cdm.addCond (u, r, d) }, "ok", "-", true)
      | _ => none
  | "haslink" :: rest =>
      match decodeAll rest with
      | some [u, r] =>
          if st.domain then none
          else
            let m := st.crm.hasLink condOn u r []
            some (st, showBool m, showBool (specHasLink st.crm u r ""), true)
      | some [u, r, d] =>
          if !st.domain then none
          else
            let c := st.cdm.get d
            let m := st.cdm.hasLink condOn u r [d]
            let s := specHasLink c u r d
            -- the code and the documentation part ways exactly when a condition beyond the first hop
            -- matters: not a listed property, so there is no spec observation there (`-`)
            some (st, showBool m, if m == s then showBool s else "-", true)
      | _ => none
  | _ => none

end Casbin.Driver
