import CasbinVerif.Driver.Proto
import CasbinVerif.Model.Config
/-
  Driver op for the model-text reader (C08):
    cfg <text>   ->  err | one token per assertion "sec|key|value|tok,tok|param,param" (all parts percent-encoded)
-/
namespace Casbin.Driver
open Casbin.Proto Casbin.Cfg

def encL (s : List Char) : String := encodeTok (String.ofList s)

def showAssertion (sec : Char) (a : Cfg.Assertion) : String :=
  let toks := if a.tokens.isEmpty then "-" else ",".intercalate (a.tokens.map encL)
  let ps := if a.params.isEmpty then "-" else ",".intercalate (a.params.map encL)
  s!"{sec}|{encL a.key}|{encL a.value}|{toks}|{ps}"

def cfgOp : List String → Option (String × String × Bool)
  | ["cfg", t] => do
      let text ← decodeTok t
      match loadModel text.toList with
      | none => pure ("err", "-", true)
      | some secs =>
          let parts := secs.flatMap (fun (s, as) => as.map (showAssertion s))
          pure (" ".intercalate parts, "-", true)
  | _ => none

end Casbin.Driver
