import CasbinVerif.Driver.Proto
import CasbinVerif.Model.Effector
import CasbinVerif.Spec.Effect
/-
  Driver ops for the effector (C02):
    merge  <kind> <idx> <len> <cells>   -> "<eft> <explainIdx>"            (model only)
    enfvec <kind> <cells>               -> "<decision> <explainIdx>"  spec: "<decision>"
    elsevec <kind> <0|1>                -> "<decision>" of the empty-policy branch
  cells: two characters per slot, M|U (matched/unmatched) then a|d|i (allow/deny/indeterminate);
  `-` is the empty vector.
-/
namespace Casbin.Driver

open Casbin.Proto

def parseKind : String → Option EffectKind
  | "allowOverride" => some .allowOverride
  | "denyOverride" => some .denyOverride
  | "allowAndDeny" => some .allowAndDeny
  | "priority" => some .priority
  | "subjectPriority" => some .subjectPriority
  | _ => none

def parseCells : List Char → Option (List Cell)
  | [] => some []
  | m :: e :: rest => do
      let mb ← (match m with | 'M' => some true | 'U' => some false | _ => none)
      let ef ← (match e with | 'a' => some Eft.allow | 'd' => some Eft.deny | 'i' => some Eft.indeterminate | _ => none)
      let tl ← parseCells rest
      pure (⟨mb, ef⟩ :: tl)
  | _ => none

def parseCellTok (t : String) : Option (List Cell) := if t == "-" then some [] else parseCells t.toList

def showEft : Eft → String
  | .allow => "allow" | .deny => "deny" | .indeterminate => "indeterminate"

def showIdx : Option Nat → String
  | some i => toString i | none => "-1"

/-- returns (model observation, spec observation or "-", wf) -/
def effectorOp : List String → Option (String × String × Bool)
  | ["merge", k, idx, len, cells] => do
      let k ← parseKind k
      let idx ← idx.toNat?
      let len ← len.toNat?
      let cs ← parseCellTok cells
      let r := mergeEffects k cs idx len
      pure (s!"{showEft r.1} {showIdx r.2}", "-", true)
  | ["enfvec", k, cells] => do
      let k ← parseKind k
      let cs ← parseCellTok cells
      let r := enforceLoop k cs
      -- the specification: the decision of C02's four sentences, and the set of rules EnforceEx may
      -- name: none (-1), or a matched rule carrying the effect that produced the decision
      let d := effectSpec k cs
      let ok := (cs.zipIdx.filter (fun (c, _) => c.matched && c.eft == (if d then Eft.allow else Eft.deny))).map (fun (_, i) => toString i)
      pure (s!"{showBool (decision r)} {showIdx r.2}", s!"{showBool d} \{{",".intercalate ("-1" :: ok)}}", !cs.isEmpty)
  | ["elsevec", k, b] => do
      -- the branch of enforce() taken on an empty policy (or a matcher that ignores the policy): one
      -- evaluation against the all-empty rule, `b` = what the matcher answered
      let k ← parseKind k
      -- specification for a request that does not satisfy the matcher: the four sentences on no rule at
      -- all; for one that does, the empty-policy shortcut is finding D24 (no specification)
      pure (showBool (decision (elseBranch k (b == "1"))), (if b == "1" then "-" else showBool (effectSpec k [])), b != "1")
  | _ => none

end Casbin.Driver
