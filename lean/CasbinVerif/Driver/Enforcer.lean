import CasbinVerif.Driver.Proto
import CasbinVerif.Model.Loader
import CasbinVerif.Model.Distributed
import CasbinVerif.Model.Rbac
import CasbinVerif.Spec.Mono
import CasbinVerif.Spec.Perm
import CasbinVerif.Spec.Mirror
import CasbinVerif.Spec.Guarded
import CasbinVerif.Spec.RbacApi
/-
  Driver ops for the enforcer state machine (C01, C03, C04, C05, C10, C11, C15, C17).  See
  harness/cmd/corr/enfops.go for the Go side of the same vocabulary.
-/
namespace Casbin.Driver

open Casbin.Proto

/-- prefix notation for matcher ASTs (fixed arities, no parentheses) -/
partial def parseExpr : List String → Option (Expr × List String)
  | "lit" :: "s" :: x :: rest => do let s ← decodeTok x; pure (.lit (.s s), rest)
  | "lit" :: "n" :: x :: rest => do let n ← x.toInt?; pure (.lit (.n n), rest)
  | "blit" :: b :: rest => some (.blit (b == "1"), rest)
  | "r" :: i :: rest => do let i ← i.toNat?; pure (.rTok i, rest)
  | "p" :: i :: rest => do let i ← i.toNat?; pure (.pTok i, rest)
  | "bad" :: rest => some (.badTok, rest)
  | "attr" :: i :: f :: rest => do let i ← i.toNat?; let f ← decodeTok f; pure (.rAttr i f, rest)
  | "not" :: rest => do let (a, rest) ← parseExpr rest; pure (.not a, rest)
  | "eval" :: rest => do let (a, rest) ← parseExpr rest; pure (.eval a, rest)
  | "in" :: rest => do
      let (a, rest) ← parseExpr rest
      match rest with
      | k :: rest =>
          let k ← k.toNat?
          let rec atoms (n : Nat) (ts : List String) (acc : List Atom) : Option (List Atom × List String) :=
            match n, ts with
            | 0, ts => some (acc.reverse, ts)
            | n + 1, "s" :: x :: ts => do let s ← decodeTok x; atoms n ts (.s s :: acc)
            | n + 1, "n" :: x :: ts => do let v ← x.toInt?; atoms n ts (.n v :: acc)
            | _, _ => none
          let (lits, rest) ← atoms k rest []
          pure (.inLits a lits, rest)
      | [] => none
  | "call2" :: fn :: rest => do
      let (a, rest) ← parseExpr rest; let (b, rest) ← parseExpr rest; pure (.call2 fn a b, rest)
  | "call3" :: fn :: rest => do
      let (a, rest) ← parseExpr rest; let (b, rest) ← parseExpr rest; let (c, rest) ← parseExpr rest
      pure (.call3 fn a b c, rest)
  | "g2" :: gt :: rest => do
      let (a, rest) ← parseExpr rest; let (b, rest) ← parseExpr rest; pure (.g2 gt a b, rest)
  | "g3" :: gt :: rest => do
      let (a, rest) ← parseExpr rest; let (b, rest) ← parseExpr rest; let (c, rest) ← parseExpr rest
      pure (.g3 gt a b c, rest)
  | op :: rest =>
      let bin : Option (Expr → Expr → Expr) := match op with
        | "and" => some .and | "or" => some .or | "eq" => some .eq | "ne" => some .ne
        | "lt" => some .lt | "le" => some .le | "gt" => some .gt | "ge" => some .ge | _ => none
      match bin with
      | some f => do let (a, rest) ← parseExpr rest; let (b, rest) ← parseExpr rest; pure (f a b, rest)
      | none => none
  | [] => none

def parseWholeExpr (ts : List String) : Option Expr :=
  match parseExpr ts with
  | some (e, []) => some e
  | _ => none

def parseAtom (t : String) : Option Atom :=
  if t.startsWith "s:" then (decodeTok (t.drop 2).toString).map Atom.s
  else if t.startsWith "n:" then ((t.drop 2).toString.toInt?).map Atom.n
  else none

def parseVal (t : String) : Option Val :=
  if t.startsWith "s:" then (decodeTok (t.drop 2).toString).map Val.str
  else if t.startsWith "n:" then ((t.drop 2).toString.toInt?).map Val.num
  else if t.startsWith "b:" then some (.bool ((t.drop 2).toString == "1"))
  else if t.startsWith "o:" then
    let body := (t.drop 2).toString
    if body.isEmpty then some (.obj []) else
    ((body.splitOn ",").mapM (fun (kv : String) =>
      match kv.splitOn "=" with
      | [k, a] => do let k ← decodeTok k; let a ← parseAtom a; pure (k, a)
      | _ => none)).map Val.obj
  else none

structure EnfSt where
  md : ModelDef := { r := [], p := [], g := [], e := [], m := [] }
  alines : List (String × Rule) := []
  useAdapter : Bool := false
  watcher : Option WatcherKind := none
  ora : List ((String × List Val) × Res) := []
  evalTab : List (String × Expr) := []
  custom : List (String × Expr) := []
  enf : Option EnfP := none
  /-- every management call so far satisfied `Enf.opWFg` (the hypothesis of C05.mirror_hist_guarded: nothing is
      demanded of the two update calls beyond rules of the definition's arity) -/
  histOk : Bool := true
  /-- the filtered file adapter of the case, if it uses one -/
  fa : Option FASt := none
  /-- the case left what the model covers (an order that depends on Go's map iteration): every later line answers `none` -/
  dead : Bool := false
  /-- what the first phase of a two-phase LoadPolicy read from the adapter (C13, finding D19) -/
  snaps : List (Nat × List (String × Rule)) := []

def showMRes : Enf.MRes → String
  | .ok b => showBool b
  | .err b => "err:" ++ showBool b

def showEnf : EnfRes → String
  | some (b, _) => showBool b
  | none => "err"

def showEnfEx : EnfRes → String
  | some (b, i) => s!"{showBool b} {showIdx' i}"
  | none => "err"
where showIdx' : Option Nat → String
  | some i => toString i | none => "-1"

def sortStrs (l : List String) : List String := l.mergeSort (· ≤ ·)

def showSet (l : List String) : String :=
  if l.isEmpty then "-" else " ".intercalate ((sortStrs (l.map encodeTok)))

def showLines (ls : List (String × Rule)) : String :=
  if ls.isEmpty then "-" else " | ".intercalate (ls.map (fun (pt, r) => encodeRule (pt :: r)))

def showLog (l : List String) : String :=
  if l.isEmpty then "-" else " ".intercalate (l.map encodeTok)

def parseCtxVals (ts : List String) : Option (EnforceCtx × List Val) :=
  match ts with
  | "ctx" :: r :: p :: e :: m :: vs => do
      let vals ← vs.mapM parseVal
      let r ← decodeTok r; let p ← decodeTok p; let e ← decodeTok e; let m ← decodeTok m
      pure ({ rType := r, pType := p, eType := e, mType := m }, vals)
  | vs => do
      let vals ← vs.mapM parseVal
      pure ({}, vals)

/-- decidable part of `Enf.WFState` that a (re)load establishes: listed rules plain, of the
    definition's arity, no rule twice -/
def stateOk (e : Enf) : Bool :=
  e.md.g.all (fun (gt, count, kind) =>
    2 ≤ count && count ≤ 3 && (kind != .plain || count == 2) &&
    (match e.g.lookup gt with
     | some s => s.policy.all (plainRule count) && s.policy.eraseDups.length == s.policy.length
     | none => false)) &&
  e.md.p.all (fun (pt, toks) =>
    match e.p.lookup pt with
    | some s => s.policy.all (plainRule toks.length) && s.policy.eraseDups.length == s.policy.length
    | none => false)

/-- the reference decision on the currently listed rules, and whether the request lies inside the
    hypotheses of C01.enforce_eq_perm -/
def specOf (e : Enf) (ctx : EnforceCtx) (rvals : List Val) : String × Bool :=
  let policy := fun pt => ((e.p.lookup pt).map (·.policy)).getD []
  let grouping := fun gt => ((e.g.lookup gt).map (·.policy)).getD []
  let sp := specEnforce e.md policy grouping e.fn e.evalTab ctx rvals
  let wfEmpty : Bool :=
    match e.md.m.lookup ctx.mType, e.md.p.lookup ctx.pType, e.md.e.lookup ctx.eType with
    | some m, some tokens, some eexpr =>
        if (policy ctx.pType).isEmpty && m.mentionsP then
          !m.hasEval &&
          (match evalExpr evalFuel { r := rvals, p := List.replicate tokens.length "", fn := e.fn,
                                     link := specLink e.md grouping 10, evalTab := e.evalTab } m with
           | some (.bool b) => !b || EffectKind.ofExpr eexpr == some .denyOverride
           | _ => false)
        else true
    | _, _, _ => true
  -- grouping rules must be long enough for their definition (else building links errors)
  let wfG := e.md.g.all (fun (gt, count, _) => (grouping gt).all (fun r => count ≤ r.length))
  match sp with
  | some d => (showBool d, wfEmpty && wfG && e.enabled)
  | none => ("-", false)

/-- `nil` | `-` (empty filter) | tokens `p=v,v,…` `g=…` `g1=…` … (values percent-encoded, `~` empty) -/
def parseFilter (ts : List String) : Option (Option Flt.Filter) :=
  if ts == ["nil"] then some none
  else if ts == ["-"] then some (some {})
  else
    ts.foldlM (fun (acc : Option Flt.Filter) (t : String) =>
      match t.splitOn "=" with
      | [name, vals] =>
          let vs : Option (List (List Char)) := if vals.isEmpty then some [] else (vals.splitOn ",").mapM (fun v => (decodeTok v).map String.toList)
          match acc, vs with
          | some f, some vs =>
              (match name with
               | "p" => some (some { f with p := vs }) | "g" => some (some { f with g := vs })
               | "g1" => some (some { f with g1 := vs }) | "g2" => some (some { f with g2 := vs })
               | "g3" => some (some { f with g3 := vs }) | "g4" => some (some { f with g4 := vs })
               | "g5" => some (some { f with g5 := vs }) | _ => none)
          | _, _ => none
      | _ => none) (some {})

/-- the persist predicate of a Self call: `n` = nil, `0` / `1` = a function returning false / true -/
def parsePersist : String → Option (Option Bool)
  | "n" => some none | "0" => some (some false) | "1" => some (some true) | _ => none


deriving instance BEq for Expr
deriving instance BEq for ModelDef

def showSortedDup (l : List String) : String :=
  if l.isEmpty then "-" else " ".intercalate (sortStrs (l.map encodeTok))

def showListing : Rbac.Listing Rule → String
  | .ok l => "L " ++ encodeRules l
  | .err => "err"

/-- the pure `enforce` of the C16 theorems on the current rules and role managers -/
def pureEnforce (e : Enf) (rvals : List Val) : Option Bool :=
  let links := fun (gt : String) (args : List String) =>
    match args with
    | u :: v :: ds => (match e.rm.lookup gt with | some rm => rm.hasLink u v ds | none => false)
    | _ => false
  (enforce e.md (fun pt => ((e.p.lookup pt).map (·.policy)).getD []) links e.fn e.evalTab {} none rvals).map (·.1)

/-- `GetImplicitUsersForPermission`: candidates of the current rules -/
def candidatesOf (e : Enf) : List String :=
  let pSubjects := e.md.p.flatMap (fun (pt, toks) =>
    match toks.idxOf? "sub" with
    | some j => (((e.p.lookup pt).map (·.policy)).getD []).map (fun r => r.getD j "") |>.eraseDups
    | none => [])
  let col (j : Nat) := e.md.g.flatMap (fun (gt, _, _) => (((e.g.lookup gt).map (·.policy)).getD []).map (fun r => r.getD j "") |>.eraseDups)
  Rbac.candidateUsers pSubjects (col 0) (col 1)

/-- a call of the convenience layer as it appears on a line: `rbac <name> <args> || <rules>` -/
def parseRbac (name : String) (a : List String) (rules : List Rule) : Option RbacOp :=
  match name, a with
  | "addRoleForUser", u :: r :: ds => some (.addRoleForUser u r ds)
  | "addRoleForUserInDomain", [u, r, d] => some (.addRoleForUser u r [d])
  | "addRolesForUser", u :: ds => some (.addRolesForUser u (rules.map (·.headD "")) ds)
  | "deleteRoleForUser", u :: r :: ds => some (.deleteRoleForUser u r ds)
  | "deleteRoleForUserInDomain", [u, r, d] => some (.deleteRoleForUser u r [d])
  | "deleteRolesForUser", u :: ds => some (.deleteRolesForUser u ds)
  | "deleteUser", [u] => some (.deleteUser u)
  | "deleteRole", [r] => some (.deleteRole r)
  | "deletePermission", perm => some (.deletePermission perm)
  | "addPermissionForUser", u :: perm => some (.addPermissionForUser u perm)
  | "addPermissionsForUser", [u] => some (.addPermissionsForUser u rules)
  | "deletePermissionForUser", u :: perm => some (.deletePermissionForUser u perm)
  | "deletePermissionsForUser", [u] => some (.deletePermissionsForUser u)
  | "deleteRolesForUserInDomain", [u, d] => some (.deleteRolesForUserInDomain u d)
  | "deleteAllUsersByDomain", [d] => some (.deleteAllUsersByDomain d)
  | "deleteDomains", ds => some (.deleteDomains ds)
  | _, _ => none

/-- what the exactness theorems of Properties/C05Rbac.lean promise for the listings after a removing
    call that reported no error: (grouping rules, policy rules); `none` = no theorem speaks -/
def rbacSpec (e : Enf) (op : RbacOp) : Option (List Rule × List Rule) :=
  let g := e.listed "g" "g"
  let p := e.listed "p" "p"
  match op, Rbac.fieldIndex e "sub" with
  | .deleteRolesForUser u [], _ => if u == "" then none else some (g.filter (fun r => r.headD "" != u), p)
  | .deleteUser u, some si =>
      if u == "" then none else some (g.filter (fun r => r.headD "" != u), p.filter (fun r => r.getD si "" != u))
  | .deleteRole r, some si =>
      if r == "" then none
      else some (g.filter (fun x => x.headD "" != r && x.getD 1 "" != r), p.filter (fun x => x.getD si "" != r))
  | _, _ => none

def enfOp (st : EnfSt) (ts : List String) : Option (EnfSt × String × String × Bool) :=
  let hdr (st' : EnfSt) : Option (EnfSt × String × String × Bool) := some (st', "#", "-", true)
  match ts with
  | ["case", "enforcer"] => hdr {}
  | ["def", "r", rt, n] => do let n ← n.toNat?; hdr { st with md := { st.md with r := st.md.r ++ [(rt, n)] } }
  | "def" :: "p" :: pt :: toks => hdr { st with md := { st.md with p := st.md.p ++ [(pt, toks)] } }
  | ["def", "g", gt, count, kind] => do
      let c ← count.toNat?
      let k ← (match kind with | "plain" => some RMKind.plain | "domain" => some RMKind.domain | _ => none)
      hdr { st with md := { st.md with g := st.md.g ++ [(gt, c, k)] } }
  | ["def", "e", et, x] => do let x ← decodeTok x; hdr { st with md := { st.md with e := st.md.e ++ [(et, x)] } }
  | "def" :: "m" :: mt :: ex => do let m ← parseWholeExpr ex; hdr { st with md := { st.md with m := st.md.m ++ [(mt, m)] } }
  | "evaltab" :: text :: ex => do
      let t ← decodeTok text; let m ← parseWholeExpr ex; hdr { st with evalTab := st.evalTab ++ [(t, m)] }
  | "mdef" :: id :: ex => do let m ← parseWholeExpr ex; hdr { st with custom := st.custom ++ [(id, m)] }
  | "ora" :: fn :: rest => do
      -- ora <fn> <arg>… = <res>
      let (args, res) ← splitTwo' rest
      let vals ← args.mapM parseVal
      let r : Res ← (match res with
        | ["err"] => some none
        | [v] => (parseVal v).map some
        | _ => none)
      hdr { st with ora := ((fn, vals), r) :: st.ora }
  | ["adapter", "mem"] => hdr { st with useAdapter := true }
  | ["adapter", "fa", text] => do let t ← decodeTok text; hdr { st with fa := some { text := t.toList } }
  | "aline" :: pt :: fs => do let r ← decodeAll fs; hdr { st with alines := st.alines ++ [(pt, r)] }
  | ["watcher", k] => do
      let w ← (match k with | "plain" => some WatcherKind.plain | "ex" => some .ex | "upd" => some .upd | "exupd" => some .exupd | _ => none)
      hdr { st with watcher := some w }
  | ["init"] =>
      let ora := st.ora
      let fn : String → List Val → Res := fun f args =>
        match ora.lookup (f, args) with
        | some r => r
        | none => none
      let evalTab := st.evalTab
      let e0 : Enf := { Enf.init st.md with fn := fn, evalTab := fun t => evalTab.lookup t, customMatchers := st.custom }
      if st.useAdapter then
        let e1 := { e0 with adapter := some { lines := st.alines } }
        let (e2, ok) := e1.loadPolicy
        -- SetWatcher happens after construction in the harness
        let e3 := { e2 with watcher := st.watcher }
        if ok then some ({ st with enf := some { base := e3 }, histOk := stateOk e3 }, "ok", "-", true)
        else some ({ st with enf := none }, "err", "-", true)
      else some ({ st with enf := some { base := { e0 with watcher := st.watcher } } }, "ok", "-", true)
  | op :: rest =>
    if st.dead then some (st, "none", "-", false) else
    match st.enf with
    | none => none
    | some ep =>
      let e := ep.base
      let ret (e' : Enf) (m s : String) (wf : Bool) : Option (EnfSt × String × String × Bool) :=
        some ({ st with enf := some { ep with base := e' } }, m, s, wf)
      let retP (ep' : EnfP) (m s : String) (wf : Bool) : Option (EnfSt × String × String × Bool) :=
        some ({ st with enf := some ep' }, m, s, wf)
      -- a management call: remember whether it satisfied the theorem's hypothesis
      let mgmt (op : MOp) : Option (EnfSt × String × String × Bool) :=
        match ep.applyM op with
        | some (ep', res) => some ({ st with enf := some ep', histOk := st.histOk && e.opWFg op }, showMRes res, "-", true)
        | none => some ({ st with histOk := false }, "panic", "-", false)
      let hOk := st.histOk && ep.prm.isEmpty && ep.unbound.isEmpty
      match op, rest with
      | "enf", args => do
          let (ctx, vals) ← parseCtxVals args
          let (ep', r) := ep.enforceStep ctx none vals
          let (sp, wf) := specOf e ctx vals
          let inHyp := wf && hOk
          -- outside the theorem's hypothesis the reference is still a meaningful oracle when the state
          -- itself is well-formed: marked `?` = only used to search for a failing input
          retP ep' (showEnf r) (if inHyp || sp == "-" then sp else if wf && stateOk e && ep.prm.isEmpty && ep.unbound.isEmpty then "?" ++ sp else "-") inHyp
      | "enfx", args => do
          let (ctx, vals) ← parseCtxVals args
          let (ep', r) := ep.enforceStep ctx none vals
          let (sp, wf) := specOf e ctx vals
          let inHyp := wf && hOk
          let sp' := if sp == "-" then "-" else sp ++ " ..."
          retP ep' (showEnfEx r) (if inHyp || sp == "-" then sp' else if wf && stateOk e && ep.prm.isEmpty && ep.unbound.isEmpty then "?" ++ sp' else "-") inHyp
      | "enfm", id :: args => do
          let (ctx, vals) ← parseCtxVals args
          let (ep', r) := ep.enforceStep ctx (some id) vals
          retP ep' (showEnf r) "-" true
      | "add", sec :: pt :: fs => do
          let r ← decodeAll fs
          mgmt (.add sec pt r)
      | "adds", sec :: pt :: ex :: rs => do
          let rules ← decodeRules rs
          mgmt (.addMany sec pt (ex == "1") rules)
      | "rm", sec :: pt :: fs => do
          let r ← decodeAll fs
          mgmt (.remove sec pt r)
      | "rms", sec :: pt :: rs => do
          let rules ← decodeRules rs
          mgmt (.removeMany sec pt rules)
      | "upd", sec :: pt :: rest => do
          let (a, b) ← splitTwo "|" rest
          let old ← decodeAll a
          let new ← decodeAll b
          mgmt (.update sec pt old new)
      | "upds", sec :: pt :: rest => do
          let (a, b) ← splitTwo "||" rest
          let olds ← decodeRules a
          let news ← decodeRules b
          mgmt (.updateMany sec pt olds news)
      | "rmf", sec :: pt :: fi :: vals => do
          let fi ← fi.toNat?
          let vs ← decodeAll vals
          mgmt (.removeFiltered sec pt fi vs)
      | "updf", sec :: pt :: fi :: rest => do
          let fi ← fi.toNat?
          let (a, b) ← splitTwo "||" rest
          let vs ← decodeAll a
          let news ← decodeRules b
          let (e', res) := e.updateFiltered sec pt news fi vs
          -- UpdateFilteredPolicies is outside the alphabet of the invariant theorem
          some ({ st with enf := some { ep with base := e' }.syncCache, histOk := false }, showMRes res, "-", true)
      | "rbac", name :: rest => do
          let (a, b) ← splitTwo "||" rest
          let args ← decodeAll a
          let rules ← decodeRules b
          let op ← parseRbac name args rules
          let wf := e.rbacWF op
          match Rbac.run EnfP.applyM (·.base) ep op with
          | none => some ({ st with histOk := false }, "panic", "-", false)
          | some (ep', res) =>
              let show3 (r : String) (g p : List Rule) : String := r ++ " / " ++ encodeRules g ++ " / " ++ encodeRules p
              let m := show3 (showMRes res) (ep'.base.listed "g" "g") (ep'.base.listed "p" "p")
              let inHyp := wf && hOk && !res.isErr
              let sp := match rbacSpec e op with
                | some (g, p) => if inHyp then show3 "_" g p else "-"
                | none => "-"
              some ({ st with enf := some ep', histOk := st.histOk && wf }, m, sp, inHyp)
      | "clear", [] =>
          match ep.applyM .clear with
          | some (ep', _) => some ({ st with enf := some ep', histOk := stateOk ep'.base }, "ok", "-", true)
          | none => none
      | "load", [] =>
          match st.fa with
          | some fa =>
              -- LoadPolicy through the filtered file adapter: a full load via the scratch model; the flag is cleared first
              (match ep.loadText true fa.text with
               | none => some ({ st with dead := true }, "none", "-", false)
               | some (ep', ok) =>
                   some ({ st with enf := some ep', fa := some { fa with filtered := if ok then false else fa.filtered },
                                   histOk := if ok then stateOk ep'.base && ep'.base.autoBuild else st.histOk }, (if ok then "ok" else "err"), "-", true))
          | none =>
          let (ep', ok) := ep.loadPolicy
          -- a successful load rebuilds every link from the loaded rules
          -- (with auto-build off the links are left as they were: out of step until BuildRoleLinks)
          some ({ st with enf := some ep', histOk := if ok then stateOk ep'.base && ep'.base.autoBuild else st.histOk }, (if ok then "ok" else "err"), "-", true)
      | "has", sec :: pt :: fs => do
          let r ← decodeAll fs
          match e.getStore sec pt with
          | some s => ret e (showBool (s.has r)) "-" true
          | none => ret e "err" "-" true
      | "loadread", [k] => do
          -- the first phase of SyncedEnforcer.LoadPolicy: read the adapter (under RLock)
          let k ← k.toNat?
          match e.adapter with
          | some a =>
              let (a', _) := a.call "LoadPolicy"
              some ({ st with enf := some { ep with base := { e with adapter := some a' } }, snaps := (k, a.lines) :: st.snaps }, "ok", "-", true)
          | none => ret e "err" "-" true
      | "loadapply", [k] => do
          -- the second phase (under Lock): install what the first phase read
          let k ← k.toNat?
          match st.snaps.lookup k, e.adapter with
          | some snap, some a =>
              let e1 : Enf := { e with adapter := some { a with lines := snap, log := [], calls := 0 } }
              let (ep', ok) := ({ ep with base := e1 } : EnfP).loadPolicy
              -- the adapter itself is as it was (the read happened in phase one)
              let ep'' : EnfP := { ep' with base := { ep'.base with adapter := some a } }
              some ({ st with enf := some ep'', histOk := if ok then stateOk ep''.base && ep''.base.autoBuild else st.histOk }, (if ok then "ok" else "err"), "-", true)
          | _, _ => ret e "err" "-" true
      | "save", [] =>
          let (e', ok) := e.savePolicy
          ret e' (if ok then "ok" else "err") "-" true
      | "buildlinks", [] =>
          match ep.applyM .buildLinks with
          | some (ep', res) =>
              -- a successful BuildRoleLinks puts every manager in step with the listed rules
              let ok := match res with | .ok _ => true | .err _ => false
              some ({ st with enf := some ep', histOk := if ok then stateOk ep'.base else st.histOk }, (if ok then "ok" else "err"), "-", true)
          | none => none
      | "loadtext", [kind, text] => do
          let t ← decodeTok text
          match ep.loadText (kind == "file") t.toList with
          | none => some ({ st with dead := true }, "none", "-", false)        -- order depends on map iteration (finding D22)
          | some (ep', ok) =>
              some ({ st with enf := some ep', histOk := if ok then stateOk ep'.base && ep'.base.autoBuild else st.histOk }, (if ok then "ok" else "err"), "-", true)
      | "loadf", ["bad"] => do
          let fa ← st.fa
          let (ep', fa') := ep.loadBadFilterFA fa true
          some ({ st with enf := some ep', fa := some fa', histOk := false }, s!"err F={if fa'.filtered then 1 else 0}", "-", true)
      | "loadif", ["bad"] => do
          let fa ← st.fa
          let (ep', fa') := ep.loadBadFilterFA fa false
          some ({ st with enf := some ep', fa := some fa', histOk := false }, s!"err F={if fa'.filtered then 1 else 0}", "-", true)
      | "loadf", flt => do
          let f ← parseFilter flt
          let fa ← st.fa
          match ep.loadFilteredFA fa f true with
          | none => some ({ st with dead := true }, "none", "-", false)
          | some (ep', fa', ok) =>
              some ({ st with enf := some ep', fa := some fa', histOk := if ok then stateOk ep'.base && ep'.base.autoBuild else false },
                s!"{if ok then "ok" else "err"} F={if fa'.filtered then 1 else 0}", "-", true)
      | "loadif", flt => do
          let f ← parseFilter flt
          let fa ← st.fa
          match ep.loadFilteredFA fa f false with
          | none => some ({ st with dead := true }, "none", "-", false)
          | some (ep', fa', ok) =>
              some ({ st with enf := some ep', fa := some fa', histOk := if ok then stateOk ep'.base && ep'.base.autoBuild else false },
                s!"{if ok then "ok" else "err"} F={if fa'.filtered then 1 else 0}", "-", true)
      | "savefa", [] => do
          let fa ← st.fa
          let (fa', ok) := ep.saveFA fa
          some ({ st with fa := some fa' }, s!"{if ok then "ok" else "err"} F={if fa'.filtered then 1 else 0}", "-", true)
      | "obs", ["fatext"] => do
          let fa ← st.fa
          ret e ("t:" ++ encodeTok (String.ofList fa.text)) "-" true
      | "dist-add", per :: sec :: pt :: rs => do
          let rules ← decodeRules rs
          let pr ← parsePersist per
          let (e', aff, err) := e.addPoliciesSelf pr sec pt rules
          some ({ st with enf := some { ep with base := e' }.syncCache, histOk := st.histOk && stateOk e' }, s!"A {encodeRules aff} E {if err then 1 else 0}", "-", true)
      | "dist-rm", per :: sec :: pt :: rs => do
          let rules ← decodeRules rs
          let pr ← parsePersist per
          let (e', aff, err) := e.removePoliciesSelf pr sec pt rules
          some ({ st with enf := some { ep with base := e' }.syncCache, histOk := st.histOk && stateOk e' }, s!"A {encodeRules aff} E {if err then 1 else 0}", "-", true)
      | "dist-rmf", per :: sec :: pt :: fi :: vals => do
          let fi ← fi.toNat?
          let vs ← decodeAll vals
          let pr ← parsePersist per
          match e.removeFilteredPolicySelf pr sec pt fi vs with
          | some (e', aff, err) =>
              some ({ st with enf := some { ep with base := e' }.syncCache, histOk := st.histOk && stateOk e' }, s!"A {encodeRules aff} E {if err then 1 else 0}", "-", true)
          | none => some ({ st with histOk := false }, "panic", "-", false)
      | "dist-clear", [per] => do
          let pr ← parsePersist per
          let (e', err) := e.clearPolicySelf pr
          some ({ st with enf := some { ep with base := e' }.syncCache, histOk := st.histOk && stateOk e' }, s!"E {if err then 1 else 0}", "-", true)
      | "dist-upd", per :: sec :: pt :: rest => do
          let pr ← parsePersist per
          let (a, b) ← splitTwo "|" rest
          let old ← decodeAll a
          let new ← decodeAll b
          let (e', upd, err) := e.updatePolicySelf pr sec pt old new
          some ({ st with enf := some { ep with base := e' }.syncCache, histOk := st.histOk && stateOk e' }, s!"{showBool upd} E {if err then 1 else 0}", "-", true)
      | "dist-upds", per :: sec :: pt :: rest => do
          let pr ← parsePersist per
          let (a, b) ← splitTwo "||" rest
          let olds ← decodeRules a
          let news ← decodeRules b
          let (e', upd, err) := e.updatePoliciesSelf pr sec pt olds news
          some ({ st with enf := some { ep with base := e' }.syncCache, histOk := st.histOk && stateOk e' }, s!"{showBool upd} E {if err then 1 else 0}", "-", true)
      | "dist-updf", per :: sec :: pt :: fi :: rest => do
          let pr ← parsePersist per
          let fi ← fi.toNat?
          let (a, b) ← splitTwo "||" rest
          let vs ← decodeAll a
          let news ← decodeRules b
          let (e', upd, err) := e.updateFilteredPoliciesSelf pr sec pt news fi vs
          some ({ st with enf := some { ep with base := e' }.syncCache, histOk := false }, s!"{showBool upd} E {if err then 1 else 0}", "-", true)
      | "addmf", [gt, f] =>
          let (ep', ok) := ep.addMatchingFunc gt f
          retP ep' (showBool ok) "-" true
      | "adddmf", [gt, f] =>
          let (ep', ok) := ep.addDomainMatchingFunc gt f
          retP ep' (showBool ok) "-" true
      | "setrm", [gt] =>
          let (ep', ok) := ep.resetRoleManager gt
          some ({ st with enf := some ep', histOk := stateOk ep'.base && st.histOk }, (if ok then "ok" else "err"), "-", true)
      | "setmodel", [] =>
          -- SetModel(same definitions): a fresh enforcer state, the adapter and the functions stay
          let b : Enf := { Enf.init e.md with fn := e.fn, evalTab := e.evalTab, customMatchers := e.customMatchers, adapter := e.adapter }
          some ({ st with enf := some { base := b }, histOk := true }, "#", "-", true)
      | "set", [flag, b] =>
          let v := b == "1"
          match flag with
          | "autosave" => ret { e with autoSave := v } "#" "-" true
          | "autobuild" => ret { e with autoBuild := v } "#" "-" true
          | "autonotify" => ret { e with autoNotify := v } "#" "-" true
          | "enabled" => ret { e with enabled := v } "#" "-" true
          | _ => none
      | "arm", ["adapter", k] => do
          let k ← k.toNat?
          ret { e with adapter := e.adapter.map (fun a => { a with calls := 0, failAt := k }) } "#" "-" true
      | "arm", ["load", k] => do
          let k ← k.toNat?
          ret { e with adapter := e.adapter.map (fun a => { a with loadFailAfter := some k }) } "#" "-" true
      | "obs", ["pol", sec, pt] =>
          match e.getStore sec pt with
          | some s => ret e (encodeRules s.policy) "-" true
          | none => ret e "err" "-" true
      | "obs", ["adapter"] =>
          ret e (match e.adapter with | some a => showLines a.lines | none => "none") "-" true
      | "obs", ["log"] =>
          ret e (match e.adapter with | some a => showLog a.log | none => "none") "-" true
      | "obs", ["notif"] => ret e (showLog e.notif) "-" true
      | "haslink", gt :: u :: r :: ds => do
          let u ← decodeTok u; let r ← decodeTok r; let ds ← decodeAll ds
          match ep.hasLink gt u r ds with
          | some b =>
              -- spec: reachability through the currently listed grouping rules
              let grouping := fun gt => ((e.g.lookup gt).map (·.policy)).getD []
              let wfG := e.md.g.all (fun (gt, count, _) => (grouping gt).all (fun r => count == r.length))
              let sp := showBool (specLink e.md grouping 10 gt (u :: r :: ds))
              let inHyp := wfG && hOk
              ret e (showBool b) (if inHyp then sp else if stateOk e && ep.prm.isEmpty then "?" ++ sp else "-") inHyp
          | none => ret e "err" "-" true
      | "mpos", [] =>
          -- is the model's matcher inside the hypothesis of the C17 link-monotonicity theorems?
          match e.md.m.lookup "m" with
          | some m => ret e (showBool m.positive) "-" true
          | none => ret e "err" "-" true
      | "iroles", gt :: u :: ds => do
          let u ← decodeTok u; let ds ← decodeAll ds
          if (ep.prm.lookup gt).isSome then ret e "none" "-" false else
          match e.rm.lookup gt with
          | none => ret e "err" "-" true
          | some rm =>
              match Rbac.implicitRoles rm u ds with
              | none => ret e "fuel" "-" true
              | some l =>
                  -- spec: the other names for which g() holds (C16.implicitRoles_iff_hasLink); inside
                  -- the hypothesis when every listed role is within the depth limit (C16.depthOk_iff)
                  let names := (rm.links.map (·.2.1)).eraseDups
                  let sp := names.filter (fun r => r != u && reachB rm.links (rm.dom ds) rm.maxLevel u r)
                  let depthOk := l.all (fun r => rm.hasLink u r ds)
                  ret e (showSet l) (showSet sp) depthOk
      | "iusersrole", r :: ds => do
          let r ← decodeTok r; let ds ← decodeAll ds
          if !ep.prm.isEmpty then ret e "none" "-" false else
          let parts := e.md.g.filterMap (fun (gt, _, _) => (e.rm.lookup gt).bind (fun rm => Rbac.implicitUsersForRole rm r ds))
          ret e (showSortedDup parts.flatten) "-" true
      | "iperms", pt :: gt :: u :: ds => do
          let u ← decodeTok u; let ds ← decodeAll ds
          if (ep.prm.lookup gt).isSome then ret e "none" "-" false else
          match e.rm.lookup gt, e.p.lookup pt, e.md.p.lookup pt with
          | some rm, some s, some toks =>
              ret e (showListing (Rbac.implicitPermissions s.policy rm (toks.idxOf? "dom") u ds)) "-" true
          | _, _, _ => ret e "err" "-" true
      | "igrant", u :: rest => do
          -- igrant <user> <request tail…>: does a permission listed for the user grant the request?
          -- (with a domain the first element of the tail is the domain)
          let u ← decodeTok u; let tail ← decodeAll rest
          if !ep.prm.isEmpty then ret e "none" "-" false else
          let dom := e.md == Rbac.rbacDomModel
          let ds := if dom then tail.take 1 else []
          match e.rm.lookup "g", e.p.lookup "p", e.md.p.lookup "p" with
          | some rm, some s, some toks =>
              match Rbac.implicitPermissions s.policy rm (toks.idxOf? "dom") u ds with
              | .err => ret e "err" "-" true
              | .ok perms =>
                  let granted := perms.any (fun perm => perm.tail == tail)
                  -- spec: the decision of enforce() (C16.enforce_iff_listed / _domain)
                  let inFamily := (e.md == Rbac.rbacModel && tail.length == 2) || (dom && tail.length == 3)
                  let arity := s.policy.all (fun r => r.length == toks.length)
                  let d24 := !s.policy.isEmpty || tail.getD (if dom then 1 else 0) "" != ""
                  let depthOk := match Rbac.implicitRoles rm u ds with
                    | some l => l.all (fun r => rm.hasLink u r ds)
                    | none => false
                  let sp := match pureEnforce e (Val.str u :: tail.map Val.str) with
                    | some b => showBool b
                    | none => "err"
                  ret e (showBool granted) sp (inFamily && arity && d24 && depthOk)
          | _, _, _ => ret e "err" "-" true
      | "iusersres", [res] => do
          let res ← decodeTok res
          if !ep.prm.isEmpty then ret e "none" "-" false else
          match e.rm.lookup "g", e.p.lookup "p", e.g.lookup "g", e.md.p.lookup "p" with
          | some rm, some s, some gs, some toks =>
              let roleNames := gs.policy.map (fun r => r.getD 1 "")
              match toks.idxOf? "sub", toks.idxOf? "obj" with
              | some si, some oi =>
                  match Rbac.implicitUsersForResource s.policy rm (fun x => roleNames.contains x) si oi res with
                  | some rows => ret e ("L " ++ (if rows.isEmpty then "-" else " | ".intercalate (sortStrs (rows.map encodeRule)))) "-" true
                  | none => ret e "fuel" "-" true
              | _, _ => ret e "none" "-" false
          | _, _, _, _ => ret e "err" "-" true
      | "iusers", perm => do
          let perm ← decodeAll perm
          if !ep.prm.isEmpty then ret e "none" "-" false else
          let cands := candidatesOf e
          -- the Enforce calls go through the enforcer (compiled-matcher cache included)
          let (ep', answers) := cands.foldl (fun (acc : EnfP × List (String × Option Bool)) u =>
            let (x, r) := acc.1.enforceStep {} none (Val.str u :: perm.map Val.str)
            (x, acc.2 ++ [(u, r.map (·.1))])) (ep, [])
          let res := Rbac.implicitUsersForPermission cands (fun u => (answers.lookup u).bind id)
          -- Go stops at the first error: the enforcer state is the one after the calls made so far;
          -- only the matcher cache can differ and every call uses the same cache key
          match res with
          | .ok l => retP ep' ("L " ++ showSet l) "-" true
          | .err => retP ep' "err" "-" true
      | "roles", gt :: u :: ds => do
          let u ← decodeTok u; let ds ← decodeAll ds
          match ep.getRoles gt u ds with
          | some l => ret e (showSet l) "-" true
          | none => ret e "err" "-" true
      | "users", gt :: r :: ds => do
          let r ← decodeTok r; let ds ← decodeAll ds
          match ep.getUsers gt r ds with
          | some l => ret e (showSet l) "-" true
          | none => ret e "err" "-" true
      | _, _ => none
  | [] => none
where
  splitTwo' (ts : List String) : Option (List String × List String) :=
    match splitAt "=" ts with
    | [a, b] => some (a, b)
    | _ => none
  splitTwo (sep : String) (ts : List String) : Option (List String × List String) :=
    match splitAt sep ts with
    | [a, b] => some (a, b)
    | _ => none

end Casbin.Driver
