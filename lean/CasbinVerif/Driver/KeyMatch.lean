import CasbinVerif.Driver.Proto
import CasbinVerif.Spec.KeyMatch
/-
  Driver ops for the built-in matchers (C09):
    km <fn> <key1> <key2> [var]     fn ∈ keyMatch keyGet keyMatch2 keyMatch3 keyMatch4 keyMatch5 keyGet2 keyGet3
    kmp <fn> <style> <wild:0|1> <path> [var] segs…   a pattern given structurally (seg = l:<enc> | p:<enc>):
                                      the model gets the rendered text, the spec the structure
    ip <ip1> <ip2>
  Observations: true | false | s:<enc> | none (outside the modelled fragment / Go panics)
-/
namespace Casbin.Driver
open Casbin.Proto Casbin.KM

def showOB : Option Bool → String
  | some b => showBool b
  | none => "none"

def showOS : Option (List Char) → String
  | some s => "s:" ++ encodeTok (String.ofList s)
  | none => "none"

def kmCall (fn : String) (k1 k2 : List Char) (var : Option String) : Option String :=
  match fn, var with
  | "keyMatch", none => some (showBool (keyMatch k1 k2))
  | "keyGet", none => some (showOS (some (keyGet k1 k2)))
  | "keyMatch2", none => some (showOB (keyMatch2 k1 k2))
  | "keyMatch3", none => some (showOB (keyMatch3 k1 k2))
  | "keyMatch4", none => some (showOB (keyMatch4 k1 k2))
  | "keyMatch5", none => some (showOB (keyMatch5 k1 k2))
  | "keyGet2", some v => some (showOS (keyGet2 k1 k2 v))
  | "keyGet3", some v => some (showOS (keyGet3 k1 k2 v))
  | _, _ => none

def parseSeg (t : String) : Option PSeg :=
  if t.startsWith "l:" then (decodeTok (t.drop 2).toString).map (fun s => PSeg.lit s.toList)
  else if t.startsWith "p:" then (decodeTok (t.drop 2).toString).map (fun s => PSeg.ph s.toList)
  else none

def kmOp : List String → Option (String × String × Bool)
  | ["km", fn, a, b] => do
      let a ← decodeTok a; let b ← decodeTok b
      let m ← kmCall fn a.toList b.toList none
      pure (m, "-", true)
  | ["km", fn, a, b, v] => do
      let a ← decodeTok a; let b ← decodeTok b; let v ← decodeTok v
      let m ← kmCall fn a.toList b.toList (some v)
      pure (m, "-", true)
  | "kmp" :: fn :: style :: wild :: path :: rest => do
      let path ← decodeTok path
      let st ← (match style with | "colon" => some Style.colon | "brace" => some Style.brace | _ => none)
      let needsVar := fn == "keyGet2" || fn == "keyGet3"
      let (var, segToks) ← (if needsVar then
          match rest with
          | v :: more => (decodeTok v).map (fun v => (some v, more))
          | [] => none
        else some (none, rest))
      let segs ← segToks.mapM parseSeg
      let p : Pat := { segs := segs, wild := wild == "1" }
      let text := render st p
      let m ← kmCall fn path.toList text var
      let wf := PatWF p
      let spec : String := match fn, var with
        | "keyMatch2", _ | "keyMatch3", _ => showBool (segMatch p path.toList)
        | "keyMatch5", _ => showBool (segMatch p (path.toList.takeWhile (· != '?')))
        | "keyMatch4", _ => showBool (segMatch4 p path.toList)
        | _, some v => showOS (some (segGet p path.toList v.toList))
        | _, _ => "-"
      pure (m, spec, wf)
  | ["ip", a, b] => do
      let a ← decodeTok a; let b ← decodeTok b
      -- dotted quads first, then hex groups
      let m := match ipMatch a.toList b.toList with
        | some r => some r
        | none => ipMatch6 a.toList b.toList
      -- spec: CIDR arithmetic on independently parsed numbers
      let spec : String :=
        match splitOnChar '/' b.toList with
        | [net, len] =>
            match parseIPv4 a.toList, parseIPv4 net, parsePrefixLen len with
            | some x, some n, some l => showBool (inBlock x n l)
            | _, _, _ =>
                match parseIPv6 a.toList, parseIPv6 net, parsePrefixLen6 len with
                | some x, some n, some l => showBool (inBlock6 x n l)
                | _, _, _ => "-"
        | _ => "-"
      pure (showOB m, spec, spec != "-")
  | _ => none

end Casbin.Driver
