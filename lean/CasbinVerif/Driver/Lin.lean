import CasbinVerif.Driver.Enforcer
import CasbinVerif.Model.Lin
/-
  Driver ops for recorded concurrent histories (C13).  `case lin` starts like `case enforcer`
  (the same definition / adapter / init lines build the sequential specification's initial
  state); then one `call` line per completed call, and `check` decides linearizability of the
  history with the enforcer model as specification (Lin.check; Properties/C13.lean:
  check_iff_linearizable).

    call <id> <inv> <res> <after|-> <obs token> <op tokens…>
-/
namespace Casbin.Driver
open Casbin.Proto Casbin.Lin

structure LinSt where
  enf : EnfSt := {}
  calls : List (Call (List String)) := []

/-- the sequential specification: one line of the enforcer protocol -/
def linStep (st : EnfSt) (ts : List String) : EnfSt × String :=
  match enfOp st ts with
  | some (st', m, _, _) => (st', m)
  | none => (st, "bad-op")

def linOp (st : LinSt) (ts : List String) : Option (LinSt × String × String × Bool) :=
  match ts with
  | ["case", "lin"] => some ({}, "#", "-", true)
  | "call" :: id :: inv :: res :: aft :: obs :: op => do
      let id ← id.toNat?; let inv ← inv.toNat?; let res ← res.toNat?
      let after ← (if aft == "-" then some none else aft.toNat?.map some)
      let obs ← decodeTok obs
      some ({ st with calls := st.calls ++ [{ id := id, inv := inv, res := res, op := op, obs := obs, after := after }] }, "#", "-", true)
  | ["check"] =>
      let v := if check linStep st.enf st.calls then "linearizable" else "not-linearizable"
      some ({ st with calls := [] }, v, v, true)
  | ["reset"] => some ({ st with calls := [] }, "#", "-", true)
  | _ =>
      -- definition / adapter / init lines and sequential set-up ops go to the enforcer driver
      match enfOp st.enf (if ts == ["case", "lin"] then ["case", "enforcer"] else ts) with
      | some (e', m, s, wf) => some ({ st with enf := e' }, m, s, wf)
      | none => none

end Casbin.Driver
