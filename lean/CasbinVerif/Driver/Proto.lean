import CasbinVerif.Basic
/-
  Line protocol helpers shared by the driver: percent-decoding of tokens, rule lists, printing.
  One operation per line, tokens separated by one blank, every token percent-encoded
  (`~` is the empty string, `|` separates rules in a rule list).
-/
namespace Casbin.Proto

def hexVal (c : Char) : Option Nat :=
  if '0' ≤ c ∧ c ≤ '9' then some (c.toNat - '0'.toNat)
  else if 'a' ≤ c ∧ c ≤ 'f' then some (c.toNat - 'a'.toNat + 10)
  else if 'A' ≤ c ∧ c ≤ 'F' then some (c.toNat - 'A'.toNat + 10)
  else none

/-- decode the characters of one token into bytes -/
def decodeBytes : List Char → ByteArray → Option ByteArray
  | [], acc => some acc
  | '%' :: a :: b :: rest, acc =>
      match hexVal a, hexVal b with
      | some x, some y => decodeBytes rest (acc.push (UInt8.ofNat (x * 16 + y)))
      | _, _ => none
  | '%' :: _, _ => none
  | c :: rest, acc => decodeBytes rest (c.toString.toUTF8.foldl (fun a b => a.push b) acc)

/-- decode one token; `none` if malformed or not valid UTF-8 -/
def decodeTok (t : String) : Option String :=
  if t == "~" then some "" else
  match decodeBytes t.toList ByteArray.empty with
  | some bs => String.fromUTF8? bs
  | none => none

def hexDigit (n : Nat) : Char :=
  if n < 10 then Char.ofNat ('0'.toNat + n) else Char.ofNat ('A'.toNat + n - 10)

def safeChar (c : Char) : Bool :=
  c.isAlphanum || c == '_' || c == '.' || c == '/' || c == ':' || c == '*' || c == '-'

/-- percent-encode a string as one token (same function as the Go side's `enc`) -/
def encodeTok (s : String) : String :=
  if s.isEmpty then "~" else
  s.toUTF8.foldl (fun acc b =>
    let c := Char.ofNat b.toNat
    if b.toNat < 128 && safeChar c then acc.push c
    else (acc.push '%').push (hexDigit (b.toNat / 16)) |>.push (hexDigit (b.toNat % 16))) ""

/-- split a token list at the separator `sep` -/
def splitAt (sep : String) (ts : List String) : List (List String) :=
  let rec go : List String → List String → List (List String) → List (List String)
    | [], cur, acc => (cur.reverse :: acc).reverse
    | t :: rest, cur, acc => if t == sep then go rest [] (cur.reverse :: acc) else go rest (t :: cur) acc
  go ts [] []

def decodeAll (ts : List String) : Option (List String) := ts.mapM decodeTok

/-- a rule list `f f f | f f f | ...`; the single token `-` is the empty list -/
def decodeRules (ts : List String) : Option (List Rule) :=
  if ts == ["-"] then some [] else (splitAt "|" ts).mapM decodeAll

def encodeRule (r : Rule) : String := " ".intercalate (r.map encodeTok)

def encodeRules (rs : List Rule) : String :=
  if rs.isEmpty then "-" else " | ".intercalate (rs.map encodeRule)

def showBool (b : Bool) : String := if b then "true" else "false"

def tokens (line : String) : List String :=
  (line.splitOn " ").filter (fun t => !t.isEmpty)

end Casbin.Proto
