import CasbinVerif.Driver.Proto
import CasbinVerif.Model.Enforcer
import CasbinVerif.Spec.Store
/-
  Driver ops for the policy store (C06, C07):
    case store <arity> <prioIndex|->        start a fresh store
    add f…            adds <ex:0|1> rules    rm f…        rms rules
    upd old | new     upds olds || news      rmf <fi> vals…
    has f…            getf <fi> vals…
  Mutating ops answer  "<true|false|err|panic> P <rules> X <key=i …>"; the spec answers
  "<bool> P <rules> X ..." (the index is not part of the specification).
-/
namespace Casbin.Driver

open Casbin.Proto

structure StoreSt where
  arity : Nat := 3
  prio : Option Nat := none
  store : Store := Store.empty
  spec : List Rule := []
  /-- every step so far was inside WF06 (and the priority branch is off) -/
  wf : Bool := true
  /-- the reference list is still a meaningful oracle (plain rules only, never a rule twice): used
      outside the theorem's hypothesis only to search for a failing input (`?` observations) -/
  specOk : Bool := true
  /-- the index points past the end of the list (only reachable through finding D12: an update
      onto a listed rule followed by priority shifts of the two equal rules).  Go then panics with a
      slice-bounds error in places the model's total list functions do not mirror: the rest of the
      case is outside the modelled fragment (`none`). -/
  dead : Bool := false

def showIndex (ix : Index) : String :=
  let entries := ix.map (fun (k, v) => (encodeTok k, v))
  let sorted := entries.mergeSort (fun a b => a.1 ≤ b.1)
  if sorted.isEmpty then "-" else " ".intercalate (sorted.map (fun (k, v) => s!"{k}={v}"))

def showStore (res : String) (s : Store) : String :=
  s!"{res} P {encodeRules s.policy} X {showIndex s.index}"

def showSpec (b : Bool) (l : List Rule) : String := s!"{showBool b} P {encodeRules l} X ..."

/-- apply one mutating op to model and spec -/
def storeMut (st : StoreSt) (op : StoreOp) : StoreSt × String × String × Bool :=
  let wfNow := st.wf && st.prio.isNone && WF06 st.arity st.spec op
  let (specL, specB) := SpecStore.apply st.spec op
  let modelRes : Option (Store × Bool) :=
    match op with
    | .add r => some (Mgmt.add st.prio st.store r)
    | .addMany ex rs => some (Mgmt.addMany st.prio ex st.store rs)
    -- the Enforcer API asks `updatable` first (repair of D12 / D18); under WF06 it always says yes
    | .update o n => if Enf.updatable st.store [o] [n] then Mgmt.apply st.store op else some (st.store, false)
    | .updateMany os ns =>
        if os.length != ns.length then Mgmt.apply st.store op
        else if Enf.updatable st.store os ns then Mgmt.apply st.store op else some (st.store, false)
    | _ => Mgmt.apply st.store op
  let searchOk := st.specOk && st.prio.isNone && op.rules.all (plainRule st.arity) &&
    specL.eraseDups.length == specL.length &&
    (match op with | .removeFiltered fi vals => !vals.isEmpty && fi + vals.length ≤ st.arity | .updateMany os ns => os.length == ns.length | _ => true)
  match modelRes with
  | some (s', b) =>
      ({ st with store := s', spec := specL, wf := wfNow, specOk := searchOk },
        showStore (showBool b) s',
        (if wfNow then showSpec specB specL else if searchOk then "?" ++ showSpec specB specL else "-"), wfNow)
  | none =>
      -- Go panics (out-of-range field) or reports the length error; state unchanged in the model
      let tag := match op with | .updateMany _ _ => "err" | _ => "panic"
      ({ st with wf := false, specOk := false }, showStore tag st.store, "-", false)

def splitTwo (sep : String) (ts : List String) : Option (List String × List String) :=
  match splitAt sep ts with
  | [a, b] => some (a, b)
  | _ => none

def indexOutOfRange (s : Store) : Bool := s.index.any (fun kv => kv.2 ≥ s.policy.length)

def storeOpLive (st : StoreSt) : List String → Option (StoreSt × String × String × Bool)
  | ["case", "store", n, prio] => do
      let n ← n.toNat?
      let p ← (if prio == "-" then some none else prio.toNat?.map some)
      pure ({ arity := n, prio := p }, "#", "-", true)
  | "add" :: fs => do
      let r ← decodeAll fs
      pure (storeMut st (.add r))
  | "adds" :: ex :: rs => do
      let rules ← decodeRules rs
      pure (storeMut st (.addMany (ex == "1") rules))
  | "rm" :: fs => do
      let r ← decodeAll fs
      pure (storeMut st (.remove r))
  | "rms" :: rs => do
      let rules ← decodeRules rs
      pure (storeMut st (.removeMany rules))
  | "upd" :: rest => do
      let (a, b) ← splitTwo "|" rest
      let old ← decodeAll a
      let new ← decodeAll b
      pure (storeMut st (.update old new))
  | "upds" :: rest => do
      let (a, b) ← splitTwo "||" rest
      let olds ← decodeRules a
      let news ← decodeRules b
      pure (storeMut st (.updateMany olds news))
  | "rmf" :: fi :: vals => do
      let fi ← fi.toNat?
      let vs ← decodeAll vals
      pure (storeMut st (.removeFiltered fi vs))
  | "has" :: fs => do
      let r ← decodeAll fs
      let inWF := st.wf && plainRule st.arity r
      pure (st, showBool (st.store.has r), showBool (st.spec.contains r), inWF)
  | "getf" :: fi :: vals => do
      let fi ← fi.toNat?
      let vs ← decodeAll vals
      let inWF := st.wf && fi + vs.length ≤ st.arity
      match st.store.getFiltered fi vs with
      | some rs => pure (st, encodeRules rs, encodeRules (st.spec.filter (filterMatches fi vs)), inWF)
      | none => pure (st, "panic", "-", false)
  | _ => none

def storeOp (st : StoreSt) (ts : List String) : Option (StoreSt × String × String × Bool) :=
  match ts with
  | "case" :: _ => storeOpLive st ts
  | _ =>
    if st.dead then some (st, "none", "-", false)
    else
      match storeOpLive st ts with
      | some (st', m, s, wf) => some ({ st' with dead := indexOutOfRange st'.store }, m, s, wf)
      | none => none

end Casbin.Driver
