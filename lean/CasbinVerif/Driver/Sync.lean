import CasbinVerif.Driver.Proto
import CasbinVerif.Spec.SyncExpected
import CasbinVerif.Generated.Facts
/-
  Driver ops for the locking skeleton (C12): what the extracted lock table says about a wrapper,
  to be compared with what the harness observes on the real SyncedEnforcer.
-/
namespace Casbin.Driver
open Casbin.Sync

/-- the strongest mode a wrapper acquires -/
def modeOf (w : Wrapper) : String :=
  if w.body.contains (.acq .W) then "W" else if w.body.contains (.acq .R) then "R" else "none"

def syncOp (ts : List String) : Option (String × String × Bool) :=
  match ts with
  | ["case", "sync"] => some ("#", "-", true)
  | ["wrapper", name] =>
      match Facts.lockTable.find? (fun w => w.name == name) with
      | some w => some ("mode=" ++ modeOf w, "-", true)
      | none => some ("mode=unknown", "-", true)
  | _ => none

end Casbin.Driver
