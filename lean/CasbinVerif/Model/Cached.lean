import CasbinVerif.Basic
/-
  Mirror of `enforcer_cached.go` / `enforcer_cached_synced.go` and `persist/cache/default-cache.go`
  over an abstract underlying enforcer: every `Enforce` event carries the answer the embedded
  enforcer gives at that moment.  Strings are byte strings (`List UInt8`), as in Go, because the
  cache key contains byte lengths.  `Entry.q` and `Entry.born` are ghost fields: they record which
  request tuple and which event created the entry and are never used to compute an answer.
-/
namespace Casbin.Cache

abbrev Bytes := List UInt8

/-- a parameter of Enforce / of a policy call: string, `CacheableParam` (its key), anything else -/
inductive Param | str (b : Bytes) | cacheable (key : Bytes) | other
deriving DecidableEq, Repr, Inhabited

def ofStr (s : String) : Bytes := s.toUTF8.toList

/-- `strconv.Itoa` for a length -/
def digits (n : Nat) : Bytes := (Nat.toDigits 10 n).map (fun c => UInt8.ofNat c.toNat)

def colon : UInt8 := 58      -- ':'
def dollar : UInt8 := 36     -- '$'
def atSign : UInt8 := 64     -- the at sign

/-- one part of the key: `<len>:<bytes>$$`, cacheable parameters are marked with `@` -/
def part (tag : List UInt8) (b : Bytes) : Bytes := tag ++ digits b.length ++ [colon] ++ b ++ [dollar, dollar]

/-- `GetCacheKey`: `none` = some parameter is not cacheable -/
def cacheKey : List Param → Option Bytes
  | [] => some []
  | .str b :: ps => (cacheKey ps).map (part [] b ++ ·)
  | .cacheable k :: ps => (cacheKey ps).map (part [atSign] k ++ ·)
  | .other :: _ => none

structure Entry where
  key : Bytes
  value : Bool
  ttl : Nat
  expiresAt : Nat
  q : List Param        -- ghost
  born : Nat            -- ghost: index of the creating event
deriving Repr

structure CE where
  synced : Bool
  enabled : Bool := true
  ttl : Nat := 0
  entries : List Entry := []
  now : Nat := 0
  count : Nat := 0      -- number of events processed (ghost clock for `born`)
deriving Repr

inductive Ev
  | enforce (q : List Param) (under : Option Bool)   -- `none` = the underlying enforcer reports an error
  | invalidate | load | clear
  | remove (rule : List Param)
  | removes (rules : List (List Param))
  | add (rule : List Param)
  | adds (rules : List (List Param))
  | enable (b : Bool)
  | setTTL (n : Nat)
  | tick (n : Nat)
deriving Repr

def delKey (c : CE) (k : Bytes) : CE := { c with entries := c.entries.filter (fun e => e.key != k) }

/-- `checkOneAndRemoveCache` / the body of `CachedEnforcer.RemovePolicy` -/
def invalidateRule (c : CE) (rule : List Param) : CE :=
  match cacheKey rule with
  | some k => delKey c k
  | none => c

/-- one call; the second component is what `Enforce` returns (`some none` = an error) -/
def step (c : CE) (ev : Ev) : CE × Option (Option Bool) :=
  let c := { c with count := c.count + 1 }
  match ev with
  | .enforce q under =>
      if !c.enabled then (c, some under)
      else match cacheKey q with
        | none => (c, some under)
        | some k =>
            match c.entries.find? (fun e => e.key == k) with
            | some e =>
                if e.ttl > 0 && c.now > e.expiresAt then
                  -- expired: deleted, then handled as a miss
                  let c := delKey c k
                  match under with
                  | none => (c, some none)
                  | some b => ({ c with entries := c.entries ++ [⟨k, b, c.ttl, c.now + c.ttl, q, c.count - 1⟩] }, some (some b))
                else (c, some (some e.value))
            | none =>
                match under with
                | none => (c, some none)
                | some b => ({ c with entries := c.entries ++ [⟨k, b, c.ttl, c.now + c.ttl, q, c.count - 1⟩] }, some (some b))
  | .invalidate | .load | .clear => ({ c with entries := [] }, none)
  | .remove rule => (invalidateRule c rule, none)
  | .removes rules => (rules.foldl invalidateRule c, none)
  | .add rule => (if c.synced then invalidateRule c rule else c, none)
  | .adds rules => (if c.synced then rules.foldl invalidateRule c else c, none)
  | .enable b => ({ c with enabled := b }, none)
  | .setTTL n => ({ c with ttl := n }, none)
  | .tick n => ({ c with now := c.now + n }, none)

/-- run a history, collecting what every call returned -/
def run (c : CE) : List Ev → CE × List (Option (Option Bool))
  | [] => (c, [])
  | ev :: evs =>
      let (c', o) := step c ev
      let (c'', os) := run c' evs
      (c'', o :: os)

end Casbin.Cache
