import CasbinVerif.Model.RoleGraph
/-
  The conditional role managers of rbac/default-role-manager (role definitions with link-condition
  parameters, `g = _, _, (_, _)` and `g = _, _, _, (_, _)`), without matching functions.

  * `CRM` is `ConditionalRoleManager`: the links of a plain manager; per (user, role, domain) key the
    parameters set by the last `Set(Domain)LinkConditionFuncParams`; the keys for which a condition
    function has been registered.  The registered function is a parameter `fn` of the queries (the
    driver and the harness use one fixed function).
  * `CDM` is `ConditionalDomainManager`: one `CRM` per domain, created by the first AddLink /
    DeleteLink in the domain.  Registering a function or setting parameters ranges over the managers
    that exist at that moment — exactly as the Go code does.

  What the Go code does and the model keeps: `hasLinkHelper` passes `domains...` to the first round
  only; the recursive call drops it, so from the second hop on the condition looked up is the one
  registered for the default domain "".  `Clear` drops links, parameters and registered functions
  alike (they live in the role objects).
-/
namespace Casbin

/-- user, role, condition domain (`linkConditionFuncKey` under the user's role object) -/
abbrev CKey := String × String × String

structure CRM where
  links : List (String × String) := []
  params : List (CKey × List String) := []
  conds : List CKey := []
  maxLevel : Nat := 10
deriving Repr, Inhabited

namespace CRM

/-- `AddLink` -/
def addLink (c : CRM) (u r : String) : CRM :=
  if c.links.contains (u, r) then c else { c with links := c.links ++ [(u, r)] }

/-- `DeleteLink`: the role objects, their parameters and functions stay -/
def deleteLink (c : CRM) (u r : String) : CRM :=
  { c with links := c.links.filter (· != (u, r)) }

/-- `SetDomainLinkConditionFuncParams` (sync.Map store: the last value wins) -/
def setParams (c : CRM) (k : CKey) (ps : List String) : CRM :=
  { c with params := (k, ps) :: c.params.filter (fun e => e.1 != k) }

/-- `AddDomainLinkConditionFunc` -/
def addCond (c : CRM) (k : CKey) : CRM :=
  if c.conds.contains k then c else { c with conds := k :: c.conds }

def paramsOf (c : CRM) (k : CKey) : List String :=
  ((c.params.find? (fun e => e.1 == k)).map (·.2)).getD []

/-- `getNextRoles`: the link passes when no function is registered for it under condition domain
    `d`, or the function accepts the stored parameters -/
def pass (fn : List String → Bool) (c : CRM) (d : String) (l : String × String) : Bool :=
  !c.conds.contains (l.1, l.2, d) || fn (c.paramsOf (l.1, l.2, d))

def succs (fn : List String → Bool) (c : CRM) (d : String) (u : String) : List String :=
  (c.links.filter (fun l => l.1 == u && pass fn c d l)).map (·.2)

/-- `hasLinkHelper`: round k inspects the names at distance k; the first round looks conditions up
    under `d`, every later round under "" (the recursive call drops `domains...`) -/
def bfs (fn : List String → Bool) (c : CRM) (target : String) : String → List String → Nat → Bool
  | _, _, 0 => false
  | d, fr, n + 1 =>
      if fr.isEmpty then false
      else if fr.contains target then true
      else bfs fn c target "" (fr.flatMap (succs fn c d)) n

/-- `HasLink(name1, name2, domains...)` -/
def hasLink (fn : List String → Bool) (c : CRM) (u r : String) (domains : List String) : Bool :=
  if u == r then true else bfs fn c r (domains.headD "") [u] (c.maxLevel + 1)

end CRM

structure CDM where
  mgrs : List (String × CRM) := []
  maxLevel : Nat := 10
deriving Repr, Inhabited

namespace CDM

/-- `getConditionalRoleManager(domain, false)`: the stored manager or a fresh empty one -/
def get (m : CDM) (d : String) : CRM :=
  ((m.mgrs.find? (fun e => e.1 == d)).map (·.2)).getD { maxLevel := m.maxLevel }

def set (m : CDM) (d : String) (c : CRM) : CDM :=
  if m.mgrs.any (fun e => e.1 == d) then
    { m with mgrs := m.mgrs.map (fun e => if e.1 == d then (d, c) else e) }
  else { m with mgrs := m.mgrs ++ [(d, c)] }

def addLink (m : CDM) (u r : String) (domains : List String) : CDM :=
  let d := domains.headD ""
  m.set d ((m.get d).addLink u r)

/-- `DeleteLink` creates (and stores) the domain's manager when it does not exist -/
def deleteLink (m : CDM) (u r : String) (domains : List String) : CDM :=
  let d := domains.headD ""
  m.set d ((m.get d).deleteLink u r)

/-- `SetDomainLinkConditionFuncParams`: every manager that exists now -/
def setParams (m : CDM) (k : CKey) (ps : List String) : CDM :=
  { m with mgrs := m.mgrs.map (fun e => (e.1, e.2.setParams k ps)) }

/-- `AddDomainLinkConditionFunc`: every manager that exists now -/
def addCond (m : CDM) (k : CKey) : CDM :=
  { m with mgrs := m.mgrs.map (fun e => (e.1, e.2.addCond k)) }

def hasLink (fn : List String → Bool) (m : CDM) (u r : String) (domains : List String) : Bool :=
  (m.get (domains.headD "")).hasLink fn u r domains

def clear (m : CDM) : CDM := { m with mgrs := [] }

end CDM

/-- the function the driver and the harness register: the first parameter is "on" -/
def condOn (ps : List String) : Bool := ps.head? == some "on"

end Casbin
