import CasbinVerif.Basic
/-
  Mirror of `config/config.go: parseBuffer / write / AddConfig / get` and of
  `model/model.go: loadModelFromConfig / loadSection / AddDef`, `util.EscapeAssertion`,
  `util.RemoveComments`, on `List Char` (Go works on bytes; every character the code looks for is
  ASCII, so the two coincide on valid UTF-8).  After the repair of the long-line defect
  `ReadLine` fragments are re-assembled, so a line is simply the text between two '\n'.
-/
namespace Casbin.Cfg

/-- `unicode.IsSpace` (what `bytes.TrimSpace` / `strings.TrimSpace` trim) -/
def isSpace (c : Char) : Bool :=
  c == ' ' || c == '\t' || c == '\n' || c == '\x0b' || c == '\x0c' || c == '\r' ||
  c.toNat == 0x85 || c.toNat == 0xA0 || c.toNat == 0x1680 || (0x2000 ≤ c.toNat && c.toNat ≤ 0x200A) ||
  c.toNat == 0x2028 || c.toNat == 0x2029 || c.toNat == 0x202F || c.toNat == 0x205F || c.toNat == 0x3000

def trimLeft (s : List Char) : List Char := s.dropWhile isSpace
def trimRight (s : List Char) : List Char := (s.reverse.dropWhile isSpace).reverse
def trim (s : List Char) : List Char := trimRight (trimLeft s)

/-- split at every '\n' (the last piece has no terminator) -/
def splitLines : List Char → List (List Char)
  | [] => [[]]
  | c :: cs =>
      match splitLines cs with
      | [] => [[]]
      | h :: t => if c == '\n' then [] :: h :: t else (c :: h) :: t

/-- the lines `bufio.Reader.ReadLine` delivers: no final empty line after a trailing '\n' -/
def readLines (text : List Char) : List (List Char) :=
  let ls := splitLines text
  match ls.reverse with
  | [] :: rest => rest.reverse
  | _ => ls

abbrev Key := List Char × List Char          -- (section, option)

structure St where
  sect : List Char := []
  buffer : List Char := []
  canWrite : Bool := false
  data : List (Key × List Char) := []        -- in write order; a later entry for a key overrides
deriving Repr, Inhabited

/-- `bytes.SplitN(b, "=", 2)` -/
def splitFirstEq : List Char → Option (List Char × List Char)
  | [] => none
  | c :: cs => if c == '=' then some ([], cs) else (splitFirstEq cs).map (fun (a, b) => (c :: a, b))

def defaultSection : List Char := "default".toList

/-- `Config.write`: `none` = "parse the content error" -/
def write (st : St) : Option St :=
  if st.buffer.isEmpty then some st
  else match splitFirstEq st.buffer with
    | none => none
    | some (o, v) =>
        let sec := if st.sect.isEmpty then defaultSection else st.sect
        some { st with data := st.data ++ [((sec, trim o), trim v)], buffer := [] }

def isCommentStart (c : Char) : Bool := c == '#' || c == ';'

/-- one iteration of the loop of `parseBuffer` for a line that was read -/
def stepLine (st : St) (raw : List Char) : Option St := do
  let st ← (if st.canWrite then (write st).map (fun s => { s with canWrite := false }) else some st)
  let line := trim raw
  match line with
  | [] => some { st with canWrite := true }
  | c :: _ =>
    if isCommentStart c then some { st with canWrite := true }
    else if c == '[' && line.getLast? == some ']' && line.length ≥ 2 then
      let st ← (if !st.buffer.isEmpty then (write st).map (fun s => { s with canWrite := false }) else some st)
      some { st with sect := (line.drop 1).dropLast }
    else
      let (p, cw) : List Char × Bool :=
        if line.getLast? == some '\\' then (trim line.dropLast ++ [' '], st.canWrite) else (line, true)
      let kept := p.takeWhile (fun x => !isCommentStart x)
      some { st with buffer := st.buffer ++ kept, canWrite := cw }

/-- the iteration that meets EOF: the pending write at the top of the loop, then the forced write -/
def finish (st : St) : Option St := do
  let st ← (if st.canWrite then (write st).map (fun s => { s with canWrite := false }) else some st)
  if !st.buffer.isEmpty then write st else some st

def parseLines (st : St) : List (List Char) → Option St
  | [] => finish st
  | l :: ls => match stepLine st l with
    | none => none
    | some st' => parseLines st' ls

/-- `NewConfigFromText`: the written entries in order, or `none` for the parse error -/
def parseConfig (text : List Char) : Option (List (Key × List Char)) :=
  (parseLines {} (readLines text)).map (·.data)

/-- `Config.get`: the last value written for the key ("" if none) -/
def lookup (data : List (Key × List Char)) (k : Key) : List Char :=
  match (data.reverse.find? (fun e => e.1 == k)) with
  | some e => e.2
  | none => []

/-! ### from the configuration to the model's assertions -/

def isWordChar (c : Char) : Bool := c.isAlphanum || c == '_'

/-- `util.EscapeAssertion`: `\b((r|p)[0-9]*)\.` with the dot replaced by `_`.
    `prevWord` = the previous character is a word character (no `\b` here). -/
def escapeGo : List Char → Bool → Nat → List Char
  | [], _, _ => []
  | _, _, 0 => []
  | c :: cs, prevWord, n + 1 =>
      if !prevWord && (c == 'r' || c == 'p') then
        let digits := cs.takeWhile Char.isDigit
        let after := cs.dropWhile Char.isDigit
        match after with
        | '.' :: rest => c :: digits ++ '_' :: escapeGo rest false n
        | _ => c :: escapeGo cs true n
      else c :: escapeGo cs (isWordChar c) n

def escapeAssertion (s : List Char) : List Char := escapeGo s false (s.length + 1)

/-- `util.RemoveComments` -/
def removeComments (s : List Char) : List Char :=
  if s.contains '#' then trim (s.takeWhile (· != '#')) else s

def splitComma : List Char → List (List Char)
  | [] => [[]]
  | c :: cs =>
      match splitComma cs with
      | [] => [[]]
      | h :: t => if c == ',' then [] :: h :: t else (c :: h) :: t

/-- does `needle` occur in `s`? -/
def containsSub (needle : List Char) : List Char → Bool
  | [] => needle.isEmpty
  | c :: cs => needle.isPrefixOf (c :: cs) || containsSub needle cs

/-- `getParamsToken`: the inside of the first, shortest `( … )`, split at commas -/
def paramsTokens (value : List Char) : List (List Char) :=
  let afterOpen := (value.dropWhile (· != '(')).drop 1
  if !value.contains '(' || !afterOpen.contains ')' then []
  else splitComma (afterOpen.takeWhile (· != ')'))

structure Assertion where
  key : List Char
  value : List Char
  tokens : List (List Char)
  params : List (List Char)
deriving Repr, DecidableEq

/-- `Model.AddDef` (`none` = the empty value that ends a section's enumeration) -/
def addDef (sec : Char) (key value : List Char) : Option Assertion :=
  if value.isEmpty then none
  else if sec == 'r' || sec == 'p' then
    some { key := key, value := value, tokens := (splitComma value).map (fun t => key ++ '_' :: trim t), params := [] }
  else if sec == 'g' then
    let ps := paramsTokens value
    let ts := splitComma value
    some { key := key, value := value, tokens := ts.take (ts.length - ps.length), params := ps }
  else
    let v := removeComments (escapeAssertion value)
    let v := if sec == 'm' && containsSub "in".toList v then v.map (fun c => if c == '[' then '(' else if c == ']' then ')' else c) else v
    some { key := key, value := v, tokens := [], params := [] }

def sectionName : Char → List Char
  | 'r' => "request_definition".toList
  | 'p' => "policy_definition".toList
  | 'g' => "role_definition".toList
  | 'e' => "policy_effect".toList
  | _ => "matchers".toList

/-- `loadSection`: `r, r2, r3, …` until a key has no value -/
def loadSection (data : List (Key × List Char)) (sec : Char) : Nat → Nat → List Assertion
  | _, 0 => []
  | i, fuel + 1 =>
      let key := if i == 1 then [sec] else sec :: (toString i).toList
      match addDef sec key (lookup data (sectionName sec, key)) with
      | none => []
      | some a => a :: loadSection data sec (i + 1) fuel

/-- `NewModelFromString`: the assertions of the five sections, or `none` (parse error, or a required
    section r, p, e, m without any definition) -/
def loadModel (text : List Char) : Option (List (Char × List Assertion)) :=
  match parseConfig text with
  | none => none
  | some data =>
      let secs := ['r', 'p', 'g', 'e', 'm'].map (fun s => (s, loadSection data s 1 (data.length + 1)))
      if secs.any (fun (s, as) => s != 'g' && as.isEmpty) then none else some secs

end Casbin.Cfg
