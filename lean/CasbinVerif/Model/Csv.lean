import CasbinVerif.Model.Config
/-
  Mirror of what `persist.LoadPolicyLine` gets from Go's `encoding/csv` for ONE line with
  `Comma = ','`, `Comment = '#'`, `TrimLeadingSpace = true`, strict quotes (LazyQuotes off), and of
  the line splitting of the bundled adapters (`bufio.Scanner` + `strings.TrimSpace` in the file
  adapter, `strings.Split(text, "\n")` in the string adapter).
-/
namespace Casbin.Csv
open Casbin.Cfg (isSpace trim)

inductive Err | bareQuote | quote | eof
deriving DecidableEq, Repr

/-- a quoted field after its opening quote: (content, rest after the closing quote) -/
def quoted : List Char → List Char → Option (List Char × List Char)
  | [], _ => none                                        -- no closing quote on this line
  | '"' :: '"' :: rest, acc => quoted rest ('"' :: acc)   -- "" is a literal quote
  | '"' :: rest, acc => some (acc.reverse, rest)
  | c :: rest, acc => quoted rest (c :: acc)

/-- the fields of a record (`fuel` bounds the number of fields) -/
def fields : List Char → Nat → Except Err (List (List Char))
  | _, 0 => .error .eof
  | s, n + 1 =>
      let s := s.dropWhile isSpace                      -- TrimLeadingSpace
      match s with
      | '"' :: rest =>
          match quoted rest [] with
          | none => .error .quote
          | some (content, after) =>
              match after with
              | [] => .ok [content]
              | ',' :: more => (fields more n).map (content :: ·)
              | _ => .error .quote                      -- extraneous text after the closing quote
      | _ =>
          let f := s.takeWhile (· != ',')
          let after := s.dropWhile (· != ',')
          if f.contains '"' then .error .bareQuote
          else match after with
            | [] => .ok [f]
            | _ :: more => (fields more n).map (f :: ·)

/-- `csv.Reader.Read` on one line: `error eof` for an empty line or a comment line -/
def readRecord (line : List Char) : Except Err (List (List Char)) :=
  -- a final '\r' (end of input) is dropped
  let line := match line.reverse with
    | '\r' :: r => r.reverse
    | _ => line
  match line with
  | [] => .error .eof
  | '#' :: _ => .error .eof
  | _ => fields line (line.length + 1)

/-- what `persist.LoadPolicyLine` hands to `LoadPolicyArray`: `none` = the line is skipped
    (empty or starting with '#'), `some (error _)` = `csv` reports an error -/
def lineTokens (line : List Char) : Option (Except Err (List (List Char))) :=
  match line with
  | [] => none
  | '#' :: _ => none
  | _ => some (readRecord line)

/-- the lines the file adapter hands to its handler: `bufio.ScanLines` then `strings.TrimSpace` -/
def fileLines (text : List Char) : List (List Char) :=
  (Cfg.readLines text).map trim

/-- the lines of the string adapter: `strings.Split(text, "\n")`, empty ones skipped -/
def stringLines (text : List Char) : List (List Char) :=
  (Cfg.splitLines text).filter (fun l => !l.isEmpty)

/-- `util.ArrayToString`: the saved form of a rule, `ptype, f1, f2, …` -/
def saveLine (pt : List Char) (rule : List (List Char)) : List Char :=
  pt ++ (rule.flatMap (fun f => [',', ' '] ++ f))

/-- a field that survives saving and loading: no comma, quote, CR/LF, no leading blank -/
def plainField (f : List Char) : Bool :=
  f.all (fun c => c != ',' && c != '"' && c != '\n' && c != '\r') &&
  (match f with | c :: _ => !isSpace c | [] => true)

end Casbin.Csv
