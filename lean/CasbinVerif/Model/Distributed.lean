import CasbinVerif.Model.EnfOps
/-
  Mirror of `enforcer_distributed.go`: the `*Self` operations a dispatcher replays on every replica.
  `persist` is the caller's `shouldPersist` predicate: `none` = nil, `some b` = a function returning b.
  No watcher is ever notified; the adapter is the harness's recording adapter.
-/
namespace Casbin
namespace Enf

def wantsPersist : Option Bool → Bool
  | some true => true
  | _ => false

/-- `AddPoliciesSelf`: (state, affected rules, error?) -/
def addPoliciesSelf (e : Enf) (persist : Option Bool) (sec pt : String) (rules : List Rule) : Enf × List Rule × Bool :=
  match e.getStore sec pt with
  | none =>
      -- HasPolicy reports the missing definition (persisting replicas with a non-empty batch),
      -- otherwise AddPoliciesWithAffected does
      (e, [], true)
  | some s =>
    let (e, okA) := if wantsPersist persist
      then
        let fresh := rules.filter (fun r => !s.has r)
        e.adapterCall s!"AddPolicies({pt};{showRules fresh})" (fun a => fresh.foldl (fun a r => a.addLine pt r) a)
      else (e, true)
    if !okA then (e, [], true)
    else
      let (s', affected) := s.addMany (e.prioOf sec pt) rules
      let e := e.setStore sec pt s'
      if sec == "g" then
        let (e, okL) := e.incrLinks true pt affected
        (e, affected, !okL)
      else (e, affected, false)

/-- `RemovePoliciesSelf` -/
def removePoliciesSelf (e : Enf) (persist : Option Bool) (sec pt : String) (rules : List Rule) : Enf × List Rule × Bool :=
  let (e, okA) := if wantsPersist persist
    then e.adapterCall s!"RemovePolicies({pt};{showRules rules})" (fun a => rules.foldl (fun a r => a.removeLine pt r) a)
    else (e, true)
  if !okA then (e, [], true)
  else
    match e.getStore sec pt with
    | none => (e, [], true)
    | some s =>
      let (s', affected) := s.removeMany rules
      let e := e.setStore sec pt s'
      if sec == "g" then
        let (e, okL) := e.incrLinks false pt affected
        (e, affected, !okL)
      else (e, affected, false)

/-- `RemoveFilteredPolicySelf`; `none` = Go panics on an out-of-range field -/
def removeFilteredPolicySelf (e : Enf) (persist : Option Bool) (sec pt : String) (fi : Nat) (vals : List String) :
    Option (Enf × List Rule × Bool) :=
  let (e, okA) := if wantsPersist persist
    then e.adapterCall s!"RemoveFilteredPolicy({pt};{fi};{showRule vals})"
      (fun a => { a with lines := a.lines.filter (fun l => !(l.1 == pt && AdapterSt.lineMatches fi vals l.2)) })
    else (e, true)
  if !okA then some (e, [], true)
  else
    match e.getStore sec pt with
    | none => some (e, [], true)
    | some s =>
      match s.removeFiltered fi vals with
      | none => none
      | some (s', _, affected) =>
        let e := e.setStore sec pt s'
        if sec == "g" then
          let (e, okL) := e.incrLinks false pt affected
          some (e, affected, !okL)
        else some (e, affected, false)

/-- `ClearPolicySelf` (with the repair: matcher map invalidated, role managers cleared) -/
def clearPolicySelf (e : Enf) (persist : Option Bool) : Enf × Bool :=
  let (e, okA) := if wantsPersist persist
    then e.adapterCall "SavePolicy" (fun a => { a with lines := [] })
    else (e, true)
  if !okA then (e, true)
  else
    let e := e.invalidate
    ({ e with p := e.p.map (fun x => (x.1, Store.empty)), g := e.g.map (fun x => (x.1, Store.empty)),
              rm := e.rm.map (fun x => (x.1, x.2.clear)) }, false)

/-- `UpdatePolicySelf`: (state, updated?, error?) -/
def updatePolicySelf (e : Enf) (persist : Option Bool) (sec pt : String) (old new : Rule) : Enf × Bool × Bool :=
  let (e, okA) := if wantsPersist persist
    then e.adapterCall s!"UpdatePolicy({pt};{showRule old};{showRule new})"
      (fun a => if a.has pt old then { a with lines := a.lines.map (fun l => if l == (pt, old) then (pt, new) else l) } else a)
    else (e, true)
  if !okA then (e, false, true)
  else
    match e.getStore sec pt with
    | none => (e, false, true)
    | some s =>
      match s.update old new with
      | (_, false) => (e, false, false)
      | (s', true) =>
        let e := e.setStore sec pt s'
        if sec == "g" then
          let (e, ok1) := e.incrLinks false pt [old]
          if !ok1 then (e, true, true)
          else
            let (e, ok2) := e.incrLinks true pt [new]
            (e, true, !ok2)
        else (e, true, false)

/-- `UpdatePoliciesSelf` (no length check of its own: `Model.UpdatePolicies` zips) -/
def updatePoliciesSelf (e : Enf) (persist : Option Bool) (sec pt : String) (olds news : List Rule) : Enf × Bool × Bool :=
  let (e, okA) := if wantsPersist persist
    then e.adapterCall s!"UpdatePolicies({pt};{showRules olds};{showRules news})"
      (fun a => (olds.zip news).foldl (fun a (o, n) =>
        if a.has pt o then { a with lines := a.lines.map (fun l => if l == (pt, o) then (pt, n) else l) } else a) a)
    else (e, true)
  if !okA then (e, false, true)
  else
    match e.getStore sec pt with
    | none => (e, false, true)
    | some s =>
      match s.updateMany olds news with
      | (s', false) => (e.setStore sec pt s', false, false)
      | (s', true) =>
        let e := e.setStore sec pt s'
        if sec == "g" then
          let (e, ok1) := e.incrLinks false pt olds
          if !ok1 then (e, true, true)
          else
            let (e, ok2) := e.incrLinks true pt news
            (e, true, !ok2)
        else (e, true, false)

/-- `UpdateFilteredPoliciesSelf`: the old rules are what the adapter reports as replaced, so only a
    persisting replica removes anything (a replica that does not persist adds the new rules and
    reports `false`); returns (state, rule changed, error) -/
def updateFilteredPoliciesSelf (e : Enf) (persist : Option Bool) (sec pt : String) (news : List Rule)
    (fi : Nat) (vals : List String) : Enf × Bool × Bool :=
  let olds : List Rule := if wantsPersist persist then
      match e.adapter with
      | some a => (a.rulesOf pt).filter (AdapterSt.lineMatches fi vals)
      | none => []
    else []
  let (e, okA) := if wantsPersist persist
    then e.adapterCall s!"UpdateFilteredPolicies({pt};{showRules news};{fi};{showRule vals})"
      (fun a => news.foldl (fun a r => a.addLine pt r)
        { a with lines := a.lines.filter (fun l => !(l.1 == pt && AdapterSt.lineMatches fi vals l.2)) })
    else (e, true)
  if !okA then (e, false, true)
  else
    match e.getStore sec pt with
    | none => (e, false, true)
    | some s =>
      let (s1, aff) := s.removeMany olds
      let s2 := (s1.addMany (e.prioOf sec pt) news).1
      let e := e.setStore sec pt s2
      let changed := !aff.isEmpty && !news.isEmpty
      if !changed then (e, false, false)
      else if sec == "g" then
        let (e, ok1) := e.incrLinks false pt olds
        if !ok1 then (e, true, true)
        else
          let (e, ok2) := e.incrLinks true pt news
          (e, true, !ok2)
      else (e, true, false)

end Enf
end Casbin
