import CasbinVerif.Basic
/-
  Mirror of `effector/default_effector.go: DefaultEffector.MergeEffects` and of the
  fill–merge–break loop in `enforcer.go: enforce()` (policy branch and else-branch).
-/
namespace Casbin

/-- reverse scan over the whole array for the last... first (from the end) matched determinate slot.
    The argument is the reversed, index-annotated array. -/
def revScan : List (Cell × Nat) → Eft × Option Nat
  | [] => (.indeterminate, none)
  | (c, i) :: rest =>
      if c.matched && c.eft ≠ .indeterminate then
        ((if c.eft = .allow then .allow else .deny), some i)
      else revScan rest

/-- `MergeEffects` for the five supported expressions.  `cells` is the whole pre-sized array
    (`effects`/`matches` zipped), `idx` = `policyIndex`, `len` = `policyLength`.
    Result: (effect, explainIndex) with `none` for `-1`. -/
def mergeEffects (k : EffectKind) (cells : List Cell) (idx len : Nat) : Eft × Option Nat :=
  let cur := cells.getD idx Cell.zero
  match k with
  | .allowOverride =>
      if !cur.matched then (.indeterminate, none)
      else if cur.eft = .allow then (.allow, some idx) else (.indeterminate, none)
  | .denyOverride =>
      if cur.matched && cur.eft = .deny then (.deny, some idx)
      else if idx + 1 = len then (.allow, none) else (.indeterminate, none)
  | .allowAndDeny =>
      if cur.matched && cur.eft = .deny then (.deny, some idx)
      else if idx + 1 < len then (.indeterminate, none)
      else
        match cells.findIdx? (fun c => c.matched && c.eft = .allow) with
        | some i => (.allow, some i)
        | none => (.indeterminate, none)
  | .priority | .subjectPriority =>
      revScan cells.zipIdx.reverse

/-- `MergeEffects` on the expression text: an unknown expression fails closed
    (`return Deny, -1, errors.New("unsupported effect")`). -/
def mergeEffectsExpr (expr : String) (cells : List Cell) (idx len : Nat) : Except Unit (Eft × Option Nat) :=
  match EffectKind.ofExpr expr with
  | some k => .ok (mergeEffects k cells idx len)
  | none => .error ()

/-- the loop in `enforce()`: fill slot `i`, merge, `break` on a determinate effect.
    `filled` = slots already written, the rest of the array holds Go zero values. -/
def loopFrom (k : EffectKind) (len : Nat) : (filled : List Cell) → (todo : List Cell) → Eft × Option Nat
  | _, [] => (.indeterminate, none)
  | filled, c :: rest =>
      let idx := filled.length
      let cells := filled ++ [c] ++ List.replicate (len - idx - 1) Cell.zero
      let r := mergeEffects k cells idx len
      if r.1 ≠ .indeterminate then r
      else match rest with
        | [] => r
        | _ => loopFrom k len (filled ++ [c]) rest

/-- policy branch of `enforce()` on the vector of (matched, effect) of the stored rules -/
def enforceLoop (k : EffectKind) (v : List Cell) : Eft × Option Nat := loopFrom k v.length [] v

/-- else-branch of `enforce()` (empty policy, or matcher without `p_`): one pseudo-slot with
    `matcherResults[0] = 1` and effect Allow / Indeterminate according to the matcher result. -/
def elseBranch (k : EffectKind) (matcherTrue : Bool) : Eft × Option Nat :=
  mergeEffects k [⟨true, if matcherTrue then .allow else .indeterminate⟩] 0 1

/-- `effect == effector.Allow` -/
def decision (r : Eft × Option Nat) : Bool := r.1 = .allow

end Casbin
