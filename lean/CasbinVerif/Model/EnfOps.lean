import CasbinVerif.Model.Enforcer
/-
  The management calls of the public API as an inductive type and their application to the
  enforcer model (shared by the specifications, the pattern-manager wrapper and the driver).
-/
namespace Casbin

/-- a management call on one section/type (`sec` = "p" or "g") -/
inductive MOp
  | add (sec pt : String) (r : Rule)
  | addMany (sec pt : String) (ex : Bool) (rs : List Rule)
  | remove (sec pt : String) (r : Rule)
  | removeMany (sec pt : String) (rs : List Rule)
  | update (sec pt : String) (old new : Rule)
  | updateMany (sec pt : String) (olds news : List Rule)
  | removeFiltered (sec pt : String) (fi : Nat) (vals : List String)
  | clear
  | buildLinks
deriving Repr, DecidableEq

/-- one public API call on the enforcer model; `none` = a Go run-time panic (out-of-range field) -/
def Enf.applyM (e : Enf) : MOp → Option (Enf × Enf.MRes)
  | .add sec pt r => some (e.addPolicy sec pt r)
  | .addMany sec pt ex rs => some (e.addPolicies sec pt rs ex)
  | .remove sec pt r => some (e.removePolicy sec pt r)
  | .removeMany sec pt rs => some (e.removePolicies sec pt rs)
  | .update sec pt o n => some (e.updatePolicy sec pt o n)
  | .updateMany sec pt os ns => some (e.updatePolicies sec pt os ns)
  | .removeFiltered sec pt fi vals => e.removeFiltered sec pt fi vals
  | .clear => some (e.clearPolicy, .ok true)
  | .buildLinks => let (e', ok) := e.buildRoleLinks; some (e', if ok then .ok true else .err false)

end Casbin
