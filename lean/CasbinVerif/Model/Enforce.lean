import CasbinVerif.Model.Effector
import CasbinVerif.Model.Matcher
import CasbinVerif.Model.RoleGraph
/-
  Mirror of `enforcer.go: enforce()` (lines 607-828): context selection, request-arity check,
  the policy branch (per rule: arity check, evaluation, result typing, effect column, streaming
  merge and break) and the else-branch (empty policy or matcher that does not mention the policy
  type: one evaluation against the all-empty rule).
-/
namespace Casbin

/-- the part of a model text that `enforce()` reads -/
structure ModelDef where
  r : List (String × Nat)             -- request definitions: number of tokens
  p : List (String × List String)     -- policy definitions: token names without the `p_` prefix
  g : List (String × Nat × RMKind)    -- role definitions: number of `_`, manager kind
  e : List (String × String)          -- effect expressions (text after EscapeAssertion)
  m : List (String × Expr)            -- matchers
deriving Repr, Inhabited

structure EnforceCtx where
  rType : String := "r"
  pType : String := "p"
  eType : String := "e"
  mType : String := "m"
deriving Repr, Inhabited

/-- a decision with the index of the explaining rule, or an error (Go: `(false, err)`) -/
abbrev EnfRes := Option (Bool × Option Nat)

/-- the effect column: `p_eft` if the definition has one, otherwise allow -/
def ruleEft (tokens : List String) (rule : Rule) : Eft :=
  match tokens.idxOf? "eft" with
  | none => .allow
  | some j =>
      match rule[j]? with
      | some "allow" => .allow
      | some "deny" => .deny
      | _ => .indeterminate

/-- result typing of the policy branch: bool, or number ≠ 0; anything else is an error -/
def truthy : Val → Option Bool
  | .bool b => some b
  | .num n => some (n != 0)
  | _ => none

/-- one iteration of the policy loop up to the merge: `none` = `return false, err` -/
def evalRule (ρ : Env) (m : Expr) (tokens : List String) (rule : Rule) : Option Cell :=
  if tokens.length != rule.length then none
  else
    match evalExpr evalFuel { ρ with p := rule } m with
    | none => none
    | some v =>
        match truthy v with
        | none => none
        | some b => some ⟨b, ruleEft tokens rule⟩

/-- the fill–merge–break loop with the per-rule errors: the loop stops at the first determinate
    effect, so an error in a later rule is never seen -/
def loopFromE (k : EffectKind) (len : Nat) : (filled : List Cell) → (todo : List (Option Cell)) → Option (Eft × Option Nat)
  | _, [] => some (.indeterminate, none)
  | _, none :: _ => none
  | filled, some c :: rest =>
      let idx := filled.length
      let cells := filled ++ [c] ++ List.replicate (len - idx - 1) Cell.zero
      let r := mergeEffects k cells idx len
      if r.1 ≠ .indeterminate then some r
      else match rest with
        | [] => some r
        | _ => loopFromE k len (filled ++ [c]) rest

/-- `enforce(matcher, explains, rvals...)` for an enabled enforcer.
    `links gt args` = `HasLink` of the manager bound to role definition `gt`;
    `custom` = the matcher passed to EnforceWithMatcher (`none` = the model's own). -/
def enforce (md : ModelDef) (policy : String → List Rule) (links : String → List String → Bool)
    (fn : String → List Val → Res) (evalTab : String → Option Expr)
    (ctx : EnforceCtx) (custom : Option Expr) (rvals : List Val) : EnfRes :=
  -- e.model["m"][mType].Value etc.: a missing definition is a nil dereference, recovered as an error
  match (match custom with | some m => some m | none => md.m.lookup ctx.mType),
        md.r.lookup ctx.rType, md.p.lookup ctx.pType with
  | some m, some rArity, some tokens =>
    if rArity != rvals.length then none
    else
      let ρ : Env := { r := rvals, p := [], fn := fn, link := links, evalTab := evalTab }
      let pol := policy ctx.pType
      match md.e.lookup ctx.eType with
      | none => none
      | some eexpr =>
        if !pol.isEmpty && m.mentionsP then
          match EffectKind.ofExpr eexpr with
          | none =>
              -- MergeEffects reports "unsupported effect" at the first merge; an error in the first rule comes first
              none
          | some k =>
              match loopFromE k pol.length [] (pol.map (evalRule ρ m tokens)) with
              | none => none
              | some r => some (decision r, r.2)
        else
          if m.hasEval && pol.isEmpty then none
          else
            match evalExpr evalFuel { ρ with p := List.replicate tokens.length "" } m with
            | some (.bool b) =>
                match EffectKind.ofExpr eexpr with
                | none => none
                | some k =>
                    let r := elseBranch k b
                    -- the explanation is `Policy[explainIndex]` if such a rule exists
                    some (decision r, match r.2 with
                      | some i => if i < pol.length then some i else none
                      | none => none)
            | _ => none      -- error, or `result.(bool)` panics on a non-bool (recovered)
  | _, _, _ => none

end Casbin

namespace Casbin

/-- the memo key of `util.GenerateGFunction`: every argument preceded by a NUL byte -/
def gMemoKey (args : List String) : List Char := args.flatMap (fun a => Char.ofNat 0 :: a.toList)

end Casbin
