import CasbinVerif.Model.Store
import CasbinVerif.Model.Enforce
/-
  The enforcer as a state machine: mirror of `internal_api.go` (`*WithoutNotify` + notify
  wrappers), `enforcer.go` (LoadPolicy / loadPolicyFromAdapter / applyModifiedModel / ClearPolicy /
  SavePolicy / BuildRoleLinks / SetRoleManager / AddNamedMatchingFunc …) and the recording
  in-memory adapter of the harness (`harness/internal/mem`).  One public API call = one `step`.
-/
namespace Casbin

/-! ### the recording adapter (set semantics, every optional interface, single-shot faults) -/

structure AdapterSt where
  lines : List (String × Rule) := []     -- (ptype, rule) in stored order
  log : List String := []
  calls : Nat := 0
  failAt : Nat := 0                      -- the failAt-th call (1-based) fails once; 0 = never
  loadFailAfter : Option Nat := none     -- LoadPolicy fails after delivering that many lines (once)
deriving Repr, Inhabited

namespace AdapterSt

/-- count the call, log it, decide whether it fails -/
def call (a : AdapterSt) (entry : String) : AdapterSt × Bool :=
  let n := a.calls + 1
  let a' := { a with calls := n, log := a.log ++ [entry] }
  if a.failAt != 0 && n == a.failAt then ({ a' with failAt := 0 }, false) else (a', true)

def has (a : AdapterSt) (pt : String) (r : Rule) : Bool := a.lines.contains (pt, r)
def addLine (a : AdapterSt) (pt : String) (r : Rule) : AdapterSt :=
  if a.has pt r then a else { a with lines := a.lines ++ [(pt, r)] }
def removeLine (a : AdapterSt) (pt : String) (r : Rule) : AdapterSt :=
  { a with lines := a.lines.erase (pt, r) }     -- the first occurrence, as the harness adapter does
def rulesOf (a : AdapterSt) (pt : String) : List Rule := (a.lines.filter (·.1 == pt)).map (·.2)

/-- the harness adapter's filter: a missing field never matches -/
def lineMatches (fi : Nat) (vals : List String) (r : Rule) : Bool :=
  (vals.zipIdx fi).all (fun (v, i) => v == "" || r[i]? == some v)

end AdapterSt

/-! ### the enforcer -/

inductive WatcherKind | plain | ex | upd | exupd
deriving DecidableEq, Repr, Inhabited

def WatcherKind.isEx : WatcherKind → Bool | .ex | .exupd => true | _ => false
def WatcherKind.isUpd : WatcherKind → Bool | .upd | .exupd => true | _ => false

structure Enf where
  md : ModelDef
  p : List (String × Store) := []
  g : List (String × Store) := []
  rm : List (String × RM) := []
  /-- compiled matchers (`matcherMap`): per matcher key the role managers as the memoising
      g-functions of that compiled expression see them -/
  cache : List (String × List (String × RM)) := []
  adapter : Option AdapterSt := none
  enabled : Bool := true
  autoSave : Bool := true
  autoBuild : Bool := true
  autoNotify : Bool := true
  watcher : Option WatcherKind := none
  notif : List String := []
  fn : String → List Val → Res := fun _ _ => none
  evalTab : String → Option Expr := fun _ => none
  customMatchers : List (String × Expr) := []
deriving Inhabited

def assocSet {α} (l : List (String × α)) (k : String) (v : α) : List (String × α) :=
  if l.any (·.1 == k) then l.map (fun p => if p.1 == k then (k, v) else p) else l ++ [(k, v)]

namespace Enf

/-- `FieldIndexMap["priority"]` of a policy definition -/
def prioOf (e : Enf) (sec pt : String) : Option Nat :=
  if sec == "p" then (e.md.p.lookup pt).bind (fun toks => toks.idxOf? "priority") else none

def stores (e : Enf) (sec : String) : List (String × Store) := if sec == "p" then e.p else e.g
def getStore (e : Enf) (sec pt : String) : Option Store :=
  if sec == "p" || sec == "g" then (e.stores sec).lookup pt else none
def setStore (e : Enf) (sec pt : String) (s : Store) : Enf :=
  if sec == "p" then { e with p := assocSet e.p pt s } else { e with g := assocSet e.g pt s }

/-- a fresh enforcer for a model definition: one empty store per definition, `initRmMap` -/
def init (md : ModelDef) : Enf :=
  { md := md
    p := md.p.map (fun d => (d.1, Store.empty))
    g := md.g.map (fun d => (d.1, Store.empty))
    rm := md.g.map (fun d => (d.1, RM.empty d.2.2)) }

/-- `invalidateMatcherMap` -/
def invalidate (e : Enf) : Enf := { e with cache := [] }

def shouldPersist (e : Enf) : Bool := e.adapter.isSome && e.autoSave
def shouldNotify (e : Enf) : Bool := e.watcher.isSome && e.autoNotify

/-- run an adapter call: `none` = no adapter (cannot happen under `shouldPersist`) -/
def adapterCall (e : Enf) (entry : String) (effect : AdapterSt → AdapterSt) : Enf × Bool :=
  match e.adapter with
  | none => (e, true)
  | some a =>
      let (a', ok) := a.call entry
      if ok then ({ e with adapter := some (effect a') }, true) else ({ e with adapter := some a' }, false)

def showRule (r : Rule) : String := ",".intercalate r
def showRules (rs : List Rule) : String := "|".intercalate (rs.map showRule)

/-- `BuildIncrementalRoleLinks(op, ptype, rules)`: invalidates, then edits the manager of `ptype`
    (if there is one); `false` = the too-short-rule error -/
def incrLinks (e : Enf) (add : Bool) (pt : String) (rules : List Rule) : Enf × Bool :=
  let e := e.invalidate
  match e.rm.lookup pt, e.md.g.lookup pt with
  | some rm, some (count, _) =>
      let (rm', ok) := rm.applyRules count add rules
      ({ e with rm := assocSet e.rm pt rm' }, ok)
  | _, _ => (e, true)

/-- the result of a management call as Go reports it -/
inductive MRes | ok (b : Bool) | err (b : Bool)    -- `(b, nil)` / `(b, err)`
deriving DecidableEq, Repr, Inhabited

def notify (e : Enf) (exEntry : Option String) (updEntry : Option String) : Enf :=
  match e.watcher with
  | none => e
  | some w =>
      let entry :=
        match updEntry, exEntry with
        | some u, _ => if w.isUpd then u else "Update"
        | none, some x => if w.isEx then x else "Update"
        | none, none => "Update"
      { e with notif := e.notif ++ [entry] }

/-- wrap a `*WithoutNotify` result with the notify wrapper -/
def withNotify (r : Enf × MRes) (exEntry updEntry : Option String) : Enf × MRes :=
  match r with
  | (e, .ok true) => if e.shouldNotify then (e.notify exEntry updEntry, .ok true) else (e, .ok true)
  | other => other

/-- `addPolicyWithoutNotify` -/
def addPolicyWN (e : Enf) (sec pt : String) (rule : Rule) : Enf × MRes :=
  match e.getStore sec pt with
  | none => (e, .err false)                        -- GetAssertion error
  | some s =>
    if s.has rule then (e, .ok false)
    else
      let (e, okA) := if e.shouldPersist
        then e.adapterCall s!"AddPolicy({pt};{showRule rule})" (fun a => a.addLine pt rule) else (e, true)
      if !okA then (e, .err false)
      else
        let e := e.setStore sec pt (s.add (e.prioOf sec pt) rule)
        if sec == "g" then
          let (e, okL) := e.incrLinks true pt [rule]
          if okL then (e, .ok true) else (e, .err true)
        else (e, .ok true)

def addPolicy (e : Enf) (sec pt : String) (rule : Rule) : Enf × MRes :=
  withNotify (e.addPolicyWN sec pt rule) (some s!"AddPolicy({sec};{pt};{showRule rule})") none

/-- `addPoliciesWithoutNotify` -/
def addPoliciesWN (e : Enf) (sec pt : String) (rules : List Rule) (ex : Bool) : Enf × MRes :=
  match e.getStore sec pt with
  | none =>
      -- HasPolicies reports the GetAssertion error unless the batch is empty; the Ex variant
      -- reaches model.AddPolicies which reports it
      if !ex && rules.isEmpty then (e, .err false) else (e, .err false)
  | some s =>
    if !ex && rules.any s.has then (e, .ok false)
    else
      let (e, okA) := if e.shouldPersist
        then e.adapterCall s!"AddPolicies({pt};{showRules rules})" (fun a => rules.foldl (fun a r => a.addLine pt r) a) else (e, true)
      if !okA then (e, .err false)
      else
        let e := e.setStore sec pt (s.addMany (e.prioOf sec pt) rules).1
        if sec == "g" then
          let (e, okL) := e.incrLinks true pt rules
          if okL then (e, .ok true) else (e, .err true)
        else (e, .ok true)

def addPolicies (e : Enf) (sec pt : String) (rules : List Rule) (ex : Bool) : Enf × MRes :=
  withNotify (e.addPoliciesWN sec pt rules ex) (some s!"AddPolicies({sec};{pt};{showRules rules})") none

/-- `removePolicyWithoutNotify`: persists first, whether or not the rule is listed -/
def removePolicyWN (e : Enf) (sec pt : String) (rule : Rule) : Enf × MRes :=
  let (e, okA) := if e.shouldPersist
    then e.adapterCall s!"RemovePolicy({pt};{showRule rule})" (fun a => a.removeLine pt rule) else (e, true)
  if !okA then (e, .err false)
  else
    match e.getStore sec pt with
    | none => (e, .err false)
    | some s =>
      match s.remove rule with
      | (_, false) => (e, .ok false)
      | (s', true) =>
        let e := e.setStore sec pt s'
        if sec == "g" then
          let (e, okL) := e.incrLinks false pt [rule]
          if okL then (e, .ok true) else (e, .err true)
        else (e, .ok true)

def removePolicy (e : Enf) (sec pt : String) (rule : Rule) : Enf × MRes :=
  withNotify (e.removePolicyWN sec pt rule) (some s!"RemovePolicy({sec};{pt};{showRule rule})") none

/-- `removePoliciesWithoutNotify` -/
def removePoliciesWN (e : Enf) (sec pt : String) (rules : List Rule) : Enf × MRes :=
  match e.getStore sec pt with
  | none => if rules.isEmpty then (e, .ok false) else (e, .err false)
  | some s =>
    if !(rules.any s.has) then (e, .ok false)
    else
      let (e, okA) := if e.shouldPersist
        then e.adapterCall s!"RemovePolicies({pt};{showRules rules})" (fun a => rules.foldl (fun a r => a.removeLine pt r) a) else (e, true)
      if !okA then (e, .err false)
      else
        let (s', aff) := s.removeMany rules
        if aff.isEmpty then (e, .ok false)
        else
          let e := e.setStore sec pt s'
          if sec == "g" then
            let (e, okL) := e.incrLinks false pt rules
            if okL then (e, .ok true) else (e, .err true)
          else (e, .ok true)

def removePolicies (e : Enf) (sec pt : String) (rules : List Rule) : Enf × MRes :=
  withNotify (e.removePoliciesWN sec pt rules) (some s!"RemovePolicies({sec};{pt};{showRules rules})") none

/-- `Enforcer.updatable` (the repair of findings D12 and D18): asked before the adapter is touched.
    Every old rule is listed and named once; a new rule that differs from the rule it replaces is
    neither listed nor named twice.  Keys, as in Go (`HasPolicy` looks the joined rule up). -/
def updatableFrom (s : Store) : List String → List String → List (Rule × Rule) → Bool
  | _, _, [] => true
  | seenOld, seenNew, (o, n) :: rest =>
      if !s.has o then false
      else if seenOld.contains (ruleKey o) then false
      else if ruleKey n == ruleKey o then updatableFrom s (ruleKey o :: seenOld) seenNew rest
      else if s.has n then false
      else if seenNew.contains (ruleKey n) then false
      else updatableFrom s (ruleKey o :: seenOld) (ruleKey n :: seenNew) rest

def updatable (s : Store) (olds news : List Rule) : Bool := updatableFrom s [] [] (olds.zip news)

/-- `updatePolicyWithoutNotify` -/
def updatePolicyWN (e : Enf) (sec pt : String) (old new : Rule) : Enf × MRes :=
  match e.getStore sec pt with
  | none => (e, .err false)          -- HasPolicy reports the missing definition
  | some s0 =>
  if !updatable s0 [old] [new] then (e, .ok false) else
  let (e, okA) := if e.shouldPersist
    then e.adapterCall s!"UpdatePolicy({pt};{showRule old};{showRule new})"
      (fun a => if a.has pt old then { a with lines := a.lines.map (fun l => if l == (pt, old) then (pt, new) else l) } else a)
    else (e, true)
  if !okA then (e, .err false)
  else
    match e.getStore sec pt with
    | none => (e, .err false)
    | some s =>
      match s.update old new with
      | (_, false) => (e, .ok false)
      | (s', true) =>
        let e := e.setStore sec pt s'
        if sec == "g" then
          let (e, ok1) := e.incrLinks false pt [old]
          if !ok1 then (e, .err true)
          else
            let (e, ok2) := e.incrLinks true pt [new]
            if ok2 then (e, .ok true) else (e, .err true)
        else (e, .ok true)

def updatePolicy (e : Enf) (sec pt : String) (old new : Rule) : Enf × MRes :=
  withNotify (e.updatePolicyWN sec pt old new) none (some s!"UpdatePolicy({sec};{pt};{showRule old};{showRule new})")

/-- `updatePoliciesWithoutNotify` -/
def updatePoliciesWN (e : Enf) (sec pt : String) (olds news : List Rule) : Enf × MRes :=
  if olds.length != news.length then (e, .err false)
  else
    match e.getStore sec pt with
    | none => (e, .err false)
    | some s0 =>
    if !updatable s0 olds news then (e, .ok false) else
    let (e, okA) := if e.shouldPersist
      then e.adapterCall s!"UpdatePolicies({pt};{showRules olds};{showRules news})"
        (fun a => (olds.zip news).foldl (fun a (o, n) =>
          if a.has pt o then { a with lines := a.lines.map (fun l => if l == (pt, o) then (pt, n) else l) } else a) a)
      else (e, true)
    if !okA then (e, .err false)
    else
      match e.getStore sec pt with
      | none => (e, .err false)
      | some s =>
        match s.updateMany olds news with
        | (s', false) => (e.setStore sec pt s', .ok false)
        | (s', true) =>
          let e := e.setStore sec pt s'
          if sec == "g" then
            let (e, ok1) := e.incrLinks false pt olds
            if !ok1 then (e, .err true)
            else
              let (e, ok2) := e.incrLinks true pt news
              if ok2 then (e, .ok true) else (e, .err true)
          else (e, .ok true)

def updatePolicies (e : Enf) (sec pt : String) (olds news : List Rule) : Enf × MRes :=
  withNotify (e.updatePoliciesWN sec pt olds news) none (some s!"UpdatePolicies({sec};{pt};{showRules olds};{showRules news})")

/-- `removeFilteredPolicyWithoutNotify`; `none` = Go panics on an out-of-range field -/
def removeFilteredWN (e : Enf) (sec pt : String) (fi : Nat) (vals : List String) : Option (Enf × MRes) :=
  if vals.isEmpty then some (e, .err false)
  else
    let (e, okA) := if e.shouldPersist
      then e.adapterCall s!"RemoveFilteredPolicy({pt};{fi};{showRule vals})"
        (fun a => { a with lines := a.lines.filter (fun l => !(l.1 == pt && AdapterSt.lineMatches fi vals l.2)) })
      else (e, true)
    if !okA then some (e, .err false)
    else
      match e.getStore sec pt with
      | none => some (e, .err false)
      | some s =>
        match s.removeFiltered fi vals with
        | none => none
        | some (s', false, _) => some (e.setStore sec pt s', .ok false)
        | some (s', true, eff) =>
          let e := e.setStore sec pt s'
          if sec == "g" then
            let (e, okL) := e.incrLinks false pt eff
            if okL then some (e, .ok true) else some (e, .err true)
          else some (e, .ok true)

def removeFiltered (e : Enf) (sec pt : String) (fi : Nat) (vals : List String) : Option (Enf × MRes) :=
  (e.removeFilteredWN sec pt fi vals).map (fun r =>
    withNotify r (some s!"RemoveFilteredPolicy({sec};{pt};{fi};{showRule vals})") none)

/-- `updateFilteredPoliciesWithoutNotify` + wrapper (the harness adapter returns the old rules) -/
def updateFiltered (e : Enf) (sec pt : String) (news : List Rule) (fi : Nat) (vals : List String) : Enf × MRes :=
  match e.getStore sec pt with
  | none => (e, .err false)
  | some s =>
    let olds : List Rule := if e.shouldPersist then
        match e.adapter with
        | some a => (a.rulesOf pt).filter (AdapterSt.lineMatches fi vals)
        | none => []
      else []
    let (e, okA) := if e.shouldPersist
      then e.adapterCall s!"UpdateFilteredPolicies({pt};{showRules news};{fi};{showRule vals})"
        (fun a => news.foldl (fun a r => a.addLine pt r)
          { a with lines := a.lines.filter (fun l => !(l.1 == pt && AdapterSt.lineMatches fi vals l.2)) })
      else (e, true)
    if !okA then (e, .err false)
    else
      let (s1, aff) := s.removeMany olds
      let s2 := (s1.addMany (e.prioOf sec pt) news).1
      let e := e.setStore sec pt s2
      let changed := !aff.isEmpty && !news.isEmpty
      if !changed then (e, .ok false)
      else
        let fin : Enf × MRes :=
          if sec == "g" then
            let (e, ok1) := e.incrLinks false pt olds
            if !ok1 then (e, .err true)
            else
              let (e, ok2) := e.incrLinks true pt news
              if ok2 then (e, .ok true) else (e, .err true)
          else (e, .ok true)
        -- `ok := len(oldRules) != 0`
        match fin with
        | (e, .ok _) =>
            if olds.isEmpty then (e, .ok false)
            else withNotify (e, .ok true) none (some s!"UpdatePolicies({sec};{pt};{showRules olds};{showRules news})")
        | (e, .err _) => (e, .err (!olds.isEmpty))

/-! ### clear / load / save / role links -/

/-- `ClearPolicy` (with the repair: the role managers are cleared as well) -/
def clearPolicy (e : Enf) : Enf :=
  let e := e.invalidate
  { e with p := e.p.map (fun x => (x.1, Store.empty)), g := e.g.map (fun x => (x.1, Store.empty)),
           rm := e.rm.map (fun x => (x.1, x.2.clear)) }

/-- `persist.LoadPolicyArray` for one adapter line into the model being loaded:
    `none` = error (unknown section/type, wrong arity) -/
def loadLine (md : ModelDef) (p g : List (String × Store)) (pt : String) (rule : Rule) :
    Option (List (String × Store) × List (String × Store)) :=
  if pt.isEmpty then none
  else if pt.front == 'p' then
    match md.p.lookup pt, p.lookup pt with
    | some toks, some s =>
        if rule.length != toks.length then none
        else if s.has rule then some (p, g)
        else some (assocSet p pt (s.add (toks.idxOf? "priority") rule), g)
    | _, _ => none
  else if pt.front == 'g' then
    match md.g.lookup pt, g.lookup pt with
    | some (count, _), some s =>
        -- `len(rule) < len(assertion.Tokens)`; Tokens of a plain g are the `_`s
        if rule.length < count then none
        else if s.has rule then some (p, g)
        else some (p, assocSet g pt (s.add none rule))
    | _, _ => none
  else none

/-- the comparator of `SortPoliciesByPriority` (after the repair): a priority that does not parse
    is greater than every number -/
def prioLess (pi : Nat) (r q : Rule) : Bool :=
  match atoi (r.getD pi "") with
  | none => false
  | some a =>
      match atoi (q.getD pi "") with
      | none => true
      | some b => a < b

/-- one step of the insertion sort that `sort.SliceStable` runs on short slices: the new element
    moves towards the front past every element it is less than, starting from the back -/
def insertByPrio (pi : Nat) (r : Rule) (sorted : List Rule) : List Rule :=
  let moved := sorted.reverse.takeWhile (fun q => prioLess pi r q)
  let keep := sorted.reverse.dropWhile (fun q => prioLess pi r q)
  keep.reverse ++ [r] ++ moved.reverse

def sortByPrio (pi : Nat) (rules : List Rule) : List Rule :=
  rules.foldl (fun acc r => insertByPrio pi r acc) []

/-- `SortPoliciesByPriority` for every policy definition with a priority token: sort, then re-index -/
def sortStores (md : ModelDef) (p : List (String × Store)) : List (String × Store) :=
  p.map (fun (pt, s) =>
    match (md.p.lookup pt).bind (fun toks => toks.idxOf? "priority") with
    | none => (pt, s)
    | some pi =>
        let pol := sortByPrio pi s.policy
        (pt, { policy := pol, index := Store.reindex s.index pol 0 }))

/-- `rebuildRoleLinks(newModel)`: clear every manager, add the links of every grouping rule;
    `false` = a too-short rule (the managers are then left partially built) -/
def rebuildLinks (md : ModelDef) (rm : List (String × RM)) (g : List (String × Store)) : List (String × RM) × Bool :=
  rm.foldl (fun (acc : List (String × RM) × Bool) (x : String × RM) =>
    if !acc.2 then (acc.1 ++ [(x.1, x.2.clear)], false)
    else
      match md.g.lookup x.1, g.lookup x.1 with
      | some (count, _), some s =>
          let (rm', ok) := x.2.clear.applyRules count true s.policy
          (acc.1 ++ [(x.1, rm')], ok)
      | _, _ => (acc.1 ++ [(x.1, x.2.clear)], true)) ([], true)

/-- `LoadPolicy`: `true` = nil error -/
def loadPolicy (e : Enf) : Enf × Bool :=
  match e.adapter with
  | none => (e, false)       -- nil adapter: the call panics in Go; the harness never does this
  | some a =>
    let (a1, okC) := a.call "LoadPolicy"
    let e := { e with adapter := some a1 }
    if !okC then (e, false)
    else
      let p0 := e.p.map (fun x => (x.1, Store.empty))
      let g0 := e.g.map (fun x => (x.1, Store.empty))
      -- deliver the lines; the injected load fault fires after `k` lines
      let rec deliver (ls : List (String × Rule)) (i : Nat) (p g : List (String × Store)) (lfa : Option Nat) :
          Option (List (String × Store) × List (String × Store)) × Option Nat :=
        match ls with
        | [] => (if lfa.isSome then none else some (p, g), none)
        | (pt, r) :: rest =>
            if lfa == some i then (none, none)
            else match loadLine e.md p g pt r with
              | none => (none, lfa)
              | some (p', g') => deliver rest (i + 1) p' g' lfa
      let lfa := a1.loadFailAfter.map (fun k => min k a1.lines.length)
      let (res, lfa') := deliver a1.lines 0 p0 g0 lfa
      let e := { e with adapter := some { a1 with loadFailAfter := if lfa'.isSome then a1.loadFailAfter else none } }
      match res with
      | none => (e, false)
      | some (p1, g1) =>
        let p2 := sortStores e.md p1
        if e.autoBuild then
          let (rm', ok) := rebuildLinks e.md e.rm g1
          if ok then ({ e with p := p2, g := g1, rm := rm' }.invalidate, true)
          else
            -- rollback: rebuild the managers from the old rules
            let (rmOld, _) := rebuildLinks e.md rm' e.g
            ({ e with rm := rmOld }, false)
        else ({ e with p := p2, g := g1 }.invalidate, true)

/-- `SavePolicy` to the harness adapter (per type in definition order, p before g) -/
def savePolicy (e : Enf) : Enf × Bool :=
  match e.adapter with
  | none => (e, false)
  | some a =>
    let (a1, okC) := a.call "SavePolicy"
    if !okC then ({ e with adapter := some a1 }, false)
    else
      let lines := (e.p ++ e.g).flatMap (fun (pt, s) => s.policy.map (fun r => (pt, r)))
      let e := { e with adapter := some { a1 with lines := lines } }
      match e.watcher with
      | some w => ({ e with notif := e.notif ++ [if w.isEx then "SavePolicy" else "Update"] }, true)
      | none => (e, true)

/-- `BuildRoleLinks` (with the repair: the matcher map is invalidated first) -/
def buildRoleLinks (e : Enf) : Enf × Bool :=
  let e := e.invalidate
  let (rm', ok) := rebuildLinks e.md e.rm e.g
  ({ e with rm := rm' }, ok)

/-! ### Enforce -/

/-- the matcher-map key: the model's matcher of a type, or a custom matcher text -/
def matcherKey (ctx : EnforceCtx) (custom : Option String) : String :=
  match custom with | some c => "custom:" ++ c | none => "model:" ++ ctx.mType

/-- `enforce()`: looks the compiled matcher up in `matcherMap` (unless it uses eval()), binds the
    g-functions of a fresh compilation to the current role managers -/
def enforceStep (e : Enf) (ctx : EnforceCtx) (custom : Option String) (rvals : List Val) : Enf × EnfRes :=
  if !e.enabled then (e, some (true, none))
  else
    let cm : Option Expr := match custom with
      | some c => e.customMatchers.lookup c
      | none => e.md.m.lookup ctx.mType
    match cm with
    | none => (e, none)
    | some m =>
      let key := matcherKey ctx custom
      let (e, rmSeen) :=
        match (if m.hasEval then none else e.cache.lookup key) with
        | some snap => (e, snap)
        | none => ({ e with cache := assocSet e.cache key e.rm }, e.rm)
      let links := fun (gt : String) (args : List String) =>
        match rmSeen.lookup gt, args with
        | some rm, u :: v :: ds => rm.hasLink u v ds
        | _, _ => false
      (e, enforce e.md (fun pt => ((e.p.lookup pt).map (·.policy)).getD []) links e.fn e.evalTab ctx (some m) rvals)

end Enf
end Casbin
