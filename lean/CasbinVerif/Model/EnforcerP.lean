import CasbinVerif.Model.EnfOps
import CasbinVerif.Model.PatternRM
/-
  The enforcer with pattern-matching role managers.  `EnfP` wraps the plain enforcer model `Enf`
  (on which the invariant theorems are proved) and shadows, for every role definition that has a
  matching function registered (`AddNamedMatchingFunc` / `AddNamedDomainMatchingFunc`), the role
  manager by a `PRM`.  With no matching function registered (`prm = []`) every operation is the
  plain one (Properties/C04.lean: `noPattern_*`).
-/
namespace Casbin

structure EnfP where
  base : Enf
  prm : List (String × PRM) := []
  /-- compiled matchers as they see the pattern managers (parallel to `Enf.cache`) -/
  pcache : List (String × List (String × PRM)) := []
  /-- role definitions whose assertion has no role manager bound (`ast.RM == nil`): after a
      LoadPolicy with auto-build off the freshly copied model carries none until BuildRoleLinks or an
      incremental link update binds it; compiling a matcher that calls such a g() fails -/
  unbound : List String := []
deriving Inhabited

namespace EnfP

/-- the oracle table of matching functions: `fn name [str, pattern] = true` -/
def table (e : EnfP) : String → String → String → Bool :=
  fun f a b => e.base.fn f [.str a, .str b] == some (.bool true)

def countOf (e : EnfP) (gt : String) : Nat := ((e.base.md.g.lookup gt).map (·.1)).getD 2

/-- apply a link delta to the shadow manager of `gt` (if it has one) -/
def shadowRules (e : EnfP) (gt : String) (add : Bool) (rules : List Rule) : EnfP :=
  match e.prm.lookup gt with
  | none => e
  | some rm => { e with prm := assocSet e.prm gt (rm.applyRules e.table (e.countOf gt) add rules).1 }

/-- rebuild every shadow manager from the listed rules (`BuildRoleLinks`, `LoadPolicy`) -/
def shadowRebuild (e : EnfP) : EnfP :=
  { e with prm := e.prm.map (fun (gt, rm) =>
      let rules := ((e.base.g.lookup gt).map (·.policy)).getD []
      (gt, (rm.clear.applyRules e.table (e.countOf gt) true rules).1)) }

/-- `ast.RM = rm` in `buildIncrementalRoleLinks` -/
def bind (e : EnfP) (gt : String) : EnfP := { e with unbound := e.unbound.filter (· != gt) }

/-- keep the pattern side of the matcher cache in step with the plain side: it is dropped
    whenever the plain model invalidated (`matcherMap` is one map) -/
def syncCache (e : EnfP) : EnfP := if e.base.cache.isEmpty then { e with pcache := [] } else e

/-- the link delta of a management call that reported success: exactly the
    `BuildIncrementalRoleLinks` calls of the `*WithoutNotify` function -/
def delta (before : Enf) (op : MOp) (x : EnfP) : EnfP :=
  match op with
  | .add "g" pt rule => (x.shadowRules pt true [rule]).bind pt
  | .addMany "g" pt _ rules => (x.shadowRules pt true rules).bind pt
  | .remove "g" pt rule => (x.shadowRules pt false [rule]).bind pt
  | .removeMany "g" pt rules => (x.shadowRules pt false rules).bind pt
  | .update "g" pt o n => ((x.shadowRules pt false [o]).shadowRules pt true [n]).bind pt
  | .updateMany "g" pt os ns => ((x.shadowRules pt false os).shadowRules pt true ns).bind pt
  | .removeFiltered "g" pt fi vals =>
      let eff := match before.getStore "g" pt with
        | some s => match s.removeFiltered fi vals with | some (_, _, eff) => eff | none => []
        | none => []
      (x.shadowRules pt false eff).bind pt
  | .clear => { x with prm := x.prm.map (fun (gt, rm) => (gt, rm.clear)) }
  | .buildLinks => { x.shadowRebuild with unbound := [] }
  | _ => x

/-- one management call -/
def applyM (e : EnfP) (op : MOp) : Option (EnfP × Enf.MRes) :=
  match e.base.applyM op with
  | none => none
  | some (b', res) =>
      let e' : EnfP := { e with base := b' }
      match res, op with
      | .ok true, _ => some ((delta e.base op e').syncCache, res)
      -- a batch of grouping rules that is rejected at a too-short rule (finding D13) has built the
      -- links of the rules before it: the pattern managers have them too
      | .err true, .addMany "g" _ _ _ => some ((delta e.base op e').syncCache, res)
      | _, _ => some (e'.syncCache, res)

def loadPolicy (e : EnfP) : EnfP × Bool :=
  let (b', ok) := e.base.loadPolicy
  let e' : EnfP := { e with base := b' }
  if !ok then (e'.syncCache, false)
  else if b'.autoBuild then ({ e'.shadowRebuild.syncCache with unbound := [] }, true)
  else
    -- `e.model = newModel`: the copied assertions carry no role manager
    ({ e'.syncCache with unbound := b'.md.g.map (·.1) }, true)

/-- `AddNamedMatchingFunc(gt, name, fn)`: invalidates, the manager of `gt` becomes (stays) a
    pattern manager and rebuilds -/
def addMatchingFunc (e : EnfP) (gt f : String) : EnfP × Bool :=
  match e.base.rm.lookup gt with
  | none => (e, false)
  | some rm =>
      let cur : PRM := match e.prm.lookup gt with | some p => p | none => PRM.ofRM rm
      ({ e with base := e.base.invalidate, pcache := [], prm := assocSet e.prm gt (cur.addMatchingFunc f) }, true)

/-- `AddNamedDomainMatchingFunc(gt, name, fn)` -/
def addDomainMatchingFunc (e : EnfP) (gt f : String) : EnfP × Bool :=
  match e.base.rm.lookup gt with
  | none => (e, false)
  | some rm =>
      let cur : PRM := match e.prm.lookup gt with | some p => p | none => PRM.ofRM rm
      ({ e with base := e.base.invalidate, pcache := [], prm := assocSet e.prm gt (cur.addDomainMatchingFunc e.table f) }, true)

/-- `SetNamedRoleManager(gt, <new default manager>)` followed by `BuildRoleLinks()`: the supported
    idiom for replacing a role manager; matching functions registered on the old one are gone -/
def resetRoleManager (e : EnfP) (gt : String) : EnfP × Bool :=
  let e1 : EnfP := { e with base := e.base.invalidate, pcache := [], prm := e.prm.filter (·.1 != gt) }
  let (b', ok) := e1.base.buildRoleLinks
  ({ e1 with base := b' }.shadowRebuild, ok)

/-- `Enforce`: role definitions with a pattern manager answer through it -/
def enforceStep (e : EnfP) (ctx : EnforceCtx) (custom : Option String) (rvals : List Val) : EnfP × EnfRes :=
  let cm0 : Option Expr := match custom with
    | some c => e.base.customMatchers.lookup c
    | none => e.base.md.m.lookup ctx.mType
  -- a g() of an unbound role definition is an undefined function: compiling the matcher fails
  -- (the request-size check and the enabled shortcut come first / later as in Go: disabled answers true)
  if e.base.enabled && !e.unbound.isEmpty && (match cm0 with | some m => m.gTypes.any e.unbound.contains | none => false) then (e, none)
  else if e.prm.isEmpty then
    let (b', r) := e.base.enforceStep ctx custom rvals
    ({ e with base := b' }, r)
  else if !e.base.enabled then (e, some (true, none))
  else
    let cm : Option Expr := match custom with
      | some c => e.base.customMatchers.lookup c
      | none => e.base.md.m.lookup ctx.mType
    match cm with
    | none => (e, none)
    | some m =>
      let key := Enf.matcherKey ctx custom
      let useCache := !m.hasEval
      let rmSeen := match (if useCache then e.base.cache.lookup key else none) with
        | some snap => snap | none => e.base.rm
      let prmSeen := match (if useCache then e.pcache.lookup key else none) with
        | some snap => snap | none => e.prm
      let e' : EnfP := { e with base := { e.base with cache := assocSet e.base.cache key rmSeen },
                                pcache := assocSet e.pcache key prmSeen }
      let t := e.table
      let links := fun (gt : String) (args : List String) =>
        match args with
        | u :: v :: ds =>
            (match prmSeen.lookup gt with
             | some p => p.hasLink t u v ds
             | none => match rmSeen.lookup gt with
               | some rm => rm.hasLink u v ds
               | none => false)
        | _ => false
      (e', enforce e.base.md (fun pt => ((e.base.p.lookup pt).map (·.policy)).getD []) links e.base.fn e.base.evalTab ctx (some m) rvals)

def hasLink (e : EnfP) (gt u r : String) (ds : List String) : Option Bool :=
  match e.prm.lookup gt with
  | some p => some (p.hasLink e.table u r ds)
  | none => (e.base.rm.lookup gt).map (fun rm => rm.hasLink u r ds)

def getRoles (e : EnfP) (gt u : String) (ds : List String) : Option (List String) :=
  match e.prm.lookup gt with
  | some p => some (p.getRoles e.table u ds)
  | none => (e.base.rm.lookup gt).map (fun rm => rm.getRoles u ds)

def getUsers (e : EnfP) (gt r : String) (ds : List String) : Option (List String) :=
  match e.prm.lookup gt with
  | some p => some (p.getUsers e.table r ds)
  | none => (e.base.rm.lookup gt).map (fun rm => rm.getUsers r ds)

end EnfP
end Casbin
