import CasbinVerif.Model.Csv
/-
  Mirror of `persist/file-adapter/adapter_filtered.go`: `filterLine`, `filterWords`, the `filtered`
  flag and the two `SavePolicy` guards, on the lines of the policy file.
-/
namespace Casbin.Flt
open Casbin.Cfg (trim splitComma)

/-- `fileadapter.Filter` -/
structure Filter where
  p : List (List Char) := []
  g : List (List Char) := []
  g1 : List (List Char) := []
  g2 : List (List Char) := []
  g3 : List (List Char) := []
  g4 : List (List Char) := []
  g5 : List (List Char) := []
deriving Repr, DecidableEq, Inhabited

/-- the `switch strings.TrimSpace(p[0])` of `filterLine` (`nil` for any other type) -/
def Filter.sliceFor (f : Filter) (pt : List Char) : List (List Char) :=
  if pt == "p".toList then f.p else if pt == "g".toList then f.g else if pt == "g1".toList then f.g1
  else if pt == "g2".toList then f.g2 else if pt == "g3".toList then f.g3 else if pt == "g4".toList then f.g4
  else if pt == "g5".toList then f.g5 else []

/-- the loop of `filterWords` over `filter[i]` vs `line[i+1]` -/
def wordsMismatch : List (List Char) → List (List Char) → Bool
  | [], _ => false
  | v :: vs, l :: ls => (!v.isEmpty && trim v != trim l) || wordsMismatch vs ls
  | _ :: _, [] => false     -- unreachable after the length guard

/-- `filterWords(line, filter)`: true = skip the line -/
def filterWords (line : List (List Char)) (flt : List (List Char)) : Bool :=
  if line.length < flt.length + 1 then true
  else wordsMismatch flt (line.drop 1)

/-- `filterLine(line, filter)` (the filter is not nil here): naive split at commas -/
def filterLine (line : List Char) (f : Filter) : Bool :=
  let p := splitComma line
  filterWords p (f.sliceFor (trim (p.headD [])))

/-- the lines `loadFilteredPolicyFile` hands on to `LoadPolicyLine` -/
def keptLines (file : List Char) (f : Filter) : List (List Char) :=
  (Csv.fileLines file).filter (fun l => !filterLine l f)

/-- the adapter's `filtered` flag along a sequence of calls -/
inductive Call
  | loadFull (ok : Bool)               -- LoadPolicy / LoadFilteredPolicy(nil): clears the flag on success
  | loadFiltered (ok : Bool)           -- LoadFilteredPolicy(filter) / incremental: sets it, completed or not
  | save
deriving Repr, DecidableEq

/-- `NewFilteredAdapter` starts filtered; (flag, whether SavePolicy wrote the file) -/
def flagStep (filtered : Bool) : Call → Bool × Bool
  | .loadFull ok => (if ok then false else filtered, false)
  | .loadFiltered _ => (true, false)
  | .save => (filtered, !filtered)

def flagRun (filtered : Bool) : List Call → Bool × List Bool
  | [] => (filtered, [])
  | c :: cs =>
      let (f', w) := flagStep filtered c
      let (f'', ws) := flagRun f' cs
      (f'', w :: ws)

end Casbin.Flt
