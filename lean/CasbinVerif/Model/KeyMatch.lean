import CasbinVerif.Basic
/-
  Mirror of `util/builtin_operators.go`: KeyMatch, KeyGet (direct), KeyMatch2/3/4/5, KeyGet2/3
  (two stages as in Go: the string rewriting that turns the pattern into a regular expression,
  then matching that expression) and IPMatch for IPv4.
  Go's `regexp` is not modelled in general: `compile` only accepts patterns whose rewriting stays
  inside the fragment {literal character, `.*`, `[^/]+`, `([^/]+)`}; for any other pattern the
  model answers `none` (not modelled) and only the implementation is exercised.
  Strings are `List Char` here; Go works on bytes: the two coincide on valid UTF-8 because every
  character the code looks for is ASCII.
-/
namespace Casbin.KM

/-- `strings.Index(key2, "*")` -/
def firstStar : List Char → Option Nat
  | [] => none
  | c :: cs => if c == '*' then some 0 else (firstStar cs).map (· + 1)

/-- `KeyMatch` -/
def keyMatch (key1 key2 : List Char) : Bool :=
  match firstStar key2 with
  | none => key1 == key2
  | some i => if key1.length > i then key1.take i == key2.take i else key1 == key2.take i

/-- `KeyGet` -/
def keyGet (key1 key2 : List Char) : List Char :=
  match firstStar key2 with
  | none => []
  | some i => if key1.length > i && key1.take i == key2.take i then key1.drop i else []

/-- the regular-expression fragment the rewriting can produce -/
inductive RItem
  | ch (c : Char)        -- a literal character
  | dotStar              -- `.*` (any characters except newline)
  | seg (cap : Option String)   -- `[^/]+`, captured under a name in KeyMatch4 / KeyGet
deriving Repr, DecidableEq

def isMeta (c : Char) : Bool := "\\.+*?()|[]{}^$".toList.contains c

/-- take the characters up to the next '/' -/
def spanSeg : List Char → List Char × List Char
  | [] => ([], [])
  | c :: cs => if c == '/' then ([], c :: cs) else let (a, b) := spanSeg cs; (c :: a, b)

/-- which placeholder syntax a function understands -/
inductive Style | colon | brace
deriving DecidableEq, Repr

/-- pattern → regular expression items, following the Go rewriting:
    `strings.Replace(key2, "/*", "/.*", -1)`, then `ReplaceAllString` of `:[^/]+` (colon style) or
    `\{[^/]+\}` (brace style) by `[^/]+`.  `none` = the result leaves the modelled fragment. -/
def compile (st : Style) : List Char → Nat → Option (List RItem)
  | [], _ => some []
  | _, 0 => none
  | '/' :: '*' :: rest, n + 1 => (compile st rest n).map (fun r => .ch '/' :: .dotStar :: r)
  | ':' :: rest, n + 1 =>
      if st == .colon then
        let (name, after) := spanSeg rest
        if name.isEmpty then (compile st rest n).map (fun r => .ch ':' :: r)
        else (compile st after n).map (fun r => .seg (some (String.ofList name)) :: r)
      else (compile st rest n).map (fun r => .ch ':' :: r)
  | '{' :: rest, n + 1 =>
      if st == .brace then
        -- `\{[^/]+\}` is greedy: up to the last '}' before the next '/'
        let (body, after) := spanSeg rest
        match body.reverse with
        | '}' :: revName =>
            if revName.isEmpty then none
            else if revName.any (fun c => c == '{' || c == '}') then none   -- nested/multiple braces: not modelled
            else (compile st after n).map (fun r => .seg (some (String.ofList revName.reverse)) :: r)
        | _ => none
      else none
  | c :: rest, n + 1 =>
      if isMeta c then none else (compile st rest n).map (fun r => .ch c :: r)

/-- does the anchored expression `^items$` match the whole string? (backtracking; any match will do) -/
def rmatch : List RItem → List Char → Nat → Bool
  | _, _, 0 => false
  | [], s, _ => s.isEmpty
  | .ch c :: rest, x :: s, n + 1 => x == c && rmatch rest s n
  | .ch _ :: _, [], _ => false
  | .dotStar :: rest, s, n + 1 =>
      rmatch rest s n || (match s with
        | [] => false
        | x :: s' => x != '\n' && rmatch (.dotStar :: rest) s' n)
  | .seg _ :: rest, x :: s, n + 1 => x != '/' && (rmatch rest s n || rmatch (.seg none :: rest) s n)
  | .seg _ :: _, [], _ => false

def fuelFor (items : List RItem) (s : List Char) : Nat := 2 * (items.length + s.length) + 2

/-- `KeyMatch2` (colon placeholders) and `KeyMatch3` / `KeyMatch5` (brace placeholders) -/
def keyMatchRe (st : Style) (key1 key2 : List Char) : Option Bool :=
  (compile st key2 (key2.length + 1)).map (fun items => rmatch items key1 (fuelFor items key1))

def keyMatch2 := keyMatchRe .colon
def keyMatch3 := keyMatchRe .brace

/-- `KeyMatch5`: the query string of key1 is ignored -/
def keyMatch5 (key1 key2 : List Char) : Option Bool :=
  keyMatchRe .brace (key1.takeWhile (· != '?')) key2

/-- matching with captures: the values of the `seg` items, in order (first match found; for
    patterns whose placeholders each fill a whole segment the captures are unique) -/
def rcapture : List RItem → List Char → Nat → Option (List (List Char))
  | _, _, 0 => none
  | [], s, _ => if s.isEmpty then some [] else none
  | .ch c :: rest, x :: s, n + 1 => if x == c then rcapture rest s n else none
  | .ch _ :: _, [], _ => none
  | .dotStar :: rest, s, n + 1 =>
      -- greedy in Go; which split is taken does not change the captures of whole-segment placeholders
      match s with
      | [] => rcapture rest [] n
      | x :: s' =>
          match (if x != '\n' then rcapture (.dotStar :: rest) s' n else none) with
          | some r => some r
          | none => rcapture rest s n
  | .seg _ :: rest, s, n + 1 =>
      let (v, after) := spanSeg s
      if v.isEmpty then none else (rcapture rest after n).map (fun r => v :: r)

/-- `KeyMatch4`: as KeyMatch3, and repeated names must capture equal values -/
def keyMatch4 (key1 key2 : List Char) : Option Bool :=
  (compile .brace key2 (key2.length + 1)).map (fun items =>
    match rcapture items key1 (fuelFor items key1) with
    | none => false
    | some vals =>
        let names := items.filterMap (fun i => match i with | .seg (some nm) => some nm | _ => none)
        let pairs := names.zip vals
        pairs.all (fun (nm, v) => (pairs.find? (fun p => p.1 == nm)).map (·.2) == some v))

/-- `KeyGet2` / `KeyGet3`: the value captured for `pathVar` ("" if no match or unknown name) -/
def keyGetRe (st : Style) (key1 key2 : List Char) (pathVar : String) : Option (List Char) :=
  (compile st key2 (key2.length + 1)).map (fun items =>
    match rcapture items key1 (fuelFor items key1) with
    | none => []
    | some vals =>
        let names := items.filterMap (fun i => match i with | .seg (some nm) => some nm | _ => none)
        ((names.zip vals).find? (fun p => p.1 == pathVar)).map (·.2) |>.getD [])

def keyGet2 := keyGetRe .colon
def keyGet3 := keyGetRe .brace

/-! ### IPMatch (IPv4) -/

/-- a dotted quad as a 32-bit number; `none` = `net.ParseIP` fails (leading zeros are rejected by Go) -/
def parseOctet (s : List Char) : Option Nat :=
  if s.isEmpty || s.length > 3 || !s.all Char.isDigit then none
  else if s.length > 1 && s.head? == some '0' then none
  else
    let n := s.foldl (fun acc c => acc * 10 + (c.toNat - '0'.toNat)) 0
    if n ≤ 255 then some n else none

def splitOnChar (sep : Char) : List Char → List (List Char)
  | [] => [[]]
  | c :: cs =>
      match splitOnChar sep cs with
      | [] => [[]]   -- unreachable
      | h :: t => if c == sep then [] :: h :: t else (c :: h) :: t

def parseIPv4 (s : List Char) : Option Nat :=
  match (splitOnChar '.' s).mapM parseOctet with
  | some [a, b, c, d] => some (((a * 256 + b) * 256 + c) * 256 + d)
  | _ => none

/-- the prefix length of `a.b.c.d/len`; `none` = `net.ParseCIDR` fails -/
def parsePrefixLen (s : List Char) : Option Nat :=
  if s.isEmpty || s.length > 2 || !s.all Char.isDigit then none
  else if s.length > 1 && s.head? == some '0' then none
  else
    let n := s.foldl (fun acc c => acc * 10 + (c.toNat - '0'.toNat)) 0
    if n ≤ 32 then some n else none

/-- `IPMatch(ip1, ip2)` on IPv4 text: `none` = Go panics (invalid argument) or IPv6 (not modelled) -/
def ipMatch (ip1 ip2 : List Char) : Option Bool :=
  match parseIPv4 ip1 with
  | none => none
  | some a =>
      match splitOnChar '/' ip2 with
      | [net, len] =>
          match parseIPv4 net, parsePrefixLen len with
          | some n, some l =>
              -- `cidr.Contains(ip)`: compare under the mask of `l` leading ones
              let shift := 32 - l
              some (a / 2 ^ shift == n / 2 ^ shift)
          | _, _ => none
      | [single] => (parseIPv4 single).map (fun b => a == b)
      | _ => none

/-! ### IPMatch (IPv6: hex groups with at most one `::`; no zone, no embedded dotted quad) -/

def hexDigitVal (c : Char) : Option Nat :=
  if '0' ≤ c ∧ c ≤ '9' then some (c.toNat - '0'.toNat)
  else if 'a' ≤ c ∧ c ≤ 'f' then some (c.toNat - 'a'.toNat + 10)
  else if 'A' ≤ c ∧ c ≤ 'F' then some (c.toNat - 'A'.toNat + 10)
  else none

/-- one group: 1 to 4 hex digits -/
def parseHexGroup (s : List Char) : Option Nat :=
  if s.isEmpty || s.length > 4 then none
  else (s.mapM hexDigitVal).map (fun ds => ds.foldl (fun acc d => acc * 16 + d) 0)

def parseGroups (s : List Char) : Option (List Nat) :=
  if s.isEmpty then some [] else (splitOnChar ':' s).mapM parseHexGroup

/-- split at the first "::" -/
def splitEllipsis : List Char → Option (List Char × List Char)
  | [] => none
  | ':' :: ':' :: rest => some ([], rest)
  | c :: cs => (splitEllipsis cs).map (fun (a, b) => (c :: a, b))

def groupsToNat (gs : List Nat) : Nat := gs.foldl (fun acc g => acc * 65536 + g) 0

def parseIPv6 (s : List Char) : Option Nat :=
  match splitEllipsis s with
  | none =>
      match parseGroups s with
      | some gs => if gs.length == 8 then some (groupsToNat gs) else none
      | none => none
  | some (l, r) =>
      if (splitEllipsis r).isSome then none
      else match parseGroups l, parseGroups r with
        | some gl, some gr =>
            if gl.length + gr.length ≤ 7 then some (groupsToNat (gl ++ List.replicate (8 - gl.length - gr.length) 0 ++ gr)) else none
        | _, _ => none

def parsePrefixLen6 (s : List Char) : Option Nat :=
  if s.isEmpty || s.length > 3 || !s.all Char.isDigit then none
  else if s.length > 1 && s.head? == some '0' then none
  else
    let n := s.foldl (fun acc c => acc * 10 + (c.toNat - '0'.toNat)) 0
    if n ≤ 128 then some n else none

/-- `IPMatch` on IPv6 text -/
def ipMatch6 (ip1 ip2 : List Char) : Option Bool :=
  match parseIPv6 ip1 with
  | none => none
  | some a =>
      match splitOnChar '/' ip2 with
      | [net, len] =>
          match parseIPv6 net, parsePrefixLen6 len with
          | some n, some l =>
              let shift := 128 - l
              some (a / 2 ^ shift == n / 2 ^ shift)
          | _, _ => none
      | [single] => (parseIPv6 single).map (fun b => a == b)
      | _ => none

end Casbin.KM
