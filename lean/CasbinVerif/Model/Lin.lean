/-
  Linearizability of a recorded concurrent history against a sequential specification
  (Herlihy & Wing), and the checker that decides it.

  A history is the list of completed calls with the positions of their invocation and response in
  one global order (the harness draws both from an atomic counter).  `step` is the sequential
  specification: the single-threaded behaviour of one call, returning the new state and what the
  call reports.  For the SyncedEnforcer `step` is the enforcer model of Model/Enforcer.lean
  (driver: `Driver/Lin.lean`); the definitions here are generic.
-/
namespace Casbin.Lin

structure Call (Op : Type) where
  id : Nat
  inv : Nat
  res : Nat
  op : Op
  obs : String
  /-- a call that must be linearized before this one although their intervals overlap: used to
      split one call into two consecutive steps (the two phases of LoadPolicy, finding D19) -/
  after : Option Nat := none
deriving Repr

variable {σ Op : Type}

/-- running calls one after the other: every call must report what it reported in the history -/
def replay (step : σ → Op → σ × String) : σ → List (Call Op) → Bool
  | _, [] => true
  | s, c :: cs =>
      let (s', o) := step s c.op
      o == c.obs && replay step s' cs

/-- `a` happened before `b`: `a` returned before `b` was invoked, or `b` is declared to follow `a` -/
def before (a b : Call Op) : Bool := a.res < b.inv || b.after == some a.id

/-- the order never puts a call in front of one that happened before it -/
def respects : List (Call Op) → Bool
  | [] => true
  | c :: cs => cs.all (fun d => !before d c) && respects cs

/-- **linearizable**: some sequential order of the same calls, consistent with the real-time
    order, in which every call behaves as the specification says -/
def Linearizable (step : σ → Op → σ × String) (init : σ) (h : List (Call Op)) : Prop :=
  ∃ order : List (Call Op), order.Perm h ∧ respects order = true ∧ replay step init order = true

/-- remove the call at position `i` -/
def removeAt (l : List (Call Op)) (i : Nat) : List (Call Op) := l.take i ++ l.drop (i + 1)

/-- the checker (Wing & Gong): pick a pending call that no other pending call precedes, run it,
    compare its report, continue with the rest; `fuel` = number of pending calls -/
def search (step : σ → Op → σ × String) : Nat → σ → List (Call Op) → Bool
  | _, _, [] => true
  | 0, _, _ :: _ => false
  | n + 1, s, pending =>
      (List.range pending.length).any (fun i =>
        match pending[i]? with
        | none => false
        | some c =>
            let rest := removeAt pending i
            rest.all (fun d => !before d c) &&
            (let (s', o) := step s c.op
             o == c.obs && search step n s' rest))

def check (step : σ → Op → σ × String) (init : σ) (h : List (Call Op)) : Bool :=
  search step h.length init h

end Casbin.Lin
