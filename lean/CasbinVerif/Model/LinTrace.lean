import CasbinVerif.Model.Lin
/-
  Executions in which every call takes effect atomically at one point between its invocation
  and its response — what a method whose whole body runs inside one critical section of the
  SyncedEnforcer's lock looks like from outside (C12: a writer's section excludes everybody; a
  reader's section excludes writers, and read-path calls leave the abstract state alone).
-/
namespace Casbin.Lin

inductive TEv (Op : Type)
  | inv (id : Nat) (op : Op)        -- the call is invoked
  | atom (id : Nat)                 -- its critical section: the specification's step happens here
  | res (id : Nat) (obs : String)   -- it returns, reporting `obs`
deriving Repr

structure Open (Op : Type) where
  id : Nat
  inv : Nat
  op : Op
  /-- what the step produced, once the atomic point has been passed -/
  out : Option String := none
deriving Repr

variable {σ Op : Type}

/-- run a trace: positions in the trace are the time stamps; `none` = the trace is not an
    execution (a call responds before its atomic point, reports something else than its step
    produced, an id is reused, a call never returns) -/
def exec (step : σ → Op → σ × String) : Nat → σ → List (Open Op) → List (Call Op) → List (TEv Op) → Option (List (Call Op))
  | _, _, [], done, [] => some done
  | _, _, _ :: _, _, [] => none
  | pos, s, opn, done, .inv id op :: tr =>
      if opn.any (·.id == id) || done.any (·.id == id) then none
      else exec step (pos + 1) s (opn ++ [{ id := id, inv := pos, op := op }]) done tr
  | pos, s, opn, done, .atom id :: tr =>
      match opn.find? (·.id == id) with
      | some p =>
          if p.out.isSome then none
          else
            let (s', o) := step s p.op
            exec step (pos + 1) s' (opn.map (fun q => if q.id == id then { q with out := some o } else q)) done tr
      | none => none
  | pos, s, opn, done, .res id obs :: tr =>
      match opn.find? (·.id == id) with
      | some p =>
          if p.out == some obs then
            exec step (pos + 1) s (opn.filter (·.id != id))
              (done ++ [{ id := id, inv := p.inv, res := pos, op := p.op, obs := obs }]) tr
          else none
      | none => none

/-- the history of an execution -/
def historyOf (step : σ → Op → σ × String) (init : σ) (tr : List (TEv Op)) : Option (List (Call Op)) :=
  exec step 0 init [] [] tr

end Casbin.Lin
