import CasbinVerif.Model.EnforcerP
import CasbinVerif.Model.Filter
/-
  Loading policy text through the bundled adapters (`persist/file-adapter`, `persist/string-adapter`,
  the filtered file adapter) into the enforcer, and the two orderings run on every load
  (`SortPoliciesBySubjectHierarchy`, `SortPoliciesByPriority`).
-/
namespace Casbin

abbrev Stores := List (String × Store) × List (String × Store)

/-- `persist.LoadPolicyLine`: `none` = error; a skipped line leaves the stores as they are -/
def loadPolicyLine (md : ModelDef) (st : Stores) (line : List Char) : Option Stores :=
  match Csv.lineTokens line with
  | none => some st
  | some (.error _) => none
  | some (.ok toks) =>
      match toks.map String.ofList with
      | [] => none
      | pt :: rule => Enf.loadLine md st.1 st.2 pt rule

/-- the file adapter: line by line, the first error aborts the load -/
def loadFileLines (md : ModelDef) (st : Stores) : List (List Char) → Option Stores
  | [] => some st
  | l :: ls => match loadPolicyLine md st l with
    | none => none
    | some st' => loadFileLines md st' ls

/-- `bufio.Scanner`'s token limit: a longer line makes the scan fail -/
def maxScanLine : Nat := 65536

def loadFileText (md : ModelDef) (st : Stores) (text : List Char) : Option Stores :=
  let ls := Csv.fileLines text
  -- lines are delivered until the scanner meets an over-long one, then `scanner.Err()` is returned
  if (Cfg.readLines text).any (fun l => l.length ≥ maxScanLine) then none
  else loadFileLines md st ls

/-- the string adapter: every line on its own, errors ignored; an empty text is an error -/
def loadStringText (md : ModelDef) (st : Stores) (text : List Char) : Option Stores :=
  if text.isEmpty then none
  else some ((Csv.stringLines text).foldl (fun st l => (loadPolicyLine md st l).getD st) st)

/-- the filtered file adapter: lines the filter rejects are not handed on -/
def loadFilteredText (md : ModelDef) (st : Stores) (text : List Char) (f : Flt.Filter) : Option Stores :=
  if (Cfg.readLines text).any (fun l => l.length ≥ maxScanLine) then none
  else loadFileLines md st (Flt.keptLines text f)

/-! ### subject hierarchy -/

/-- `getNameWithDomain` -/
def nameWithDomain (d n : String) : String := d ++ "::" ++ n

/-- (child, parent) pairs of the grouping rules `g`, names prefixed by their domain; `none` = a rule
    with fewer than two fields ("policy g expect 2 more params") -/
def hierarchyEdges : List Rule → Option (List (String × String))
  | [] => some []
  | r :: rs =>
      match r with
      | c :: p :: rest =>
          let d := match rest with | [] => "" | x :: _ => x
          (hierarchyEdges rs).map ((nameWithDomain d c, nameWithDomain d p) :: ·)
      | _ => none

def assignLevel (acc : List (String × Nat)) (n : String) (lv : Nat) : List (String × Nat) := assocSet acc n lv

/-- the level-order walk from one root: every node popped at level `lv` gets `lv` (a later visit
    overwrites); stops when the frontier is empty or, on a cycle, beyond `bound` levels -/
def walkLevels (edges : List (String × String)) (bound : Nat) : Nat → List String → Nat → List (String × Nat) → List (String × Nat)
  | 0, _, _, acc => acc
  | fuel + 1, frontier, lv, acc =>
      if frontier.isEmpty || lv > bound then acc
      else
        let acc' := frontier.foldl (fun a n => assignLevel a n lv) acc
        let next := frontier.flatMap (fun n => (edges.filter (·.2 == n)).map (·.1))
        walkLevels edges bound fuel next (lv + 1) acc'

/-- `getSubjectHierarchyMap` with the roots taken in the given order -/
def hierarchyLevels (edges : List (String × String)) (roots : List String) : List (String × Nat) :=
  let names := (edges.flatMap (fun e => [e.1, e.2])).eraseDups
  -- children start at 1, everybody else at 0 (only roots keep 0 until walked)
  let init := names.map (fun n => (n, if edges.any (·.1 == n) then 1 else 0))
  roots.foldl (fun acc r => walkLevels edges names.length (names.length + 2) [r] 0 acc) init

def hierarchyRoots (edges : List (String × String)) : List String :=
  ((edges.flatMap (fun e => [e.1, e.2])).eraseDups).filter (fun n => !edges.any (·.1 == n))

/-- stable insertion into a list sorted by descending level -/
def insertByLevel (lvl : Rule → Nat) (r : Rule) : List Rule → List Rule
  | [] => [r]
  | q :: rest => if lvl r > lvl q then r :: q :: rest else q :: insertByLevel lvl r rest

/-- `SortPoliciesBySubjectHierarchy` for one policy list; `none` = the result depends on the order
    in which Go's map iteration meets the roots (finding D22): not modelled -/
def sortBySubject (g : List Rule) (domIdx : Option Nat) (rules : List Rule) : Option (Option (List Rule)) :=
  match hierarchyEdges g with
  | none => some none        -- error
  | some edges =>
      let roots := hierarchyRoots edges
      let l1 := hierarchyLevels edges roots
      let l2 := hierarchyLevels edges roots.reverse
      let lvl (lv : List (String × Nat)) (r : Rule) : Nat :=
        let d := match domIdx with | some i => r.getD i "" | none => ""
        ((lv.lookup (nameWithDomain d (r.getD 0 ""))).getD 0)
      if rules.all (fun r => lvl l1 r == lvl l2 r) then
        some (some (rules.foldl (fun acc r => insertByLevel (lvl l1) r acc) []))
      else none

namespace EnfP

/-- the tail of `LoadPolicy` once the adapter has filled the scratch model: the two orderings,
    role links, swap and invalidation.  `none` in the second component = nondeterministic order (D22) -/
def finishLoad (e : EnfP) (st : Stores) : Option (EnfP × Bool) :=
  let b := e.base
  let isSubj := b.md.e.lookup "e" == some (EffectKind.toExpr .subjectPriority)
  let sorted : Option (Option (List (String × Store))) :=
    if !isSubj then some (some st.1)
    else
      match st.2.lookup "g" with
      | none => some none                    -- GetAssertion("g","g") fails
      | some gs =>
          st.1.foldl (fun acc (pt, s) =>
            match acc with
            | some (some done) =>
                let domIdx := (b.md.p.lookup pt).bind (fun toks => toks.idxOf? "dom")
                (match sortBySubject gs.policy domIdx s.policy with
                 | none => none
                 | some none => some none
                 | some (some pol) => some (some (done ++ [(pt, { policy := pol, index := Store.reindex s.index pol 0 })])))
            | other => other) (some (some []))
  match sorted with
  | none => none
  | some none => some (e, false)
  | some (some p1) =>
      let p2 := Enf.sortStores b.md p1
      if b.autoBuild then
        let (rm', ok) := Enf.rebuildLinks b.md b.rm st.2
        if ok then
          some ({ { e with base := { b with p := p2, g := st.2, rm := rm' }.invalidate }.shadowRebuild.syncCache with unbound := [] }, true)
        else
          let (rmOld, _) := Enf.rebuildLinks b.md rm' b.g
          some ({ e with base := { b with rm := rmOld } }, false)
      else
        some ({ { e with base := { b with p := p2, g := st.2 }.invalidate }.syncCache with unbound := b.md.g.map (·.1) }, true)

def emptyStores (e : EnfP) : Stores :=
  (e.base.p.map (fun x => (x.1, Store.empty)), e.base.g.map (fun x => (x.1, Store.empty)))

/-- `LoadPolicy` with a file or string adapter holding `text` -/
def loadText (e : EnfP) (isFile : Bool) (text : List Char) : Option (EnfP × Bool) :=
  match (if isFile then loadFileText e.base.md e.emptyStores text else loadStringText e.base.md e.emptyStores text) with
  | none => some (e, false)
  | some st => e.finishLoad st

end EnfP
end Casbin

namespace Casbin

/-- like `loadFileLines`, but keeping what was loaded before the first error (the filtered load
    works on the live model, not on a scratch copy) -/
def loadFileLinesPartial (md : ModelDef) (st : Stores) : List (List Char) → Stores × Bool
  | [] => (st, true)
  | l :: ls => match loadPolicyLine md st l with
    | none => (st, false)
    | some st' => loadFileLinesPartial md st' ls

/-- the filtered file adapter as the enforcer sees it -/
structure FASt where
  text : List Char
  filtered : Bool := true        -- `NewFilteredAdapter` starts filtered
deriving Repr

/-- `SavePolicy` of the file adapters: one line per rule, p types before g types -/
def saveText (p g : List (String × Store)) : List Char :=
  let lines := (p ++ g).flatMap (fun (pt, s) => s.policy.map (fun r => Csv.saveLine pt.toList (r.map String.toList)))
  match lines with
  | [] => []
  | l :: ls => ls.foldl (fun acc x => acc ++ '\n' :: x) l

namespace EnfP

/-- as `finishLoad`, for a load that already happened in the live model -/
def finishLoadLive (e : EnfP) (st : Stores) : Option (EnfP × Bool) :=
  match e.finishLoad st with
  | none => none
  | some (e', true) => some (e', true)
  | some (_, false) => some ({ e with base := { e.base with p := st.1, g := st.2 } }, false)

/-- `Enforcer.LoadFilteredPolicy(filter)` (`clear = true`) / `LoadIncrementalFilteredPolicy` on the
    filtered file adapter; `flt = none` is the nil filter (a full load into the live model) -/
def loadFilteredFA (e : EnfP) (fa : FASt) (flt : Option Flt.Filter) (clear : Bool) : Option (EnfP × FASt × Bool) :=
  let b := e.base
  let st0 : Stores := if clear then e.emptyStores else (b.p, b.g)
  let b0 : Enf := { b with p := st0.1, g := st0.2 }.invalidate
  let tooLong := (Cfg.readLines fa.text).any (fun l => l.length ≥ maxScanLine)
  let lines := match flt with
    | none => Csv.fileLines fa.text
    | some f => Flt.keptLines fa.text f
  let (st1, okL) := if tooLong then (st0, false) else loadFileLinesPartial b.md st0 lines
  let fa' : FASt := match flt with
    | none => { fa with filtered := if okL then false else fa.filtered }   -- a completed full load ends the filtered state
    | some _ => { fa with filtered := true }     -- set before the load: a failed filtered load leaves a partial view
  if !okL then
    some ({ e with base := { b0 with p := st1.1, g := st1.2 } }.syncCache, fa', false)
  else
    -- sorts, then initRmMap (clears every manager), then BuildRoleLinks if auto-build is on
    match ({ e with base := { b0 with rm := b0.rm.map (fun x => (x.1, x.2.clear)) } } : EnfP).finishLoadLive st1 with
    | none => none
    | some (e', ok) => some (e', fa', ok)

/-- a filter value that is not a `*Filter`: the adapter refuses it, after the enforcer has cleared
    its model (`clear`) and dropped its compiled matchers; the adapter is filtered from then on -/
def loadBadFilterFA (e : EnfP) (fa : FASt) (clear : Bool) : EnfP × FASt :=
  let b := e.base
  let st0 : Stores := if clear then e.emptyStores else (b.p, b.g)
  let b0 : Enf := { b with p := st0.1, g := st0.2 }.invalidate
  ({ e with base := b0 }.syncCache, { fa with filtered := true })

/-- `SavePolicy` on the filtered adapter: refused while filtered -/
def saveFA (e : EnfP) (fa : FASt) : FASt × Bool :=
  if fa.filtered then (fa, false)
  else ({ fa with text := saveText e.base.p e.base.g }, true)

end EnfP
end Casbin
