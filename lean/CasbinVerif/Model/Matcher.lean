import CasbinVerif.Basic
/-
  Matcher expressions and their evaluation: the subset of `casbin/govaluate` that casbin models
  use, with govaluate's semantics (left operand first; `&&`/`||` short-circuit on a *bool* left
  operand; operand types are checked after both sides have been evaluated; `==` is deep equality
  and never fails; comparisons need two numbers or two strings; function arguments are evaluated
  left to right; any built-in error or panic aborts the evaluation with an error).
  The parser is not modelled: matchers reach Lean as ASTs.
-/
namespace Casbin

/-- an attribute value / literal -/
inductive Atom | s (x : String) | n (x : Int)
deriving DecidableEq, Repr, Inhabited

/-- run-time values: strings, booleans, numbers (float64 in Go; the harness only uses integers),
    attribute records (ABAC request objects, `map[string]interface{}` in the harness) -/
inductive Val | str (x : String) | bool (x : Bool) | num (x : Int) | obj (fields : List (String × Atom))
deriving DecidableEq, Repr, Inhabited

def Atom.toVal : Atom → Val
  | .s x => .str x
  | .n x => .num x

inductive Expr
  | lit (v : Atom)
  | blit (b : Bool)
  | rTok (i : Nat)                      -- `r_xxx`: the i-th request value
  | pTok (i : Nat)                      -- `p_xxx`: the i-th field of the rule
  | badTok                              -- a token neither definition declares ("No parameter found")
  | rAttr (i : Nat) (f : String)        -- `r_xxx.Field`
  | and (a b : Expr) | or (a b : Expr) | not (a : Expr)
  | eq (a b : Expr) | ne (a b : Expr)
  | lt (a b : Expr) | le (a b : Expr) | gt (a b : Expr) | ge (a b : Expr)
  | inLits (a : Expr) (lits : List Atom)   -- `a in ('x', 'y', …)` with at least two literals
  | call2 (fn : String) (a b : Expr)    -- built-in or custom function
  | call3 (fn : String) (a b c : Expr)
  | g2 (gt : String) (a b : Expr)       -- role link test `g(a, b)`
  | g3 (gt : String) (a b c : Expr)     -- `g(a, b, dom)`
  | eval (a : Expr)                     -- `eval(p_sub_rule)`
deriving Repr, Inhabited

/-- the outcome of an evaluation: a value or an error (govaluate error, built-in error, recovered panic) -/
abbrev Res := Option Val

structure Env where
  r : List Val
  p : List String
  /-- built-in / custom functions: `none` = error or panic -/
  fn : String → List Val → Res
  /-- `HasLink` of the role manager bound to the role definition -/
  link : String → List String → Bool
  /-- the matcher text → AST table for `eval()` (a missing entry is a parse error) -/
  evalTab : String → Option Expr

def cmpVals (sop : String → String → Bool) (nop : Int → Int → Bool) : Val → Val → Res
  | .str x, .str y => some (.bool (sop x y))
  | .num x, .num y => some (.bool (nop x y))
  | _, _ => none

/-- one level of evaluation; `hook` evaluates the expression an `eval()` call refers to -/
def evalCore (hook : Expr → Res) (ρ : Env) : Expr → Res
  | .lit v => some v.toVal
  | .blit b => some (.bool b)
  | .rTok i => ρ.r[i]?
  | .pTok i => (ρ.p[i]?).map Val.str
  | .badTok => none
  | .rAttr i f =>
      match ρ.r[i]? with
      | some (.obj fields) => (fields.lookup f).map Atom.toVal
      | _ => none
  | .and a b =>
      match evalCore hook ρ a with
      | none => none
      | some (.bool false) => some (.bool false)
      | some l =>
          match evalCore hook ρ b with
          | none => none
          | some r => match l, r with
            | .bool x, .bool y => some (.bool (x && y))
            | _, _ => none
  | .or a b =>
      match evalCore hook ρ a with
      | none => none
      | some (.bool true) => some (.bool true)
      | some l =>
          match evalCore hook ρ b with
          | none => none
          | some r => match l, r with
            | .bool x, .bool y => some (.bool (x || y))
            | _, _ => none
  | .not a =>
      match evalCore hook ρ a with
      | some (.bool x) => some (.bool (!x))
      | _ => none
  | .eq a b =>
      match evalCore hook ρ a with
      | none => none
      | some x => match evalCore hook ρ b with
        | none => none
        | some y => some (.bool (x == y))
  | .ne a b =>
      match evalCore hook ρ a with
      | none => none
      | some x => match evalCore hook ρ b with
        | none => none
        | some y => some (.bool (x != y))
  | .lt a b =>
      match evalCore hook ρ a with
      | none => none
      | some x => match evalCore hook ρ b with
        | none => none
        | some y => cmpVals (· < ·) (· < ·) x y
  | .le a b =>
      match evalCore hook ρ a with
      | none => none
      | some x => match evalCore hook ρ b with
        | none => none
        | some y => cmpVals (· ≤ ·) (· ≤ ·) x y
  | .gt a b =>
      match evalCore hook ρ a with
      | none => none
      | some x => match evalCore hook ρ b with
        | none => none
        | some y => cmpVals (· > ·) (· > ·) x y
  | .ge a b =>
      match evalCore hook ρ a with
      | none => none
      | some x => match evalCore hook ρ b with
        | none => none
        | some y => cmpVals (· ≥ ·) (· ≥ ·) x y
  | .inLits a lits =>
      match evalCore hook ρ a with
      | none => none
      | some x => some (.bool (lits.any (fun l => l.toVal == x)))
  | .call2 fn a b =>
      match evalCore hook ρ a with
      | none => none
      | some x => match evalCore hook ρ b with
        | none => none
        | some y => ρ.fn fn [x, y]
  | .call3 fn a b c =>
      match evalCore hook ρ a with
      | none => none
      | some x => match evalCore hook ρ b with
        | none => none
        | some y => match evalCore hook ρ c with
          | none => none
          | some z => ρ.fn fn [x, y, z]
  | .g2 gt a b =>
      match evalCore hook ρ a with
      | none => none
      | some x => match evalCore hook ρ b with
        | none => none
        | some y => match x, y with
          | .str u, .str v => some (.bool (ρ.link gt [u, v]))
          | _, _ => none                 -- the `.(string)` assertion panics; enforce() recovers
  | .g3 gt a b c =>
      match evalCore hook ρ a with
      | none => none
      | some x => match evalCore hook ρ b with
        | none => none
        | some y => match evalCore hook ρ c with
          | none => none
          | some z => match x, y, z with
            | .str u, .str v, .str d => some (.bool (ρ.link gt [u, v, d]))
            | _, _, _ => none
  | .eval a =>
      match evalCore hook ρ a with
      | some (.str text) =>
          match ρ.evalTab text with
          | some e => hook e
          | none => none
      | _ => none

/-- evaluation with `eval()` nesting bounded by `fuel` -/
def evalExpr : Nat → Env → Expr → Res
  | 0, ρ, e => evalCore (fun _ => none) ρ e
  | n + 1, ρ, e => evalCore (evalExpr n ρ) ρ e

/-- `maxEvalNesting`: how deep `eval()` may be nested inside `eval()`-ed rules -/
def evalFuel : Nat := 32

/-- `util.HasEval` on the AST -/
def Expr.hasEval : Expr → Bool
  | .eval _ => true
  | .and a b | .or a b | .eq a b | .ne a b | .lt a b | .le a b | .gt a b | .ge a b
  | .call2 _ a b | .g2 _ a b => a.hasEval || b.hasEval
  | .call3 _ a b c | .g3 _ a b c => a.hasEval || b.hasEval || c.hasEval
  | .not a | .inLits a _ => a.hasEval
  | _ => false

/-- `strings.Contains(expString, pType+"_")`: does the matcher mention the policy type at all -/
def Expr.mentionsP : Expr → Bool
  | .pTok _ => true
  | .and a b | .or a b | .eq a b | .ne a b | .lt a b | .le a b | .gt a b | .ge a b
  | .call2 _ a b | .g2 _ a b => a.mentionsP || b.mentionsP
  | .call3 _ a b c | .g3 _ a b c => a.mentionsP || b.mentionsP || c.mentionsP
  | .not a | .inLits a _ | .eval a => a.mentionsP
  | _ => false

/-- the role definitions whose g-function the matcher calls -/
def Expr.gTypes : Expr → List String
  | .g2 gty a b => gty :: (a.gTypes ++ b.gTypes)
  | .g3 gty a b c => gty :: (a.gTypes ++ b.gTypes ++ c.gTypes)
  | .and a b | .or a b | .eq a b | .ne a b | .lt a b | .le a b | .gt a b | .ge a b
  | .call2 _ a b => a.gTypes ++ b.gTypes
  | .call3 _ a b c => a.gTypes ++ b.gTypes ++ c.gTypes
  | .not a | .inLits a _ | .eval a => a.gTypes
  | _ => []

end Casbin
