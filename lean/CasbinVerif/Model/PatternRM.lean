import CasbinVerif.Model.RoleGraph
/-
  Mirror of `RoleManagerImpl` / `DomainManager` *with* matching functions
  (`AddNamedMatchingFunc`, `AddNamedDomainMatchingFunc`).  Unlike the plain managers the set of
  known names matters: `getRole` creates a name on first use (AddLink, DeleteLink keep it;
  HasLink/GetRoles/GetUsers remove the ones they created), and a name is linked by `matched` /
  `matchedBy` to every other known name it matches or is matched by.  `matched` is derived here
  from the name set (the Go code maintains exactly this relation sequentially).
-/
namespace Casbin

/-- one `RoleManagerImpl` with a matching function -/
structure PRM1 where
  names : List String := []
  edges : List (String × String) := []     -- user → role
deriving Repr, Inhabited

/-- `rm.Match(str, pattern)`: equal, or accepted by the matching function -/
def pmatch (m : String → String → Bool) (str pattern : String) : Bool := str == pattern || m str pattern

namespace PRM1

def withName (rm : PRM1) (n : String) : PRM1 := if rm.names.contains n then rm else { rm with names := rm.names ++ [n] }

def addLink (rm : PRM1) (u r : String) : PRM1 :=
  let rm := (rm.withName u).withName r
  if rm.edges.contains (u, r) then rm else { rm with edges := rm.edges ++ [(u, r)] }

/-- `DeleteLink`: `getRole` creates both names and they stay -/
def deleteLink (rm : PRM1) (u r : String) : PRM1 :=
  let rm := (rm.withName u).withName r
  { rm with edges := rm.edges.filter (· != (u, r)) }

def rolesOf (rm : PRM1) (x : String) : List String := (rm.edges.filter (·.1 == x)).map (·.2)
def usersOf (rm : PRM1) (x : String) : List String := (rm.edges.filter (·.2 == x)).map (·.1)
/-- `x.matched`: the known names that match pattern `x` -/
def matched (m : String → String → Bool) (rm : PRM1) (x : String) : List String :=
  rm.names.filter (fun y => y != x && pmatch m y x)
/-- `x.matchedBy`: the known patterns that `x` matches -/
def matchedBy (m : String → String → Bool) (rm : PRM1) (x : String) : List String :=
  rm.names.filter (fun y => y != x && pmatch m x y)

/-- `Role.rangeRoles` -/
def rangeRoles (m : String → String → Bool) (rm : PRM1) (x : String) : List String :=
  let a := rm.rolesOf x
  a ++ a.flatMap (matched m rm) ++ (matchedBy m rm x).flatMap rm.rolesOf

/-- `Role.rangeUsers` -/
def rangeUsers (m : String → String → Bool) (rm : PRM1) (x : String) : List String :=
  let a := rm.usersOf x
  a ++ a.flatMap (matched m rm) ++ (matchedBy m rm x).flatMap rm.usersOf

def pbfs (m : String → String → Bool) (rm : PRM1) (target : String) : List String → Nat → Bool
  | _, 0 => false
  | fr, n + 1 =>
      if fr.isEmpty then false
      else if fr.any (fun x => x == target || pmatch m x target) then true
      else pbfs m rm target (fr.flatMap (rangeRoles m rm)).eraseDups n

/-- `HasLink` (the temporary names exist during the search only) -/
def hasLink (m : String → String → Bool) (rm : PRM1) (u r : String) (maxLevel : Nat) : Bool :=
  if u == r || pmatch m u r then true
  else pbfs m ((rm.withName u).withName r) r [u] (maxLevel + 1)

def getRoles (m : String → String → Bool) (rm : PRM1) (u : String) : List String :=
  (rangeRoles m (rm.withName u) u).eraseDups

def getUsers (m : String → String → Bool) (rm : PRM1) (r : String) : List String :=
  (rangeUsers m (rm.withName r) r).eraseDups

end PRM1

/-- a role manager with matching functions: one `PRM1` per domain ("" for the plain manager) -/
structure PRM where
  kind : RMKind
  doms : List (String × PRM1) := []
  matchFn : Option String := none       -- name of the registered matching function (oracle)
  domFn : Option String := none         -- name of the registered domain matching function
  maxLevel : Nat := 10
deriving Repr, Inhabited

namespace PRM

/-- resolve an optional function name against the oracle table -/
def fnOf (table : String → String → String → Bool) : Option String → String → String → Bool
  | none => fun _ _ => false
  | some f => table f

def dom (rm : PRM) (domains : List String) : String :=
  match rm.kind with
  | .plain => ""
  | .domain => domains.headD ""

def setDom (rm : PRM) (d : String) (x : PRM1) : PRM :=
  if rm.doms.any (·.1 == d) then { rm with doms := rm.doms.map (fun p => if p.1 == d then (d, x) else p) }
  else { rm with doms := rm.doms ++ [(d, x)] }

/-- `getRoleManager(domain, store)`: an absent domain starts empty and, with a domain matching
    function, copies the links of every other domain whose pattern it matches -/
def getDom (t : String → String → String → Bool) (rm : PRM) (d : String) : PRM1 :=
  match rm.doms.lookup d with
  | some x => x
  | none =>
      match rm.domFn with
      | none => {}
      | some _ =>
          rm.doms.foldl (fun acc (d2, x2) =>
            if d != d2 && pmatch (fnOf t rm.domFn) d d2 then x2.edges.foldl (fun a e => a.addLink e.1 e.2) acc else acc) {}

/-- the stored domains affected by a change in `d`: those matching the pattern `d` -/
def affected (t : String → String → String → Bool) (rm : PRM) (d : String) : List String :=
  match rm.domFn with
  | none => []
  | some _ => (rm.doms.filter (fun (d2, _) => d != d2 && pmatch (fnOf t rm.domFn) d2 d)).map (·.1)

def addLink (t : String → String → String → Bool) (rm : PRM) (u r : String) (domains : List String) : PRM :=
  let d := rm.dom domains
  let rm1 := rm.setDom d ((rm.getDom t d).addLink u r)
  (rm1.affected t d).foldl (fun acc d2 => acc.setDom d2 ((acc.getDom t d2).addLink u r)) rm1

def deleteLink (t : String → String → String → Bool) (rm : PRM) (u r : String) (domains : List String) : PRM :=
  let d := rm.dom domains
  let rm1 := rm.setDom d ((rm.getDom t d).deleteLink u r)
  (rm1.affected t d).foldl (fun acc d2 => acc.setDom d2 ((acc.getDom t d2).deleteLink u r)) rm1

def clear (rm : PRM) : PRM := { rm with doms := [] }

def hasLink (t : String → String → String → Bool) (rm : PRM) (u r : String) (domains : List String) : Bool :=
  (rm.getDom t (rm.dom domains)).hasLink (fnOf t rm.matchFn) u r rm.maxLevel

def getRoles (t : String → String → String → Bool) (rm : PRM) (u : String) (domains : List String) : List String :=
  (rm.getDom t (rm.dom domains)).getRoles (fnOf t rm.matchFn) u

def getUsers (t : String → String → String → Bool) (rm : PRM) (r : String) (domains : List String) : List String :=
  (rm.getDom t (rm.dom domains)).getUsers (fnOf t rm.matchFn) r

/-- all links, as `Range` reports them per domain -/
def allLinks (rm : PRM) : List (String × String × String) :=
  rm.doms.flatMap (fun (d, x) => x.edges.map (fun e => (e.1, e.2, d)))

def applyRules (t : String → String → String → Bool) (rm : PRM) (count : Nat) (add : Bool) : List Rule → PRM × Bool
  | [] => (rm, true)
  | rule :: rest =>
      match linkOfRule count rule with
      | none => (rm, false)
      | some (u, v, ds) =>
          PRM.applyRules t (if add then rm.addLink t u v ds else rm.deleteLink t u v ds) count add rest

/-- `AddMatchingFunc`: set the function, then `rebuild` every per-domain manager from its links
    (isolated names are forgotten) -/
def addMatchingFunc (rm : PRM) (f : String) : PRM :=
  { rm with matchFn := some f,
            doms := rm.doms.map (fun (d, x) => (d, x.edges.foldl (fun a e => a.addLink e.1 e.2) {})) }

/-- `AddDomainMatchingFunc` on a `DomainManager`: set it, then `rebuild`: clear and re-add every link
    domain by domain (now with pattern-domain fan-out); on a plain manager it only stores the function -/
def addDomainMatchingFunc (t : String → String → String → Bool) (rm : PRM) (f : String) : PRM :=
  match rm.kind with
  | .plain => { rm with domFn := some f }
  | .domain =>
      let links := rm.allLinks
      links.foldl (fun acc l => acc.addLink t l.1 l.2.1 [l.2.2]) { rm with domFn := some f, doms := [] }

/-- a pattern manager holding the links of a plain one -/
def ofRM (rm : RM) : PRM :=
  rm.links.foldl (fun acc l => acc.addLink (fun _ _ _ => false) l.1 l.2.1 [l.2.2]) { kind := rm.kind, maxLevel := rm.maxLevel }

end PRM
end Casbin
