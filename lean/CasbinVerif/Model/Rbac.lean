import CasbinVerif.Model.Enforce
/-
  Mirror of the RBAC introspection APIs of `rbac_api.go` for role managers without matching
  functions: `GetNamedImplicitRolesForUser` (queue + visited set over `GetRoles`, no depth bound),
  `GetImplicitUsersForRole` (the same walk over `GetUsers`), `GetNamedImplicitPermissionsForUser`
  (rules whose subject is the user or one of the implicit roles; with a domain argument the rule's
  domain column must `Match` it) and `GetImplicitUsersForPermission` (subjects that are not role
  names, filtered by `Enforce`).
-/
namespace Casbin.Rbac

/-- the work-list loop shared by `GetNamedImplicitRolesForUser` and `GetImplicitUsersForRole`:
    `next x` is `GetRoles(x)` (resp. `GetUsers(x)`); every name is enqueued at most once.
    `none` = the fuel ran out (never happens with the fuel the callers give: `walk_terminates`) -/
def walk (next : String → List String) : Nat → (queue seen res : List String) → Option (List String)
  | _, [], _, res => some res
  | 0, _ :: _, _, _ => none
  | n + 1, x :: q, seen, res =>
      -- `for _, r := range roles { if !roleSet[r] { res = append(res, r); q = append(q, r); roleSet[r] = true } }`
      let new := (next x).eraseDups.filter (fun r => !seen.contains r)
      walk next n (q ++ new) (seen ++ new) (res ++ new)

/-- `GetNamedImplicitRolesForUser(ptype, name, domain...)` on the manager bound to `ptype` -/
def implicitRoles (rm : RM) (u : String) (ds : List String) : Option (List String) :=
  walk (fun x => rm.getRoles x ds) (rm.links.length + 1) [u] [u] []

/-- `GetImplicitUsersForRole(name, domain...)` on one manager -/
def implicitUsersForRole (rm : RM) (r : String) (ds : List String) : Option (List String) :=
  walk (fun x => rm.getUsers x ds) (rm.links.length + 1) [r] [r] []

/-- the result of a listing API: a list, or the error it returned -/
inductive Listing (α : Type) | ok (l : List α) | err
deriving Repr, DecidableEq

/-- `GetNamedImplicitPermissionsForUser(ptype, gtype, user, domain...)`.
    `domIdx` = `GetFieldIndex(ptype, "dom")` (`none` = the definition has no such token). -/
def implicitPermissions (policy : List Rule) (rm : RM) (domIdx : Option Nat) (u : String) (ds : List String) :
    Listing Rule :=
  match implicitRoles rm u ds with
  | none => .err
  | some roles =>
      let subjects := u :: roles
      match ds with
      | [] => .ok (policy.filter (fun rule => subjects.contains (rule.headD "")))
      | [d] =>
          -- the error of GetFieldIndex is only looked at inside the loop
          if policy.isEmpty then .ok []
          else match domIdx with
            | none => .err
            | some j =>
                .ok ((policy.filter (fun rule => (rule.getD j "") == d && subjects.contains (rule.headD ""))).map
                  (fun rule => rule.set j d))
      | _ => if policy.isEmpty then .ok [] else .err

/-- `util.ArrayRemoveDuplicates` keeps first occurrences -/
def dedup (l : List String) : List String := l.eraseDups

/-- the candidate users of `GetImplicitUsersForPermission`: subjects of every policy type with a
    `sub` token and first columns of every grouping policy, minus every grouping second column -/
def candidateUsers (pSubjects gFirst gSecond : List String) : List String :=
  (dedup (dedup pSubjects ++ dedup gFirst)).filter (fun s => !(dedup gSecond).contains s)

/-- `GetImplicitUsersForPermission(permission...)`: `decide u` = the answer of `Enforce(u, permission...)`
    (`none` = error: the API stops and returns it) -/
def implicitUsersForPermission (cands : List String) (decide : String → Option Bool) : Listing String :=
  match cands.mapM (fun u => (decide u).map (fun b => (u, b))) with
  | none => .err
  | some l => .ok ((l.filter (·.2)).map (·.1))

/-- `GetImplicitUsersForResource(resource)` (after its repair): the rules on the resource; a rule
    held by a role name stands for every non-role name that inherits the role, directly or through
    other roles.  `isRole` = `GetAllRoles()` (second column of the grouping rules), `si` / `oi` =
    the `sub` / `obj` field indexes; duplicates removed keeping first occurrences. -/
def implicitUsersForResource (policy : List Rule) (rm : RM) (isRole : String → Bool) (si oi : Nat)
    (resource : String) : Option (List Rule) :=
  ((policy.filter (fun rule => rule.getD oi "" == resource)).mapM (fun rule =>
      let sub := rule.getD si ""
      if !isRole sub then some [rule]
      else (implicitUsersForRole rm sub []).map
        (fun us => (us.filter (fun u => !isRole u)).map (fun u => rule.set si u)))).map
    (fun rows => rows.flatten.eraseDups)

/-- the stock RBAC model: `m = g(r.sub, p.sub) && r.obj == p.obj && r.act == p.act`, allow-override -/
def rbacModel : ModelDef :=
  { r := [("r", 3)], p := [("p", ["sub", "obj", "act"])], g := [("g", 2, .plain)],
    e := [("e", "some(where (p_eft == allow))")],
    m := [("m", .and (.and (.g2 "g" (.rTok 0) (.pTok 0)) (.eq (.rTok 1) (.pTok 1))) (.eq (.rTok 2) (.pTok 2)))] }

/-- the stock RBAC-with-domains model:
    `m = g(r.sub, p.sub, r.dom) && r.dom == p.dom && r.obj == p.obj && r.act == p.act` -/
def rbacDomModel : ModelDef :=
  { r := [("r", 4)], p := [("p", ["sub", "dom", "obj", "act"])], g := [("g", 3, .domain)],
    e := [("e", "some(where (p_eft == allow))")],
    m := [("m", .and (.and (.and (.g3 "g" (.rTok 0) (.pTok 0) (.rTok 1)) (.eq (.rTok 1) (.pTok 1)))
                  (.eq (.rTok 2) (.pTok 2))) (.eq (.rTok 3) (.pTok 3)))] }

end Casbin.Rbac
