import CasbinVerif.Model.EnfOps
/-
  Mirror of the convenience layer of `rbac_api.go` / `rbac_api_with_domains.go`: the calls that
  change the policy.  Each one is a short program over the management calls of `MOp` (the Go code
  calls the exported management API, so every step persists, mutates, builds links and notifies on
  its own); the composite ones (DeleteUser, DeleteRole, DeleteAllUsersByDomain, DeleteDomains) stop
  at the first step that reports an error and keep what the earlier steps did (finding D40).

  The program is parametric in the step function so that the plain enforcer model (`Enf.applyM`,
  the theorems) and the pattern-manager wrapper (`EnfP.applyM`, the driver) run the same text.
-/
namespace Casbin

inductive RbacOp
  | addRoleForUser (u r : String) (ds : List String)
  | addRolesForUser (u : String) (rs : List String) (ds : List String)
  | deleteRoleForUser (u r : String) (ds : List String)
  | deleteRolesForUser (u : String) (ds : List String)
  | deleteUser (u : String)
  | deleteRole (r : String)
  | deletePermission (perm : List String)
  | addPermissionForUser (u : String) (perm : List String)
  | addPermissionsForUser (u : String) (perms : List (List String))
  | deletePermissionForUser (u : String) (perm : List String)
  | deletePermissionsForUser (u : String)
  | deleteRolesForUserInDomain (u d : String)
  | deleteAllUsersByDomain (d : String)
  | deleteDomains (ds : List String)
deriving Repr, DecidableEq

namespace Enf.MRes
def isErr : Enf.MRes → Bool | .err _ => true | .ok _ => false
def val : Enf.MRes → Bool | .err b => b | .ok b => b
/-- keep the error status, replace the boolean -/
def withVal : Enf.MRes → Bool → Enf.MRes | .err _, b => .err b | .ok _, b => .ok b
end Enf.MRes

namespace Rbac

/-- `e.GetFieldIndex("p", field)`: the index resolved when the definition was added -/
def fieldIndex (e : Enf) (field : String) : Option Nat := (e.md.p.lookup "p").bind (fun toks => toks.idxOf? field)

/-- the closure `getUser` of DeleteAllUsersByDomain: the rules whose column `index` is the domain;
    nothing when the list is empty or its first rule is too short -/
def rulesOfDomain (index : Nat) (policies : List Rule) (domain : String) : List Rule :=
  match policies with
  | [] => []
  | first :: _ => if first.length ≤ index then [] else policies.filter (fun r => r.getD index "" == domain)

/-- the management calls `DeleteAllUsersByDomain(domain)` makes, in order; `none` = it returns an
    error before the first one (no `g` definition, no `dom` token) -/
def deleteAllUsersByDomainSteps (e : Enf) (d : String) : Option (MOp × (Enf → MOp)) :=
  match e.getStore "g" "g", e.getStore "p" "p", fieldIndex e "dom" with
  | some gs, some _, some index =>
      some (.removeMany "g" "g" (rulesOfDomain 2 gs.policy d),
            fun e' => .removeMany "p" "p" (rulesOfDomain index (((e'.getStore "p" "p").map (·.policy)).getD []) d))
  | _, _, _ => none

variable {σ : Type}

/-- `DeleteAllUsersByDomain` -/
def deleteAllUsersByDomain (step : σ → MOp → Option (σ × Enf.MRes)) (view : σ → Enf) (s : σ) (d : String) :
    Option (σ × Enf.MRes) :=
  match deleteAllUsersByDomainSteps (view s) d with
  | none => some (s, .err false)
  | some (op1, op2) => do
      let (s1, r1) ← step s op1
      if r1.isErr then pure (s1, .err false)
      else
        let (s2, r2) ← step s1 (op2 (view s1))
        if r2.isErr then pure (s2, .err false) else pure (s2, .ok true)

/-- the loop of `DeleteDomains(domains...)` -/
def deleteDomainsLoop (step : σ → MOp → Option (σ × Enf.MRes)) (view : σ → Enf) : σ → List String → Option (σ × Enf.MRes)
  | s, [] => some (s, .ok true)
  | s, d :: ds => do
      let (s1, r1) ← deleteAllUsersByDomain step view s d
      if r1.isErr then pure (s1, .err false) else deleteDomainsLoop step view s1 ds

/-- one call of the convenience layer; `none` = a Go run-time panic of one of its steps -/
def run (step : σ → MOp → Option (σ × Enf.MRes)) (view : σ → Enf) (s : σ) : RbacOp → Option (σ × Enf.MRes)
  | .addRoleForUser u r ds => step s (.add "g" "g" (u :: r :: ds))
  | .addRolesForUser u rs ds => step s (.addMany "g" "g" false (rs.map (fun r => u :: r :: ds)))
  | .deleteRoleForUser u r ds => step s (.remove "g" "g" (u :: r :: ds))
  | .deleteRolesForUser u ds =>
      match ds with
      | [] => step s (.removeFiltered "g" "g" 0 [u])
      | [d] => step s (.removeFiltered "g" "g" 0 [u, "", d])
      | _ => some (s, .err false)                       -- ErrDomainParameter
  | .deleteUser u => do
      let (s1, r1) ← step s (.removeFiltered "g" "g" 0 [u])
      if r1.isErr then pure (s1, r1)
      else match fieldIndex (view s1) "sub" with
        | none => pure (s1, .err false)
        | some si => do
            let (s2, r2) ← step s1 (.removeFiltered "p" "p" si [u])
            pure (s2, r2.withVal (r1.val || r2.val))
  | .deleteRole r => do
      let (s1, r1) ← step s (.removeFiltered "g" "g" 0 [r])
      if r1.isErr then pure (s1, r1)
      else
        let (s2, r2) ← step s1 (.removeFiltered "g" "g" 1 [r])
        if r2.isErr then pure (s2, .err r1.val)
        else match fieldIndex (view s2) "sub" with
          | none => pure (s2, .err false)
          | some si => do
              let (s3, r3) ← step s2 (.removeFiltered "p" "p" si [r])
              pure (s3, r3.withVal (r1.val || r2.val || r3.val))
  | .deletePermission perm => step s (.removeFiltered "p" "p" 1 perm)
  | .addPermissionForUser u perm => step s (.add "p" "p" (u :: perm))
  | .addPermissionsForUser u perms => step s (.addMany "p" "p" false (perms.map (fun p => u :: p)))
  | .deletePermissionForUser u perm => step s (.remove "p" "p" (u :: perm))
  | .deletePermissionsForUser u =>
      match fieldIndex (view s) "sub" with
      | none => some (s, .err false)
      | some si => step s (.removeFiltered "p" "p" si [u])
  | .deleteRolesForUserInDomain u d =>
      match (view s).rm.lookup "g" with
      | none => some (s, .err false)                    -- "role manager is not initialized"
      | some rm => step s (.removeMany "g" "g" ((rm.getRoles u [d]).map (fun r => [u, r, d])))
  | .deleteAllUsersByDomain d => deleteAllUsersByDomain step view s d
  | .deleteDomains ds =>
      match ds with
      | [] => do let (s1, _) ← step s .clear; pure (s1, .ok true)
      | _ => deleteDomainsLoop step view s ds

end Rbac

/-- the convenience layer on the plain enforcer model -/
def Enf.applyRbac (e : Enf) (op : RbacOp) : Option (Enf × Enf.MRes) := Rbac.run Enf.applyM id e op

end Casbin
