import CasbinVerif.Basic
/-
  Mirror of `rbac/default-role-manager/role_manager.go` for managers without matching functions:
  `RoleManagerImpl` (plain; ignores domains) and `DomainManager` (one plain manager per domain).
  The state is the set of links, kept as a duplicate-free list of (user, role, domain); the
  temporary roles that `HasLink`/`GetRoles`/`GetUsers` create and remove leave no trace.
-/
namespace Casbin

/-- (user, role, domain); domain "" is `defaultDomain` -/
abbrev Link := String × String × String

inductive RMKind | plain | domain
deriving DecidableEq, Repr, Inhabited

structure RM where
  kind : RMKind
  links : List Link
  maxLevel : Nat := 10
deriving Repr, Inhabited

namespace RM

def empty (k : RMKind) : RM := { kind := k, links := [] }

/-- `getDomain(domains...)`: plain managers ignore domains, the domain manager takes the first -/
def dom (rm : RM) (domains : List String) : String :=
  match rm.kind with
  | .plain => ""
  | .domain => domains.headD ""

/-- `AddLink` (sync.Map store: adding twice is adding once) -/
def addLink (rm : RM) (u r : String) (domains : List String) : RM :=
  let l : Link := (u, r, rm.dom domains)
  if rm.links.contains l then rm else { rm with links := rm.links ++ [l] }

/-- `DeleteLink` -/
def deleteLink (rm : RM) (u r : String) (domains : List String) : RM :=
  let l : Link := (u, r, rm.dom domains)
  { rm with links := rm.links.filter (· != l) }

/-- `Clear` -/
def clear (rm : RM) : RM := { rm with links := [] }

/-- the direct roles of `u` in domain `d` -/
def succs (links : List Link) (d : String) (u : String) : List String :=
  (links.filter (fun l => l.1 == u && l.2.2 == d)).map (·.2.1)

/-- `hasLinkHelper`: `fuel = level + 1` rounds; round k inspects the names at distance k -/
def bfs (links : List Link) (d target : String) : List String → Nat → Bool
  | _, 0 => false
  | fr, n + 1 =>
      if fr.isEmpty then false
      else if fr.contains target then true
      else bfs links d target (fr.flatMap (succs links d)) n

/-- `HasLink(name1, name2, domains...)` -/
def hasLink (rm : RM) (u r : String) (domains : List String) : Bool :=
  if u == r then true else bfs rm.links (rm.dom domains) r [u] (rm.maxLevel + 1)

/-- `GetRoles` (a set in Go: compared sorted) -/
def getRoles (rm : RM) (u : String) (domains : List String) : List String :=
  (succs rm.links (rm.dom domains) u).eraseDups

/-- `GetUsers` -/
def getUsers (rm : RM) (r : String) (domains : List String) : List String :=
  let d := rm.dom domains
  ((rm.links.filter (fun l => l.2.1 == r && l.2.2 == d)).map (·.1)).eraseDups

end RM

/-- `Assertion.buildIncrementalRoleLinks` / `buildRoleLinks` on one rule: `count` = number of `_`
    in the definition; a shorter rule is an error, a longer one is truncated -/
def linkOfRule (count : Nat) (rule : Rule) : Option (String × String × List String) :=
  if rule.length < count then none
  else
    let r := rule.take count
    match r with
    | u :: v :: ds => some (u, v, ds)
    | _ => none

/-- add (or remove) the links of `rules` in order; `none` = the error of a too-short rule, the
    links of the rules before it stay applied (as in Go) -/
def RM.applyRules (rm : RM) (count : Nat) (add : Bool) : List Rule → RM × Bool
  | [] => (rm, true)
  | rule :: rest =>
      match linkOfRule count rule with
      | none => (rm, false)
      | some (u, v, ds) =>
          RM.applyRules (if add then rm.addLink u v ds else rm.deleteLink u v ds) count add rest

end Casbin
