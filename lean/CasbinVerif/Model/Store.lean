import CasbinVerif.Basic
/-
  Mirror of `model/policy.go`: one `Assertion`'s `Policy` ([][]string, ordered) together with its
  `PolicyMap` (map[string]int keyed by `strings.Join(rule, ",")`).
  A Go map is an association list with `get/set/del`; `none` results stand for a Go run-time panic
  (index out of range), which the code does not guard against.
-/
namespace Casbin

abbrev Index := List (String × Nat)

def Index.get (ix : Index) (k : String) : Option Nat := (ix.find? (fun p => p.1 == k)).map (·.2)
def Index.set (ix : Index) (k : String) (v : Nat) : Index := (k, v) :: ix.filter (fun p => p.1 != k)
def Index.del (ix : Index) (k : String) : Index := ix.filter (fun p => p.1 != k)
/-- `m[k]++` -/
def Index.incr (ix : Index) (k : String) : Index := ix.set k ((ix.get k).getD 0 + 1)

structure Store where
  policy : List Rule
  index : Index
deriving Repr, Inhabited

def Store.empty : Store := ⟨[], []⟩

/-- `strconv.Atoi` on the subset casbin meets: optional sign followed by decimal digits -/
def atoi (s : String) : Option Int :=
  match s.toList with
  | '-' :: ds => if ds.isEmpty then none else (String.ofList ds).toNat?.map (fun n => - (Int.ofNat n))
  | '+' :: ds => if ds.isEmpty then none else (String.ofList ds).toNat?.map Int.ofNat
  | _ => s.toNat?.map Int.ofNat

namespace Store

/-- `Model.HasPolicy` -/
def has (s : Store) (r : Rule) : Bool := (s.index.get (ruleKey r)).isSome

/-- how many rules at the end of the old policy the insertion loop of `AddPolicy` moves up by one:
    it walks down from the last rule while that rule's priority is greater than `v` or does not parse -/
def countMoved (pi : Nat) (v : Int) : List Rule → Nat
  | [] => 0
  | q :: rest =>
      match atoi (q.getD pi "") with
      | some w => if w ≤ v then 0 else 1 + countMoved pi v rest
      | none => 1 + countMoved pi v rest      -- a priority that does not parse sorts after every number

/-- `Model.AddPolicy`.  `prio` = `FieldIndexMap["priority"]` for a `p` assertion that has one
    (`none` for `g` sections and for definitions without a priority token). -/
def add (prio : Option Nat) (s : Store) (r : Rule) : Store :=
  let appended : Store := { policy := s.policy ++ [r], index := s.index.set (ruleKey r) s.policy.length }
  match prio with
  | none => appended
  | some pi =>
    match atoi (r.getD pi "") with
    | none => appended
    | some v =>
      let m := countMoved pi v s.policy.reverse
      let keep := s.policy.length - m
      let moved := s.policy.drop keep
      -- the loop walks from the end: Policy[i] = Policy[i-1]; PolicyMap[key(Policy[i-1])]++
      let ix := moved.reverse.foldl (fun ix q => ix.incr (ruleKey q)) appended.index
      { policy := s.policy.take keep ++ [r] ++ moved, index := ix.set (ruleKey r) keep }

/-- `Model.AddPoliciesWithAffected`: skips rules whose key is present; returns the affected rules -/
def addMany (prio : Option Nat) (s : Store) : List Rule → Store × List Rule
  | [] => (s, [])
  | r :: rs =>
      if s.has r then addMany prio s rs
      else
        let (s', aff) := addMany prio (s.add prio r) rs
        (s', r :: aff)

/-- the tail loop `for i := index; i < len(Policy); i++ { PolicyMap[join(Policy[i])] = i }` -/
def reindex : Index → List Rule → Nat → Index
  | ix, [], _ => ix
  | ix, r :: rs, j => reindex (ix.set (ruleKey r) j) rs (j + 1)

/-- `Model.RemovePolicy` -/
def remove (s : Store) (r : Rule) : Store × Bool :=
  match s.index.get (ruleKey r) with
  | none => (s, false)
  | some i =>
      let pol := s.policy.take i ++ s.policy.drop (i + 1)
      ({ policy := pol, index := reindex (s.index.del (ruleKey r)) (pol.drop i) i }, true)

/-- `Model.RemovePoliciesWithAffected` -/
def removeMany (s : Store) : List Rule → Store × List Rule
  | [] => (s, [])
  | r :: rs =>
      match s.remove r with
      | (s', true) => let (s'', aff) := removeMany s' rs; (s'', r :: aff)
      | (_, false) => removeMany s rs

/-- `Model.UpdatePolicy` -/
def update (s : Store) (old new : Rule) : Store × Bool :=
  match s.index.get (ruleKey old) with
  | none => (s, false)
  | some i =>
      ({ policy := s.policy.set i new, index := (s.index.del (ruleKey old)).set (ruleKey new) i }, true)

/-- the forward loop of `Model.UpdatePolicies`; `done` collects (slot, old, new) for the rollback -/
def updateLoop (s : Store) : List (Rule × Rule) → List (Nat × Rule × Rule) → Store × List (Nat × Rule × Rule) × Bool
  | [], done => (s, done, true)
  | (old, new) :: rest, done =>
      match s.index.get (ruleKey old) with
      | none => (s, done, false)
      | some i =>
          let s' : Store := { policy := s.policy.set i new, index := (s.index.del (ruleKey old)).set (ruleKey new) i }
          -- modifiedRuleIndex[index] = {oldIndex, newIndex}: a later entry for the same slot overwrites
          updateLoop s' rest ((i, old, new) :: done.filter (fun d => d.1 != i))

/-- the deferred rollback of `Model.UpdatePolicies` (Go iterates a map; the model takes the slots
    in ascending order, the generator stays away from batches where the order is observable) -/
def rollback (s : Store) (done : List (Nat × Rule × Rule)) : Store :=
  let sorted := done.mergeSort (fun a b => a.1 ≤ b.1)
  sorted.foldl (fun s d =>
    { policy := s.policy.set d.1 d.2.1, index := (s.index.del (ruleKey d.2.2)).set (ruleKey d.2.1) d.1 }) s

/-- `Model.UpdatePolicies` (the caller has checked that both lists have the same length) -/
def updateMany (s : Store) (olds news : List Rule) : Store × Bool :=
  match updateLoop s (olds.zip news) [] with
  | (s', _, true) => (s', true)
  | (s', done, false) => (rollback s' done, false)

/-- does `rule` carry the non-empty `vals` from field `fi` on?  `none` = Go indexes out of range -/
def matchFilter (rule : Rule) (fi : Nat) : List String → Option Bool
  | [] => some true
  | v :: vs =>
      if v == "" then matchFilter rule (fi + 1) vs
      else match rule[fi]? with
        | none => none
        | some f => if f != v then some false else matchFilter rule (fi + 1) vs

/-- `Model.GetFilteredPolicy` -/
def getFiltered (s : Store) (fi : Nat) (vals : List String) : Option (List Rule) :=
  s.policy.foldr (fun r acc => do
    let m ← matchFilter r fi vals
    let rest ← acc
    pure (if m then r :: rest else rest)) (some [])

/-- the scan of `Model.RemoveFilteredPolicy`: (kept rules reversed, rebuilt index, removed rules reversed) -/
def filterScan (fi : Nat) (vals : List String) : List Rule → List Rule → Index → List Rule → Option (List Rule × Index × List Rule)
  | [], tmp, ix, eff => some (tmp, ix, eff)
  | r :: rs, tmp, ix, eff =>
      match matchFilter r fi vals with
      | none => none
      | some true => filterScan fi vals rs tmp ix (r :: eff)
      | some false => filterScan fi vals rs (r :: tmp) (ix.set (ruleKey r) tmp.length) eff

/-- `Model.RemoveFilteredPolicy`: (store, removed?, affected rules) -/
def removeFiltered (s : Store) (fi : Nat) (vals : List String) : Option (Store × Bool × List Rule) :=
  match filterScan fi vals s.policy [] [] [] with
  | none => none
  | some (tmp, ix, eff) =>
      if tmp.length != s.policy.length then some ({ policy := tmp.reverse, index := ix }, true, eff.reverse)
      else some ({ policy := s.policy, index := ix }, false, eff.reverse)

/-- `Model.ClearPolicy` for one assertion -/
def clear (_ : Store) : Store := Store.empty

end Store

/-!
### The in-memory part of the management layer (`internal_api.go: *WithoutNotify`)
-/
namespace Mgmt

/-- `addPolicyWithoutNotify`, memory part: refuse a listed rule -/
def add (prio : Option Nat) (s : Store) (r : Rule) : Store × Bool :=
  if s.has r then (s, false) else (s.add prio r, true)

/-- `addPoliciesWithoutNotify`: `ex = false` refuses the batch if any rule is listed; the model's
    `AddPolicies` then skips duplicates inside the batch; the call reports `true` -/
def addMany (prio : Option Nat) (ex : Bool) (s : Store) (rs : List Rule) : Store × Bool :=
  if !ex && rs.any s.has then (s, false) else ((s.addMany prio rs).1, true)

/-- `removePolicyWithoutNotify` -/
def remove (s : Store) (r : Rule) : Store × Bool := s.remove r

/-- `removePoliciesWithoutNotify`: nothing to do unless some rule is listed -/
def removeMany (s : Store) (rs : List Rule) : Store × Bool :=
  if !(rs.any s.has) then (s, false)
  else let (s', aff) := s.removeMany rs; (s', !aff.isEmpty)

def update (s : Store) (old new : Rule) : Store × Bool := s.update old new

/-- `updatePoliciesWithoutNotify` (`none` = the length error) -/
def updateMany (s : Store) (olds news : List Rule) : Option (Store × Bool) :=
  if olds.length != news.length then none else some (s.updateMany olds news)

/-- `removeFilteredPolicyWithoutNotify` (`none` = Go panics on an out-of-range field) -/
def removeFiltered (s : Store) (fi : Nat) (vals : List String) : Option (Store × Bool × List Rule) :=
  s.removeFiltered fi vals

end Mgmt
end Casbin
