/-
  The locking skeleton of `SyncedEnforcer` (enforcer_synced.go, rbac_api_synced.go,
  rbac_api_with_domains_synced.go): every wrapper is a straight-line sequence of lock operations
  on the one `sync.RWMutex` and calls into the embedded, unsynchronised `Enforcer`.
  `Generated/Facts.lean` holds that sequence for every wrapper, regenerated from the source by
  harness/cmd/facts on every run; this file gives it a semantics: threads executing wrapper bodies
  against a read/write lock with Go's writer preference (a pending `Lock` blocks new `RLock`s).

  A call into the embedded enforcer is abstracted to one access of "the enforcer's plain shared
  state" — a read, or a write if the callee is classified as mutating (Spec/SyncExpected.lean).
  That is the coarsest possible location granularity: any two accesses conflict unless both read.
-/
namespace Casbin.Sync

inductive Mode | R | W
deriving DecidableEq, Repr, Inhabited

/-- one step of a wrapper body as the extractor reports it -/
inductive LEv
  | acq (m : Mode)              -- e.m.RLock() / e.m.Lock()
  | rel                          -- e.m.RUnlock() / e.m.Unlock() (a deferred one is listed last)
  | call (callee : String)       -- e.Enforcer.X(…) or a promoted, unsynchronised e.X(…)
  | wrapperCall (name : String)  -- e.X(…) where X is itself a synchronised wrapper
  | spawn (name : String)        -- go func() { … e.X(…) … }(): the wrapper X runs on another goroutine
deriving DecidableEq, Repr, Inhabited

structure Wrapper where
  name : String
  body : List LEv
deriving DecidableEq, Repr, Inhabited

/-- what a thread executes: lock operations and accesses of the shared state -/
inductive Ev
  | acq (m : Mode)
  | rel
  | acc (write : Bool)
deriving DecidableEq, Repr, Inhabited

/-- what a thread holds -/
inductive Held | none | r | w
deriving DecidableEq, Repr, Inhabited

/-- the lock discipline of one body, checked by simulation from `h`: the lock is not re-acquired
    while held (Go's RWMutex is not re-entrant), released only when held, a mutating access
    happens under the write lock, a reading access under either, and nothing is held at the end -/
def wellLockedFrom : Held → List Ev → Bool
  | h, [] => h == .none
  | .none, .acq .R :: es => wellLockedFrom .r es
  | .none, .acq .W :: es => wellLockedFrom .w es
  | _, .acq _ :: _ => false
  | .none, .rel :: _ => false
  | _, .rel :: es => wellLockedFrom .none es
  | .w, .acc _ :: es => wellLockedFrom .w es
  | .r, .acc false :: es => wellLockedFrom .r es
  | _, .acc _ :: _ => false

def wellLocked (p : List Ev) : Bool := wellLockedFrom .none p

/-- the RW lock: the writer, the readers, and the threads whose `Lock()` is waiting -/
structure LockSt where
  writer : Option Nat := none
  readers : List Nat := []
  pending : List Nat := []
deriving DecidableEq, Repr, Inhabited

/-- a configuration: the lock and what every thread (by index) still has to execute -/
structure Config where
  lock : LockSt := {}
  todo : List (List Ev)
deriving DecidableEq, Repr, Inhabited

/-- can thread `t` take its next event `e`?  `Lock()` is granted when nobody holds the lock;
    `RLock()` when no writer holds it and no `Lock()` is waiting (writer preference);
    releases and accesses never block -/
def enabled (l : LockSt) (t : Nat) : Ev → Bool
  | .acq .W => l.writer.isNone && l.readers.isEmpty
  | .acq .R => l.writer.isNone && (l.pending.filter (· != t)).isEmpty
  | .rel => true
  | .acc _ => true

def applyLock (l : LockSt) (t : Nat) : Ev → LockSt
  | .acq .W => { l with writer := some t, pending := l.pending.filter (· != t) }
  | .acq .R => { l with readers := t :: l.readers }
  | .rel =>
      if l.writer = some t then { l with writer := none }
      else { l with readers := l.readers.erase t }
  | .acc _ => l

/-- what the scheduler can do: let thread `t` take its next event, or let a thread that is about
    to call `Lock()` announce itself (from then on new `RLock()`s wait for it).  When exactly a
    blocked `Lock()` becomes visible to readers is up to the runtime, hence a separate action. -/
inductive Act
  | go (t : Nat)
  | announce (t : Nat)
deriving DecidableEq, Repr, Inhabited

/-- thread `t` takes its next event (`none` = it has nothing to do or is blocked) -/
def step (c : Config) (t : Nat) : Option Config :=
  match c.todo[t]? with
  | some (e :: rest) =>
      if enabled c.lock t e then some { lock := applyLock c.lock t e, todo := c.todo.set t rest }
      else none
  | _ => none

def act (c : Config) : Act → Option Config
  | .go t => step c t
  | .announce t =>
      match c.todo[t]? with
      | some (.acq .W :: _) =>
          if c.lock.pending.contains t then none
          else some { c with lock := { c.lock with pending := t :: c.lock.pending } }
      | _ => none

/-- a schedule is a list of actions -/
def run : Config → List Act → Option Config
  | c, [] => some c
  | c, a :: as => match act c a with
    | some c' => run c' as
    | none => none

def initial (progs : List (List Ev)) : Config := { todo := progs }

/-- two different threads are both about to access the shared state, one of them writing:
    a data race (conflicting accesses not ordered by any synchronisation) -/
def racy (c : Config) : Prop :=
  ∃ (t₁ t₂ : Nat) (w₁ w₂ : Bool) (r₁ r₂ : List Ev), t₁ ≠ t₂ ∧ c.todo[t₁]? = some (Ev.acc w₁ :: r₁) ∧ c.todo[t₂]? = some (Ev.acc w₂ :: r₂) ∧
    (w₁ = true ∨ w₂ = true)

def finished (c : Config) : Prop := ∀ p ∈ c.todo, p = []

/-- some thread has work left but no thread can take a step (announcements are not progress) -/
def deadlocked (c : Config) : Prop := ¬ finished c ∧ ∀ t, step c t = none

end Casbin.Sync
