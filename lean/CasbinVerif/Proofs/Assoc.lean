import CasbinVerif.Model.Enforcer
/-
  Association-list lemmas for the enforcer state (C05): `List.lookup`, `assocSet`, key lists.
-/
namespace Casbin

theorem lookup_map_snd {α β} (f : String → α → β) (l : List (String × α)) (k : String) :
    (l.map (fun x => (x.1, f x.1 x.2))).lookup k = (l.lookup k).map (f k) := by
  induction l with
  | nil => rfl
  | cons x l ih =>
    obtain ⟨a, b⟩ := x
    simp only [List.map_cons, List.lookup_cons]
    by_cases h : k = a
    · subst h; simp
    · have : (k == a) = false := by simpa using h
      simp [this, ih]

theorem lookup_mem {α} {l : List (String × α)} {k : String} {v : α} (h : l.lookup k = some v) :
    (k, v) ∈ l := by
  induction l with
  | nil => simp at h
  | cons x l ih =>
    obtain ⟨a, b⟩ := x
    simp only [List.lookup_cons] at h
    by_cases hk : k = a
    · subst hk; simp at h; subst h; exact List.mem_cons_self
    · have : (k == a) = false := by simpa using hk
      simp only [this] at h
      exact List.mem_cons_of_mem _ (ih h)

theorem lookup_isSome_iff {α} (l : List (String × α)) (k : String) :
    (l.lookup k).isSome = true ↔ k ∈ l.map (·.1) := by
  induction l with
  | nil => simp
  | cons x l ih =>
    obtain ⟨a, b⟩ := x
    simp only [List.lookup_cons, List.map_cons, List.mem_cons]
    by_cases hk : k = a
    · subst hk; simp
    · have : (k == a) = false := by simpa using hk
      simp only [this, ih, hk, false_or]

theorem lookup_some_of_keys {α β} {l : List (String × α)} {l' : List (String × β)} {k : String}
    (hk : l'.map (·.1) = l.map (·.1)) {v : α} (h : l.lookup k = some v) : ∃ w, l'.lookup k = some w := by
  have : (l'.lookup k).isSome = true := by
    rw [lookup_isSome_iff, hk, ← lookup_isSome_iff, h]; rfl
  exact Option.isSome_iff_exists.1 this

theorem lookup_of_mem_nodup {α} {l : List (String × α)} (hnd : (l.map (·.1)).Nodup) {k : String} {v : α}
    (h : (k, v) ∈ l) : l.lookup k = some v := by
  induction l with
  | nil => simp at h
  | cons x l ih =>
    obtain ⟨a, b⟩ := x
    simp only [List.map_cons, List.nodup_cons] at hnd
    simp only [List.lookup_cons]
    rcases List.mem_cons.1 h with e | h'
    · cases e; simp
    · have hne : k ≠ a := by
        intro e; subst e
        exact hnd.1 (List.mem_map.2 ⟨(k, v), h', rfl⟩)
      have : (k == a) = false := by simpa using hne
      simp only [this]
      exact ih hnd.2 h'

/-! ### assocSet -/

theorem lookup_map_set {α} (l : List (String × α)) (k k' : String) (v : α) :
    (l.map (fun p => if p.1 == k then (k, v) else p)).lookup k' =
      if k' = k then (l.lookup k').map (fun _ => v) else l.lookup k' := by
  induction l with
  | nil => simp
  | cons x l ih =>
    obtain ⟨a, b⟩ := x
    simp only [List.map_cons, List.lookup_cons]
    by_cases ha : a = k
    · subst ha
      simp only [beq_self_eq_true, if_true]
      by_cases hk : k' = a
      · subst hk; simp
      · have : (k' == a) = false := by simpa using hk
        simp only [List.lookup_cons, this, ih, hk, if_false]
    · have h1 : (a == k) = false := by simpa using ha
      simp only [h1, Bool.false_eq_true, if_false]
      by_cases hk : k' = a
      · subst hk
        simp [ha]
      · have : (k' == a) = false := by simpa using hk
        simp only [List.lookup_cons, this, ih]

theorem lookup_assocSet_self {α} (l : List (String × α)) (k : String) (v : α) :
    (assocSet l k v).lookup k = some v := by
  unfold assocSet
  split
  · rename_i h
    rw [lookup_map_set]
    simp only [if_true]
    have : (l.lookup k).isSome = true := by
      rw [lookup_isSome_iff]
      simp only [List.any_eq_true, beq_iff_eq] at h
      obtain ⟨x, hx, e⟩ := h
      exact List.mem_map.2 ⟨x, hx, e⟩
    obtain ⟨w, hw⟩ := Option.isSome_iff_exists.1 this
    rw [hw]; rfl
  · rename_i h
    rw [List.lookup_append]
    have : l.lookup k = none := by
      cases hl : l.lookup k with
      | none => rfl
      | some w =>
        exfalso; apply h
        have := lookup_mem hl
        simp only [List.any_eq_true, beq_iff_eq]
        exact ⟨(k, w), this, rfl⟩
    rw [this]
    simp

theorem lookup_assocSet_other {α} (l : List (String × α)) {k k' : String} (v : α) (hne : k' ≠ k) :
    (assocSet l k v).lookup k' = l.lookup k' := by
  unfold assocSet
  split
  · rw [lookup_map_set]
    simp [hne]
  · rw [List.lookup_append]
    have : (k' == k) = false := by simpa using hne
    simp [List.lookup_cons, this]

theorem assocSet_keys {α} (l : List (String × α)) {k : String} (v : α) (h : k ∈ l.map (·.1)) :
    (assocSet l k v).map (·.1) = l.map (·.1) := by
  unfold assocSet
  have : l.any (·.1 == k) = true := by
    obtain ⟨x, hx, e⟩ := List.mem_map.1 h
    simp only [List.any_eq_true, beq_iff_eq]
    exact ⟨x, hx, e⟩
  rw [if_pos this, List.map_map]
  apply List.map_congr_left
  intro x _
  simp only [Function.comp]
  split
  · rename_i e; exact (beq_iff_eq.1 e).symm
  · rfl

theorem assocSet_keys_of_lookup {α} (l : List (String × α)) {k : String} (v : α) {w : α}
    (h : l.lookup k = some w) : (assocSet l k v).map (·.1) = l.map (·.1) :=
  assocSet_keys l v ((lookup_isSome_iff l k).1 (by rw [h]; rfl))

end Casbin
