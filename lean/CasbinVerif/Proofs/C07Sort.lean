import CasbinVerif.Model.Loader
/-
  Helper lemmas for C07: sorted lists split along a downward-closed predicate, the insertion of
  `Store.add` / `Enf.insertByPrio` as `filter ++ [r] ++ filter-not`, the stable insertion by level.
-/
namespace Casbin.C07L

/-! ### generic list lemmas -/

theorem split_sorted {α : Type} (R : α → α → Prop) (p : α → Bool) (l : List α)
    (hs : l.Pairwise R) (hp : ∀ a b, R a b → p b = true → p a = true) :
    l = l.filter p ++ l.filter (fun a => !p a) := by
  induction l with
  | nil => rfl
  | cons a t ih =>
    rw [List.pairwise_cons] at hs
    obtain ⟨ha, ht⟩ := hs
    cases hpa : p a with
    | true =>
      have h1 : (a :: t).filter p = a :: t.filter p := by simp [hpa]
      have h2 : (a :: t).filter (fun a => !p a) = t.filter (fun a => !p a) := by
        simp [hpa]
      rw [h1, h2, List.cons_append, ← ih ht]
    | false =>
      have hall : ∀ b ∈ t, p b = false := by
        intro b hb
        cases hpb : p b with
        | false => rfl
        | true => have := hp a b (ha b hb) hpb; rw [hpa] at this; cases this
      have h1 : (a :: t).filter p = [] := by
        rw [List.filter_eq_nil_iff]
        intro b hb
        rcases List.mem_cons.1 hb with rfl | hb
        · simp [hpa]
        · simp [hall b hb]
      have h2 : (a :: t).filter (fun a => !p a) = a :: t := by
        rw [List.filter_eq_self]
        intro b hb
        rcases List.mem_cons.1 hb with rfl | hb
        · simp [hpa]
        · simp [hall b hb]
      rw [h1, h2, List.nil_append]

theorem takeWhile_append_all {α : Type} (q : α → Bool) (A B : List α)
    (hA : ∀ x ∈ A, q x = true) (hB : ∀ x ∈ B, q x = false) :
    (A ++ B).takeWhile q = A ∧ (A ++ B).dropWhile q = B := by
  induction A with
  | nil =>
    cases B with
    | nil => simp
    | cons b B => simp [hB b (List.mem_cons_self ..)]
  | cons a A ih =>
    have ha := hA a (List.mem_cons_self ..)
    have := ih (fun x hx => hA x (List.mem_cons_of_mem _ hx))
    simp [ha, this.1, this.2]

/-- walking down a sorted list from its end while the (upward-closed) predicate `!p` holds -/
theorem rev_while_sorted {α : Type} (R : α → α → Prop) (p : α → Bool) (l : List α)
    (hs : l.Pairwise R) (hp : ∀ a b, R a b → p b = true → p a = true) :
    l.reverse.takeWhile (fun a => !p a) = (l.filter (fun a => !p a)).reverse ∧
    l.reverse.dropWhile (fun a => !p a) = (l.filter p).reverse := by
  have h := split_sorted R p l hs hp
  have hr : l.reverse = (l.filter (fun a => !p a)).reverse ++ (l.filter p).reverse := by
    rw [← List.reverse_append, ← h]
  have := takeWhile_append_all (fun a => !p a) (l.filter (fun a => !p a)).reverse (l.filter p).reverse
    (by intro x hx; have := (List.mem_filter.1 (List.mem_reverse.1 hx)).2; simpa using this)
    (by intro x hx; have := (List.mem_filter.1 (List.mem_reverse.1 hx)).2; simp [this])
  rw [← hr] at this
  exact this

/-! ### the key order -/

/-- the sort key of a rule -/
def key (pi : Nat) (r : Rule) : Option Int := atoi (r.getD pi "")

def kle : Option Int → Option Int → Bool
  | some a, some b => a ≤ b
  | _, none => true
  | none, some _ => false

theorem kle_refl (a : Option Int) : kle a a = true := by
  cases a <;> simp [kle]

theorem kle_none (a : Option Int) : kle a none = true := by
  cases a <;> simp [kle]

theorem kle_trans {a b c : Option Int} (h1 : kle a b = true) (h2 : kle b c = true) : kle a c = true := by
  cases a <;> cases b <;> cases c <;> simp_all [kle]
  exact Int.le_trans h1 h2

theorem kle_total (a b : Option Int) : kle a b = true ∨ kle b a = true := by
  cases a <;> cases b <;> simp [kle]
  exact Int.le_total _ _

theorem kle_of_not {a b : Option Int} (h : kle a b = false) : kle b a = true := by
  rcases kle_total a b with h' | h'
  · rw [h] at h'; cases h'
  · exact h'

/-- listed in non-decreasing key order -/
def Sorted (pi : Nat) (l : List Rule) : Prop := l.Pairwise (fun a b => kle (key pi a) (key pi b) = true)

/-- the position formula shared by `Store.add` and `Enf.insertByPrio` -/
def ins (pi : Nat) (r : Rule) (l : List Rule) : List Rule :=
  l.filter (fun q => kle (key pi q) (key pi r)) ++ [r] ++ l.filter (fun q => !kle (key pi q) (key pi r))

theorem split_key (pi : Nat) (r : Rule) (l : List Rule) (hs : Sorted pi l) :
    l = l.filter (fun q => kle (key pi q) (key pi r)) ++ l.filter (fun q => !kle (key pi q) (key pi r)) :=
  split_sorted _ (fun q => kle (key pi q) (key pi r)) l hs (fun _ _ hab hb => kle_trans hab hb)

theorem ins_sorted (pi : Nat) (r : Rule) (l : List Rule) (hs : Sorted pi l) : Sorted pi (ins pi r l) := by
  unfold ins Sorted
  rw [List.append_assoc, List.pairwise_append]
  refine ⟨hs.sublist List.filter_sublist, ?_, ?_⟩
  · rw [List.singleton_append, List.pairwise_cons]
    refine ⟨?_, hs.sublist List.filter_sublist⟩
    intro b hb
    have := (List.mem_filter.1 hb).2
    exact kle_of_not (by simpa using this)
  · intro a ha b hb
    have ha' : kle (key pi a) (key pi r) = true := (List.mem_filter.1 ha).2
    rw [List.singleton_append] at hb
    rcases List.mem_cons.1 hb with rfl | hb
    · exact ha'
    · have := (List.mem_filter.1 hb).2
      exact kle_trans ha' (kle_of_not (by simpa using this))

theorem ins_perm (pi : Nat) (r : Rule) (l : List Rule) (hs : Sorted pi l) : (ins pi r l).Perm (l ++ [r]) := by
  have h := split_key pi r l hs
  unfold ins
  generalize l.filter (fun q => kle (key pi q) (key pi r)) = A at h ⊢
  generalize l.filter (fun q => !kle (key pi q) (key pi r)) = B at h ⊢
  subst h
  rw [List.append_assoc, List.append_assoc]
  exact List.Perm.append_left A List.perm_append_comm

theorem ins_filter (pi : Nat) (r : Rule) (l : List Rule) (hs : Sorted pi l) (k : Option Int) :
    (ins pi r l).filter (fun q => key pi q == k) =
      l.filter (fun q => key pi q == k) ++ [r].filter (fun q => key pi q == k) := by
  have h := split_key pi r l hs
  have hk : l.filter (fun q => key pi q == k) =
      (l.filter (fun q => kle (key pi q) (key pi r))).filter (fun q => key pi q == k) ++
      (l.filter (fun q => !kle (key pi q) (key pi r))).filter (fun q => key pi q == k) := by
    rw [← List.filter_append, ← h]
  unfold ins
  rw [List.filter_append, List.filter_append, hk]
  by_cases hr : key pi r = k
  · have hB : (l.filter (fun q => !kle (key pi q) (key pi r))).filter (fun q => key pi q == k) = [] := by
      rw [List.filter_eq_nil_iff]
      intro q hq hqk
      have h1 := (List.mem_filter.1 hq).2
      have h2 : key pi q = k := by simpa using hqk
      rw [h2, hr, kle_refl] at h1
      cases h1
    rw [hB, List.append_nil, List.append_nil]
  · have hR : [r].filter (fun q => key pi q == k) = [] := by
      simp [hr]
    rw [hR, List.append_nil, List.append_nil]

/-! ### `Enf.insertByPrio` / `Enf.sortByPrio` -/

theorem prioLess_eq (pi : Nat) (r q : Rule) : Enf.prioLess pi r q = !kle (key pi q) (key pi r) := by
  unfold Enf.prioLess key
  cases atoi (r.getD pi "") with
  | none => cases atoi (q.getD pi "") <;> simp [kle]
  | some a =>
    cases atoi (q.getD pi "") with
    | none => simp [kle]
    | some b =>
      simp only [kle]
      by_cases h : b ≤ a
      · have : ¬ a < b := by omega
        simp [h, this]
      · have : a < b := by omega
        simp [h, this]

theorem insertByPrio_eq (pi : Nat) (r : Rule) (l : List Rule) (hs : Sorted pi l) :
    Enf.insertByPrio pi r l = ins pi r l := by
  have hf : (fun q => Enf.prioLess pi r q) = (fun q => !kle (key pi q) (key pi r)) := by
    funext q; exact prioLess_eq pi r q
  have h := rev_while_sorted _ (fun q => kle (key pi q) (key pi r)) l hs (fun _ _ hab hb => kle_trans hab hb)
  unfold Enf.insertByPrio ins
  simp only [hf]
  rw [h.1, h.2, List.reverse_reverse, List.reverse_reverse]

theorem foldl_insertByPrio (pi : Nat) (l acc : List Rule) (hs : Sorted pi acc) :
    Sorted pi (l.foldl (fun acc r => Enf.insertByPrio pi r acc) acc) ∧
    (l.foldl (fun acc r => Enf.insertByPrio pi r acc) acc).Perm (acc ++ l) ∧
    ∀ k, (l.foldl (fun acc r => Enf.insertByPrio pi r acc) acc).filter (fun q => key pi q == k) =
      acc.filter (fun q => key pi q == k) ++ l.filter (fun q => key pi q == k) := by
  induction l generalizing acc with
  | nil => simp [hs]
  | cons r t ih =>
    rw [List.foldl_cons, insertByPrio_eq pi r acc hs]
    obtain ⟨h1, h2, h3⟩ := ih (ins pi r acc) (ins_sorted pi r acc hs)
    refine ⟨h1, ?_, ?_⟩
    · refine h2.trans ?_
      have := (ins_perm pi r acc hs).append_right t
      rw [List.append_assoc, List.singleton_append] at this
      exact this
    · intro k
      rw [h3 k, ins_filter pi r acc hs k, List.append_assoc, ← List.filter_append, List.singleton_append]

/-! ### `Store.add` -/

theorem countMoved_eq (pi : Nat) (v : Int) (L : List Rule) :
    Store.countMoved pi v L = (L.takeWhile (fun q => !kle (key pi q) (some v))).length := by
  induction L with
  | nil => rfl
  | cons q rest ih =>
    unfold Store.countMoved
    rw [List.takeWhile_cons]
    unfold key at ih ⊢
    cases hq : atoi (q.getD pi "") with
    | none => simp [kle, ih, Nat.add_comm]
    | some w =>
      by_cases hw : w ≤ v
      · simp [kle, hw]
      · simp [kle, hw, ih, Nat.add_comm]

theorem add_policy_eq (pi : Nat) (s : Store) (r : Rule) (hs : Sorted pi s.policy) :
    (s.add (some pi) r).policy = ins pi r s.policy := by
  unfold Store.add
  simp only
  cases hr : atoi (r.getD pi "") with
  | none =>
    have hk : key pi r = none := hr
    simp only
    unfold ins
    rw [hk]
    have h1 : s.policy.filter (fun q => kle (key pi q) none) = s.policy := by
      rw [List.filter_eq_self]; intro q _; exact kle_none _
    have h2 : s.policy.filter (fun q => !kle (key pi q) none) = [] := by
      rw [List.filter_eq_nil_iff]; intro q _; simp [kle_none]
    rw [h1, h2, List.append_nil]
  | some v =>
    have hk : key pi r = some v := hr
    simp only
    have h := rev_while_sorted _ (fun q => kle (key pi q) (key pi r)) s.policy hs
      (fun _ _ hab hb => kle_trans hab hb)
    have hsplit := split_key pi r s.policy hs
    rw [countMoved_eq, ← hk, h.1, List.length_reverse]
    unfold ins
    generalize s.policy.filter (fun q => kle (key pi q) (key pi r)) = A at hsplit ⊢
    generalize s.policy.filter (fun q => !kle (key pi q) (key pi r)) = B at hsplit ⊢
    have hlen : s.policy.length - B.length = A.length := by
      rw [hsplit, List.length_append]; omega
    rw [hlen]
    have ht : s.policy.take A.length = A := by rw [hsplit]; exact List.take_left' rfl
    have hd : s.policy.drop A.length = B := by rw [hsplit]; exact List.drop_left' rfl
    rw [ht, hd]

theorem remove_sublist (s : Store) (r : Rule) : (s.remove r).1.policy.Sublist s.policy := by
  unfold Store.remove
  cases s.index.get (ruleKey r) with
  | none => exact List.Sublist.refl _
  | some i =>
    simp only
    have h : s.policy = s.policy.take i ++ s.policy.drop i := (List.take_append_drop i s.policy).symm
    conv => rhs; rw [h]
    refine List.Sublist.append (List.Sublist.refl _) ?_
    rw [← List.drop_drop]
    exact List.drop_sublist 1 _

/-! ### first match -/

theorem find_least (pi : Nat) (l : List Rule) (hs : Sorted pi l) (q : Rule → Bool) (c : Rule)
    (h : l.find? q = some c) : ∀ d ∈ l, q d = true → kle (key pi c) (key pi d) = true := by
  induction l with
  | nil => simp at h
  | cons a t ih =>
    unfold Sorted at hs
    rw [List.pairwise_cons] at hs
    intro d hd hqd
    rw [List.find?_cons] at h
    cases hqa : q a with
    | true =>
      rw [hqa] at h
      have hc : a = c := by simpa using h
      subst hc
      rcases List.mem_cons.1 hd with rfl | hd
      · exact kle_refl _
      · exact hs.1 d hd
    | false =>
      rw [hqa] at h
      rcases List.mem_cons.1 hd with rfl | hd
      · rw [hqa] at hqd; cases hqd
      · exact ih hs.2 h d hd hqd

/-! ### `insertByLevel` -/

theorem insertByLevel_perm (lvl : Rule → Nat) (r : Rule) (l : List Rule) :
    (insertByLevel lvl r l).Perm (l ++ [r]) := by
  induction l with
  | nil => exact List.Perm.refl _
  | cons q rest ih =>
    unfold insertByLevel
    split
    · have : r :: q :: rest = [r] ++ (q :: rest) := rfl
      rw [this]; exact List.perm_append_comm
    · exact List.Perm.cons q ih

theorem insertByLevel_sorted (lvl : Rule → Nat) (r : Rule) (l : List Rule)
    (hs : l.Pairwise (fun a b => lvl a ≥ lvl b)) :
    (insertByLevel lvl r l).Pairwise (fun a b => lvl a ≥ lvl b) := by
  induction l with
  | nil => simp [insertByLevel]
  | cons q rest ih =>
    unfold insertByLevel
    have hs' := List.pairwise_cons.1 hs
    split
    · rename_i hgt
      refine List.pairwise_cons.2 ⟨?_, hs⟩
      intro b hb
      rcases List.mem_cons.1 hb with rfl | hb
      · omega
      · have := hs'.1 b hb; omega
    · rename_i hgt
      refine List.pairwise_cons.2 ⟨?_, ih hs'.2⟩
      intro b hb
      have hb' := (insertByLevel_perm lvl r rest).mem_iff.1 hb
      rcases List.mem_append.1 hb' with hb' | hb'
      · exact hs'.1 b hb'
      · have : b = r := by simpa using hb'
        subst this; omega

theorem insertByLevel_filter (lvl : Rule → Nat) (r : Rule) (l : List Rule)
    (hs : l.Pairwise (fun a b => lvl a ≥ lvl b)) (k : Nat) :
    (insertByLevel lvl r l).filter (fun q => lvl q == k) =
      l.filter (fun q => lvl q == k) ++ [r].filter (fun q => lvl q == k) := by
  induction l with
  | nil => simp [insertByLevel]
  | cons q rest ih =>
    unfold insertByLevel
    have hs' := List.pairwise_cons.1 hs
    split
    · rename_i hgt
      by_cases hr : lvl r = k
      · have hnil : (q :: rest).filter (fun q => lvl q == k) = [] := by
          rw [List.filter_eq_nil_iff]
          intro b hb hbk
          have hbk' : lvl b = k := by simpa using hbk
          rcases List.mem_cons.1 hb with rfl | hb
          · omega
          · have := hs'.1 b hb; omega
        rw [List.filter_cons, hnil]
        simp [hr]
      · have hR : [r].filter (fun q => lvl q == k) = [] := by simp [hr]
        rw [hR, List.append_nil, List.filter_cons]
        simp [hr]
    · rw [List.filter_cons, ih hs'.2]
      rw [List.filter_cons (x := q)]
      split <;> simp

theorem foldl_insertByLevel (lvl : Rule → Nat) (l acc : List Rule)
    (hs : acc.Pairwise (fun a b => lvl a ≥ lvl b)) :
    (l.foldl (fun acc r => insertByLevel lvl r acc) acc).Perm (acc ++ l) ∧
    (l.foldl (fun acc r => insertByLevel lvl r acc) acc).Pairwise (fun a b => lvl a ≥ lvl b) ∧
    ∀ k, (l.foldl (fun acc r => insertByLevel lvl r acc) acc).filter (fun q => lvl q == k) =
      acc.filter (fun q => lvl q == k) ++ l.filter (fun q => lvl q == k) := by
  induction l generalizing acc with
  | nil => simp [hs]
  | cons r t ih =>
    rw [List.foldl_cons]
    obtain ⟨h1, h2, h3⟩ := ih (insertByLevel lvl r acc) (insertByLevel_sorted lvl r acc hs)
    refine ⟨?_, h2, ?_⟩
    · refine h1.trans ?_
      have := (insertByLevel_perm lvl r acc).append_right t
      rw [List.append_assoc, List.singleton_append] at this
      exact this
    · intro k
      rw [h3 k, insertByLevel_filter lvl r acc hs k, List.append_assoc, ← List.filter_append,
        List.singleton_append]

end Casbin.C07L
