import CasbinVerif.Spec.Persist
import CasbinVerif.Proofs.StoreOps
/-
  C10: how the per-type rule lists of the recording adapter change under the effects the
  management calls hand it.
-/
namespace Casbin

/-- the rules of type `pt` among adapter lines -/
def rulesOfL (ls : List (String × Rule)) (pt : String) : List Rule := (ls.filter (·.1 == pt)).map (·.2)

theorem rulesOf_eq (a : AdapterSt) (pt : String) : a.rulesOf pt = rulesOfL a.lines pt := rfl

theorem rulesOfL_nil (pt : String) : rulesOfL [] pt = [] := rfl

theorem rulesOfL_cons (x : String × Rule) (ls : List (String × Rule)) (pt : String) :
    rulesOfL (x :: ls) pt = if x.1 = pt then x.2 :: rulesOfL ls pt else rulesOfL ls pt := by
  unfold rulesOfL
  by_cases h : x.1 = pt
  · simp [h]
  · simp [h]

theorem rulesOfL_append (l1 l2 : List (String × Rule)) (pt : String) :
    rulesOfL (l1 ++ l2) pt = rulesOfL l1 pt ++ rulesOfL l2 pt := by
  simp [rulesOfL]

theorem mem_rulesOfL {ls : List (String × Rule)} {pt : String} {r : Rule} :
    r ∈ rulesOfL ls pt ↔ (pt, r) ∈ ls := by
  simp only [rulesOfL, List.mem_map, List.mem_filter, beq_iff_eq]
  constructor
  · rintro ⟨⟨a, b⟩, ⟨h1, h2⟩, h3⟩
    simp only at h2 h3
    subst h2; subst h3; exact h1
  · intro h
    exact ⟨(pt, r), ⟨h, rfl⟩, rfl⟩

theorem has_iff_mem (a : AdapterSt) (pt : String) (r : Rule) : a.has pt r = true ↔ r ∈ a.rulesOf pt := by
  rw [rulesOf_eq, mem_rulesOfL]
  simp [AdapterSt.has]

/-! ### the single effects on the line list -/

theorem rulesOfL_erase (ls : List (String × Rule)) (pt : String) (r : Rule) (pt' : String) :
    rulesOfL (ls.erase (pt, r)) pt' = if pt' = pt then (rulesOfL ls pt).erase r else rulesOfL ls pt' := by
  induction ls with
  | nil => simp [rulesOfL]
  | cons x xs ih =>
    obtain ⟨xt, xr⟩ := x
    rw [List.erase_cons]
    by_cases hx : ((xt, xr) == (pt, r)) = true
    · rw [if_pos hx]
      have hx' : xt = pt ∧ xr = r := by simpa using hx
      obtain ⟨rfl, rfl⟩ := hx'
      by_cases hp : pt' = xt
      · subst hp
        simp [rulesOfL_cons]
      · have : ¬ xt = pt' := fun e => hp e.symm
        simp [rulesOfL_cons, hp, this]
    · rw [if_neg hx]
      have hx' : ¬ (xt = pt ∧ xr = r) := by simpa using hx
      rw [rulesOfL_cons, ih]
      by_cases hp : pt' = pt
      · subst hp
        simp only [if_true, rulesOfL_cons]
        by_cases ht : xt = pt'
        · subst ht
          have hr : ¬ xr = r := fun e => hx' ⟨rfl, e⟩
          simp only [if_true]
          rw [List.erase_cons]
          have : (xr == r) = false := by simpa using hr
          simp [this]
        · simp [ht]
      · simp only [if_neg hp, rulesOfL_cons]

theorem rulesOfL_mapRepl (ls : List (String × Rule)) (pt : String) (o n : Rule) (pt' : String) :
    rulesOfL (ls.map (fun l => if l == (pt, o) then (pt, n) else l)) pt' =
      if pt' = pt then SpecStore.replace (rulesOfL ls pt) o n else rulesOfL ls pt' := by
  induction ls with
  | nil => simp [rulesOfL, SpecStore.replace]
  | cons x xs ih =>
    obtain ⟨xt, xr⟩ := x
    rw [List.map_cons, rulesOfL_cons, ih]
    by_cases hx : ((xt, xr) == (pt, o)) = true
    · have hx' : xt = pt ∧ xr = o := by simpa using hx
      obtain ⟨rfl, rfl⟩ := hx'
      simp only [hx, if_true]
      by_cases hp : pt' = xt
      · subst hp
        simp [rulesOfL_cons, SpecStore.replace]
      · have : ¬ xt = pt' := fun e => hp e.symm
        simp [rulesOfL_cons, hp, this]
    · have hx' : ¬ (xt = pt ∧ xr = o) := by simpa using hx
      have hxf : ((xt, xr) == (pt, o)) = false := by simpa using hx
      simp only [hxf, Bool.false_eq_true, if_false]
      by_cases hp : pt' = pt
      · subst hp
        simp only [if_true, rulesOfL_cons]
        by_cases ht : xt = pt'
        · subst ht
          have hr : ¬ xr = o := fun e => hx' ⟨rfl, e⟩
          simp [SpecStore.replace, hr]
        · simp [ht]
      · simp only [if_neg hp, rulesOfL_cons]

theorem lineMatches_eq (fi : Nat) (vals : List String) (r : Rule) :
    AdapterSt.lineMatches fi vals r = filterMatches fi vals r := rfl

theorem rulesOfL_filterGen (ls : List (String × Rule)) (pt : String) (q : Rule → Bool) (pt' : String) :
    rulesOfL (ls.filter (fun l => !(l.1 == pt && q l.2))) pt' =
      if pt' = pt then (rulesOfL ls pt).filter (fun r => !q r) else rulesOfL ls pt' := by
  induction ls with
  | nil => simp [rulesOfL]
  | cons x xs ih =>
    obtain ⟨xt, xr⟩ := x
    rw [List.filter_cons]
    by_cases hc : (!((xt, xr).1 == pt && q (xt, xr).2)) = true
    · rw [if_pos hc, rulesOfL_cons, ih]
      have hc' : xt = pt → q xr = false := by
        intro e
        have : ¬ xt = pt ∨ q xr = false := by simpa using hc
        rcases this with h | h
        · exact absurd e h
        · exact h
      by_cases hp : pt' = pt
      · subst hp
        simp only [if_true, rulesOfL_cons]
        by_cases ht : xt = pt'
        · simp only [ht, if_true]
          rw [List.filter_cons]
          simp [hc' ht]
        · simp only [ht, if_false]
      · simp only [if_neg hp, rulesOfL_cons]
    · rw [if_neg hc, ih]
      have hc' : xt = pt ∧ q xr = true := by simpa using hc
      obtain ⟨rfl, hq⟩ := hc'
      by_cases hp : pt' = xt
      · subst hp
        simp only [if_true, rulesOfL_cons]
        rw [List.filter_cons]
        simp [hq]
      · have : ¬ xt = pt' := fun e => hp e.symm
        simp only [if_neg hp, rulesOfL_cons, if_neg this]

theorem rulesOfL_filterOut (ls : List (String × Rule)) (pt : String) (fi : Nat) (vals : List String) (pt' : String) :
    rulesOfL (ls.filter (fun l => !(l.1 == pt && AdapterSt.lineMatches fi vals l.2))) pt' =
      if pt' = pt then (rulesOfL ls pt).filter (fun r => !filterMatches fi vals r) else rulesOfL ls pt' :=
  rulesOfL_filterGen ls pt (filterMatches fi vals) pt'

/-! ### adapter effects that edit the list of one type -/

/-- `eff` edits the rules of type `pt` by `f`, leaves every other type and the fault switches alone,
    and only creates lines of type `pt` -/
structure EffOK (pt : String) (f : List Rule → List Rule) (eff : AdapterSt → AdapterSt) : Prop where
  other : ∀ a pt', pt' ≠ pt → (eff a).rulesOf pt' = a.rulesOf pt'
  self : ∀ a, (eff a).rulesOf pt = f (a.rulesOf pt)
  types : ∀ a l, l ∈ (eff a).lines → l.1 = pt ∨ ∃ l0 ∈ a.lines, l0.1 = l.1
  failAt : ∀ a, (eff a).failAt = a.failAt
  lfa : ∀ a, (eff a).loadFailAfter = a.loadFailAfter

theorem EffOK.id (pt : String) : EffOK pt (fun l => l) (fun a => a) :=
  ⟨fun _ _ _ => rfl, fun _ => rfl, fun _ l h => .inr ⟨l, h, rfl⟩, fun _ => rfl, fun _ => rfl⟩

theorem EffOK.comp {pt : String} {f g : List Rule → List Rule} {e1 e2 : AdapterSt → AdapterSt}
    (h1 : EffOK pt f e1) (h2 : EffOK pt g e2) : EffOK pt (fun l => g (f l)) (fun a => e2 (e1 a)) := by
  refine ⟨?_, ?_, ?_, ?_, ?_⟩
  · intro a pt' hne; rw [h2.other _ _ hne, h1.other _ _ hne]
  · intro a; rw [h2.self, h1.self]
  · intro a l hl
    rcases h2.types _ l hl with h | ⟨l0, hl0, e⟩
    · exact .inl h
    · rcases h1.types _ l0 hl0 with h | ⟨l1, hl1, e'⟩
      · exact .inl (e ▸ h)
      · exact .inr ⟨l1, hl1, e'.trans e⟩
  · intro a; rw [h2.failAt, h1.failAt]
  · intro a; rw [h2.lfa, h1.lfa]

theorem EffOK.foldl {α} {pt : String} {f : α → List Rule → List Rule} {eff : α → AdapterSt → AdapterSt}
    (h : ∀ x, EffOK pt (f x) (eff x)) (xs : List α) :
    EffOK pt (fun l => xs.foldl (fun l x => f x l) l) (fun a => xs.foldl (fun a x => eff x a) a) := by
  induction xs with
  | nil => exact EffOK.id pt
  | cons x xs ih =>
    simp only [List.foldl_cons]
    exact EffOK.comp (h x) ih

theorem effOK_addLine (pt : String) (r : Rule) :
    EffOK pt (fun l => SpecStore.addOne l r) (fun a => a.addLine pt r) := by
  refine ⟨?_, ?_, ?_, ?_, ?_⟩
  · intro a pt' hne
    unfold AdapterSt.addLine
    split
    · rfl
    · have : ¬ pt = pt' := fun e => hne e.symm
      simp only [rulesOf_eq, rulesOfL_append, rulesOfL_cons, this, if_false, rulesOfL_nil, List.append_nil]
  · intro a
    unfold AdapterSt.addLine SpecStore.addOne
    by_cases hh : a.has pt r = true
    · rw [if_pos hh, if_pos ((has_iff_mem a pt r).1 hh)]
    · rw [if_neg hh, if_neg (fun h => hh ((has_iff_mem a pt r).2 h))]
      simp only [rulesOf_eq, rulesOfL_append, rulesOfL_cons, if_true, rulesOfL_nil]
  · intro a l hl
    unfold AdapterSt.addLine at hl
    split at hl
    · exact .inr ⟨l, hl, rfl⟩
    · simp only [List.mem_append, List.mem_singleton] at hl
      rcases hl with hl | rfl
      · exact .inr ⟨l, hl, rfl⟩
      · exact .inl rfl
  · intro a; unfold AdapterSt.addLine; split <;> rfl
  · intro a; unfold AdapterSt.addLine; split <;> rfl

theorem effOK_removeLine (pt : String) (r : Rule) :
    EffOK pt (fun l => l.erase r) (fun a => a.removeLine pt r) := by
  refine ⟨?_, ?_, ?_, fun _ => rfl, fun _ => rfl⟩
  · intro a pt' hne
    simp only [AdapterSt.removeLine, rulesOf_eq, rulesOfL_erase, if_neg hne]
  · intro a
    simp only [AdapterSt.removeLine, rulesOf_eq, rulesOfL_erase, if_true]
  · intro a l hl
    exact .inr ⟨l, List.mem_of_mem_erase hl, rfl⟩

theorem effOK_update (pt : String) (o n : Rule) :
    EffOK pt (fun l => SpecStore.replace l o n)
      (fun a => if a.has pt o then { a with lines := a.lines.map (fun l => if l == (pt, o) then (pt, n) else l) } else a) := by
  refine ⟨?_, ?_, ?_, ?_, ?_⟩
  · intro a pt' hne
    split
    · simp only [rulesOf_eq, rulesOfL_mapRepl, if_neg hne]
    · rfl
  · intro a
    split
    · simp only [rulesOf_eq, rulesOfL_mapRepl, if_true]
    · rename_i hh
      exact (replace_of_not_mem (fun h => hh ((has_iff_mem a pt o).2 h)) n).symm
  · intro a l hl
    split at hl
    · simp only [List.mem_map] at hl
      obtain ⟨l0, hl0, e⟩ := hl
      split at e
      · exact .inl (e ▸ rfl)
      · exact .inr ⟨l0, hl0, e ▸ rfl⟩
    · exact .inr ⟨l, hl, rfl⟩
  · intro a; split <;> rfl
  · intro a; split <;> rfl

theorem effOK_filterOut (pt : String) (fi : Nat) (vals : List String) :
    EffOK pt (fun l => l.filter (fun r => !filterMatches fi vals r))
      (fun a => { a with lines := a.lines.filter (fun l => !(l.1 == pt && AdapterSt.lineMatches fi vals l.2)) }) := by
  refine ⟨?_, ?_, ?_, fun _ => rfl, fun _ => rfl⟩
  · intro a pt' hne
    simp only [rulesOf_eq, rulesOfL_filterOut, if_neg hne]
  · intro a
    simp only [rulesOf_eq, rulesOfL_filterOut, if_true]
  · intro a l hl
    exact .inr ⟨l, (List.mem_filter.1 hl).1, rfl⟩

end Casbin
