import CasbinVerif.Proofs.C10Ops
import CasbinVerif.Proofs.Fresh
/-
  C10: SavePolicy and LoadPolicy against a synced adapter.
-/
namespace Casbin

/-! ### store facts that also hold for a definition without tokens -/

theorem plain_key_inj0 {n : Nat} {a b : Rule} (ha : plainRule n a = true) (hb : plainRule n b = true)
    (h : ruleKey a = ruleKey b) : a = b := by
  by_cases hn : n = 0
  · subst hn
    have h1 := plainRule_length ha
    have h2 := plainRule_length hb
    rw [List.length_eq_zero_iff] at h1 h2
    rw [h1, h2]
  · exact plain_key_inj hn ha hb h

theorem has_iff0 {n : Nat} {s : Store} (g : Good n s) {r : Rule} (hr : plainRule n r = true) :
    s.has r = true ↔ r ∈ s.policy := by
  by_cases hn : n = 0
  · subst hn
    simp only [Store.has, Option.isSome_iff_exists]
    constructor
    · rintro ⟨i, hg⟩
      obtain ⟨q, hq, hk⟩ := g.coh.2.2 _ _ hg
      have hqm := List.mem_of_getElem? hq
      rw [← plain_key_inj0 (g.plain q hqm) hr hk]
      exact hqm
    · intro hm
      obtain ⟨i, hi⟩ := List.mem_iff_getElem?.1 hm
      exact ⟨i, g.coh.2.1 r i hi⟩
  · exact g.has_iff hn hr

theorem good_add0 {n : Nat} {s : Store} (g : Good n s) {r : Rule} (hr : plainRule n r = true) (hnew : r ∉ s.policy) :
    Good n (s.add none r) := by
  by_cases hn : n = 0
  · subst hn
    have hr0 : r = [] := List.length_eq_zero_iff.1 (plainRule_length hr)
    have hemp : s.policy = [] := by
      cases hp : s.policy with
      | nil => rfl
      | cons q qs =>
        exfalso
        have hq : q ∈ s.policy := by rw [hp]; exact List.mem_cons_self
        have hq0 : q = [] := List.length_eq_zero_iff.1 (plainRule_length (g.plain q hq))
        exact hnew (hr0 ▸ hq0 ▸ hq)
    refine ⟨⟨?_, ?_, ?_⟩, ?_⟩
    · simp [Store.add, hemp]
    · intro q i hq
      simp only [Store.add, hemp, List.nil_append, List.length_nil] at hq ⊢
      cases i with
      | zero =>
        simp only [List.getElem?_cons_zero, Option.some.injEq] at hq
        subst hq
        simp
      | succ j => simp at hq
    · intro k i hg
      simp only [Store.add, hemp, List.nil_append, List.length_nil] at hg ⊢
      rw [Index.get_set] at hg
      split at hg
      · rename_i hk
        simp only [Option.some.injEq] at hg
        subst hg
        exact ⟨r, by simp, hk.symm⟩
      · exfalso
        obtain ⟨q, hq, _⟩ := g.coh.2.2 k i hg
        rw [hemp] at hq
        simp at hq
    · intro q hq
      simp only [Store.add, List.mem_append, List.mem_singleton] at hq
      rcases hq with hq | rfl
      · exact g.plain q hq
      · exact hr
  · exact (good_add_none hn g hr hnew).1

theorem good_empty (n : Nat) : Good n Store.empty := ⟨coh_empty', by simp [Store.empty]⟩

/-! ### SavePolicy -/

def savedLines (l : List (String × Store)) : List (String × Rule) :=
  l.flatMap (fun (pt, s) => s.policy.map (fun r => (pt, r)))

theorem rulesOfL_tagged (k : String) (rs : List Rule) (pt : String) :
    rulesOfL (rs.map (fun r => (k, r))) pt = if k = pt then rs else [] := by
  induction rs with
  | nil => simp [rulesOfL]
  | cons r rs ih =>
    rw [List.map_cons, rulesOfL_cons, ih]
    split <;> rfl

theorem rulesOfL_saved_none (l : List (String × Store)) (pt : String) (h : pt ∉ l.map (·.1)) :
    rulesOfL (savedLines l) pt = [] := by
  induction l with
  | nil => rfl
  | cons x l ih =>
    obtain ⟨k, s⟩ := x
    simp only [List.map_cons, List.mem_cons, not_or] at h
    simp only [savedLines, List.flatMap_cons] at ih ⊢
    rw [rulesOfL_append, rulesOfL_tagged, ih h.2, if_neg (fun e => h.1 e.symm)]
    rfl

theorem rulesOfL_saved (l : List (String × Store)) (hnd : (l.map (·.1)).Nodup) (pt : String) (s : Store)
    (hs : l.lookup pt = some s) : rulesOfL (savedLines l) pt = s.policy := by
  induction l with
  | nil => simp at hs
  | cons x l ih =>
    obtain ⟨k, s0⟩ := x
    simp only [List.map_cons, List.nodup_cons] at hnd
    simp only [savedLines, List.flatMap_cons] at ih ⊢
    rw [rulesOfL_append, rulesOfL_tagged]
    simp only [List.lookup_cons] at hs
    by_cases hk : pt = k
    · subst hk
      simp only [beq_self_eq_true, Option.some.injEq] at hs
      subst hs
      have := rulesOfL_saved_none l pt hnd.1
      simp only [savedLines] at this
      rw [if_pos rfl, this, List.append_nil]
    · have hb : (pt == k) = false := by simpa using hk
      simp only [hb] at hs
      rw [if_neg (fun e => hk e.symm), List.nil_append]
      exact ih hnd.2 hs

theorem mem_savedLines {l : List (String × Store)} {x : String × Rule} (h : x ∈ savedLines l) :
    x.1 ∈ l.map (·.1) := by
  simp only [savedLines, List.mem_flatMap, List.mem_map] at h
  obtain ⟨⟨k, s⟩, hks, r, _, rfl⟩ := h
  exact List.mem_map.2 ⟨(k, s), hks, rfl⟩

theorem wf_keys_nodup {e : Enf} (hwf : e.WFState) (hd : e.disjointTypes) : ((e.p ++ e.g).map (·.1)).Nodup := by
  rw [List.map_append, hwf.1, hwf.2.1, List.nodup_append]
  refine ⟨hwf.2.2.2.1, hwf.2.2.2.2.1, ?_⟩
  intro a ha b hb e1
  subst e1
  exact hd a ha hb

theorem p_none_of_g {e : Enf} (hwf : e.WFState) (hd : e.disjointTypes) {gt : String} {s : Store}
    (h : e.g.lookup gt = some s) : e.p.lookup gt = none := by
  cases hp : e.p.lookup gt with
  | none => rfl
  | some sp =>
    exfalso
    have h1 : gt ∈ e.md.p.map (·.1) := hwf.1 ▸ mem_keys_of_lookup hp
    have h2 : gt ∈ e.md.g.map (·.1) := hwf.2.1 ▸ mem_keys_of_lookup h
    exact hd gt h1 h2

theorem synced_saved {e : Enf} (hwf : e.WFState) (hd : e.disjointTypes) (a : AdapterSt)
    (hl : a.lines = savedLines (e.p ++ e.g)) :
    (∀ pt s, e.p.lookup pt = some s → a.rulesOf pt = s.policy) ∧
    (∀ gt s, e.g.lookup gt = some s → a.rulesOf gt = s.policy) ∧
    (∀ l ∈ a.lines, (e.p.lookup l.1).isSome ∨ (e.g.lookup l.1).isSome) := by
  have hnd := wf_keys_nodup hwf hd
  refine ⟨?_, ?_, ?_⟩
  · intro pt s hs
    rw [rulesOf_eq, hl]
    apply rulesOfL_saved _ hnd
    rw [List.lookup_append, hs]; rfl
  · intro gt s hs
    rw [rulesOf_eq, hl]
    apply rulesOfL_saved _ hnd
    rw [List.lookup_append, p_none_of_g hwf hd hs, hs]; rfl
  · intro l hl'
    rw [hl] at hl'
    have := mem_savedLines hl'
    rw [List.map_append, List.mem_append] at this
    rcases this with h | h
    · left; exact (lookup_isSome_iff _ _).2 h
    · right; exact (lookup_isSome_iff _ _).2 h

theorem save_synced' (e : Enf) (hwf : e.WFState) (hd : e.disjointTypes) (hq : e.adapterQuiet) (a : AdapterSt)
    (ha : e.adapter = some a) :
    e.savePolicy.2 = true ∧ e.savePolicy.1.Synced ∧ e.savePolicy.1.memory = e.memory := by
  obtain ⟨hf, _⟩ := hq a ha
  unfold Enf.savePolicy
  rw [ha]
  simp only [AdapterSt.call, hf, bne_self_eq_false, Bool.false_and, Bool.false_eq_true, if_false, Bool.not_true]
  split
  · refine ⟨rfl, ?_, rfl⟩
    intro a' ha'
    simp only [Option.some.injEq] at ha'
    subst ha'
    exact synced_saved hwf hd _ rfl
  · refine ⟨rfl, ?_, rfl⟩
    intro a' ha'
    simp only [Option.some.injEq] at ha'
    subst ha'
    exact synced_saved hwf hd _ rfl

end Casbin
