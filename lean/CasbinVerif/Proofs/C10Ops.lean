import CasbinVerif.Proofs.C10Step
import CasbinVerif.Proofs.Updatable
/-
  C10: the management calls one by one.
-/
namespace Casbin

theorem foldl_erase_noop (rs : List Rule) (l : List Rule) (h : ∀ r ∈ rs, r ∉ l) : rs.foldl List.erase l = l := by
  induction rs with
  | nil => rfl
  | cons r rs ih =>
    rw [List.foldl_cons, List.erase_of_not_mem (h r List.mem_cons_self)]
    exact ih (fun q hq => h q (List.mem_cons_of_mem _ hq))

theorem c10_addPolicyWN (e : Enf) (sec pt : String) (rule : Rule) (hi : Inv10 e)
    (hop : e.opWF (.add sec pt rule) = true) : Inv10 (e.addPolicyWN sec pt rule).1 := by
  obtain ⟨n, s, har, hs, hwf6⟩ := opWF_elim hop rfl
  obtain ⟨hpl, hn⟩ := wf06_parts hwf6
  have hr : plainRule n rule = true := hpl rule (by simp [StoreOp.rules])
  unfold Enf.addPolicyWN
  split
  · exact hi
  rename_i s0 hs0
  rw [hs] at hs0; cases hs0
  split
  · exact hi
  · rename_i hhas
    split
    rename_i e1 okA hp
    have sc := sameCore_persist hp
    obtain ⟨hok, ad⟩ := persist_adrel hi.quiet hi.autoSave (effOK_addLine pt rule) hp
    have hprio : e1.prioOf sec pt = none := (sc.prioOf sec pt).trans (prio_none hi.noPrio sec pt)
    split
    · rename_i hc; simp [hok] at hc
    · rw [hprio]
      have g0 := good_of hi.wf har hs
      have hnew : rule ∉ s.policy := fun h => hhas ((g0.has_iff hn hr).2 h)
      obtain ⟨g1, hpol⟩ := good_add_none hn g0 hr hnew
      have hpol' : (s.add none rule).policy = (fun l => SpecStore.addOne l rule) s.policy := by
        rw [hpol]; simp [SpecStore.addOne, hnew]
      rcases arity_cases har hs with ⟨rfl, hps, toks, ht, rfl⟩ | ⟨rfl, hgs, kind, hd⟩
      · simp only [str_pg, Bool.false_eq_true, if_false]
        exact c10_stepP hi (stepP_setStore sc hps _) hps ht g1 (ad.trans_same (adSame_setStore _ _ _ _)) hpol'
      · obtain ⟨_, hinj, rm, hrm, hk⟩ := wf_g_info hi.wf hgs hd
        simp only [beq_self_eq_true, if_true]
        have st1 := stepG_setStore sc hgs hrm (s.add none rule)
        obtain ⟨st2, hok2⟩ := stepG_incr' st1 hd true [rule]
        have := c10_stepG hi st2 hgs hrm hd g1 (applyRules_kind _ _ _ _)
          (ad.trans_same ((adSame_setStore _ _ _ _).trans (adSame_incrLinks _ _ _ _))) hpol'
        split <;> exact this

theorem c10_addPoliciesWN (e : Enf) (sec pt : String) (rules : List Rule) (ex : Bool) (hi : Inv10 e)
    (hop : e.opWF (.addMany sec pt ex rules) = true) : Inv10 (e.addPoliciesWN sec pt rules ex).1 := by
  obtain ⟨n, s, har, hs, hwf6⟩ := opWF_elim hop rfl
  obtain ⟨hpl, hn⟩ := wf06_parts hwf6
  have hrs : ∀ r ∈ rules, plainRule n r = true := fun r hr => hpl r (by simpa [StoreOp.rules] using hr)
  unfold Enf.addPoliciesWN
  split
  · split <;> exact hi
  rename_i s0 hs0
  rw [hs] at hs0; cases hs0
  split
  · exact hi
  · split
    rename_i e1 okA hp
    have sc := sameCore_persist hp
    obtain ⟨hok, ad⟩ := persist_adrel hi.quiet hi.autoSave (EffOK.foldl (fun r => effOK_addLine pt r) rules) hp
    have hprio : e1.prioOf sec pt = none := (sc.prioOf sec pt).trans (prio_none hi.noPrio sec pt)
    split
    · rename_i hc; simp [hok] at hc
    · rw [hprio]
      have g0 := good_of hi.wf har hs
      obtain ⟨g1, hpol⟩ := addMany_spec hn rules g0 hrs
      rcases arity_cases har hs with ⟨rfl, hps, toks, ht, rfl⟩ | ⟨rfl, hgs, kind, hd⟩
      · simp only [str_pg, Bool.false_eq_true, if_false]
        exact c10_stepP hi (stepP_setStore sc hps _) hps ht g1 (ad.trans_same (adSame_setStore _ _ _ _)) hpol
      · obtain ⟨_, hinj, rm, hrm, hk⟩ := wf_g_info hi.wf hgs hd
        simp only [beq_self_eq_true, if_true]
        have st1 := stepG_setStore sc hgs hrm (s.addMany none rules).1
        obtain ⟨st2, hok2⟩ := stepG_incr' st1 hd true rules
        have := c10_stepG hi st2 hgs hrm hd g1 (applyRules_kind _ _ _ _)
          (ad.trans_same ((adSame_setStore _ _ _ _).trans (adSame_incrLinks _ _ _ _))) hpol
        split <;> exact this

theorem c10_removePolicyWN (e : Enf) (sec pt : String) (rule : Rule) (hi : Inv10 e)
    (hop : e.opWF (.remove sec pt rule) = true) : Inv10 (e.removePolicyWN sec pt rule).1 := by
  obtain ⟨n, s, har, hs, hwf6⟩ := opWF_elim hop rfl
  obtain ⟨hpl, hn⟩ := wf06_parts hwf6
  have hr : plainRule n rule = true := hpl rule (by simp [StoreOp.rules])
  have g0 := good_of hi.wf har hs
  obtain ⟨g1, hpol, hflag⟩ := remove_spec hn g0 hr
  unfold Enf.removePolicyWN
  split
  rename_i e1 okA hp
  have sc := sameCore_persist hp
  obtain ⟨hok, ad⟩ := persist_adrel hi.quiet hi.autoSave (effOK_removeLine pt rule) hp
  split
  · rename_i hc; simp [hok] at hc
  rw [sc.getStore, hs]
  split
  · rename_i hc; cases hc
  rename_i s0 hs0
  cases hs0
  split
  · rename_i s'' hrem
    rw [hrem] at hflag
    have hm : rule ∉ s.policy := by simpa using hflag
    exact c10_same hi sc har hs ad (List.erase_of_not_mem hm).symm
  rename_i s' hrem
  rw [hrem] at g1 hpol
  simp only at g1 hpol
  rcases arity_cases har hs with ⟨rfl, hps, toks, ht, rfl⟩ | ⟨rfl, hgs, kind, hd⟩
  · simp only [str_pg, Bool.false_eq_true, if_false]
    exact c10_stepP hi (stepP_setStore sc hps _) hps ht g1 (ad.trans_same (adSame_setStore _ _ _ _)) hpol
  · obtain ⟨_, hinj, rm, hrm, hk⟩ := wf_g_info hi.wf hgs hd
    simp only [beq_self_eq_true, if_true]
    have st1 := stepG_setStore sc hgs hrm s'
    obtain ⟨st2, hok2⟩ := stepG_incr' st1 hd false [rule]
    have := c10_stepG hi st2 hgs hrm hd g1 (applyRules_kind _ _ _ _)
      (ad.trans_same ((adSame_setStore _ _ _ _).trans (adSame_incrLinks _ _ _ _))) hpol
    split <;> exact this

theorem c10_removePoliciesWN (e : Enf) (sec pt : String) (rules : List Rule) (hi : Inv10 e)
    (hop : e.opWF (.removeMany sec pt rules) = true) : Inv10 (e.removePoliciesWN sec pt rules).1 := by
  obtain ⟨n, s, har, hs, hwf6⟩ := opWF_elim hop rfl
  obtain ⟨hpl, hn⟩ := wf06_parts hwf6
  have hrs : ∀ r ∈ rules, plainRule n r = true := fun r hr => hpl r (by simpa [StoreOp.rules] using hr)
  have g0 := good_of hi.wf har hs
  obtain ⟨g1, hpol, hflag⟩ := removeMany_spec hn rules g0 hrs
  unfold Enf.removePoliciesWN
  split
  · split <;> exact hi
  rename_i s0 hs0
  rw [hs] at hs0; cases hs0
  split
  · exact hi
  split
  rename_i e1 okA hp
  have sc := sameCore_persist hp
  obtain ⟨hok, ad⟩ := persist_adrel hi.quiet hi.autoSave (EffOK.foldl (fun r => effOK_removeLine pt r) rules) hp
  split
  · rename_i hc; simp [hok] at hc
  split
  rename_i s' aff hrem
  rw [hrem] at g1 hpol hflag
  simp only at g1 hpol hflag
  split
  · rename_i hemp
    have haff : aff = [] := by simpa using hemp
    exact c10_same hi sc har hs ad (foldl_erase_noop rules s.policy (hflag haff)).symm
  rcases arity_cases har hs with ⟨rfl, hps, toks, ht, rfl⟩ | ⟨rfl, hgs, kind, hd⟩
  · simp only [str_pg, Bool.false_eq_true, if_false]
    exact c10_stepP hi (stepP_setStore sc hps _) hps ht g1 (ad.trans_same (adSame_setStore _ _ _ _)) hpol
  · obtain ⟨_, hinj, rm, hrm, hk⟩ := wf_g_info hi.wf hgs hd
    simp only [beq_self_eq_true, if_true]
    have st1 := stepG_setStore sc hgs hrm s'
    obtain ⟨st2, hok2⟩ := stepG_incr' st1 hd false rules
    have := c10_stepG hi st2 hgs hrm hd g1 (applyRules_kind _ _ _ _)
      (ad.trans_same ((adSame_setStore _ _ _ _).trans (adSame_incrLinks _ _ _ _))) hpol
    split <;> exact this

theorem c10_updatePolicyWN (e : Enf) (sec pt : String) (old new : Rule) (hi : Inv10 e)
    (hop : e.opWF (.update sec pt old new) = true) : Inv10 (e.updatePolicyWN sec pt old new).1 := by
  obtain ⟨n, s, har, hs, hwf6⟩ := opWF_elim hop rfl
  obtain ⟨hpl, hn⟩ := wf06_parts hwf6
  have ho : plainRule n old = true := hpl old (by simp [StoreOp.rules])
  have hw : plainRule n new = true := hpl new (by simp [StoreOp.rules])
  have hnew := wf06_update hwf6
  have g0 := good_of hi.wf har hs
  obtain ⟨g1, hpol, hflag⟩ := update_spec hn (old := old) (new := new) g0 ho hw hnew
  unfold Enf.updatePolicyWN
  split
  · exact hi
  split
  · exact hi
  split
  rename_i e1 okA hp
  have sc := sameCore_persist hp
  obtain ⟨hok, ad⟩ := persist_adrel hi.quiet hi.autoSave (effOK_update pt old new) hp
  split
  · rename_i hc; simp [hok] at hc
  rw [sc.getStore, hs]
  split
  · rename_i hc; cases hc
  rename_i s0 hs0
  cases hs0
  split
  · rename_i s'' hupd
    rw [hupd] at hflag
    have hm : old ∉ s.policy := by simpa using hflag
    exact c10_same hi sc har hs ad (replace_of_not_mem hm new).symm
  rename_i s' hupd
  rw [hupd] at g1 hpol
  simp only at g1 hpol
  rcases arity_cases har hs with ⟨rfl, hps, toks, ht, rfl⟩ | ⟨rfl, hgs, kind, hd⟩
  · simp only [str_pg, Bool.false_eq_true, if_false]
    exact c10_stepP hi (stepP_setStore sc hps _) hps ht g1 (ad.trans_same (adSame_setStore _ _ _ _)) hpol
  · obtain ⟨_, hinj, rm, hrm, hk⟩ := wf_g_info hi.wf hgs hd
    simp only [beq_self_eq_true, if_true]
    have st1 := stepG_setStore sc hgs hrm s'
    obtain ⟨st2, hok1⟩ := stepG_incr' st1 hd false [old]
    have i2 := c10_stepG hi st2 hgs hrm hd g1 (applyRules_kind _ _ _ _)
      (ad.trans_same ((adSame_setStore _ _ _ _).trans (adSame_incrLinks _ _ _ _))) hpol
    obtain ⟨st3, hok2⟩ := stepG_incr' st2 hd true [new]
    have i3 := c10_stepG hi st3 hgs hrm hd g1 ((applyRules_kind _ _ _ _).trans (applyRules_kind _ _ _ _))
      (ad.trans_same (((adSame_setStore _ _ _ _).trans (adSame_incrLinks _ _ _ _)).trans (adSame_incrLinks _ _ _ _))) hpol
    split
    · exact i2
    · split <;> exact i3

theorem c10_updatePoliciesWN (e : Enf) (sec pt : String) (olds news : List Rule) (hi : Inv10 e)
    (hop : e.opWF10 (.updateMany sec pt olds news) = true) : Inv10 (e.updatePoliciesWN sec pt olds news).1 := by
  have hop' : e.opWF (.updateMany sec pt olds news) = true := by
    simp only [Enf.opWF10, Bool.and_eq_true] at hop
    exact hop.1
  obtain ⟨n, s, har, hs, hwf6⟩ := opWF_elim hop' rfl
  obtain ⟨hpl, hn⟩ := wf06_parts hwf6
  have hpo : ∀ r ∈ olds, plainRule n r = true := fun r hr => hpl r (by simp [StoreOp.rules, hr])
  have hpn : ∀ r ∈ news, plainRule n r = true := fun r hr => hpl r (by simp [StoreOp.rules, hr])
  obtain ⟨hlen, hod, hnd, hnew⟩ := wf06_updateMany hwf6
  have g0 := good_of hi.wf har hs
  obtain ⟨g1, hspec⟩ := updateMany_spec hn g0 olds news hlen hpo hpn hod hnd hnew
  unfold Enf.updatePoliciesWN
  split
  · exact hi
  split
  · exact hi
  rename_i sg hsg
  rw [hs] at hsg; cases hsg
  split
  · exact hi          -- refused by `updatable`: the adapter is not touched, the state is unchanged
  rename_i hupdatable
  -- the guard has let the batch through: every old rule is held, hence listed
  have hgd : Enf.updatable s olds news = true := by simpa using hupdatable
  have hall : olds.all (fun r => decide (r ∈ s.policy)) = true := by
    simp only [List.all_eq_true, decide_eq_true_eq]
    exact fun o ho => (g0.has_iff hn (hpo o ho)).1 (Enf.updatable_olds_has hgd hlen o ho)
  simp only [SpecStore.apply, hall, if_true] at hspec
  split
  rename_i e1 okA hp
  have sc := sameCore_persist hp
  obtain ⟨hok, ad⟩ := persist_adrel hi.quiet hi.autoSave
    (EffOK.foldl (fun (p : Rule × Rule) => effOK_update pt p.1 p.2) (olds.zip news)) hp
  split
  · rename_i hc; simp [hok] at hc
  rw [sc.getStore, hs]
  split
  · rename_i hc; cases hc
  rename_i s0 hs0
  cases hs0
  split
  · rename_i s' hupd
    rw [hupd] at hspec
    exact absurd (Prod.mk.inj hspec).2 (by simp)
  rename_i s' hupd
  rw [hupd] at g1 hspec
  simp only at g1 hspec
  have hpol := (Prod.mk.inj hspec).1
  rcases arity_cases har hs with ⟨rfl, hps, toks, ht, rfl⟩ | ⟨rfl, hgs, kind, hd⟩
  · simp only [str_pg, Bool.false_eq_true, if_false]
    exact c10_stepP hi (stepP_setStore sc hps _) hps ht g1 (ad.trans_same (adSame_setStore _ _ _ _)) hpol
  · obtain ⟨_, hinj, rm, hrm, hk⟩ := wf_g_info hi.wf hgs hd
    simp only [beq_self_eq_true, if_true]
    have st1 := stepG_setStore sc hgs hrm s'
    obtain ⟨st2, hok1⟩ := stepG_incr' st1 hd false olds
    have i2 := c10_stepG hi st2 hgs hrm hd g1 (applyRules_kind _ _ _ _)
      (ad.trans_same ((adSame_setStore _ _ _ _).trans (adSame_incrLinks _ _ _ _))) hpol
    obtain ⟨st3, hok2⟩ := stepG_incr' st2 hd true news
    have i3 := c10_stepG hi st3 hgs hrm hd g1 ((applyRules_kind _ _ _ _).trans (applyRules_kind _ _ _ _))
      (ad.trans_same (((adSame_setStore _ _ _ _).trans (adSame_incrLinks _ _ _ _)).trans (adSame_incrLinks _ _ _ _))) hpol
    split
    · exact i2
    · split <;> exact i3

/-- the call does not panic and its result state satisfies the invariant -/
def OptInv10 (o : Option (Enf × Enf.MRes)) : Prop := ∃ r, o = some r ∧ Inv10 r.1

theorem optInv10_some {e : Enf} {res : Enf.MRes} (h : Inv10 e) : OptInv10 (some (e, res)) := ⟨(e, res), rfl, h⟩

theorem c10_removeFilteredWN (e : Enf) (sec pt : String) (fi : Nat) (vals : List String) (hi : Inv10 e)
    (hop : e.opWF (.removeFiltered sec pt fi vals) = true) : OptInv10 (e.removeFilteredWN sec pt fi vals) := by
  obtain ⟨n, s, har, hs, hwf6⟩ := opWF_elim hop rfl
  obtain ⟨_, hn⟩ := wf06_parts hwf6
  obtain ⟨hne, hfl⟩ := wf06_removeFiltered hwf6
  unfold Enf.removeFilteredWN
  split
  · exact optInv10_some hi
  split
  rename_i e1 okA hp
  have sc := sameCore_persist hp
  obtain ⟨hok, ad⟩ := persist_adrel hi.quiet hi.autoSave (effOK_filterOut pt fi vals) hp
  split
  · rename_i hc; simp [hok] at hc
  rw [sc.getStore, hs]
  have g0 := good_of hi.wf har hs
  obtain ⟨s', b, eff, hrf, g1, hspec⟩ := removeFiltered_spec hn g0 fi vals hfl
  simp only [SpecStore.apply] at hspec
  have hpol : s'.policy = s.policy.filter (fun r => !filterMatches fi vals r) := (Prod.mk.inj hspec).1
  simp only [hrf]
  cases b with
  | false =>
    simp only
    rcases arity_cases har hs with ⟨rfl, hps, toks, ht, rfl⟩ | ⟨rfl, hgs, kind, hd⟩
    · exact optInv10_some (c10_stepP hi (stepP_setStore sc hps _) hps ht g1
        (ad.trans_same (adSame_setStore _ _ _ _)) hpol)
    · obtain ⟨_, hinj, rm, hrm, hk⟩ := wf_g_info hi.wf hgs hd
      have st1 := stepG_setStore sc hgs hrm s'
      exact optInv10_some (c10_stepG hi st1 hgs hrm hd g1 rfl (ad.trans_same (adSame_setStore _ _ _ _)) hpol)
  | true =>
    simp only
    rcases arity_cases har hs with ⟨rfl, hps, toks, ht, rfl⟩ | ⟨rfl, hgs, kind, hd⟩
    · simp only [str_pg, Bool.false_eq_true, if_false]
      exact optInv10_some (c10_stepP hi (stepP_setStore sc hps _) hps ht g1
        (ad.trans_same (adSame_setStore _ _ _ _)) hpol)
    · obtain ⟨_, hinj, rm, hrm, hk⟩ := wf_g_info hi.wf hgs hd
      simp only [beq_self_eq_true, if_true]
      have st1 := stepG_setStore sc hgs hrm s'
      obtain ⟨st2, hok2⟩ := stepG_incr' st1 hd false eff
      have := c10_stepG hi st2 hgs hrm hd g1 (applyRules_kind _ _ _ _)
        (ad.trans_same ((adSame_setStore _ _ _ _).trans (adSame_incrLinks _ _ _ _))) hpol
      split <;> exact optInv10_some this

/-! ### BuildRoleLinks, the notify wrapper -/

theorem rebuild_ok {e : Enf} (hwf : e.WFState) :
    ∀ x ∈ e.rm, ∀ count kind s, e.md.g.lookup x.1 = some (count, kind) → e.g.lookup x.1 = some s →
      (x.2.clear.applyRules count true s.policy).2 = true := by
  intro x _ count kind s hd hs
  obtain ⟨g0, hinj, _⟩ := wf_g_info hwf hs hd
  exact (applyRules_add count s.policy x.2.clear
    (fun r hr => by rw [plainRule_length (g0.plain r hr)]; exact Nat.le_refl _) hinj.c2).1

theorem wf_rebuilt {e : Enf} (hwf : e.WFState) (e' : Enf) (hmd : e'.md = e.md) (hp : e'.p = e.p) (hg : e'.g = e.g)
    (hrm : e'.rm = e.rm.map (fun x => (x.1, rebuiltOf e.md e.g x.1 x.2))) : e'.WFState := by
  obtain ⟨a1, a2, a3, a4, a5, a6, a7, a8⟩ := hwf
  have hr : ∀ x, e'.rm.lookup x = (e.rm.lookup x).map (rebuiltOf e.md e.g x) := fun x => by
    rw [hrm]; exact lookup_map_snd (fun k (r : RM) => rebuiltOf e.md e.g k r) e.rm x
  unfold Enf.WFState
  rw [hmd, hp, hg]
  refine ⟨a1, a2, ?_, a4, a5, a6, a7, ?_⟩
  · rw [hrm]; simp only [List.map_map, Function.comp_def]; exact a3
  · intro x rx hx
    rw [hr x] at hx
    cases hl : e.rm.lookup x with
    | none => rw [hl] at hx; cases hx
    | some r0 =>
      rw [hl] at hx; cases hx
      rw [rebuiltOf_kind]
      exact a8 x r0 hl

theorem inv10_core {e e' : Enf} (hi : Inv10 e) (hwf : e'.WFState) (hmd : e'.md = e.md) (hp : e'.p = e.p) (hg : e'.g = e.g)
    (ha : e'.adapter = e.adapter) (hs : e'.autoSave = e.autoSave) : Inv10 e' := by
  refine ⟨hwf, ?_, ?_, ?_, ?_, ?_, hs.trans hi.autoSave⟩
  · unfold Enf.Synced; rw [ha, hp, hg]; exact hi.synced
  · unfold Enf.adapterQuiet; rw [ha]; exact hi.quiet
  · unfold Enf.noPriority; rw [hmd]; exact hi.noPrio
  · unfold Enf.disjointTypes; rw [hmd]; exact hi.disj
  · unfold Enf.typeNamesOk; rw [hmd]; exact hi.names

theorem c10_buildRoleLinks (e : Enf) (hi : Inv10 e) : Inv10 e.buildRoleLinks.1 := by
  have heq : e.buildRoleLinks = ({ e.invalidate with rm := e.rm.map (fun x => (x.1, rebuiltOf e.md e.g x.1 x.2)) }, true) := by
    unfold Enf.buildRoleLinks
    simp only [Enf.invalidate]
    rw [rebuildLinks_eq e.md e.rm e.g (rebuild_ok hi.wf)]
  rw [heq]
  exact inv10_core hi (wf_rebuilt hi.wf _ rfl rfl rfl rfl) rfl rfl rfl rfl rfl

theorem inv10_withNotify {r : Enf × Enf.MRes} (h : Inv10 r.1) (x y : Option String) : Inv10 (Enf.withNotify r x y).1 := by
  have sc := sameCore_withNotify r x y
  have ad := adSame_withNotify r x y
  refine inv10_core h ?_ sc.md sc.p sc.g ad.1 ad.2
  have := h.wf
  unfold Enf.WFState at this ⊢
  rw [sc.md, sc.p, sc.g, sc.rm]
  exact this

theorem opWF_of_opWF10 {e : Enf} {op : MOp} (h : e.opWF10 op = true) : e.opWF op = true := by
  simp only [Enf.opWF10, Bool.and_eq_true] at h
  exact h.1

theorem c10_step (e : Enf) (op : MOp) (hi : Inv10 e) (hop : e.opWF10 op = true) :
    ∃ e' res, e.applyM op = some (e', res) ∧ Inv10 e' := by
  have hop' := opWF_of_opWF10 hop
  cases op with
  | add sec pt r => exact ⟨_, _, rfl, inv10_withNotify (c10_addPolicyWN e sec pt r hi hop') _ _⟩
  | addMany sec pt ex rs => exact ⟨_, _, rfl, inv10_withNotify (c10_addPoliciesWN e sec pt rs ex hi hop') _ _⟩
  | remove sec pt r => exact ⟨_, _, rfl, inv10_withNotify (c10_removePolicyWN e sec pt r hi hop') _ _⟩
  | removeMany sec pt rs => exact ⟨_, _, rfl, inv10_withNotify (c10_removePoliciesWN e sec pt rs hi hop') _ _⟩
  | update sec pt o n => exact ⟨_, _, rfl, inv10_withNotify (c10_updatePolicyWN e sec pt o n hi hop') _ _⟩
  | updateMany sec pt os ns => exact ⟨_, _, rfl, inv10_withNotify (c10_updatePoliciesWN e sec pt os ns hi hop) _ _⟩
  | removeFiltered sec pt fi vals =>
    obtain ⟨r, h1, h2⟩ := c10_removeFilteredWN e sec pt fi vals hi hop'
    obtain ⟨x, y, happ⟩ : ∃ x y, e.applyM (.removeFiltered sec pt fi vals) = some (Enf.withNotify r x y) := by
      refine ⟨some s!"RemoveFilteredPolicy({sec};{pt};{fi};{Enf.showRule vals})", none, ?_⟩
      rw [Enf.applyM, Enf.removeFiltered, h1]
      rfl
    exact ⟨(Enf.withNotify r x y).1, (Enf.withNotify r x y).2, happ, inv10_withNotify h2 x y⟩
  | clear => simp [Enf.opWF10] at hop
  | buildLinks => exact ⟨_, _, rfl, c10_buildRoleLinks e hi⟩

end Casbin
