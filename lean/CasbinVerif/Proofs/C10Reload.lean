import CasbinVerif.Proofs.C10Load
/-
  C10: LoadPolicy from a synced adapter rebuilds the listed rules, per type and in order.
-/
namespace Casbin

/-- `deliver` without an armed load fault -/
def loadAll (md : ModelDef) : List (String × Rule) → List (String × Store) → List (String × Store) →
    Option (List (String × Store) × List (String × Store))
  | [], p, g => some (p, g)
  | (pt, r) :: rest, p, g =>
      match Enf.loadLine md p g pt r with
      | none => none
      | some (p', g') => loadAll md rest p' g'

theorem deliver_none (e : Enf) (ls : List (String × Rule)) (i : Nat) (p g : List (String × Store)) :
    Enf.loadPolicy.deliver e ls i p g none = (loadAll e.md ls p g, none) := by
  induction ls generalizing i p g with
  | nil => simp [Enf.loadPolicy.deliver, loadAll]
  | cons x rest ih =>
    obtain ⟨pt, r⟩ := x
    simp only [Enf.loadPolicy.deliver, loadAll]
    have : (none == some i) = false := rfl
    simp only [this, Bool.false_eq_true, if_false]
    cases Enf.loadLine e.md p g pt r with
    | none => rfl
    | some pg => exact ih _ _ _

/-! ### the stores while loading -/

/-- every store of the list is coherent and holds plain rules of its definition's arity -/
def StoresOK (ar : String → Option Nat) (l : List (String × Store)) : Prop :=
  ∀ k s, l.lookup k = some s → ∃ n, ar k = some n ∧ Good n s

/-- `l'` holds, per key, the rules of `l` followed by the lines of that key -/
def Ext (l l' : List (String × Store)) (ls : List (String × Rule)) : Prop :=
  ∀ k s, l.lookup k = some s → ∃ s', l'.lookup k = some s' ∧ s'.policy = s.policy ++ rulesOfL ls k

/-- no line repeats a rule already held or delivered earlier -/
def FreshLines (l : List (String × Store)) (ls : List (String × Rule)) : Prop :=
  ∀ k s, l.lookup k = some s → (s.policy ++ rulesOfL ls k).Nodup

theorem storesOK_step {ar : String → Option Nat} {l : List (String × Store)} (hok : StoresOK ar l)
    {pt : String} {s : Store} (hl : l.lookup pt = some s) {n : Nat} (har : ar pt = some n) {r : Rule}
    (hr : plainRule n r = true) (hnew : r ∉ s.policy) : StoresOK ar (assocSet l pt (s.add none r)) := by
  intro k s0 hk
  by_cases e1 : k = pt
  · subst e1
    rw [lookup_assocSet_self] at hk
    cases hk
    obtain ⟨n', h1, g0⟩ := hok k s hl
    rw [har] at h1; cases h1
    exact ⟨n, har, good_add0 g0 hr hnew⟩
  · rw [lookup_assocSet_other _ _ e1] at hk
    exact hok k s0 hk

theorem fresh_step_self {l : List (String × Store)} {pt : String} {s : Store} (hl : l.lookup pt = some s)
    {r : Rule} {rest : List (String × Rule)} (h : FreshLines l ((pt, r) :: rest)) :
    FreshLines (assocSet l pt (s.add none r)) rest := by
  intro k s0 hk
  by_cases e1 : k = pt
  · subst e1
    rw [lookup_assocSet_self] at hk
    cases hk
    have := h k s hl
    rw [rulesOfL_cons, if_pos rfl] at this
    simpa [Store.add, List.append_assoc] using this
  · rw [lookup_assocSet_other _ _ e1] at hk
    have := h k s0 hk
    rw [rulesOfL_cons, if_neg (fun e => e1 e.symm)] at this
    exact this

theorem fresh_step_other {l : List (String × Store)} {x : String × Rule} {rest : List (String × Rule)}
    (h : FreshLines l (x :: rest)) : FreshLines l rest := by
  intro k s0 hk
  have := h k s0 hk
  rw [rulesOfL_cons] at this
  split at this
  · exact this.sublist (List.Sublist.append_left (List.sublist_cons_self _ _) _)
  · exact this

theorem fresh_new {l : List (String × Store)} {pt : String} {s : Store} (hl : l.lookup pt = some s)
    {r : Rule} {rest : List (String × Rule)} (h : FreshLines l ((pt, r) :: rest)) : r ∉ s.policy := by
  have := h pt s hl
  rw [rulesOfL_cons, if_pos rfl, List.nodup_append] at this
  intro hm
  exact this.2.2 r hm r List.mem_cons_self rfl

theorem ext_step_self {l l' : List (String × Store)} {pt : String} {s : Store} (hl : l.lookup pt = some s)
    {r : Rule} {rest : List (String × Rule)} (h : Ext (assocSet l pt (s.add none r)) l' rest) :
    Ext l l' ((pt, r) :: rest) := by
  intro k s0 hk
  by_cases e1 : k = pt
  · subst e1
    rw [hl] at hk; cases hk
    obtain ⟨s', h1, h2⟩ := h k _ (lookup_assocSet_self _ _ _)
    refine ⟨s', h1, ?_⟩
    rw [h2, rulesOfL_cons, if_pos rfl]
    simp [Store.add, List.append_assoc]
  · obtain ⟨s', h1, h2⟩ := h k s0 (by rw [lookup_assocSet_other _ _ e1]; exact hk)
    refine ⟨s', h1, ?_⟩
    rw [h2, rulesOfL_cons, if_neg (fun e => e1 e.symm)]

theorem ext_step_other {l l' : List (String × Store)} {pt : String} {r : Rule} {rest : List (String × Rule)}
    (hne : ∀ k s, l.lookup k = some s → k ≠ pt) (h : Ext l l' rest) : Ext l l' ((pt, r) :: rest) := by
  intro k s0 hk
  obtain ⟨s', h1, h2⟩ := h k s0 hk
  refine ⟨s', h1, ?_⟩
  rw [h2, rulesOfL_cons, if_neg (fun e => hne k s0 hk e.symm)]

theorem ext_nil (l : List (String × Store)) : Ext l l [] := by
  intro k s hk
  exact ⟨s, hk, by simp [rulesOfL]⟩

/-- what a line must look like to be accepted -/
def LineOK (md : ModelDef) (x : String × Rule) : Prop :=
  (∃ toks, md.p.lookup x.1 = some toks ∧ plainRule toks.length x.2 = true) ∨
  (∃ c k, md.g.lookup x.1 = some (c, k) ∧ plainRule c x.2 = true)

def arP (md : ModelDef) : String → Option Nat := fun k => (md.p.lookup k).map List.length
def arG (md : ModelDef) : String → Option Nat := fun k => (md.g.lookup k).map (·.1)

structure MdOK (md : ModelDef) : Prop where
  noPrio : ∀ pt toks, md.p.lookup pt = some toks → toks.idxOf? "priority" = none
  disj : ∀ pt, pt ∈ md.p.map (·.1) → pt ∉ md.g.map (·.1)
  pnames : ∀ pt ∈ md.p.map (·.1), pt.isEmpty = false ∧ pt.front = 'p'
  gnames : ∀ gt ∈ md.g.map (·.1), gt.isEmpty = false ∧ gt.front = 'g'

theorem loadLine_p {md : ModelDef} (hmd : MdOK md) {p g : List (String × Store)} {pt : String} {r : Rule}
    {toks : List String} (ht : md.p.lookup pt = some toks) (hr : plainRule toks.length r = true)
    {s : Store} (hs : p.lookup pt = some s) (hhas : s.has r = false) :
    Enf.loadLine md p g pt r = some (assocSet p pt (s.add none r), g) := by
  obtain ⟨h1, h2⟩ := hmd.pnames pt (mem_keys_of_lookup ht)
  unfold Enf.loadLine
  rw [if_neg (by simp [h1])]
  have hf : (pt.front == 'p') = true := by rw [h2]; rfl
  rw [if_pos hf]
  simp only [ht, hs]
  have hlen : (r.length != toks.length) = false := by
    rw [plainRule_length hr]; simp
  rw [if_neg (by simp [hlen]), if_neg (by simp [hhas]), hmd.noPrio pt toks ht]

theorem loadLine_g {md : ModelDef} (hmd : MdOK md) {p g : List (String × Store)} {pt : String} {r : Rule}
    {c : Nat} {k : RMKind} (ht : md.g.lookup pt = some (c, k)) (hr : plainRule c r = true)
    {s : Store} (hs : g.lookup pt = some s) (hhas : s.has r = false) :
    Enf.loadLine md p g pt r = some (p, assocSet g pt (s.add none r)) := by
  obtain ⟨h1, h2⟩ := hmd.gnames pt (mem_keys_of_lookup ht)
  unfold Enf.loadLine
  rw [if_neg (by simp [h1])]
  have hf : (pt.front == 'p') = false := by rw [h2]; rfl
  have hf' : (pt.front == 'g') = true := by rw [h2]; rfl
  rw [if_neg (by rw [hf]; exact Bool.false_ne_true), if_pos hf']
  simp only [ht, hs]
  rw [if_neg (by rw [plainRule_length hr]; exact Nat.lt_irrefl _), if_neg (by simp [hhas])]

theorem loadAll_spec {md : ModelDef} (hmd : MdOK md) (ls : List (String × Rule)) (p g : List (String × Store))
    (hpk : p.map (·.1) = md.p.map (·.1)) (hgk : g.map (·.1) = md.g.map (·.1))
    (hpo : StoresOK (arP md) p) (hgo : StoresOK (arG md) g)
    (hls : ∀ x ∈ ls, LineOK md x) (hpf : FreshLines p ls) (hgf : FreshLines g ls) :
    ∃ p' g', loadAll md ls p g = some (p', g') ∧
      p'.map (·.1) = md.p.map (·.1) ∧ g'.map (·.1) = md.g.map (·.1) ∧
      StoresOK (arP md) p' ∧ StoresOK (arG md) g' ∧ Ext p p' ls ∧ Ext g g' ls := by
  induction ls generalizing p g with
  | nil => exact ⟨p, g, rfl, hpk, hgk, hpo, hgo, ext_nil p, ext_nil g⟩
  | cons x rest ih =>
    obtain ⟨pt, r⟩ := x
    have hls' : ∀ x ∈ rest, LineOK md x := fun x hx => hls x (List.mem_cons_of_mem _ hx)
    rcases hls (pt, r) List.mem_cons_self with ⟨toks, ht, hr⟩ | ⟨c, k, ht, hr⟩
    · simp only at ht hr
      obtain ⟨s, hs⟩ := lookup_some_of_keys (l' := p) hpk ht
      obtain ⟨n, hn, g0⟩ := hpo pt s hs
      have hn' : n = toks.length := by
        simp only [arP, ht, Option.map_some, Option.some.injEq] at hn; exact hn.symm
      subst hn'
      have hnew := fresh_new hs hpf
      have hhas : s.has r = false := by
        cases hh : s.has r with
        | false => rfl
        | true => exact absurd ((has_iff0 g0 hr).1 hh) hnew
      have hne : ∀ k s, g.lookup k = some s → k ≠ pt := by
        intro k s0 hk e1
        subst e1
        exact hmd.disj k (mem_keys_of_lookup ht) (hgk ▸ mem_keys_of_lookup hk)
      obtain ⟨p', g', h1, h2, h3, h4, h5, h6, h7⟩ := ih (assocSet p pt (s.add none r)) g
        ((assocSet_keys_of_lookup p _ hs).trans hpk) hgk
        (storesOK_step hpo hs (by simp [arP, ht]) hr hnew) hgo hls'
        (fresh_step_self hs hpf) (fresh_step_other hgf)
      refine ⟨p', g', ?_, h2, h3, h4, h5, ext_step_self hs h6, ext_step_other hne h7⟩
      simp only [loadAll, loadLine_p hmd ht hr hs hhas]
      exact h1
    · simp only at ht hr
      obtain ⟨s, hs⟩ := lookup_some_of_keys (l' := g) hgk ht
      obtain ⟨n, hn, g0⟩ := hgo pt s hs
      have hn' : n = c := by
        simp only [arG, ht, Option.map_some, Option.some.injEq] at hn; exact hn.symm
      subst hn'
      have hnew := fresh_new hs hgf
      have hhas : s.has r = false := by
        cases hh : s.has r with
        | false => rfl
        | true => exact absurd ((has_iff0 g0 hr).1 hh) hnew
      have hne : ∀ k s, p.lookup k = some s → k ≠ pt := by
        intro k s0 hk e1
        subst e1
        exact hmd.disj k (hpk ▸ mem_keys_of_lookup hk) (mem_keys_of_lookup ht)
      obtain ⟨p', g', h1, h2, h3, h4, h5, h6, h7⟩ := ih p (assocSet g pt (s.add none r))
        hpk ((assocSet_keys_of_lookup g _ hs).trans hgk)
        hpo (storesOK_step hgo hs (by simp [arG, ht]) hr hnew) hls'
        (fresh_step_other hpf) (fresh_step_self hs hgf)
      refine ⟨p', g', ?_, h2, h3, h4, h5, ext_step_other hne h6, ext_step_self hs h7⟩
      simp only [loadAll, loadLine_g hmd ht hr hs hhas]
      exact h1

theorem sortStores_id {md : ModelDef} (hmd : MdOK md) (p : List (String × Store)) : Enf.sortStores md p = p := by
  unfold Enf.sortStores
  induction p with
  | nil => rfl
  | cons x xs ih =>
    obtain ⟨pt, s⟩ := x
    rw [List.map_cons, ih]
    have : (md.p.lookup pt).bind (fun toks => toks.idxOf? "priority") = none := by
      cases hl : md.p.lookup pt with
      | none => rfl
      | some toks => exact hmd.noPrio pt toks hl
    simp only [this]

end Casbin

namespace Casbin

theorem loadPolicy_eq (e : Enf) (a : AdapterSt) (ha : e.adapter = some a) (hf : a.failAt = 0)
    (hl : a.loadFailAfter = none) (hb : e.autoBuild = true) {p1 g1 : List (String × Store)}
    (hload : loadAll e.md a.lines (e.p.map (fun x => (x.1, Store.empty))) (e.g.map (fun x => (x.1, Store.empty))) = some (p1, g1))
    (hsort : Enf.sortStores e.md p1 = p1) {rm' : List (String × RM)}
    (hrb : Enf.rebuildLinks e.md e.rm g1 = (rm', true)) :
    ∃ ad, e.loadPolicy = ({ e with adapter := ad, p := p1, g := g1, rm := rm', cache := [] }, true) := by
  unfold Enf.loadPolicy
  rw [ha]
  simp only [AdapterSt.call, hf, bne_self_eq_false, Bool.false_and, Bool.false_eq_true, if_false, Bool.not_true]
  simp only [hl, Option.map_none, deliver_none, hload, hsort, hb, if_true, hrb, Enf.invalidate]
  exact ⟨_, rfl⟩

theorem mdOK_of {e : Enf} (hi : Inv10 e) : MdOK e.md := ⟨hi.noPrio, hi.disj, hi.names.1, hi.names.2⟩

theorem lookup_emptied (l : List (String × Store)) (k : String) :
    (l.map (fun x => (x.1, Store.empty))).lookup k = (l.lookup k).map (fun _ => Store.empty) :=
  lookup_map_snd (fun _ _ => Store.empty) l k

/-- delivering the lines of a synced adapter onto emptied stores rebuilds the listed rules -/
theorem load_facts {e : Enf} (hi : Inv10 e) (a : AdapterSt) (ha : e.adapter = some a) :
    ∃ p1 g1, loadAll e.md a.lines (e.p.map (fun x => (x.1, Store.empty))) (e.g.map (fun x => (x.1, Store.empty))) = some (p1, g1) ∧
      p1.map (·.1) = e.md.p.map (·.1) ∧ g1.map (·.1) = e.md.g.map (·.1) ∧
      StoresOK (arP e.md) p1 ∧ StoresOK (arG e.md) g1 ∧
      (∀ pt s, e.p.lookup pt = some s → ∃ s', p1.lookup pt = some s' ∧ s'.policy = s.policy) ∧
      (∀ gt s, e.g.lookup gt = some s → ∃ s', g1.lookup gt = some s' ∧ s'.policy = s.policy) := by
  obtain ⟨sp, sg, st⟩ := hi.synced a ha
  obtain ⟨a1, a2, a3, a4, a5, a6, a7, a8⟩ := hi.wf
  have hpk : (e.p.map (fun x => (x.1, Store.empty))).map (·.1) = e.md.p.map (·.1) := by
    rw [← a1]; simp [List.map_map, Function.comp_def]
  have hgk : (e.g.map (fun x => (x.1, Store.empty))).map (·.1) = e.md.g.map (·.1) := by
    rw [← a2]; simp [List.map_map, Function.comp_def]
  have hpo : StoresOK (arP e.md) (e.p.map (fun x => (x.1, Store.empty))) := by
    intro k s hk
    rw [lookup_emptied] at hk
    cases hl : e.p.lookup k with
    | none => rw [hl] at hk; cases hk
    | some s0 =>
      rw [hl] at hk; cases hk
      obtain ⟨_, toks, ht, _⟩ := a6 k s0 hl
      exact ⟨toks.length, by simp [arP, ht], good_empty _⟩
  have hgo : StoresOK (arG e.md) (e.g.map (fun x => (x.1, Store.empty))) := by
    intro k s hk
    rw [lookup_emptied] at hk
    cases hl : e.g.lookup k with
    | none => rw [hl] at hk; cases hk
    | some s0 =>
      rw [hl] at hk; cases hk
      obtain ⟨_, c, kd, ht, _⟩ := a7 k s0 hl
      exact ⟨c, by simp [arG, ht], good_empty _⟩
  have hls : ∀ x ∈ a.lines, LineOK e.md x := by
    intro x hx
    have hmem : x.2 ∈ a.rulesOf x.1 := by rw [rulesOf_eq, mem_rulesOfL]; exact hx
    rcases st x hx with h | h
    · obtain ⟨s, hs⟩ := Option.isSome_iff_exists.1 h
      rw [sp x.1 s hs] at hmem
      obtain ⟨_, toks, ht, hpl⟩ := a6 x.1 s hs
      exact .inl ⟨toks, ht, hpl x.2 hmem⟩
    · obtain ⟨s, hs⟩ := Option.isSome_iff_exists.1 h
      rw [sg x.1 s hs] at hmem
      obtain ⟨_, c, kd, ht, _, _, _, hpl⟩ := a7 x.1 s hs
      exact .inr ⟨c, kd, ht, hpl x.2 hmem⟩
  have hpf : FreshLines (e.p.map (fun x => (x.1, Store.empty))) a.lines := by
    intro k s hk
    rw [lookup_emptied] at hk
    cases hl : e.p.lookup k with
    | none => rw [hl] at hk; cases hk
    | some s0 =>
      rw [hl] at hk; cases hk
      rw [← rulesOf_eq, sp k s0 hl]
      simpa [Store.empty] using (a6 k s0 hl).1.1
  have hgf : FreshLines (e.g.map (fun x => (x.1, Store.empty))) a.lines := by
    intro k s hk
    rw [lookup_emptied] at hk
    cases hl : e.g.lookup k with
    | none => rw [hl] at hk; cases hk
    | some s0 =>
      rw [hl] at hk; cases hk
      rw [← rulesOf_eq, sg k s0 hl]
      simpa [Store.empty] using (a7 k s0 hl).1.1
  obtain ⟨p1, g1, h1, h2, h3, h4, h5, h6, h7⟩ := loadAll_spec (mdOK_of hi) a.lines _ _ hpk hgk hpo hgo hls hpf hgf
  refine ⟨p1, g1, h1, h2, h3, h4, h5, ?_, ?_⟩
  · intro pt s hs
    obtain ⟨s', hs', hpol⟩ := h6 pt Store.empty (by rw [lookup_emptied, hs]; rfl)
    refine ⟨s', hs', ?_⟩
    rw [hpol, ← rulesOf_eq, sp pt s hs]
    simp [Store.empty]
  · intro gt s hs
    obtain ⟨s', hs', hpol⟩ := h7 gt Store.empty (by rw [lookup_emptied, hs]; rfl)
    refine ⟨s', hs', ?_⟩
    rw [hpol, ← rulesOf_eq, sg gt s hs]
    simp [Store.empty]

/-- the state `LoadPolicy` is about to rebuild the role links of: the old managers, the new stores -/
theorem wf_loaded {e : Enf} (hwf : e.WFState) {p1 g1 : List (String × Store)}
    (hpk : p1.map (·.1) = e.md.p.map (·.1)) (hgk : g1.map (·.1) = e.md.g.map (·.1))
    (hpo : StoresOK (arP e.md) p1) (hgo : StoresOK (arG e.md) g1) (ad : Option AdapterSt) :
    ({ e with adapter := ad, p := p1, g := g1, cache := [] } : Enf).WFState := by
  obtain ⟨a1, a2, a3, a4, a5, a6, a7, a8⟩ := hwf
  refine ⟨hpk, hgk, a3, a4, a5, ?_, ?_, a8⟩
  · intro pt s hs
    simp only at hs ⊢
    obtain ⟨n, hn, g0⟩ := hpo pt s hs
    cases ht : e.md.p.lookup pt with
    | none => simp [arP, ht] at hn
    | some toks =>
      simp only [arP, ht, Option.map_some, Option.some.injEq] at hn
      subst hn
      exact ⟨g0.coh, toks, rfl, g0.plain⟩
  · intro gt s hs
    simp only at hs ⊢
    obtain ⟨n, hn, g0⟩ := hgo gt s hs
    obtain ⟨s0, hs0⟩ := lookup_some_of_keys (l' := e.g) (a2.trans hgk.symm) hs
    obtain ⟨_, c, k, ht, h2, h3, h4, _⟩ := a7 gt s0 hs0
    simp only [arG, ht, Option.map_some, Option.some.injEq] at hn
    subst hn
    exact ⟨g0.coh, c, k, ht, h2, h3, h4, g0.plain⟩

theorem mirror_rebuilt {e : Enf} (hwf : e.WFState) (e' : Enf) (hmd : e'.md = e.md) (hg : e'.g = e.g)
    (hrm : e'.rm = e.rm.map (fun x => (x.1, rebuiltOf e.md e.g x.1 x.2))) : e'.LinksMirror := by
  have hr : ∀ x, e'.rm.lookup x = (e.rm.lookup x).map (rebuiltOf e.md e.g x) := fun x => by
    rw [hrm]; exact lookup_map_snd (fun k (r : RM) => rebuiltOf e.md e.g k r) e.rm x
  intro x rx c k sx h1 h2 h3 l
  rw [hr x] at h1
  rw [hmd] at h2
  rw [hg] at h3
  cases hl : e.rm.lookup x with
  | none => rw [hl] at h1; cases h1
  | some r0 =>
    rw [hl] at h1; cases h1
    obtain ⟨g0, hinj, _⟩ := wf_g_info hwf h3 h2
    have hk := wf_kind hwf hl h2
    obtain ⟨_, hl2⟩ := applyRules_add c sx.policy r0.clear
      (fun r hr => by rw [plainRule_length (g0.plain r hr)]; exact Nat.le_refl _) hinj.c2
    simp only [rebuiltOf, h2, h3]
    rw [hl2 l]
    simp only [RM.clear, List.not_mem_nil, false_or, hk]

/-- everything the two reload theorems need -/
theorem reload_all {e : Enf} (hi : Inv10 e) (hb : e.autoBuild = true) (a : AdapterSt) (ha : e.adapter = some a) :
    e.loadPolicy.2 = true ∧
    (∀ pt, (e.loadPolicy.1.p.lookup pt).map (·.policy) = (e.p.lookup pt).map (·.policy)) ∧
    (∀ gt, (e.loadPolicy.1.g.lookup gt).map (·.policy) = (e.g.lookup gt).map (·.policy)) ∧
    e.loadPolicy.1.WFState ∧ e.loadPolicy.1.LinksMirror := by
  obtain ⟨p1, g1, hload, hpk, hgk, hpo, hgo, hpe, hge⟩ := load_facts hi a ha
  obtain ⟨hf, hl⟩ := hi.quiet a ha
  have hsort := sortStores_id (mdOK_of hi) p1
  -- the intermediate state: new stores, old managers
  have hwfE : ∀ ad, ({ e with adapter := ad, p := p1, g := g1, cache := [] } : Enf).WFState :=
    fun ad => wf_loaded hi.wf hpk hgk hpo hgo ad
  have hrb := rebuildLinks_eq e.md e.rm g1 (rebuild_ok (hwfE none))
  obtain ⟨ad, heq⟩ := loadPolicy_eq e a ha hf hl hb hload hsort hrb
  rw [heq]
  refine ⟨rfl, ?_, ?_, ?_, ?_⟩
  · intro pt
    simp only
    cases hs : e.p.lookup pt with
    | none =>
      rw [Fresh.lookup_none_of_keys (l := e.p) (l' := p1) (hpk.trans hi.wf.1.symm) hs]
    | some s =>
      obtain ⟨s', hs', hpol⟩ := hpe pt s hs
      rw [hs']
      simp only [Option.map_some, hpol]
  · intro gt
    simp only
    cases hs : e.g.lookup gt with
    | none =>
      rw [Fresh.lookup_none_of_keys (l := e.g) (l' := g1) (hgk.trans hi.wf.2.1.symm) hs]
    | some s =>
      obtain ⟨s', hs', hpol⟩ := hge gt s hs
      rw [hs']
      simp only [Option.map_some, hpol]
  · exact wf_rebuilt (hwfE ad) _ rfl rfl rfl rfl
  · exact mirror_rebuilt (hwfE ad) _ rfl rfl rfl

end Casbin
