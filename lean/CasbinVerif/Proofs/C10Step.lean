import CasbinVerif.Proofs.C10Adapter
import CasbinVerif.Proofs.MirrorStep
/-
  C10: every management call keeps the adapter in step with the listed rules (auto-save on) or
  leaves it alone (auto-save off).
-/
namespace Casbin

/-- the invariant of auto-save operation (the same conjunction as `C10.Inv`, with names) -/
structure Inv10 (e : Enf) : Prop where
  wf : e.WFState
  synced : e.Synced
  quiet : e.adapterQuiet
  noPrio : e.noPriority
  disj : e.disjointTypes
  names : e.typeNamesOk
  autoSave : e.autoSave = true

/-! ### adapter and auto-save flag untouched -/

def AdSame (e e' : Enf) : Prop := e'.adapter = e.adapter ∧ e'.autoSave = e.autoSave

theorem AdSame.refl (e : Enf) : AdSame e e := ⟨rfl, rfl⟩

theorem AdSame.trans {a b c : Enf} (h1 : AdSame a b) (h2 : AdSame b c) : AdSame a c :=
  ⟨h2.1.trans h1.1, h2.2.trans h1.2⟩

theorem adSame_setStore (e : Enf) (sec pt : String) (s : Store) : AdSame e (e.setStore sec pt s) := by
  unfold Enf.setStore
  split <;> exact ⟨rfl, rfl⟩

theorem adSame_incrLinks (e : Enf) (add : Bool) (pt : String) (rules : List Rule) :
    AdSame e (e.incrLinks add pt rules).1 := by
  unfold Enf.incrLinks
  simp only [Enf.invalidate]
  split <;> exact ⟨rfl, rfl⟩

theorem adSame_incrLinks_of_eq {e : Enf} {add : Bool} {pt : String} {rules : List Rule} {e1 : Enf} {ok : Bool}
    (h : e.incrLinks add pt rules = (e1, ok)) : AdSame e e1 := by
  have := adSame_incrLinks e add pt rules
  rw [h] at this
  exact this

theorem adSame_notify (e : Enf) (x y : Option String) : AdSame e (e.notify x y) := by
  unfold Enf.notify
  split <;> exact ⟨rfl, rfl⟩

theorem adSame_withNotify (r : Enf × Enf.MRes) (x y : Option String) : AdSame r.1 (Enf.withNotify r x y).1 := by
  unfold Enf.withNotify
  split
  · split
    · exact adSame_notify _ _ _
    · exact .refl _
  · exact .refl _

theorem adSame_persist_off {e : Enf} (hoff : e.shouldPersist = false) {entry : String} {eff : AdapterSt → AdapterSt}
    {e1 : Enf} {ok : Bool}
    (h : (if e.shouldPersist = true then e.adapterCall entry eff else (e, true)) = (e1, ok)) : AdSame e e1 := by
  rw [hoff] at h
  simp only [Bool.false_eq_true, if_false] at h
  cases h
  exact .refl e

macro "adsame_tac" : tactic => `(tactic| (
  try dsimp only
  repeat (first
    | exact AdSame.refl _
    | exact adSame_persist_off (by assumption) (by assumption)
    | refine AdSame.trans ?_ (adSame_setStore _ _ _ _)
    | refine AdSame.trans ?_ (adSame_incrLinks _ _ _ _)
    | refine AdSame.trans ?_ (adSame_incrLinks_of_eq (by assumption)))))

theorem adSame_addPolicy (e : Enf) (sec pt : String) (rule : Rule) (hoff : e.shouldPersist = false) :
    AdSame e (e.addPolicy sec pt rule).1 := by
  unfold Enf.addPolicy
  refine AdSame.trans ?_ (adSame_withNotify _ _ _)
  unfold Enf.addPolicyWN
  repeat' first | split | (dsimp only; split)
  all_goals adsame_tac

theorem adSame_addPolicies (e : Enf) (sec pt : String) (rules : List Rule) (ex : Bool) (hoff : e.shouldPersist = false) :
    AdSame e (e.addPolicies sec pt rules ex).1 := by
  unfold Enf.addPolicies
  refine AdSame.trans ?_ (adSame_withNotify _ _ _)
  unfold Enf.addPoliciesWN
  repeat' first | split | (dsimp only; split)
  all_goals adsame_tac

theorem adSame_removePolicy (e : Enf) (sec pt : String) (rule : Rule) (hoff : e.shouldPersist = false) :
    AdSame e (e.removePolicy sec pt rule).1 := by
  unfold Enf.removePolicy
  refine AdSame.trans ?_ (adSame_withNotify _ _ _)
  unfold Enf.removePolicyWN
  repeat' first | split | (dsimp only; split)
  all_goals adsame_tac

theorem adSame_removePolicies (e : Enf) (sec pt : String) (rules : List Rule) (hoff : e.shouldPersist = false) :
    AdSame e (e.removePolicies sec pt rules).1 := by
  unfold Enf.removePolicies
  refine AdSame.trans ?_ (adSame_withNotify _ _ _)
  unfold Enf.removePoliciesWN
  repeat' first | split | (dsimp only; split)
  all_goals adsame_tac

theorem adSame_updatePolicy (e : Enf) (sec pt : String) (old new : Rule) (hoff : e.shouldPersist = false) :
    AdSame e (e.updatePolicy sec pt old new).1 := by
  unfold Enf.updatePolicy
  refine AdSame.trans ?_ (adSame_withNotify _ _ _)
  unfold Enf.updatePolicyWN
  repeat' first | split | (dsimp only; split)
  all_goals adsame_tac

theorem adSame_updatePolicies (e : Enf) (sec pt : String) (olds news : List Rule) (hoff : e.shouldPersist = false) :
    AdSame e (e.updatePolicies sec pt olds news).1 := by
  unfold Enf.updatePolicies
  refine AdSame.trans ?_ (adSame_withNotify _ _ _)
  unfold Enf.updatePoliciesWN
  repeat' first | split | (dsimp only; split)
  all_goals adsame_tac

theorem adSame_removeFilteredWN (e : Enf) (sec pt : String) (fi : Nat) (vals : List String) (hoff : e.shouldPersist = false)
    (r : Enf × Enf.MRes) : e.removeFilteredWN sec pt fi vals = some r → AdSame e r.1 := by
  unfold Enf.removeFilteredWN
  repeat' first | split | (dsimp only; split)
  all_goals (intro h; cases h)
  all_goals adsame_tac

theorem adSame_removeFiltered (e : Enf) (sec pt : String) (fi : Nat) (vals : List String) (hoff : e.shouldPersist = false)
    (r : Enf × Enf.MRes) (h : e.removeFiltered sec pt fi vals = some r) : AdSame e r.1 := by
  unfold Enf.removeFiltered at h
  simp only [Option.map_eq_some_iff] at h
  obtain ⟨r0, h0, rfl⟩ := h
  exact (adSame_removeFilteredWN e sec pt fi vals hoff r0 h0).trans (adSame_withNotify _ _ _)

theorem adSame_applyM (e : Enf) (op : MOp) (hoff : e.shouldPersist = false) (e' : Enf) (res : Enf.MRes)
    (h : e.applyM op = some (e', res)) : AdSame e e' := by
  cases op with
  | add sec pt r =>
    simp only [Enf.applyM, Option.some.injEq] at h
    have := adSame_addPolicy e sec pt r hoff
    rw [h] at this; exact this
  | addMany sec pt ex rs =>
    simp only [Enf.applyM, Option.some.injEq] at h
    have := adSame_addPolicies e sec pt rs ex hoff
    rw [h] at this; exact this
  | remove sec pt r =>
    simp only [Enf.applyM, Option.some.injEq] at h
    have := adSame_removePolicy e sec pt r hoff
    rw [h] at this; exact this
  | removeMany sec pt rs =>
    simp only [Enf.applyM, Option.some.injEq] at h
    have := adSame_removePolicies e sec pt rs hoff
    rw [h] at this; exact this
  | update sec pt o n =>
    simp only [Enf.applyM, Option.some.injEq] at h
    have := adSame_updatePolicy e sec pt o n hoff
    rw [h] at this; exact this
  | updateMany sec pt os ns =>
    simp only [Enf.applyM, Option.some.injEq] at h
    have := adSame_updatePolicies e sec pt os ns hoff
    rw [h] at this; exact this
  | removeFiltered sec pt fi vals =>
    simp only [Enf.applyM] at h
    exact adSame_removeFiltered e sec pt fi vals hoff (e', res) h
  | clear =>
    simp only [Enf.applyM, Option.some.injEq, Prod.mk.injEq] at h
    obtain ⟨rfl, _⟩ := h
    exact ⟨rfl, rfl⟩
  | buildLinks =>
    simp only [Enf.applyM, Option.some.injEq, Prod.mk.injEq] at h
    obtain ⟨rfl, _⟩ := h
    exact ⟨rfl, rfl⟩

/-! ### the adapter after a persisted call on type `pt` -/

structure AdRel (e e' : Enf) (pt : String) (f : List Rule → List Rule) : Prop where
  autoSave : e'.autoSave = e.autoSave
  none : e.adapter = none → e'.adapter = none
  some : ∀ a, e.adapter = some a → ∃ a', e'.adapter = some a' ∧ a'.failAt = a.failAt ∧
    a'.loadFailAfter = a.loadFailAfter ∧
    (∀ pt', pt' ≠ pt → a'.rulesOf pt' = a.rulesOf pt') ∧ a'.rulesOf pt = f (a.rulesOf pt) ∧
    (∀ l ∈ a'.lines, l.1 = pt ∨ ∃ l0 ∈ a.lines, l0.1 = l.1)

theorem AdRel.trans_same {e e1 e' : Enf} {pt : String} {f : List Rule → List Rule} (h : AdRel e e1 pt f)
    (hs : AdSame e1 e') : AdRel e e' pt f := by
  refine ⟨hs.2.trans h.autoSave, fun hn => hs.1.trans (h.none hn), ?_⟩
  intro a ha
  obtain ⟨a', h1, h2⟩ := h.some a ha
  exact ⟨a', hs.1.trans h1, h2⟩

theorem persist_adrel {e : Enf} (hq : e.adapterQuiet) (has : e.autoSave = true) {pt : String}
    {f : List Rule → List Rule} {eff : AdapterSt → AdapterSt} (E : EffOK pt f eff) {entry : String}
    {e1 : Enf} {ok : Bool}
    (hp : (if e.shouldPersist = true then e.adapterCall entry eff else (e, true)) = (e1, ok)) :
    ok = true ∧ AdRel e e1 pt f := by
  split at hp
  · unfold Enf.adapterCall at hp
    cases ha : e.adapter with
    | none =>
      rw [ha] at hp
      cases hp
      exact ⟨rfl, rfl, fun _ => ha, fun a h => (by rw [ha] at h; cases h)⟩
    | some a =>
      obtain ⟨hf, _⟩ := hq a ha
      rw [ha] at hp
      simp only [AdapterSt.call, hf, bne_self_eq_false, Bool.false_and, Bool.false_eq_true, if_false, if_true] at hp
      cases hp
      refine ⟨rfl, rfl, fun h => (by rw [ha] at h; cases h), ?_⟩
      intro a0 ha0
      rw [ha] at ha0; cases ha0
      refine ⟨_, rfl, ?_, ?_, ?_, ?_, ?_⟩
      · rw [E.failAt]; exact hf.symm
      · rw [E.lfa]
      · intro pt' hne; rw [E.other _ _ hne]; rfl
      · rw [E.self]; rfl
      · intro l hl
        have := E.types _ l hl
        exact this
  · rename_i hsp
    cases hp
    refine ⟨rfl, rfl, fun h => h, ?_⟩
    intro a ha
    exfalso
    apply hsp
    simp [Enf.shouldPersist, ha, has]

/-! ### well-formedness alone -/

theorem wf_stepP {e e' : Enf} (hwf : e.WFState) {pt : String} {s' : Store} (h : StepP e e' pt s')
    {toks : List String} (ht : e.md.p.lookup pt = some toks) (hg : Good toks.length s') : e'.WFState := by
  obtain ⟨a1, a2, a3, a4, a5, a6, a7, a8⟩ := hwf
  refine ⟨?_, ?_, ?_, ?_, ?_, ?_, ?_, ?_⟩
  · rw [h.pk, h.md]; exact a1
  · rw [h.g, h.md]; exact a2
  · rw [h.rm, h.md]; exact a3
  · rw [h.md]; exact a4
  · rw [h.md]; exact a5
  · intro x sx hx
    rw [h.pl x] at hx
    rw [h.md]
    split at hx
    · rename_i e1; subst e1; cases hx
      exact ⟨hg.coh, toks, ht, hg.plain⟩
    · exact a6 x sx hx
  · rw [h.g, h.md]; exact a7
  · rw [h.rm, h.md]; exact a8

theorem wf_stepG {e e' : Enf} (hwf : e.WFState) {pt : String} {s s' : Store} {rm rm' : RM} (h : StepG e e' pt s' rm')
    (hs : e.g.lookup pt = some s) (hr : e.rm.lookup pt = some rm)
    {count : Nat} {kind : RMKind} (hd : e.md.g.lookup pt = some (count, kind))
    (hg : Good count s') (hk : rm'.kind = rm.kind) : e'.WFState := by
  obtain ⟨a1, a2, a3, a4, a5, a6, a7, a8⟩ := hwf
  refine ⟨?_, ?_, ?_, ?_, ?_, ?_, ?_, ?_⟩
  · rw [h.p, h.md]; exact a1
  · rw [h.gk, h.md]; exact a2
  · rw [h.rk, h.md]; exact a3
  · rw [h.md]; exact a4
  · rw [h.md]; exact a5
  · rw [h.p, h.md]; exact a6
  · intro x sx hx
    rw [h.gl x] at hx
    rw [h.md]
    split at hx
    · rename_i e1; subst e1; cases hx
      obtain ⟨_, c, k, hd', h2, h3, h4, _⟩ := a7 x s hs
      rw [hd] at hd'; cases hd'
      exact ⟨hg.coh, count, kind, hd, h2, h3, h4, hg.plain⟩
    · exact a7 x sx hx
  · intro x rx hx
    rw [h.rl x] at hx
    rw [h.md]
    split at hx
    · rename_i e1; subst e1; cases hx
      rw [hk]; exact a8 x rm hr
    · exact a8 x rx hx

theorem stepP_of_same {e e1 : Enf} (h : SameCore e e1) {pt : String} {s : Store} (hs : e.p.lookup pt = some s) :
    StepP e e1 pt s := by
  refine ⟨h.md, h.g, h.rm, by rw [h.p], ?_⟩
  intro x
  rw [h.p]
  split
  · rename_i hx; subst hx; exact hs
  · rfl

theorem stepG_of_same {e e1 : Enf} (h : SameCore e e1) {pt : String} {s : Store} {rm : RM}
    (hs : e.g.lookup pt = some s) (hr : e.rm.lookup pt = some rm) : StepG e e1 pt s rm := by
  refine ⟨h.md, h.p, by rw [h.g], by rw [h.rm], ?_, ?_⟩
  · intro x
    rw [h.g]
    split
    · rename_i hx; subst hx; exact hs
    · rfl
  · intro x
    rw [h.rm]
    split
    · rename_i hx; subst hx; exact hr
    · rfl

theorem mem_keys_of_lookup {α} {l : List (String × α)} {k : String} {v : α} (h : l.lookup k = some v) :
    k ∈ l.map (·.1) := (lookup_isSome_iff l k).1 (by rw [h]; rfl)

theorem isSome_of_keys {α β} {l : List (String × α)} {l' : List (String × β)} (hk : l'.map (·.1) = l.map (·.1))
    {k : String} (h : (l.lookup k).isSome = true) : (l'.lookup k).isSome = true := by
  rw [lookup_isSome_iff] at h ⊢
  rw [hk]; exact h

/-! ### the invariant after a step on one store -/

theorem c10_stepP {e e' : Enf} (hi : Inv10 e) {pt : String} {s s' : Store} (h : StepP e e' pt s')
    (hs : e.p.lookup pt = some s) {toks : List String} (ht : e.md.p.lookup pt = some toks)
    (hg : Good toks.length s') {f : List Rule → List Rule} (ad : AdRel e e' pt f)
    (hpol : s'.policy = f s.policy) : Inv10 e' := by
  refine ⟨wf_stepP hi.wf h ht hg, ?_, ?_, ?_, ?_, ?_, ad.autoSave.trans hi.autoSave⟩
  · intro a' ha'
    cases ha : e.adapter with
    | none => rw [ad.none ha] at ha'; cases ha'
    | some a =>
      obtain ⟨a'', h1, _, _, hoth, hself, hty⟩ := ad.some a ha
      rw [h1] at ha'; cases ha'
      obtain ⟨sp, sg, st⟩ := hi.synced a ha
      refine ⟨?_, ?_, ?_⟩
      · intro x sx hx
        rw [h.pl x] at hx
        split at hx
        · rename_i hxe; subst hxe; cases hx
          rw [hself, sp x s hs, hpol]
        · rename_i hxe
          rw [hoth x hxe]; exact sp x sx hx
      · intro x sx hx
        rw [h.g] at hx
        have hne : x ≠ pt := by
          intro hxe; subst hxe
          have h1 : x ∈ e.md.p.map (·.1) := hi.wf.1 ▸ mem_keys_of_lookup hs
          have h2 : x ∈ e.md.g.map (·.1) := hi.wf.2.1 ▸ mem_keys_of_lookup hx
          exact hi.disj x h1 h2
        rw [hoth x hne]; exact sg x sx hx
      · intro l hl
        rcases hty l hl with hl1 | ⟨l0, hl0, hl1⟩
        · left
          rw [hl1, h.pl pt, if_pos rfl]; rfl
        · rw [← hl1]
          rcases st l0 hl0 with h0 | h0
          · left; exact isSome_of_keys h.pk h0
          · right; rw [h.g]; exact h0
  · intro a' ha'
    cases ha : e.adapter with
    | none => rw [ad.none ha] at ha'; cases ha'
    | some a =>
      obtain ⟨a'', h1, h2, h3, _⟩ := ad.some a ha
      rw [h1] at ha'; cases ha'
      obtain ⟨q1, q2⟩ := hi.quiet a ha
      exact ⟨h2.trans q1, h3.trans q2⟩
  · unfold Enf.noPriority; rw [h.md]; exact hi.noPrio
  · unfold Enf.disjointTypes; rw [h.md]; exact hi.disj
  · unfold Enf.typeNamesOk; rw [h.md]; exact hi.names

theorem c10_stepG {e e' : Enf} (hi : Inv10 e) {pt : String} {s s' : Store} {rm rm' : RM} (h : StepG e e' pt s' rm')
    (hs : e.g.lookup pt = some s) (hr : e.rm.lookup pt = some rm)
    {count : Nat} {kind : RMKind} (hd : e.md.g.lookup pt = some (count, kind))
    (hg : Good count s') (hk : rm'.kind = rm.kind) {f : List Rule → List Rule} (ad : AdRel e e' pt f)
    (hpol : s'.policy = f s.policy) : Inv10 e' := by
  refine ⟨wf_stepG hi.wf h hs hr hd hg hk, ?_, ?_, ?_, ?_, ?_, ad.autoSave.trans hi.autoSave⟩
  · intro a' ha'
    cases ha : e.adapter with
    | none => rw [ad.none ha] at ha'; cases ha'
    | some a =>
      obtain ⟨a'', h1, _, _, hoth, hself, hty⟩ := ad.some a ha
      rw [h1] at ha'; cases ha'
      obtain ⟨sp, sg, st⟩ := hi.synced a ha
      refine ⟨?_, ?_, ?_⟩
      · intro x sx hx
        rw [h.p] at hx
        have hne : x ≠ pt := by
          intro hxe; subst hxe
          have h1 : x ∈ e.md.p.map (·.1) := hi.wf.1 ▸ mem_keys_of_lookup hx
          have h2 : x ∈ e.md.g.map (·.1) := hi.wf.2.1 ▸ mem_keys_of_lookup hs
          exact hi.disj x h1 h2
        rw [hoth x hne]; exact sp x sx hx
      · intro x sx hx
        rw [h.gl x] at hx
        split at hx
        · rename_i hxe; subst hxe; cases hx
          rw [hself, sg x s hs, hpol]
        · rename_i hxe
          rw [hoth x hxe]; exact sg x sx hx
      · intro l hl
        rcases hty l hl with hl1 | ⟨l0, hl0, hl1⟩
        · right
          rw [hl1, h.gl pt, if_pos rfl]; rfl
        · rw [← hl1]
          rcases st l0 hl0 with h0 | h0
          · left; rw [h.p]; exact h0
          · right; exact isSome_of_keys h.gk h0
  · intro a' ha'
    cases ha : e.adapter with
    | none => rw [ad.none ha] at ha'; cases ha'
    | some a =>
      obtain ⟨a'', h1, h2, h3, _⟩ := ad.some a ha
      rw [h1] at ha'; cases ha'
      obtain ⟨q1, q2⟩ := hi.quiet a ha
      exact ⟨h2.trans q1, h3.trans q2⟩
  · unfold Enf.noPriority; rw [h.md]; exact hi.noPrio
  · unfold Enf.disjointTypes; rw [h.md]; exact hi.disj
  · unfold Enf.typeNamesOk; rw [h.md]; exact hi.names

/-- the call changed the adapter only, in a way that leaves the rules of `pt` as they are -/
theorem c10_same {e e1 : Enf} (hi : Inv10 e) (sc : SameCore e e1) {sec pt : String} {n : Nat} {s : Store}
    (har : e.arity sec pt = some n) (hs : e.getStore sec pt = some s) {f : List Rule → List Rule}
    (ad : AdRel e e1 pt f) (hpol : s.policy = f s.policy) : Inv10 e1 := by
  rcases arity_cases har hs with ⟨rfl, hps, toks, ht, rfl⟩ | ⟨rfl, hgs, kind, hd⟩
  · exact c10_stepP hi (stepP_of_same sc hps) hps ht (wf_p_good hi.wf hps ht) ad hpol
  · obtain ⟨g0, _, rm, hrm, _⟩ := wf_g_info hi.wf hgs hd
    exact c10_stepG hi (stepG_of_same sc hgs hrm) hgs hrm hd g0 rfl ad hpol

theorem prio_none {e : Enf} (h : e.noPriority) (sec pt : String) : e.prioOf sec pt = none := by
  unfold Enf.prioOf
  split
  · cases hl : e.md.p.lookup pt with
    | none => rfl
    | some toks => exact h pt toks hl
  · rfl

theorem good_of {e : Enf} (hwf : e.WFState) {sec pt : String} {n : Nat} {s : Store}
    (har : e.arity sec pt = some n) (hs : e.getStore sec pt = some s) : Good n s := by
  rcases arity_cases har hs with ⟨rfl, hps, toks, ht, rfl⟩ | ⟨rfl, hgs, kind, hd⟩
  · exact wf_p_good hwf hps ht
  · exact (wf_g_info hwf hgs hd).1

end Casbin
