import CasbinVerif.Model.Loader
import CasbinVerif.Properties.C18
/-
  Helper lemmas for Properties/C10Text.lean: what `Csv.fields` / `Csv.lineTokens` read back from a
  saved line (possibly trimmed at the end), and what `Cfg.readLines` reads back from joined lines.
-/
namespace Casbin.C10TextP
open Casbin Casbin.Csv Casbin.Cfg

/-! ### plain fields -/

theorem plain_mem {f : List Char} (h : plainField f = true) :
    ∀ c ∈ f, c ≠ ',' ∧ c ≠ '"' ∧ c ≠ '\n' ∧ c ≠ '\r' := by
  intro c hc
  unfold plainField at h
  rw [Bool.and_eq_true] at h
  have := List.all_eq_true.1 h.1 c hc
  simp only [Bool.and_eq_true, bne_iff_ne, ne_eq] at this
  exact ⟨this.1.1.1, this.1.1.2, this.1.2, this.2⟩

theorem plain_head {c : Char} {f : List Char} (h : plainField (c :: f) = true) : isSpace c = false := by
  unfold plainField at h
  rw [Bool.and_eq_true] at h
  simpa using h.2

theorem plain_nil : plainField [] = true := by rfl

/-- `T` is a tail "`, f1, f2 …`" encoding `rule`, the blank after a comma being optional -/
inductive Enc : List Char → List (List Char) → Prop
  | nil : Enc [] []
  | sp {g T rule} : plainField g = true → Enc T rule → Enc (',' :: ' ' :: (g ++ T)) (g :: rule)
  | nosp {g T rule} : plainField g = true → Enc T rule → Enc (',' :: (g ++ T)) (g :: rule)

/-- `[]` or starting with a comma -/
def CommaHead (T : List Char) : Prop := T = [] ∨ ∃ T', T = ',' :: T'

theorem Enc.head {T rule} (h : Enc T rule) : CommaHead T := by
  cases h with
  | nil => exact Or.inl rfl
  | sp _ _ => exact Or.inr ⟨_, rfl⟩
  | nosp _ _ => exact Or.inr ⟨_, rfl⟩

theorem Enc.mem {T rule} (h : Enc T rule) : ∀ c ∈ T, c ≠ '\n' ∧ c ≠ '\r' := by
  induction h with
  | nil => intro c hc; cases hc
  | sp hg _ ih =>
    intro c hc
    simp only [List.mem_cons, List.mem_append] at hc
    rcases hc with rfl | rfl | hc | hc
    · decide
    · decide
    · exact ⟨(plain_mem hg c hc).2.2.1, (plain_mem hg c hc).2.2.2⟩
    · exact ih c hc
  | nosp hg _ ih =>
    intro c hc
    simp only [List.mem_cons, List.mem_append] at hc
    rcases hc with rfl | hc | hc
    · decide
    · exact ⟨(plain_mem hg c hc).2.2.1, (plain_mem hg c hc).2.2.2⟩
    · exact ih c hc

theorem Enc.len {T rule} (h : Enc T rule) : rule.length ≤ T.length := by
  induction h with
  | nil => exact Nat.le_refl _
  | sp _ _ ih => simp only [List.length_cons, List.length_append]; omega
  | nosp _ _ ih => simp only [List.length_cons, List.length_append]; omega

/-- the tail `saveLine` writes -/
def tailOf (rule : List (List Char)) : List Char := rule.flatMap (fun f => [',', ' '] ++ f)

theorem saveLine_eq (pt : List Char) (rule : List (List Char)) : saveLine pt rule = pt ++ tailOf rule := rfl

theorem tailOf_cons (f : List Char) (rule : List (List Char)) :
    tailOf (f :: rule) = ',' :: ' ' :: (f ++ tailOf rule) := by
  simp [tailOf, List.flatMap_cons]

theorem tailOf_append (r1 r2 : List (List Char)) : tailOf (r1 ++ r2) = tailOf r1 ++ tailOf r2 := by
  simp [tailOf, List.flatMap_append]

theorem Enc_tailOf : ∀ (rule : List (List Char)), rule.all plainField = true → Enc (tailOf rule) rule
  | [], _ => Enc.nil
  | f :: rule, h => by
    rw [List.all_cons, Bool.and_eq_true] at h
    rw [tailOf_cons]
    exact Enc.sp h.1 (Enc_tailOf rule h.2)

/-- dropping the blank of an empty last field -/
theorem Enc.snoc_empty {T rule} (h : Enc T rule) : Enc (T ++ [',']) (rule ++ [[]]) := by
  induction h with
  | nil => exact Enc.nosp (g := []) plain_nil Enc.nil
  | sp hg _ ih =>
    have := Enc.sp hg ih
    simpa [List.append_assoc] using this
  | nosp hg _ ih =>
    have := Enc.nosp hg ih
    simpa [List.append_assoc] using this

/-! ### `fields` on an encoded line -/

theorem dropWhile_space_plain {f T : List Char} (hf : plainField f = true) (hT : CommaHead T) :
    (f ++ T).dropWhile isSpace = f ++ T := by
  cases f with
  | nil =>
    rcases hT with rfl | ⟨T', rfl⟩
    · rfl
    · have : isSpace ',' = false := by decide
      simp [this]
  | cons c f =>
    have := plain_head hf
    simp [this]

theorem takeWhile_comma {f T : List Char} (hf : ∀ c ∈ f, c ≠ ',') (hT : CommaHead T) :
    (f ++ T).takeWhile (· != ',') = f := by
  induction f with
  | nil =>
    rcases hT with rfl | ⟨T', rfl⟩
    · rfl
    · simp
  | cons c f ih =>
    have hc : c ≠ ',' := hf c (List.mem_cons_self ..)
    have := ih (fun d hd => hf d (List.mem_cons_of_mem _ hd))
    simp [hc, this]

theorem dropWhile_comma {f T : List Char} (hf : ∀ c ∈ f, c ≠ ',') (hT : CommaHead T) :
    (f ++ T).dropWhile (· != ',') = T := by
  induction f with
  | nil =>
    rcases hT with rfl | ⟨T', rfl⟩
    · rfl
    · simp
  | cons c f ih =>
    have hc : c ≠ ',' := hf c (List.mem_cons_self ..)
    have := ih (fun d hd => hf d (List.mem_cons_of_mem _ hd))
    simp [hc, this]

theorem fields_step {f T : List Char} (n : Nat) (hf : plainField f = true) (hT : CommaHead T) :
    fields (f ++ T) (n + 1) =
      if f.contains '"' = true then Except.error Err.bareQuote
      else List.casesOn (motive := fun _ => Except Err (List (List Char))) T (.ok [f])
        (fun _ more => (fields more n).map (f :: ·)) := by
  have hnq : ∀ c ∈ f, c ≠ '"' := fun c hc => (plain_mem hf c hc).2.1
  have hnc : ∀ c ∈ f, c ≠ ',' := fun c hc => (plain_mem hf c hc).1
  rw [fields.eq_2, dropWhile_space_plain hf hT]
  split
  · rename_i rest heq
    exfalso
    cases f with
    | nil =>
      rcases hT with rfl | ⟨T', rfl⟩
      · cases heq
      · simp at heq
    | cons c f =>
      simp only [List.cons_append, List.cons.injEq] at heq
      exact hnq c (List.mem_cons_self ..) heq.1
  · simp only [takeWhile_comma hnc hT, dropWhile_comma hnc hT]
    cases T <;> rfl

theorem contains_quote_plain {f : List Char} (hf : plainField f = true) : f.contains '"' = false := by
  rw [Bool.eq_false_iff]
  intro h
  rw [List.contains_iff_mem] at h
  exact (plain_mem hf _ h).2.1 rfl

theorem fields_step_nil {f : List Char} (n : Nat) (hf : plainField f = true) :
    fields f (n + 1) = .ok [f] := by
  have := fields_step (T := []) n hf (Or.inl rfl)
  rw [List.append_nil] at this
  rw [this, contains_quote_plain hf]
  rfl

theorem fields_step_cons {f more : List Char} (n : Nat) (hf : plainField f = true) :
    fields (f ++ ',' :: more) (n + 1) = (fields more n).map (f :: ·) := by
  rw [fields_step n hf (Or.inr ⟨_, rfl⟩), contains_quote_plain hf]
  rfl

theorem fields_blank (s : List Char) (n : Nat) : fields (' ' :: s) (n + 1) = fields s (n + 1) := by
  have : isSpace ' ' = true := by decide
  rw [fields.eq_2, fields.eq_2, List.dropWhile_cons, this]
  rfl

theorem fields_enc {T rule} (h : Enc T rule) :
    ∀ (f : List Char) (n : Nat), plainField f = true → rule.length ≤ n →
      fields (f ++ T) (n + 1) = .ok (f :: rule) := by
  induction h with
  | nil =>
    intro f n hf _
    rw [List.append_nil, fields_step_nil n hf]
  | @sp g T rule hg hT ih =>
    intro f n hf hn
    rw [fields_step_cons n hf]
    obtain ⟨m, rfl⟩ : ∃ m, n = m + 1 := ⟨n - 1, by simp only [List.length_cons] at hn; omega⟩
    simp only [List.length_cons, Nat.add_le_add_iff_right] at hn
    show (fields (' ' :: (g ++ T)) (m + 1)).map (f :: ·) = _
    rw [fields_blank, ih g m hg hn]
    rfl
  | @nosp g T rule hg hT ih =>
    intro f n hf hn
    rw [fields_step_cons n hf]
    obtain ⟨m, rfl⟩ : ∃ m, n = m + 1 := ⟨n - 1, by simp only [List.length_cons] at hn; omega⟩
    simp only [List.length_cons, Nat.add_le_add_iff_right] at hn
    show (fields (g ++ T) (m + 1)).map (f :: ·) = _
    rw [ih g m hg hn]
    rfl

/-! ### `readRecord` / `lineTokens` -/

def stripCR (line : List Char) : List Char :=
  match line.reverse with
  | '\r' :: r => r.reverse
  | _ => line

def recOf (line : List Char) : Except Err (List (List Char)) :=
  match line with
  | [] => .error .eof
  | '#' :: _ => .error .eof
  | _ => fields line (line.length + 1)

theorem readRecord_eq (line : List Char) : readRecord line = recOf (stripCR line) := rfl

theorem stripCR_noCR (line : List Char) (h : '\r' ∉ line) : stripCR line = line := by
  unfold stripCR
  split
  · rename_i r heq
    exfalso
    apply h
    have : '\r' ∈ line.reverse := by rw [heq]; exact List.mem_cons_self ..
    exact List.mem_reverse.1 this
  · rfl

theorem recOf_cons (c : Char) (rest : List Char) (hc : c ≠ '#') :
    recOf (c :: rest) = fields (c :: rest) ((c :: rest).length + 1) := by
  unfold recOf
  split
  · rename_i heq; cases heq
  · rename_i heq
    simp only [List.cons.injEq] at heq
    exact absurd heq.1 hc
  · rfl

theorem readRecord_noCR (c : Char) (rest : List Char) (hc : c ≠ '#') (h : '\r' ∉ c :: rest) :
    readRecord (c :: rest) = fields (c :: rest) ((c :: rest).length + 1) := by
  rw [readRecord_eq, stripCR_noCR _ h, recOf_cons _ _ hc]

/-- a type name as the adapters write it (same as `C10Text.typeOk`) -/
def typeOk (pt : List Char) : Bool := plainField pt && !pt.isEmpty && pt.head? != some '#'

theorem lineTokens_enc {pt T : List Char} {rule : List (List Char)}
    (hpt : typeOk pt = true) (h : Enc T rule) :
    lineTokens (pt ++ T) = some (.ok (pt :: rule)) := by
  unfold typeOk at hpt
  simp only [Bool.and_eq_true] at hpt
  obtain ⟨⟨hp, hne⟩, hh⟩ := hpt
  cases pt with
  | nil => simp at hne
  | cons c pt =>
    have hc : c ≠ '#' := by
      intro hc
      subst hc
      simp at hh
    have hcr : '\r' ∉ (c :: pt) ++ T := by
      intro hm
      rcases List.mem_append.1 hm with hm | hm
      · exact (plain_mem hp _ hm).2.2.2 rfl
      · exact (h.mem _ hm).2 rfl
    have hf := fields_enc h (c :: pt) ((c :: pt) ++ T).length hp (by
      have := h.len
      simp only [List.length_append]; omega)
    have hlt : lineTokens (c :: (pt ++ T)) = some (readRecord (c :: (pt ++ T))) := by
      unfold lineTokens
      split
      · rename_i heq; cases heq
      · rename_i heq
        simp only [List.cons.injEq] at heq
        exact absurd heq.1 hc
      · rfl
    rw [List.cons_append] at hf hcr ⊢
    rw [hlt, readRecord_noCR _ _ hc hcr, hf]

/-! ### trimming a saved line -/

theorem trimLeft_plain {c : Char} {s : List Char} (h : isSpace c = false) : trimLeft (c :: s) = c :: s := by
  simp [trimLeft, h]

theorem trimRight_clean (s : List Char) (c : Char) (h : isSpace c = false) : trimRight (s ++ [c]) = s ++ [c] := by
  simp [trimRight, h]

theorem trimRight_comma_blank (s : List Char) : trimRight (s ++ [',', ' ']) = s ++ [','] := by
  have h1 : isSpace ' ' = true := by decide
  have h2 : isSpace ',' = false := by decide
  simp [trimRight, h1, h2]

def endsClean (f : List Char) : Bool :=
  match f.getLast? with
  | some c => !isSpace c
  | none => true

theorem endsClean_snoc {s : List Char} {c : Char} (h : endsClean (s ++ [c]) = true) : isSpace c = false := by
  unfold endsClean at h
  simpa using h

theorem trimRight_of_endsClean_append (a f : List Char) (hf : f ≠ []) (h : endsClean f = true) :
    trimRight (a ++ f) = a ++ f := by
  obtain ⟨s, c, rfl⟩ : ∃ s c, f = s ++ [c] := by
    refine ⟨f.dropLast, f.getLast hf, ?_⟩
    exact (List.dropLast_concat_getLast hf).symm
  rw [← List.append_assoc]
  exact trimRight_clean _ _ (endsClean_snoc h)

/-- the trimmed saved line is the type followed by an encoding of the rule -/
theorem trim_saveLine (pt : List Char) (rule : List (List Char))
    (hpt : typeOk pt = true) (h : rule.all plainField = true)
    (hlast : endsClean ((pt :: rule).getLast?.getD []) = true) :
    ∃ T, trim (saveLine pt rule) = pt ++ T ∧ Enc T rule := by
  have hpt' := hpt
  unfold typeOk at hpt'
  simp only [Bool.and_eq_true] at hpt'
  obtain ⟨⟨hp, hne⟩, _⟩ := hpt'
  obtain ⟨c, pt', rfl⟩ : ∃ c pt', pt = c :: pt' := by
    cases pt with
    | nil => simp at hne
    | cons c pt' => exact ⟨c, pt', rfl⟩
  have hl : trimLeft (saveLine (c :: pt') rule) = saveLine (c :: pt') rule := by
    rw [saveLine_eq, List.cons_append]
    exact trimLeft_plain (plain_head hp)
  unfold trim
  rw [hl, saveLine_eq]
  rcases List.eq_nil_or_concat rule with rfl | ⟨init, f, rfl⟩
  · refine ⟨[], ?_, Enc.nil⟩
    simp only [List.getLast?_singleton, Option.getD_some] at hlast
    show trimRight ((c :: pt') ++ []) = _
    rw [List.append_nil]
    have := trimRight_of_endsClean_append [] (c :: pt') (by simp) hlast
    simpa using this
  · rw [List.concat_eq_append] at h hlast ⊢
    have hlast' : endsClean f = true := by
      have : ((c :: pt') :: (init ++ [f])).getLast? = some f := by
        rw [← List.cons_append, List.getLast?_append]
        simp
      rw [this] at hlast
      exact hlast
    have hinit : init.all plainField = true := by
      rw [List.all_append, Bool.and_eq_true] at h
      exact h.1
    cases f with
    | nil =>
      refine ⟨tailOf init ++ [','], ?_, (Enc_tailOf init hinit).snoc_empty⟩
      have : tailOf (init ++ [[]]) = tailOf init ++ [',', ' '] := by
        rw [tailOf_append]; rfl
      rw [this, ← List.append_assoc, trimRight_comma_blank, List.append_assoc]
    | cons d f' =>
      refine ⟨tailOf (init ++ [d :: f']), ?_, Enc_tailOf _ h⟩
      have : tailOf (init ++ [d :: f']) = (tailOf init ++ [',', ' ']) ++ (d :: f') := by
        rw [tailOf_append]
        simp [tailOf]
      rw [this, ← List.append_assoc]
      exact trimRight_of_endsClean_append _ _ (by simp) hlast'

/-! ### joined lines read back -/

theorem foldl_join (a : List Char) (ls : List (List Char)) :
    ls.foldl (fun acc x => acc ++ '\n' :: x) a = a ++ ls.flatMap (fun x => '\n' :: x) := by
  induction ls generalizing a with
  | nil => simp
  | cons l ls ih =>
    rw [List.foldl_cons, ih, List.flatMap_cons, List.append_assoc]

theorem splitLines_ne_nil (s : List Char) : splitLines s ≠ [] := by
  cases s with
  | nil => simp [splitLines]
  | cons c cs =>
    unfold splitLines
    split
    · simp
    · split <;> simp

theorem splitLines_cons (c : Char) (cs : List Char) :
    splitLines (c :: cs) =
      if c == '\n' then [] :: splitLines cs
      else (c :: (splitLines cs).headD []) :: (splitLines cs).tail := by
  have hne := splitLines_ne_nil cs
  rw [splitLines]
  generalize splitLines cs = x at hne ⊢
  cases x with
  | nil => exact absurd rfl hne
  | cons h t => simp

theorem splitLines_noNL (l : List Char) (h : '\n' ∉ l) : splitLines l = [l] := by
  induction l with
  | nil => rfl
  | cons c l ih =>
    have hc : (c == '\n') = false := by
      rw [beq_eq_false_iff_ne]
      intro hc; exact h (hc ▸ List.mem_cons_self ..)
    have := ih (fun hm => h (List.mem_cons_of_mem _ hm))
    rw [splitLines_cons]
    simp [hc, this]

theorem splitLines_append (l rest : List Char) (h : '\n' ∉ l) :
    splitLines (l ++ '\n' :: rest) = l :: splitLines rest := by
  induction l with
  | nil =>
    rw [List.nil_append, splitLines_cons]
    simp
  | cons c l ih =>
    have hc : (c == '\n') = false := by
      rw [beq_eq_false_iff_ne]
      intro hc; exact h (hc ▸ List.mem_cons_self ..)
    have := ih (fun hm => h (List.mem_cons_of_mem _ hm))
    rw [List.cons_append, splitLines_cons]
    simp [hc, this]

theorem splitLines_join (l : List Char) (ls : List (List Char)) (h : ∀ x ∈ l :: ls, '\n' ∉ x) :
    splitLines (l ++ ls.flatMap (fun x => '\n' :: x)) = l :: ls := by
  induction ls generalizing l with
  | nil =>
    rw [List.flatMap_nil, List.append_nil]
    exact splitLines_noNL l (h l (List.mem_cons_self ..))
  | cons m ls ih =>
    rw [List.flatMap_cons, List.cons_append, splitLines_append _ _ (h l (List.mem_cons_self ..))]
    rw [ih m (fun x hx => h x (List.mem_cons_of_mem _ hx))]

theorem readLines_of_split (text l : List Char) (ls : List (List Char))
    (hs : splitLines text = l :: ls) (hne : ∀ x ∈ l :: ls, x ≠ []) : readLines text = l :: ls := by
  unfold readLines
  simp only [hs]
  split
  · rename_i rest heq
    exfalso
    have : [] ∈ (l :: ls).reverse := by rw [heq]; exact List.mem_cons_self ..
    exact hne [] (List.mem_reverse.1 this) rfl
  · rfl

/-! ### the whole file -/

/-- a saved line is never empty and holds no line break -/
theorem saveLine_ok (pt : List Char) (rule : List (List Char))
    (hpt : typeOk pt = true) (hr : rule.all plainField = true) :
    saveLine pt rule ≠ [] ∧ '\n' ∉ saveLine pt rule := by
  unfold typeOk at hpt
  simp only [Bool.and_eq_true] at hpt
  obtain ⟨⟨hp, hne⟩, _⟩ := hpt
  rw [saveLine_eq]
  constructor
  · intro h0
    have : pt = [] := (List.append_eq_nil_iff.1 h0).1
    simp [this] at hne
  · intro hm
    rcases List.mem_append.1 hm with hm | hm
    · exact (plain_mem hp _ hm).2.2.1 rfl
    · exact ((Enc_tailOf _ hr).mem _ hm).1 rfl

/-- line by line: if every listed entry's line loads as the entry, the file adapter's loop is
    `C18.loadEntries` -/
theorem loadFileLines_entries (md : ModelDef) (sl : String × Rule → List Char) (ok : String × Rule → Bool)
    (hsl : ∀ (st : Stores) (e : String × Rule), ok e = true →
      loadPolicyLine md st (trim (sl e)) = Enf.loadLine md st.1 st.2 e.1 e.2)
    (st : Stores) (es : List (String × Rule)) (h : es.all ok = true) :
    loadFileLines md st ((es.map sl).map trim) = C18.loadEntries md st es := by
  induction es generalizing st with
  | nil => rfl
  | cons e es ih =>
    rw [List.all_cons, Bool.and_eq_true] at h
    obtain ⟨pt, r⟩ := e
    simp only [List.map_cons, loadFileLines, C18.loadEntries]
    rw [hsl st (pt, r) h.1]
    cases Enf.loadLine md st.1 st.2 pt r with
    | none => rfl
    | some x => exact ih x h.2

end Casbin.C10TextP
